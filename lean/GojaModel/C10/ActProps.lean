/-
  C10 — AsyncContextTracker protocol: theorems (every `theorem` here is an audited obligation; this module is listed in
  run/c10.py next to GojaModel.C10.Props).
-/
import GojaModel.C10.Act

namespace GojaModel.C10

theorem bracketFrom_snoc : ∀ (l : List TEv) (s : Option Nat) (e : TEv),
    bracketFrom s (l ++ [e]) = (bracketFrom s l).bind (fun s' => bracketFrom s' [e]) := by
  intro l
  induction l with
  | nil => intro s e; simp [bracketFrom]
  | cons x xs ih =>
    intro s e
    cases x <;> cases s <;> simp [bracketFrom, ih]

/-- Invariant: the log is well bracketed and its bracket state is the machine's `cur`. -/
theorem act_bracket_inv {a : AK} (h : AReach a) : bracket a.log = some a.cur := by
  induction h with
  | init => rfl
  | @step o a0 _ ih =>
    unfold bracket at ih ⊢
    cases o with
    | body b =>
      simp only [applyA]
      split
      · exact ih
      · simp only []
        rw [bracketFrom_snoc, ih]
        cases a0.cur <;> rfl
    | startJob =>
      simp only [applyA]
      split
      · exact ih
      · rename_i hc
        split
        · exact ih
        · split
          · exact ih
          · simp only []
            rw [bracketFrom_snoc, ih, hc]
            rfl
    | endHandler =>
      simp only [applyA]
      split
      · exact ih
      · rename_i c hc
        simp only []
        rw [bracketFrom_snoc, ih, hc]
        rfl
    | abrupt =>
      simp only [applyA]
      split
      · exact ih
      · rename_i c hc
        simp only []
        rw [bracketFrom_snoc, ih, hc]
        rfl

/-- "The Resumed/Exited calls cannot be nested" (func.go:43-44), for every program: in every reachable state the
tracker's log is well bracketed — Resumed only when closed, Exited only when open, strictly alternating; an open
Resumed is closed by Exited or abandoned by an interrupt, never followed by another Resumed. -/
theorem act_resumed_exited_never_nested {a : AK} (h : AReach a) : (bracket a.log).isSome = true := by
  rw [act_bracket_inv h]; rfl

/-- Outside a handler the log is closed: when control is back in the scheduler (`cur = none`) every Resumed has had
its Exited (or was abandoned by an interrupt). -/
theorem act_closed_between_jobs {a : AK} (h : AReach a) (hc : a.cur = none) : bracket a.log = some none := by
  rw [act_bracket_inv h, hc]

/-- Grab (builtin_promise.go:154-158): an attachment logs one Grab of a fresh context and stores that context for the
new reaction pair (both reactions share it). -/
theorem act_attach_grabs_once (a : AK) (o : BOp) (hatt : (applyOp o.toK a.k).nextRid ≠ a.k.nextRid) :
    (applyA (.body o) a).log = a.log ++ [.grab a.next] ∧
    lookupCtx (applyA (.body o) a).ctxOf a.k.nextRid = some a.next ∧
    (applyA (.body o) a).next = a.next + 1 := by
  simp only [applyA, hatt, if_false]
  simp [lookupCtx]

/-- …and an op that attaches nothing calls the tracker not at all. -/
theorem act_no_attach_no_grab (a : AK) (o : BOp) (hatt : (applyOp o.toK a.k).nextRid = a.k.nextRid) :
    (applyA (.body o) a).log = a.log := by
  simp only [applyA, hatt, if_true]

/-- `_partial` (the documented contract "for each Grab exactly one subsequent Resumed and then Exited" restricted to
what the code does): a started reaction job WITH a handler is bracketed by Resumed(ctx stored at its attachment) and,
when the handler completes without an uncatchable error, Exited.  What is missing: reaction jobs whose selected
reaction has no handler (pass-through) call neither — see `act_contract_witness`. -/
theorem act_handler_job_resumed_then_exited_partial (a : AK) (sid owner : Nat) (r : Reaction) (arg : Val) (h : Fn)
    (rest : List Job) (hcur : a.cur = none) (hj : a.k.jobs = .reaction sid owner r arg :: rest)
    (hh : r.handler = some h) :
    (applyA .startJob a).log = a.log ++ [.resumed ((lookupCtx a.ctxOf r.rid).getD 0)] ∧
    (applyA .endHandler (applyA .startJob a)).log =
      a.log ++ [.resumed ((lookupCtx a.ctxOf r.rid).getD 0), .exited] ∧
    (applyA .endHandler (applyA .startJob a)).cur = none := by
  have h1 : applyA .startJob a =
      { a with k := popJob a.k, log := a.log ++ [.resumed ((lookupCtx a.ctxOf r.rid).getD 0)],
               cur := some ((lookupCtx a.ctxOf r.rid).getD 0) } := by
    simp only [applyA, hcur, hj, Job.resumeCtx?, hh]
  rw [h1]
  refine ⟨rfl, ?_, ?_⟩ <;> simp [applyA]

/-- A pass-through reaction job (selected reaction without handler, builtin_promise.go:203-207) and a thenable job
run without any tracker call. -/
theorem act_passthrough_job_silent (a : AK) (sid owner : Nat) (r : Reaction) (arg : Val) (rest : List Job)
    (hcur : a.cur = none) (hj : a.k.jobs = .reaction sid owner r arg :: rest) (hh : r.handler = none) :
    (applyA .startJob a).log = a.log ∧ (applyA .startJob a).cur = none := by
  simp [applyA, hcur, hj, Job.resumeCtx?, hh]

/-- The documented contract (func.go:41-43) "for each invocation of the Grab method there will be exactly one
subsequent invocation of Resumed and then Exited (assuming the Promise is fulfilled or rejected)" does NOT hold for
the code: `Promise.resolve(1).catch(f)` — the promise is fulfilled, the reaction job runs (pass-through, the fulfil
reaction of `catch` has no handler), the queue is empty, and the context grabbed at the attachment is never resumed.
Reproduced against goja: tracker log `[Grab]` only (known finding c10:act:passthrough-reaction-never-resumed). -/
theorem act_contract_witness :
    let a := applyAs [.body .newCap, .body (.callResolve 0 (.num 1) .notCallable),   -- Promise.resolve(1)
                      .body .newCap, .body (.addReactions 0 (some ⟨1, .resolve 1, .reject 1⟩) none (some (.user 0))),
                      .startJob, .endHandler] {}                                       -- drain
    (a.k.getP 0).state = .fulfilled ∧ a.k.jobs.length = 0 ∧ a.k.ran.length = 1 ∧
    a.log = [.grab 0] ∧ ¬ (TEv.resumed 0 ∈ a.log) := by
  decide

end GojaModel.C10
