/-
  C10: HostPromiseRejectionTracker protocol as an invariant of the kernel.
-/
import GojaModel.C10.LemmasS

namespace GojaModel.C10

/-- What the tracker has been told about promise `p`, in order. -/
def trkL (t : List (Nat × TrackOp)) (p : Nat) : List TrackOp := (t.filter (fun e => e.1 == p)).map (·.2)

theorem trkL_append (t : List (Nat × TrackOp)) (q : Nat) (op : TrackOp) (p : Nat) :
    trkL (t ++ [(q, op)]) p = trkL t p ++ (if q = p then [op] else []) := by
  unfold trkL
  by_cases e : q = p <;> simp [List.filter_append, e]

def TrOk (st : PState) (handled : Bool) (t : List TrackOp) : Prop :=
  (st ≠ .rejected → t = []) ∧
  (st = .rejected → handled = false → t = [.reject]) ∧
  (st = .rejected → handled = true → t = [] ∨ t = [.reject, .handle])

structure TrInv (k : K) : Prop where
  wf : ∀ e ∈ k.tracker, e.1 < k.proms.length
  ok : ∀ p, TrOk (k.getP p).state (k.getP p).handled (trkL k.tracker p)

theorem trkL_nil_of_ge {k : K} (h : TrInv k) (p : Nat) (hp : k.proms.length ≤ p) : trkL k.tracker p = [] := by
  unfold trkL
  rw [List.map_eq_nil_iff, List.filter_eq_nil_iff]
  intro e he
  have := h.wf e he
  simp; omega

theorem trinv_congr {k k' : K} (h : TrInv k) (ht : k'.tracker = k.tracker) (hp : k'.proms = k.proms) : TrInv k' := by
  constructor
  · rw [ht, hp]; exact h.wf
  · intro p; rw [ht, getP_of_proms_eq hp]; exact h.ok p

theorem rejectP_tracker (k : K) (p : Nat) (v : Val) :
    (rejectP k p v).tracker = if (k.getP p).handled = true then k.tracker else k.tracker ++ [(p, .reject)] := by
  unfold rejectP
  simp only []
  rw [(trigger_frame _ _ _ _).2.2.2]
  split <;> simp [K.setP, track]

theorem fulfillP_tracker (k : K) (p : Nat) (v : Val) : (fulfillP k p v).tracker = k.tracker := by
  unfold fulfillP
  simp only []
  rw [(trigger_frame _ _ _ _).2.2.2]
  simp [K.setP]

theorem trinv_rejectP {k : K} (h : TrInv k) (p : Nat) (v : Val) (hp : (k.getP p).state = .pending)
    (hlt : p < k.proms.length) : TrInv (rejectP k p v) := by
  have hpr := (rejectP_frame k p v).1
  have htr := rejectP_tracker k p v
  have hlen : (rejectP k p v).proms.length = k.proms.length := by rw [hpr]; simp
  have hp0 : trkL k.tracker p = [] := (h.ok p).1 (by rw [hp]; simp)
  constructor
  · intro e he
    rw [hlen]
    rw [htr] at he
    split at he
    · exact h.wf e he
    · rw [List.mem_append] at he
      rcases he with he | he
      · exact h.wf e he
      · simp at he; subst he; exact hlt
  · intro q
    rw [getP_of_proms_set k _ p q _ hpr, htr]
    by_cases e : q = p
    · subst e
      simp only [hlt, and_self, if_true]
      cases hh : (k.getP q).handled with
      | true =>
        simp only [if_true]
        refine ⟨fun x => absurd rfl x, fun _ x => by simp at x, fun _ _ => Or.inl hp0⟩
      | false =>
        simp only [Bool.false_eq_true, if_false]
        rw [trkL_append, hp0]
        refine ⟨fun x => absurd rfl x, fun _ _ => by simp, fun _ x => by simp at x⟩
    · simp only [e, false_and, if_false]
      have hq := h.ok q
      split
      · exact hq
      · rw [trkL_append]
        have : ¬ (p = q) := fun x => e x.symm
        simp only [this, if_false, List.append_nil]
        exact hq

theorem trinv_fulfillP {k : K} (h : TrInv k) (p : Nat) (v : Val) (hp : (k.getP p).state = .pending)
    (hlt : p < k.proms.length) : TrInv (fulfillP k p v) := by
  have hpr := (fulfillP_frame k p v).1
  have htr := fulfillP_tracker k p v
  have hlen : (fulfillP k p v).proms.length = k.proms.length := by rw [hpr]; simp
  have hp0 : trkL k.tracker p = [] := (h.ok p).1 (by rw [hp]; simp)
  constructor
  · intro e he; rw [hlen]; rw [htr] at he; exact h.wf e he
  · intro q
    rw [getP_of_proms_set k _ p q _ hpr, htr]
    by_cases e : q = p
    · subst e
      simp only [hlt, and_self, if_true]
      exact ⟨fun _ => hp0, fun x => by simp at x, fun x => by simp at x⟩
    · simp only [e, false_and, if_false]
      exact h.ok q

theorem addReactionsCore_tracker (k : K) (p : Nat) (fr rr : Reaction) :
    (addReactionsCore k p fr rr).tracker =
      if (k.getP p).state = .rejected ∧ (k.getP p).handled = false then k.tracker ++ [(p, .handle)] else k.tracker := by
  unfold addReactionsCore
  simp only []
  split
  · rename_i hs; simp [hs, K.setP]
  · rename_i hs; simp [hs, enqueue]
  · rename_i hs
    cases hh : (k.getP p).handled <;> simp [hs, enqueue, track]

theorem trinv_addReactions {k : K} (h : TrInv k) (p : Nat) (cap : Option Cap) (f g : Option Fn) :
    TrInv (addReactions k p cap f g) := by
  unfold addReactions
  split
  · rename_i hlt
    simp only []
    have hk1 : TrInv { k with nextRid := k.nextRid + 1 } := trinv_congr h rfl rfl
    generalize hk1e : ({ k with nextRid := k.nextRid + 1 } : K) = k1 at hk1
    have hlen1 : k1.proms.length = k.proms.length := by rw [← hk1e]
    generalize hfr : ({ cap := cap, isFul := true, handler := f, rid := k.nextRid } : Reaction) = fr
    generalize hrr : ({ cap := cap, isFul := false, handler := g, rid := k.nextRid } : Reaction) = rr
    have hc := addReactionsCore_getP k1 p fr rr
    have hct := addReactionsCore_tracker k1 p fr rr
    have hclen := (addReactionsCore_frame k1 p fr rr).2.2.1
    generalize addReactionsCore k1 p fr rr = k2 at hc hct hclen
    have hm := markHandled_getP k2 p k.nextRid
    have hmt : (markHandled k2 p k.nextRid).tracker = k2.tracker := rfl
    have hmlen := (markHandled_frame k2 p k.nextRid).2.2.1
    constructor
    · intro e he
      rw [hmlen, hclen]
      rw [hmt, hct] at he
      split at he
      · rw [List.mem_append] at he
        rcases he with he | he
        · exact hk1.wf e he
        · simp at he; subst he; rw [hlen1]; exact hlt
      · exact hk1.wf e he
    · intro q
      obtain ⟨m1, _, m3⟩ := hm q
      obtain ⟨c1, _, c3⟩ := hc q
      rw [m1, m3, c1, c3, hmt, hct]
      have hq := hk1.ok q
      by_cases e : q = p
      · subst e
        have : q < k2.proms.length := by rw [hclen, hlen1]; exact hlt
        simp only [this, and_self, if_true]
        split
        · rename_i hh
          rw [trkL_append]
          simp only [if_true]
          have := hq.2.1 hh.1 hh.2
          rw [this]
          exact ⟨fun x => absurd hh.1 x, fun _ x => by simp at x, fun _ _ => Or.inr rfl⟩
        · rename_i hh
          refine ⟨hq.1, fun _ x => by simp at x, fun hs _ => ?_⟩
          cases hd : (k1.getP q).handled with
          | true => exact hq.2.2 hs hd
          | false => exact absurd ⟨hs, hd⟩ hh
      · simp only [e, false_and, if_false]
        split
        · rw [trkL_append]
          have : ¬ (p = q) := fun x => e x.symm
          simp only [this, if_false, List.append_nil]
          exact hq
        · exact hq
  · exact h

theorem trinv_newCap {k : K} (h : TrInv k) : TrInv (newCap k) := by
  constructor
  · intro e he
    have := h.wf e he
    simp only [newCap, createResolvingFunctions, newPromise, List.length_append, List.length_cons, List.length_nil]
    omega
  · intro q
    have ht : (newCap k).tracker = k.tracker := rfl
    rw [ht]
    by_cases e : q < k.proms.length
    · rw [getP_newCap_lt k q e]; exact h.ok q
    · have h0 := trkL_nil_of_ge h q (by omega)
      rw [h0]
      have hs : ((newCap k).getP q).state = .pending := by
        unfold K.getP newCap createResolvingFunctions newPromise
        simp only [List.getD_eq_getElem?_getD]
        by_cases e2 : q = k.proms.length
        · subst e2; simp
        · have : k.proms.length + 1 ≤ q := by omega
          rw [List.getElem?_eq_none (by simpa using this)]
          rfl
      rw [hs]
      exact ⟨fun _ => rfl, fun x => by simp at x, fun x => by simp at x⟩

theorem trinv_applyOp {k : K} (ht : TInv k) (h : TrInv k) (op : KOp) : TrInv (applyOp op k) := by
  cases op with
  | newCap => exact trinv_newCap h
  | callResolve l v look =>
    simp only [applyOp, callResolve]
    split
    · exact h
    · rename_i q already hl
      cases already with
      | true => exact h
      | false =>
        simp only [Bool.false_eq_true, if_false]
        obtain ⟨hq, hlt⟩ := pending_of_unlatched ht hl
        have h' : TrInv { k with latches := k.latches.set l (q, true) } := trinv_congr h rfl rfl
        split
        · exact trinv_rejectP h' q _ hq hlt
        · split
          · exact trinv_rejectP h' q _ hq hlt
          · exact trinv_congr h' rfl rfl
          · exact trinv_fulfillP h' q _ hq hlt
  | callReject l v =>
    simp only [applyOp, callReject]
    split
    · exact h
    · rename_i q already hl
      cases already with
      | true => exact h
      | false =>
        simp only [Bool.false_eq_true, if_false]
        obtain ⟨hq, hlt⟩ := pending_of_unlatched ht hl
        have h' : TrInv { k with latches := k.latches.set l (q, true) } := trinv_congr h rfl rfl
        exact trinv_rejectP h' q _ hq hlt
  | addReactions p cap f g =>
    simp only [applyOp]
    split
    · exact trinv_addReactions h p cap f g
    · exact h
  | popJob =>
    simp only [applyOp, popJob]
    split
    · exact h
    · exact trinv_congr h (popJobQ_tracker k) (popJobQ_proms k)
  | asyncStart => exact trinv_congr h rfl rfl
  | await ar p =>
    simp only [applyOp, awaitOp]
    split
    · exact trinv_congr (trinv_addReactions h p none _ _) rfl rfl
    · exact h
  | asyncDone ar =>
    simp only [applyOp, asyncDone]
    split
    · exact trinv_congr h rfl rfl
    · exact h
  | leaveAbrupt => exact trinv_congr h rfl rfl

theorem trinv_reach {k : K} (h : Reach k) : TrInv k := by
  induction h with
  | init =>
    constructor
    · intro e he; simp at he
    · intro p
      have : ({} : K).getP p = {} := getP_default _ _ (by simp)
      rw [this]
      exact ⟨fun _ => rfl, fun x => by simp at x, fun x => by simp at x⟩
  | step op hr ih => exact trinv_applyOp (tinv_reach hr) ih op

end GojaModel.C10
