/-
  C10 — AsyncContextTracker protocol (func.go:37-53): Grab in Promise.addReactions (builtin_promise.go:154-158),
  Resumed / Exited around the handler call in newPromiseReactionJob (:209-221).

  An EXTENSION of the kernel of Model.lean (which is not touched): the tracker's call log, the context stored in each
  reaction pair (`promiseReaction.asyncCtx`), and the bracket state.  `AReach` = reachable by any sequence of the four
  extended ops with any parameters, so the theorems of ActProps.lean hold for every program.
-/
import GojaModel.C10.Model

namespace GojaModel.C10

/-- Calls seen by the AsyncContextTracker; `interrupt` is not a tracker call: it marks that an uncatchable error left
the handler (Exited is skipped: it is not deferred in newPromiseReactionJob). -/
inductive TEv | grab (c : Nat) | resumed (c : Nat) | exited | interrupt
  deriving DecidableEq, Repr, Inhabited

structure AK where
  k : K := {}
  log : List TEv := []
  next : Nat := 0                    -- the tracker hands out fresh contexts 0, 1, 2, …
  ctxOf : List (Nat × Nat) := []     -- attachment id (rid) ↦ asyncCtx of that reaction pair
  cur : Option Nat := none           -- `some c` between Resumed(c) and Exited
  deriving Inhabited

def lookupCtx (l : List (Nat × Nat)) (rid : Nat) : Option Nat :=
  match l with
  | [] => none
  | (r, c) :: rest => if r == rid then some c else lookupCtx rest rid

/-- The context a started job resumes: reaction job with a handler (builtin_promise.go:203 `reaction.handler == nil`
skips the tracker). -/
def Job.resumeCtx? (ctxOf : List (Nat × Nat)) : Job → Option Nat
  | .reaction _ _ r _ =>
    match r.handler with
    | none => none
    | some _ => some ((lookupCtx ctxOf r.rid).getD 0)
  | .thenable _ _ _ _ => none

inductive AOp
  | body (o : BOp)      -- code inside an outermost call or a job (may attach reactions: Grab)
  | startJob            -- the scheduler starts the oldest job; Resumed if it is a reaction job with a handler
  | endHandler          -- the handler returned or threw a catchable exception: Exited
  | abrupt              -- an uncatchable error unwinds to the outermost call: leaveAbrupt, no Exited
  deriving Inhabited

def applyA : AOp → AK → AK
  | .body o, a =>
    let k' := applyOp o.toK a.k
    if k'.nextRid = a.k.nextRid then { a with k := k' }
    else                                                     -- an attachment happened: tracker.Grab() (:155)
      { a with k := k', log := a.log ++ [.grab a.next], ctxOf := (a.k.nextRid, a.next) :: a.ctxOf, next := a.next + 1 }
  | .startJob, a =>
    match a.cur with
    | some _ => a                                            -- jobs do not nest (leave() runs them one after the other)
    | none =>
      match a.k.jobs with
      | [] => a
      | j :: _ =>
        match j.resumeCtx? a.ctxOf with
        | none => { a with k := popJob a.k }
        | some c => { a with k := popJob a.k, log := a.log ++ [.resumed c], cur := some c }     -- :210
  | .endHandler, a =>
    match a.cur with
    | none => a
    | some _ => { a with log := a.log ++ [.exited], cur := none }                                -- :220
  | .abrupt, a =>
    match a.cur with
    | none => { a with k := leaveAbrupt a.k }
    | some _ => { a with k := leaveAbrupt a.k, log := a.log ++ [.interrupt], cur := none }

inductive AReach : AK → Prop
  | init : AReach {}
  | step (o : AOp) {a : AK} : AReach a → AReach (applyA o a)

def applyAs (ops : List AOp) (a : AK) : AK := ops.foldl (fun a o => applyA o a) a

/-- Bracket state of a log read from state `s`: `some none` = closed, `some (some c)` = inside Resumed(c),
`none` = ill-formed (Resumed while open, or Exited / interrupt while closed). -/
def bracketFrom : Option Nat → List TEv → Option (Option Nat)
  | s, [] => some s
  | s, .grab _ :: rest => bracketFrom s rest
  | none, .resumed c :: rest => bracketFrom (some c) rest
  | some _, .resumed _ :: _ => none
  | some _, .exited :: rest => bracketFrom none rest
  | none, .exited :: _ => none
  | some _, .interrupt :: rest => bracketFrom none rest
  | none, .interrupt :: _ => none

def bracket (l : List TEv) : Option (Option Nat) := bracketFrom none l

end GojaModel.C10
