/-
  C10 invariant I2 (token invariant): per promise at most one live way to settle it
  (an unlatched pair of resolving functions, or a queued thenable job that will create one),
  none once it is settled.  Consequence: settle_once.
-/
import GojaModel.C10.Lemmas

namespace GojaModel.C10

def Job.thenP? : Job → Option Nat
  | .thenable _ p _ _ => some p
  | .reaction _ _ _ _ => none

/-- Promises for which a thenable job is pending, oldest first. -/
def thenJobs (k : K) : List Nat := k.jobs.filterMap Job.thenP?

def latchLive (p : Nat) (l : Nat × Bool) : Bool := l.1 == p && !l.2

/-- Number of live ways to settle `p`. -/
def live (k : K) (p : Nat) : Nat := k.latches.countP (latchLive p) + (thenJobs k).count p

structure TInv (k : K) : Prop where
  wfL : ∀ l ∈ k.latches, l.1 < k.proms.length
  wfJ : ∀ p ∈ thenJobs k, p < k.proms.length
  tok : ∀ p, live k p ≤ 1
  settled : ∀ p, (k.getP p).state ≠ .pending → live k p = 0

/-! ### frame lemmas -/

theorem getP_setP (k : K) (p q : Nat) (r : PRec) :
    (k.setP p r).getP q = if q = p ∧ p < k.proms.length then r else k.getP q := by
  unfold K.getP K.setP
  simp only [List.getD_eq_getElem?_getD, List.getElem?_set]
  by_cases h : p = q
  · subst h
    by_cases h2 : p < k.proms.length <;> simp [h2]
  · have : ¬ (q = p) := fun e => h e.symm
    simp [h, this]

theorem getP_default (k : K) (p : Nat) (h : k.proms.length ≤ p) : k.getP p = {} := by
  unfold K.getP
  simp [List.getD_eq_getElem?_getD, List.getElem?_eq_none h]

theorem trigJobs_thenP (owner : Nat) (arg : Val) : ∀ (rs : List Reaction) (sid : Nat),
    (trigJobs sid owner rs arg).filterMap Job.thenP? = [] := by
  intro rs
  induction rs with
  | nil => intro sid; simp [trigJobs]
  | cons r rs ih => intro sid; simp only [trigJobs, List.filterMap_cons, Job.thenP?]; exact ih _

theorem trigger_frame (k : K) (owner : Nat) (rs : List Reaction) (arg : Val) :
    (trigger k owner rs arg).proms = k.proms ∧ (trigger k owner rs arg).latches = k.latches ∧
    thenJobs (trigger k owner rs arg) = thenJobs k ∧ (trigger k owner rs arg).tracker = k.tracker := by
  rw [trigger_eq]
  refine ⟨rfl, rfl, ?_, rfl⟩
  simp [thenJobs, List.filterMap_append, trigJobs_thenP]

theorem rejectP_frame (k : K) (p : Nat) (v : Val) :
    (rejectP k p v).proms = k.proms.set p { k.getP p with result := v, fulR := [], rejR := [], state := .rejected } ∧
    (rejectP k p v).latches = k.latches ∧ thenJobs (rejectP k p v) = thenJobs k := by
  unfold rejectP
  simp only []
  obtain ⟨h1, h2, h3, _⟩ := trigger_frame
    (if (k.getP p).handled = true then k.setP p { k.getP p with result := v, fulR := [], rejR := [], state := .rejected }
      else track (k.setP p { k.getP p with result := v, fulR := [], rejR := [], state := .rejected }) p .reject)
    p (k.getP p).rejR v
  rw [h1, h2, h3]
  split <;> simp [K.setP, track, thenJobs]

theorem fulfillP_frame (k : K) (p : Nat) (v : Val) :
    (fulfillP k p v).proms = k.proms.set p { k.getP p with result := v, fulR := [], rejR := [], state := .fulfilled } ∧
    (fulfillP k p v).latches = k.latches ∧ thenJobs (fulfillP k p v) = thenJobs k := by
  unfold fulfillP
  simp only []
  obtain ⟨h1, h2, h3, _⟩ := trigger_frame
    (k.setP p { k.getP p with result := v, fulR := [], rejR := [], state := .fulfilled }) p (k.getP p).fulR v
  rw [h1, h2, h3]
  simp [K.setP, thenJobs]

theorem getP_of_proms_set (k k' : K) (p q : Nat) (r : PRec) (h : k'.proms = k.proms.set p r) :
    k'.getP q = if q = p ∧ p < k.proms.length then r else k.getP q := by
  have : k'.getP q = (k.setP p r).getP q := by unfold K.getP K.setP; rw [h]
  rw [this, getP_setP]

/-! ### abstract preservation lemmas -/

theorem latch_count_set {k : K} {l p : Nat} (hl : k.latches[l]? = some (p, false)) (q : Nat) :
    (k.latches.set l (p, true)).countP (latchLive q) + (if q = p then 1 else 0) = k.latches.countP (latchLive q) := by
  have := countP_set (latchLive q) k.latches l (p, false) (p, true) hl
  by_cases h : q = p
  · subst h; simp [latchLive] at this ⊢; omega
  · have h' : ¬ (p = q) := fun e => h e.symm
    simp [latchLive, h, h'] at this ⊢; omega

/-- An unlatched pair for `p` is consumed and `p` is settled (or anything else happens to p's record). -/
theorem tinv_consume_settle {k k' : K} (h : TInv k) {l p : Nat} (hl : k.latches[l]? = some (p, false))
    (hlat : k'.latches = k.latches.set l (p, true)) (hjobs : thenJobs k' = thenJobs k)
    (hlen : k'.proms.length = k.proms.length)
    (hst : ∀ q, q ≠ p → (k'.getP q).state = (k.getP q).state) : TInv k' := by
  have hcount := latch_count_set hl
  have hlive : ∀ q, live k' q + (if q = p then 1 else 0) = live k q := by
    intro q; unfold live; rw [hlat, hjobs]; have := hcount q; omega
  have hp0 : live k' p = 0 := by
    have := hlive p; have := h.tok p; simp at *; omega
  constructor
  · intro x hx
    rw [hlat] at hx
    rw [hlen]
    rcases List.mem_or_eq_of_mem_set hx with hx | hx
    · exact h.wfL x hx
    · subst hx; exact h.wfL (p, false) (List.mem_of_getElem? hl)
  · intro q hq; rw [hjobs] at hq; rw [hlen]; exact h.wfJ q hq
  · intro q; have := hlive q; have := h.tok q; omega
  · intro q hq
    by_cases e : q = p
    · subst e; exact hp0
    · have h1 := hlive q
      simp only [e, if_false] at h1
      rw [hst q e] at hq
      have := h.settled q hq; omega

/-- An unlatched pair for `p` is consumed and a thenable job for `p` is queued instead. -/
theorem tinv_consume_thenable {k k' : K} (h : TInv k) {l p : Nat} (hl : k.latches[l]? = some (p, false))
    (hlat : k'.latches = k.latches.set l (p, true)) (hjobs : thenJobs k' = thenJobs k ++ [p])
    (hlen : k'.proms.length = k.proms.length)
    (hst : ∀ q, (k'.getP q).state = (k.getP q).state) : TInv k' := by
  have hcount := latch_count_set hl
  have hlive : ∀ q, live k' q = live k q := by
    intro q; unfold live; rw [hlat, hjobs, List.count_append]; have := hcount q
    by_cases e : q = p
    · subst e; simp at *; omega
    · have e' : ¬ (p = q) := fun x => e x.symm
      simp [e, e'] at *; omega
  have hpos : 1 ≤ live k p := by
    have := hcount p; unfold live; simp at this; omega
  constructor
  · intro x hx
    rw [hlat] at hx
    rw [hlen]
    rcases List.mem_or_eq_of_mem_set hx with hx | hx
    · exact h.wfL x hx
    · subst hx; exact h.wfL (p, false) (List.mem_of_getElem? hl)
  · intro q hq; rw [hjobs, List.mem_append] at hq; rw [hlen]
    rcases hq with hq | hq
    · exact h.wfJ q hq
    · simp at hq; subst hq; exact h.wfL _ (List.mem_of_getElem? hl)
  · intro q; rw [hlive]; exact h.tok q
  · intro q hq; rw [hlive]; rw [hst] at hq; exact h.settled q hq

/-- Nothing relevant changes. -/
theorem tinv_congr {k k' : K} (h : TInv k) (hlat : k'.latches = k.latches) (hjobs : thenJobs k' = thenJobs k)
    (hlen : k'.proms.length = k.proms.length)
    (hst : ∀ q, (k'.getP q).state = (k.getP q).state) : TInv k' := by
  have hlive : ∀ q, live k' q = live k q := by intro q; unfold live; rw [hlat, hjobs]
  constructor
  · intro x hx; rw [hlat] at hx; rw [hlen]; exact h.wfL x hx
  · intro q hq; rw [hjobs] at hq; rw [hlen]; exact h.wfJ q hq
  · intro q; rw [hlive]; exact h.tok q
  · intro q hq; rw [hlive]; rw [hst] at hq; exact h.settled q hq

/-- A latch unset for `p` means `p` is pending and inside the table. -/
theorem pending_of_unlatched {k : K} (h : TInv k) {l p : Nat} (hl : k.latches[l]? = some (p, false)) :
    (k.getP p).state = .pending ∧ p < k.proms.length := by
  have hcount := latch_count_set hl p
  refine ⟨?_, h.wfL _ (List.mem_of_getElem? hl)⟩
  false_or_by_contra
  rename_i hne
  have := h.settled p hne
  unfold live at this
  simp at hcount
  omega

end GojaModel.C10
