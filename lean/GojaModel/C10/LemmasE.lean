/-
  C10: the enqueue log of reaction jobs, per promise, is determined by (state, result, attachments):
  reaction_enqueued_iff_settled_exactly_once as one invariant.
-/
import GojaModel.C10.LemmasR

namespace GojaModel.C10

/-- What a job contributes to the reaction log of promise `p`: (attachment id, fulfil-type?, argument). -/
def rentry (p : Nat) : Job → Option (Nat × Bool × Val)
  | .reaction _ owner r arg => if owner = p then some (r.rid, r.isFul, arg) else none
  | .thenable _ _ _ _ => none

/-- Reaction jobs ever enqueued on behalf of promise `p`, in enqueue order. -/
def rlog (p : Nat) (js : List Job) : List (Nat × Bool × Val) := js.filterMap (rentry p)

/-- What that log must be, given the promise record. -/
def expectedLog (r : PRec) : List (Nat × Bool × Val) :=
  match r.state with
  | .pending => []
  | .fulfilled => r.attached.map (fun rid => (rid, true, r.result))
  | .rejected => r.attached.map (fun rid => (rid, false, r.result))

def EInv (k : K) : Prop := ∀ p, rlog p k.enqEver = expectedLog (k.getP p)

/-- Attachment ids of a promise are strictly increasing and below the counter. -/
def AInv (k : K) : Prop :=
  ∀ p, (k.getP p).attached.Pairwise (· < ·) ∧ ∀ rid ∈ (k.getP p).attached, rid < k.nextRid

theorem rlog_append (p : Nat) (a b : List Job) : rlog p (a ++ b) = rlog p a ++ rlog p b := by
  simp [rlog, List.filterMap_append]

theorem rlog_trigJobs (q p : Nat) (v : Val) : ∀ (rs : List Reaction) (sid : Nat),
    rlog q (trigJobs sid p rs v) = if p = q then rs.map (fun r => (r.rid, r.isFul, v)) else [] := by
  intro rs
  induction rs with
  | nil => intro sid; simp [trigJobs, rlog]
  | cons r rs ih =>
    intro sid
    have := ih (sid + 1)
    unfold rlog at this ⊢
    simp only [trigJobs, List.filterMap_cons, rentry]
    by_cases e : p = q
    · simp [e] at this ⊢; exact this
    · simp [e] at this ⊢; exact this

theorem map_triple (v : Val) (b : Bool) : ∀ (rs : List Reaction) (A : List Nat),
    rs.map (·.rid) = A → (∀ x ∈ rs, x.isFul = b) →
    rs.map (fun r => (r.rid, r.isFul, v)) = A.map (fun rid => (rid, b, v)) := by
  intro rs
  induction rs with
  | nil => intro A h _; simp at h; subst h; rfl
  | cons r rs ih =>
    intro A h hb
    cases A with
    | nil => simp at h
    | cons a A =>
      simp only [List.map_cons, List.cons.injEq] at h
      simp only [List.map_cons]
      rw [ih A h.2 (fun x hx => hb x (List.mem_cons_of_mem _ hx)), hb r (List.mem_cons_self), h.1]

theorem addReactions_enqEver (k : K) (p : Nat) (cap : Option Cap) (f g : Option Fn) :
    ((k.getP p).state = .fulfilled → (addReactions k p cap f g).enqEver =
        k.enqEver ++ [Job.reaction k.nextSid p { cap := cap, isFul := true, handler := f, rid := k.nextRid } (k.getP p).result]) ∧
    ((k.getP p).state = .rejected → (addReactions k p cap f g).enqEver =
        k.enqEver ++ [Job.reaction k.nextSid p { cap := cap, isFul := false, handler := g, rid := k.nextRid } (k.getP p).result]) ∧
    ((k.getP p).state = .pending → (addReactions k p cap f g).enqEver = k.enqEver) := by
  have e1 : (({ k with nextRid := k.nextRid + 1 } : K).getP p) = k.getP p := rfl
  have me : ∀ (kk : K) (rid : Nat), (markHandled kk p rid).enqEver = kk.enqEver := fun _ _ => rfl
  refine ⟨fun hs => ?_, fun hs => ?_, fun hs => ?_⟩
  · have hlt : p < k.proms.length := lt_of_not_pending (by rw [hs]; simp)
    unfold addReactions
    simp only [hlt, if_true]
    rw [me]
    unfold addReactionsCore
    simp only [e1, hs]
    rfl
  · have hlt : p < k.proms.length := lt_of_not_pending (by rw [hs]; simp)
    unfold addReactions
    simp only [hlt, if_true]
    rw [me]
    unfold addReactionsCore
    simp only [e1, hs]
    split <;> rfl
  · unfold addReactions
    split
    · rw [me]
      unfold addReactionsCore
      simp only [e1, hs]
      rfl
    · rfl

/-- The record of `q` after addReactions on `p` (p inside the table). -/
theorem addReactions_getP (k : K) (p : Nat) (cap : Option Cap) (f g : Option Fn) (hlt : p < k.proms.length) (q : Nat) :
    ((addReactions k p cap f g).getP q).state = (k.getP q).state ∧
    ((addReactions k p cap f g).getP q).result = (k.getP q).result ∧
    ((addReactions k p cap f g).getP q).attached =
      (if q = p then (k.getP p).attached ++ [k.nextRid] else (k.getP q).attached) := by
  unfold addReactions
  simp only [hlt, if_true]
  generalize hk1e : ({ k with nextRid := k.nextRid + 1 } : K) = k1
  have hg : ∀ q, k1.getP q = k.getP q := by intro q; rw [← hk1e]; rfl
  have hl1 : k1.proms.length = k.proms.length := by rw [← hk1e]
  generalize ({ cap := cap, isFul := true, handler := f, rid := k.nextRid } : Reaction) = fr
  generalize ({ cap := cap, isFul := false, handler := g, rid := k.nextRid } : Reaction) = rr
  have hclen := (addReactionsCore_frame k1 p fr rr).2.2.1
  rw [markHandled_rec, hclen, hl1]
  by_cases hs : (k1.getP p).state = .pending
  · rw [core_pending k1 p fr rr hs, core_pending k1 p fr rr hs, hl1]
    by_cases e : q = p
    · subst e; simp [hlt, hg]
    · simp [e, hg]
  · rw [core_settled k1 p fr rr hs, core_settled k1 p fr rr hs]
    by_cases e : q = p
    · subst e; simp [hlt, hg]
    · simp [e, hg]

theorem addReactions_nextRid (k : K) (p : Nat) (cap : Option Cap) (f g : Option Fn) (hlt : p < k.proms.length) :
    (addReactions k p cap f g).nextRid = k.nextRid + 1 := by
  unfold addReactions
  simp only [hlt, if_true]
  unfold markHandled addReactionsCore
  simp only []
  split
  · rfl
  · rfl
  · split <;> rfl

/-! ### EInv -/

theorem einv_congr {k k' : K} (h : EInv k) (he : k'.enqEver = k.enqEver) (hp : k'.proms = k.proms) : EInv k' := by
  intro q; rw [he, getP_of_proms_eq hp]; exact h q

theorem expectedLog_congr (r r' : PRec) (h1 : r'.state = r.state) (h2 : r'.result = r.result)
    (h3 : r'.attached = r.attached) : expectedLog r' = expectedLog r := by
  unfold expectedLog; rw [h1, h2, h3]

theorem einv_settle {k k' : K} (he : EInv k) (hr : RInv k) (p : Nat) (v : Val) (isF : Bool)
    (hp : (k.getP p).state = .pending) (hlt : p < k.proms.length)
    (hprom : k'.proms = k.proms.set p
      { k.getP p with result := v, fulR := [], rejR := [], state := if isF then .fulfilled else .rejected })
    (henq : k'.enqEver = k.enqEver ++ trigJobs k.nextSid p (if isF then (k.getP p).fulR else (k.getP p).rejR) v) :
    EInv k' := by
  intro q
  rw [henq, rlog_append, rlog_trigJobs, getP_of_proms_set k k' p q _ hprom, he q]
  by_cases e : q = p
  · subst e
    simp only [hlt, and_self, if_true]
    obtain ⟨a, b, c, d⟩ := (hr q).2 hp
    unfold expectedLog
    rw [hp]
    cases isF with
    | true => simp only [if_true, List.nil_append]; exact map_triple v true _ _ a c
    | false => simp only [Bool.false_eq_true, if_false, List.nil_append]; exact map_triple v false _ _ b d
  · have e' : ¬ (p = q) := fun x => e x.symm
    simp [e, e']

theorem rejectP_as_settle (k : K) (p : Nat) (v : Val) :
    (rejectP k p v).proms = k.proms.set p
      { k.getP p with result := v, fulR := [], rejR := [], state := if false then .fulfilled else .rejected } ∧
    (rejectP k p v).enqEver = k.enqEver ++ trigJobs k.nextSid p (if false then (k.getP p).fulR else (k.getP p).rejR) v :=
  ⟨(rejectP_frame k p v).1, rejectP_enqEver k p v⟩

theorem fulfillP_as_settle (k : K) (p : Nat) (v : Val) :
    (fulfillP k p v).proms = k.proms.set p
      { k.getP p with result := v, fulR := [], rejR := [], state := if true then .fulfilled else .rejected } ∧
    (fulfillP k p v).enqEver = k.enqEver ++ trigJobs k.nextSid p (if true then (k.getP p).fulR else (k.getP p).rejR) v :=
  ⟨(fulfillP_frame k p v).1, fulfillP_enqEver k p v⟩

theorem einv_addReactions {k : K} (he : EInv k) (p : Nat) (cap : Option Cap) (f g : Option Fn) :
    EInv (addReactions k p cap f g) := by
  by_cases hlt : p < k.proms.length
  · intro q
    obtain ⟨s1, s2, s3⟩ := addReactions_getP k p cap f g hlt q
    obtain ⟨e1, e2, e3⟩ := addReactions_enqEver k p cap f g
    have hq := he q
    by_cases e : q = p
    · subst e
      simp only [if_true] at s3
      unfold expectedLog at hq ⊢
      rw [s1, s2, s3]
      cases hs : (k.getP q).state with
      | pending => rw [e3 hs]; rw [hs] at hq; exact hq
      | fulfilled =>
        rw [e1 hs, rlog_append]; rw [hs] at hq; simp only at hq ⊢
        rw [hq]; simp [rlog, rentry]
      | rejected =>
        rw [e2 hs, rlog_append]; rw [hs] at hq; simp only at hq ⊢
        rw [hq]; simp [rlog, rentry]
    · simp only [e, if_false] at s3
      rw [expectedLog_congr _ _ s1 s2 s3, ← hq]
      have e' : ¬ (p = q) := fun x => e x.symm
      cases hs : (k.getP p).state with
      | pending => rw [e3 hs]
      | fulfilled => rw [e1 hs, rlog_append]; simp [rlog, rentry, e']
      | rejected => rw [e2 hs, rlog_append]; simp [rlog, rentry, e']
  · unfold addReactions; simp only [hlt, if_false]; exact he

theorem einv_newCap {k : K} (he : EInv k) : EInv (newCap k) := by
  intro q
  have h1 : (newCap k).enqEver = k.enqEver := rfl
  rw [h1]
  by_cases e : q < k.proms.length
  · rw [getP_newCap_lt k q e]; exact he q
  · have hd : k.getP q = {} := getP_default k q (by omega)
    have := he q
    rw [hd] at this
    rw [this]
    have : (newCap k).getP q = {} := by
      unfold K.getP newCap createResolvingFunctions newPromise
      simp only [List.getD_eq_getElem?_getD]
      by_cases e2 : q = k.proms.length
      · subst e2; simp
      · have : k.proms.length + 1 ≤ q := by omega
        rw [List.getElem?_eq_none (by simpa using this)]
        rfl
    rw [this]

theorem einv_applyOp {k : K} (ht : TInv k) (hr : RInv k) (he : EInv k) (op : KOp) : EInv (applyOp op k) := by
  cases op with
  | newCap => exact einv_newCap he
  | callResolve l v look =>
    simp only [applyOp, callResolve]
    split
    · exact he
    · rename_i q already hl
      cases already with
      | true => exact he
      | false =>
        simp only [Bool.false_eq_true, if_false]
        obtain ⟨hq, hlt⟩ := pending_of_unlatched ht hl
        have he' : EInv { k with latches := k.latches.set l (q, true) } := einv_congr he rfl rfl
        have hr' : RInv { k with latches := k.latches.set l (q, true) } := rinv_congr hr rfl
        split
        · obtain ⟨a, b⟩ := rejectP_as_settle { k with latches := k.latches.set l (q, true) } q .typeErr
          exact einv_settle he' hr' q _ false hq hlt a b
        · split
          · rename_i e
            obtain ⟨a, b⟩ := rejectP_as_settle { k with latches := k.latches.set l (q, true) } q e
            exact einv_settle he' hr' q _ false hq hlt a b
          · intro x
            have : (enqueue { k with latches := k.latches.set l (q, true) } (fun sid => Job.thenable sid q v ‹Fn›)).enqEver
                = k.enqEver ++ [Job.thenable k.nextSid q v ‹Fn›] := rfl
            rw [this, rlog_append]
            have h2 := he x
            simp only [rlog, List.filterMap_cons, rentry, List.filterMap_nil, List.append_nil] at h2 ⊢
            exact h2
          · obtain ⟨a, b⟩ := fulfillP_as_settle { k with latches := k.latches.set l (q, true) } q v
            exact einv_settle he' hr' q _ true hq hlt a b
  | callReject l v =>
    simp only [applyOp, callReject]
    split
    · exact he
    · rename_i q already hl
      cases already with
      | true => exact he
      | false =>
        simp only [Bool.false_eq_true, if_false]
        obtain ⟨hq, hlt⟩ := pending_of_unlatched ht hl
        have he' : EInv { k with latches := k.latches.set l (q, true) } := einv_congr he rfl rfl
        have hr' : RInv { k with latches := k.latches.set l (q, true) } := rinv_congr hr rfl
        obtain ⟨a, b⟩ := rejectP_as_settle { k with latches := k.latches.set l (q, true) } q v
        exact einv_settle he' hr' q _ false hq hlt a b
  | addReactions p cap f g =>
    simp only [applyOp]
    split
    · exact einv_addReactions he p cap f g
    · exact he
  | popJob =>
    simp only [applyOp, popJob]
    split
    · exact he
    · exact einv_congr he (popJobQ_enqEver k) (popJobQ_proms k)
  | asyncStart => exact einv_congr he rfl rfl
  | await ar p =>
    simp only [applyOp, awaitOp]
    split
    · exact einv_congr (einv_addReactions he p none _ _) rfl rfl
    · exact he
  | asyncDone ar =>
    simp only [applyOp, asyncDone]
    split
    · exact einv_congr he rfl rfl
    · exact he
  | leaveAbrupt => exact einv_congr he rfl rfl

theorem einv_reach {k : K} (h : Reach k) : EInv k := by
  induction h with
  | init => intro p; rw [getP_default _ _ (by simp)]; rfl
  | step op hr ih => exact einv_applyOp (tinv_reach hr) (rinv_reach hr) ih op

end GojaModel.C10
