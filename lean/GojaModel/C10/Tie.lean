/-
  C10 Tie: the decision structure of the Go functions that Model.lean / Comb.lean / Interp.lean transcribe
  (extract/c10.go regenerates `GojaModel.Generated.C10.skeleton` from /repo on every run) must be exactly the
  structure the transcription was made from.  Per function: guards, loops, switch cases, function literals, every
  call (callee only) and every assignment to a field or to a latch/flag/counter variable, in source order.
  What each line is modelled by is noted in design/C10.md (section Tie).
-/
import GojaModel.Generated.C10_Skeleton

namespace GojaModel.C10.Expected

def skeleton : List (String × List String) := [
  ("Promise.createResolvingFunctions", ["set alreadyResolved := false", "func {", "if alreadyResolved {", "return", "}", "set alreadyResolved = true", "call call.Argument", "call resolution.SameAs", "if resolution.SameAs(p.val) {", "call r.NewTypeError", "call p.reject", "return", "}", "if ok {", "func {", "call obj.self.getStr", "}", "call r.vm.try", "if ex != nil {", "call p.reject", "return", "}", "call assertCallable", "if ok {", "call r.newPromiseResolveThenableJob", "call r.enqueuePromiseJob", "return", "}", "}", "call p.fulfill", "return", "}", "call p.val.runtime.newNativeFunc", "func {", "if alreadyResolved {", "return", "}", "set alreadyResolved = true", "call call.Argument", "call p.reject", "return", "}", "call p.val.runtime.newNativeFunc", "return"]),
  ("Promise.reject", ["set p.result = reason", "set p.fulfillReactions = nil", "set p.rejectReactions = nil", "set p.state = PromiseStateRejected", "if !p.handled {", "call r.trackPromiseRejection", "}", "call r.triggerPromiseReactions", "return"]),
  ("Promise.fulfill", ["set p.result = value", "set p.fulfillReactions = nil", "set p.rejectReactions = nil", "set p.state = PromiseStateFulfilled", "call p.val.runtime.triggerPromiseReactions", "return"]),
  ("Promise.addReactions", ["if tracker != nil {", "call tracker.Grab", "set fulfillReaction.asyncCtx = ctx", "set rejectReaction.asyncCtx = ctx", "}", "switch p.state {", "case PromiseStatePending:", "call append", "set p.fulfillReactions = append(p.fulfillReactions, fulfillReaction)", "call append", "set p.rejectReactions = append(p.rejectReactions, rejectReaction)", "case PromiseStateFulfilled:", "call r.newPromiseReactionJob", "call r.enqueuePromiseJob", "default:", "if !p.handled {", "call r.trackPromiseRejection", "}", "call r.newPromiseReactionJob", "call r.enqueuePromiseJob", "}", "set p.handled = true"]),
  ("Runtime.newPromiseResolveThenableJob", ["func {", "call p.createResolvingFunctions", "func {", "call r.callJobCallback", "}", "call r.vm.try", "if ex != nil {", "call reject.self.assertCallable", "if ok {", "call fn", "}", "}", "}", "return"]),
  ("Runtime.enqueuePromiseJob", ["call append", "set r.jobQueue = append(r.jobQueue, job)"]),
  ("Runtime.triggerPromiseReactions", ["range reactions {", "call r.newPromiseReactionJob", "call r.enqueuePromiseJob", "}"]),
  ("Runtime.newPromiseReactionJob", ["func {", "set fulfill := false", "if reaction.handler == nil {", "set handlerResult = argument", "if reaction.typ == promiseReactionFulfill {", "set fulfill = true", "}", "} else {", "if tracker != nil {", "call tracker.Resumed", "}", "func {", "call r.callJobCallback", "set handlerResult = r.callJobCallback(reaction.handler, _undefined, argument)", "set fulfill = true", "}", "call r.vm.try", "if ex != nil {", "set handlerResult = ex.val", "}", "if tracker != nil {", "call tracker.Exited", "}", "}", "if reaction.capability != nil {", "if fulfill {", "call reaction.capability.resolve", "} else {", "call reaction.capability.reject", "}", "}", "}", "return"]),
  ("Runtime.performPromiseThen", ["call assertCallable", "if ok {", "}", "call assertCallable", "if ok {", "}", "call p.addReactions", "if resultCapability == nil {", "return", "}", "return"]),
  ("Runtime.promiseResolve", ["if ok {", "call obj.self.getStr", "call nilSafe", "call xConstructor.SameAs", "if xConstructor.SameAs(c) {", "return", "}", "}", "call r.newPromiseCapability", "call pcap.resolve", "return"]),
  ("Runtime.promiseProto_finally", ["call r.toObject", "call r.getPromise", "call r.speciesConstructorObj", "call call.Argument", "call assertCallable", "if !ok {", "} else {", "func {", "call call.Argument", "call onFinallyFn", "call r.promiseResolve", "func {", "return", "}", "call r.newNativeFunc", "call r.invoke", "return", "}", "call r.newNativeFunc", "func {", "call call.Argument", "call onFinallyFn", "call r.promiseResolve", "func {", "call panic", "}", "call r.newNativeFunc", "call r.invoke", "return", "}", "call r.newNativeFunc", "}", "call r.invoke", "return"]),
  ("Runtime.promise_all", ["call r.toObject", "call r.newPromiseCapability", "func {", "call c.self.getStr", "call r.toCallable", "call call.Argument", "call r.getIterator", "set remainingElementsCount := 1", "func {", "call len", "call append", "call promiseResolve", "set alreadyCalled := false", "func {", "if alreadyCalled {", "return", "}", "set alreadyCalled = true", "call call.Argument", "set values[index] = call.Argument(0)", "set remainingElementsCount--", "if remainingElementsCount == 0 {", "call r.newArrayValues", "call pcap.resolve", "}", "return", "}", "call r.newNativeFunc", "set remainingElementsCount++", "call r.invoke", "}", "call iter.iterate", "set remainingElementsCount--", "if remainingElementsCount == 0 {", "call r.newArrayValues", "call pcap.resolve", "}", "}", "call pcap.try", "return"]),
  ("Runtime.promise_allSettled", ["call r.toObject", "call r.newPromiseCapability", "func {", "call c.self.getStr", "call r.toCallable", "call call.Argument", "call r.getIterator", "set remainingElementsCount := 1", "func {", "call len", "call append", "call promiseResolve", "set alreadyCalled := false", "func {", "func {", "if alreadyCalled {", "return", "}", "set alreadyCalled = true", "call r.NewObject", "call obj.self._putProp", "call call.Argument", "call obj.self._putProp", "set values[index] = obj", "set remainingElementsCount--", "if remainingElementsCount == 0 {", "call r.newArrayValues", "call pcap.resolve", "}", "return", "}", "call r.newNativeFunc", "return", "}", "call asciiString", "call reaction", "call asciiString", "call reaction", "set remainingElementsCount++", "call r.invoke", "}", "call iter.iterate", "set remainingElementsCount--", "if remainingElementsCount == 0 {", "call r.newArrayValues", "call pcap.resolve", "}", "}", "call pcap.try", "return"]),
  ("Runtime.promise_any", ["call r.toObject", "call r.newPromiseCapability", "func {", "call c.self.getStr", "call r.toCallable", "call call.Argument", "call r.getIterator", "set remainingElementsCount := 1", "func {", "call len", "call append", "call promiseResolve", "set alreadyCalled := false", "func {", "if alreadyCalled {", "return", "}", "set alreadyCalled = true", "call call.Argument", "set errors[index] = call.Argument(0)", "set remainingElementsCount--", "if remainingElementsCount == 0 {", "call r.getAggregateError", "call r.builtin_new", "call r.newArrayValues", "call _error.self._putProp", "call pcap.reject", "}", "return", "}", "call r.newNativeFunc", "set remainingElementsCount++", "call r.invoke", "}", "call iter.iterate", "set remainingElementsCount--", "if remainingElementsCount == 0 {", "call r.getAggregateError", "call r.builtin_new", "call r.newArrayValues", "call _error.self._putProp", "call pcap.reject", "}", "}", "call pcap.try", "return"]),
  ("Runtime.promise_race", ["call r.toObject", "call r.newPromiseCapability", "func {", "call c.self.getStr", "call r.toCallable", "call call.Argument", "call r.getIterator", "func {", "call promiseResolve", "call r.invoke", "}", "call iter.iterate", "}", "call pcap.try", "return"]),
  ("Runtime.NewPromise", ["call r.getPromisePrototype", "call r.newPromise", "call p.createResolvingFunctions", "call r.wrapPromiseReaction", "call r.wrapPromiseReaction", "return"]),
  ("Runtime.leave", ["for len(r.jobQueue) > 0 {", "set jobs = r.jobQueue", "set r.jobQueue = jobs[:0]", "range jobs {", "call job", "}", "}", "set r.jobQueue = nil"]),
  ("Runtime.leaveAbrupt", ["set r.jobQueue = nil"]),
  ("asyncRunner.step", ["if done || ex != nil {", "if ex == nil {", "call ar.promiseCap.resolve", "} else {", "call ar.promiseCap.reject", "}", "return", "}", "call r.getPromise", "call r.promiseResolve", "call promise.self.(*Promise).addReactions"]),
  ("asyncRunner.onFulfilled", ["defer {", "func {", "}", "}", "call call.Argument", "call ar.gen.next", "call ar.step", "return"]),
  ("asyncRunner.onRejected", ["defer {", "func {", "}", "}", "call call.Argument", "call ar.gen.nextThrow", "call ar.step", "return"]),
  ("asyncRunner.start", ["set ar.gen.vm = r.vm", "call r.getPromise", "call r.newPromiseCapability", "set ar.promiseCap = r.newPromiseCapability(r.getPromise())", "call ar.gen.enter", "set entered := false", "defer {", "call ar.gen.dropMarkerOnPanic", "}", "call ar.vmCall", "call ar.gen.step", "call ar.step", "set entered = true", "if ex != nil {", "}", "call r.vm.popTryFrame", "call r.vm.popCtx"])
]

end GojaModel.C10.Expected

namespace GojaModel.C10

/-- The regenerated decision skeleton of builtin_promise.go / runtime.go leave+leaveAbrupt / func.go asyncRunner equals
the one the model transcribes. -/
theorem skeleton_tie : GojaModel.Generated.C10.skeleton = Expected.skeleton := by rfl

/-- Every pinned function is present exactly once, in the expected order. -/
theorem skeleton_functions : GojaModel.Generated.C10.skeleton.map (·.1) = Expected.skeleton.map (·.1) := by rfl

end GojaModel.C10
