/-
  C10: (1) attachment ids of a promise are strictly increasing (so "exactly once" is meaningful);
       (2) shape of every op on (enq, ran, nextSid) and the after-interrupt serial bound.
-/
import GojaModel.C10.LemmasE
import GojaModel.C10.LemmasQ

namespace GojaModel.C10

/-! ### (1) AInv -/

theorem rejectP_nextRid (k : K) (p : Nat) (v : Val) : (rejectP k p v).nextRid = k.nextRid := by
  unfold rejectP; simp only []; rw [trigger_eq]; split <;> rfl

theorem fulfillP_nextRid (k : K) (p : Nat) (v : Val) : (fulfillP k p v).nextRid = k.nextRid := by
  unfold fulfillP; simp only []; rw [trigger_eq]; rfl

theorem ainv_of {k k' : K} (h : AInv k) (hn : k.nextRid ≤ k'.nextRid)
    (ha : ∀ q, (k'.getP q).attached = (k.getP q).attached) : AInv k' := by
  intro q
  rw [ha q]
  exact ⟨(h q).1, fun rid hr => Nat.lt_of_lt_of_le ((h q).2 rid hr) hn⟩

theorem attached_of_proms_set (k k' : K) (p : Nat) (r : PRec) (hp : k'.proms = k.proms.set p r)
    (hr : r.attached = (k.getP p).attached) (q : Nat) : (k'.getP q).attached = (k.getP q).attached := by
  rw [getP_of_proms_set k k' p q r hp]
  split
  · rename_i hh; rw [hh.1]; exact hr
  · rfl

theorem ainv_rejectP {k : K} (h : AInv k) (p : Nat) (v : Val) : AInv (rejectP k p v) :=
  ainv_of h (by rw [rejectP_nextRid]; exact Nat.le_refl _)
    (attached_of_proms_set k _ p _ (rejectP_frame k p v).1 rfl)

theorem ainv_fulfillP {k : K} (h : AInv k) (p : Nat) (v : Val) : AInv (fulfillP k p v) :=
  ainv_of h (by rw [fulfillP_nextRid]; exact Nat.le_refl _)
    (attached_of_proms_set k _ p _ (fulfillP_frame k p v).1 rfl)

theorem ainv_congr {k k' : K} (h : AInv k) (hn : k'.nextRid = k.nextRid) (hp : k'.proms = k.proms) : AInv k' :=
  ainv_of h (by rw [hn]; exact Nat.le_refl _) (fun q => by rw [getP_of_proms_eq hp])

theorem ainv_addReactions {k : K} (h : AInv k) (p : Nat) (cap : Option Cap) (f g : Option Fn) :
    AInv (addReactions k p cap f g) := by
  by_cases hlt : p < k.proms.length
  · intro q
    rw [(addReactions_getP k p cap f g hlt q).2.2, addReactions_nextRid k p cap f g hlt]
    by_cases e : q = p
    · subst e
      simp only [if_true]
      obtain ⟨a, b⟩ := h q
      constructor
      · rw [List.pairwise_append]
        exact ⟨a, List.pairwise_singleton _ _, fun x hx y hy => by simp at hy; subst hy; exact b x hx⟩
      · intro rid hr
        rw [List.mem_append] at hr
        rcases hr with hr | hr
        · have := b rid hr; omega
        · simp at hr; omega
    · simp only [e, if_false]
      exact ⟨(h q).1, fun rid hr => by have := (h q).2 rid hr; omega⟩
  · unfold addReactions; simp only [hlt, if_false]; exact h

theorem ainv_applyOp {k : K} (h : AInv k) (op : KOp) : AInv (applyOp op k) := by
  cases op with
  | newCap =>
    intro q
    show List.Pairwise (· < ·) ((newCap k).getP q).attached ∧ ∀ rid ∈ ((newCap k).getP q).attached, rid < k.nextRid
    by_cases e : q < k.proms.length
    · rw [getP_newCap_lt k q e]; exact h q
    · have : (newCap k).getP q = {} := by
        unfold K.getP newCap createResolvingFunctions newPromise
        simp only [List.getD_eq_getElem?_getD]
        by_cases e2 : q = k.proms.length
        · subst e2; simp
        · have : k.proms.length + 1 ≤ q := by omega
          rw [List.getElem?_eq_none (by simpa using this)]
          rfl
      rw [this]
      exact ⟨List.Pairwise.nil, fun rid hr => by simp at hr⟩
  | callResolve l v look =>
    simp only [applyOp, callResolve]
    split
    · exact h
    · split
      · exact h
      · rename_i p already hl hal
        have h' : AInv { k with latches := k.latches.set l (p, true) } := ainv_congr h rfl rfl
        split
        · exact ainv_rejectP h' _ _
        · split
          · exact ainv_rejectP h' _ _
          · exact ainv_congr h' rfl rfl
          · exact ainv_fulfillP h' _ _
  | callReject l v =>
    simp only [applyOp, callReject]
    split
    · exact h
    · split
      · exact h
      · rename_i p already hl hal
        have h' : AInv { k with latches := k.latches.set l (p, true) } := ainv_congr h rfl rfl
        exact ainv_rejectP h' _ _
  | addReactions p cap f g =>
    simp only [applyOp]
    split
    · exact ainv_addReactions h p cap f g
    · exact h
  | popJob =>
    simp only [applyOp, popJob]
    split
    · exact h
    · exact ainv_congr h (popJobQ_nextRid k) (popJobQ_proms k)
  | asyncStart => exact ainv_congr h rfl rfl
  | await ar p =>
    simp only [applyOp, awaitOp]
    split
    · exact ainv_congr (ainv_addReactions h p none _ _) rfl rfl
    · exact h
  | asyncDone ar =>
    simp only [applyOp, asyncDone]
    split
    · exact ainv_congr h rfl rfl
    · exact h
  | leaveAbrupt => exact ainv_congr h rfl rfl

theorem ainv_reach {k : K} (h : Reach k) : AInv k := by
  induction h with
  | init =>
    intro p; rw [getP_default _ _ (by simp)]
    exact ⟨List.Pairwise.nil, fun rid hr => by simp at hr⟩
  | step op _ ih => exact ainv_applyOp ih op

/-! ### (2) shape of ops on (enq, ran, nextSid) -/

/-- Every op either appends freshly numbered jobs to the live log, or starts one job, or truncates the live
log to the started jobs (interrupt). -/
inductive Shape (k k' : K) : Prop
  | enq (js : List Job) (n : Nat) (h1 : k'.enq = k.enq ++ js) (h2 : js.map Job.sid = List.range' k.nextSid n)
        (h3 : k'.nextSid = k.nextSid + n) (h4 : k'.ran = k.ran)
  | start (j : Job) (h1 : k'.enq = k.enq) (h3 : k'.nextSid = k.nextSid) (h4 : k'.ran = k.ran ++ [j])
  | drop (h1 : k'.enq = k.ran) (h3 : k'.nextSid = k.nextSid) (h4 : k'.ran = k.ran)

theorem shape_same {k k' : K} (h1 : k'.enq = k.enq) (h3 : k'.nextSid = k.nextSid) (h4 : k'.ran = k.ran) : Shape k k' :=
  .enq [] 0 (by simp [h1]) (by simp) (by simp [h3]) h4

theorem shape_trigger (k : K) (owner : Nat) (rs : List Reaction) (arg : Val) : Shape k (trigger k owner rs arg) := by
  rw [trigger_eq]
  exact .enq _ rs.length rfl (trigJobs_sids owner arg rs k.nextSid) rfl rfl

theorem shape_trans_same {k0 k k' : K} (h1 : k.enq = k0.enq) (h3 : k.nextSid = k0.nextSid) (h4 : k.ran = k0.ran)
    (s : Shape k k') : Shape k0 k' := by
  cases s with
  | enq js n a b c d => exact .enq js n (by rw [a, h1]) (by rw [b, h3]) (by rw [c, h3]) (by rw [d, h4])
  | start j a c d => exact .start j (by rw [a, h1]) (by rw [c, h3]) (by rw [d, h4])
  | drop a c d => exact .drop (by rw [a, h4]) (by rw [c, h3]) (by rw [d, h4])

theorem shape_rejectP (k : K) (p : Nat) (v : Val) : Shape k (rejectP k p v) := by
  unfold rejectP
  simp only []
  apply shape_trans_same (k := if (k.getP p).handled = true then _ else _) _ _ _ (shape_trigger _ _ _ _)
  · split <;> rfl
  · split <;> rfl
  · split <;> rfl

theorem shape_fulfillP (k : K) (p : Nat) (v : Val) : Shape k (fulfillP k p v) := by
  unfold fulfillP
  simp only []
  exact shape_trans_same (k := k.setP p _) rfl rfl rfl (shape_trigger _ _ _ _)

theorem shape_enqueue (k : K) (mk : Nat → Job) (hmk : ∀ s, (mk s).sid = s) : Shape k (enqueue k mk) :=
  .enq [mk k.nextSid] 1 rfl (by simp [hmk, List.range'_one]) rfl rfl

theorem shape_addReactions (k : K) (p : Nat) (cap : Option Cap) (f g : Option Fn) :
    Shape k (addReactions k p cap f g) := by
  simp only [addReactions]
  split
  · unfold markHandled addReactionsCore
    simp only []
    split
    · exact shape_same rfl rfl rfl
    · exact .enq [_] 1 rfl (by simp [Job.sid, List.range'_one]) rfl rfl
    · split
      · exact .enq [_] 1 rfl (by simp [Job.sid, List.range'_one]) rfl rfl
      · exact .enq [_] 1 rfl (by simp [Job.sid, List.range'_one, track]) rfl rfl
  · exact shape_same rfl rfl rfl

theorem shape_popJobQ (k : K) : Shape k (popJobQ k) := by
  unfold popJobQ
  split
  · exact shape_same rfl rfl rfl
  · split <;> exact .start _ rfl rfl rfl

theorem shape_trans_same_right {k k' k'' : K} (s : Shape k k') (h1 : k''.enq = k'.enq) (h3 : k''.nextSid = k'.nextSid)
    (h4 : k''.ran = k'.ran) : Shape k k'' := by
  cases s with
  | enq js n a b c d => exact .enq js n (by rw [h1, a]) b (by rw [h3, c]) (by rw [h4, d])
  | start j a c d => exact .start j (by rw [h1, a]) (by rw [h3, c]) (by rw [h4, d])
  | drop a c d => exact .drop (by rw [h1, a]) (by rw [h3, c]) (by rw [h4, d])

theorem shape_applyOp (k : K) (op : KOp) : Shape k (applyOp op k) := by
  cases op with
  | newCap => exact shape_same rfl rfl rfl
  | callResolve l v look =>
    simp only [applyOp, callResolve]
    split
    · exact shape_same rfl rfl rfl
    · split
      · exact shape_same rfl rfl rfl
      · rename_i p already hl hal
        split
        · exact shape_trans_same (k := { k with latches := k.latches.set l (p, true) }) rfl rfl rfl (shape_rejectP _ _ _)
        · split
          · exact shape_trans_same (k := { k with latches := k.latches.set l (p, true) }) rfl rfl rfl (shape_rejectP _ _ _)
          · exact shape_trans_same (k := { k with latches := k.latches.set l (p, true) }) rfl rfl rfl
              (shape_enqueue _ _ (fun _ => rfl))
          · exact shape_trans_same (k := { k with latches := k.latches.set l (p, true) }) rfl rfl rfl (shape_fulfillP _ _ _)
  | callReject l v =>
    simp only [applyOp, callReject]
    split
    · exact shape_same rfl rfl rfl
    · split
      · exact shape_same rfl rfl rfl
      · rename_i p already hl hal
        exact shape_trans_same (k := { k with latches := k.latches.set l (p, true) }) rfl rfl rfl (shape_rejectP _ _ _)
  | addReactions p cap f g =>
    simp only [applyOp]
    split
    · exact shape_addReactions k p cap f g
    · exact shape_same rfl rfl rfl
  | popJob =>
    simp only [applyOp, popJob]
    split
    · exact shape_same rfl rfl rfl
    · exact shape_trans_same_right (shape_popJobQ k) rfl rfl rfl
  | asyncStart => exact shape_same rfl rfl rfl
  | await ar p =>
    simp only [applyOp, awaitOp]
    split
    · exact shape_trans_same_right (shape_addReactions k p none _ _) rfl rfl rfl
    · exact shape_same rfl rfl rfl
  | asyncDone ar =>
    simp only [applyOp, asyncDone]
    split <;> exact shape_same rfl rfl rfl
  | leaveAbrupt => exact .drop rfl rfl rfl

/-- Relative to a baseline (jobs R0 started so far, serial counter N): the live log is R0 followed by jobs with
serial ≥ N, and R0 is still a prefix of the started jobs. -/
structure After (R0 : List Job) (N : Nat) (k : K) : Prop where
  later : ∃ l, k.enq = R0 ++ l ∧ ∀ j ∈ l, N ≤ j.sid
  next : N ≤ k.nextSid
  pre : ∃ x, k.ran = R0 ++ x

theorem after_step {R0 : List Job} {N : Nat} {k k' : K} (hq : QInv k) (h : After R0 N k) (s : Shape k k') :
    After R0 N k' := by
  obtain ⟨l, hl, hlb⟩ := h.later
  obtain ⟨x, hx⟩ := h.pre
  cases s with
  | enq js n a b c d =>
    refine ⟨⟨l ++ js, by rw [a, hl, List.append_assoc], ?_⟩, by have := h.next; omega, ⟨x, by rw [d, hx]⟩⟩
    intro j hj
    rw [List.mem_append] at hj
    rcases hj with hj | hj
    · exact hlb j hj
    · have : j.sid ∈ js.map Job.sid := List.mem_map_of_mem hj
      rw [b, List.mem_range'_1] at this
      have := h.next; omega
  | start j a c d =>
    exact ⟨⟨l, by rw [a, hl], hlb⟩, by rw [c]; exact h.next, ⟨x ++ [j], by rw [d, hx, List.append_assoc]⟩⟩
  | drop a c d =>
    -- the started jobs beyond R0 are among the later ones
    have hf := hq.fifo
    rw [hx, hl, List.append_assoc] at hf
    have hl2 : x ++ k.jobs = l := List.append_cancel_left hf
    refine ⟨⟨x, by rw [a, hx], ?_⟩, by rw [c]; exact h.next, ⟨x, by rw [d, hx]⟩⟩
    intro j hj
    apply hlb
    rw [← hl2]
    exact List.mem_append_left _ hj

/-! ### (3) body ops only append to the job list -/

theorem jobs_trigger (k : K) (owner : Nat) (rs : List Reaction) (arg : Val) :
    (∃ js, (trigger k owner rs arg).jobs = k.jobs ++ js) ∧ (trigger k owner rs arg).ran = k.ran := by
  rw [trigger_eq]; exact ⟨⟨_, rfl⟩, rfl⟩

theorem jobs_rejectP (k : K) (p : Nat) (v : Val) :
    (∃ js, (rejectP k p v).jobs = k.jobs ++ js) ∧ (rejectP k p v).ran = k.ran := by
  unfold rejectP
  simp only []
  rw [trigger_eq]
  split <;> exact ⟨⟨_, rfl⟩, rfl⟩

theorem jobs_fulfillP (k : K) (p : Nat) (v : Val) :
    (∃ js, (fulfillP k p v).jobs = k.jobs ++ js) ∧ (fulfillP k p v).ran = k.ran := by
  unfold fulfillP
  simp only []
  rw [trigger_eq]
  exact ⟨⟨_, rfl⟩, rfl⟩

theorem jobs_addReactions (k : K) (p : Nat) (cap : Option Cap) (f g : Option Fn) :
    (∃ js, (addReactions k p cap f g).jobs = k.jobs ++ js) ∧ (addReactions k p cap f g).ran = k.ran := by
  simp only [addReactions]
  split
  · unfold markHandled addReactionsCore
    simp only []
    split
    · exact ⟨⟨[], by simp [K.setP]⟩, rfl⟩
    · exact ⟨⟨_, rfl⟩, rfl⟩
    · split <;> exact ⟨⟨_, rfl⟩, rfl⟩
  · exact ⟨⟨[], by simp⟩, rfl⟩

theorem jobs_applyB (o : BOp) (k : K) :
    (∃ js, (applyOp o.toK k).jobs = k.jobs ++ js) ∧ (applyOp o.toK k).ran = k.ran := by
  have same : ∀ k' : K, k'.jobs = k.jobs → k'.ran = k.ran → (∃ js, k'.jobs = k.jobs ++ js) ∧ k'.ran = k.ran :=
    fun k' h1 h2 => ⟨⟨[], by simp [h1]⟩, h2⟩
  cases o with
  | newCap => exact same _ rfl rfl
  | callResolve l v look =>
    simp only [BOp.toK, applyOp, callResolve]
    split
    · exact same _ rfl rfl
    · split
      · exact same _ rfl rfl
      · rename_i p already hl hal
        split
        · exact jobs_rejectP { k with latches := k.latches.set l (p, true) } p _
        · split
          · exact jobs_rejectP { k with latches := k.latches.set l (p, true) } p _
          · exact ⟨⟨_, rfl⟩, rfl⟩
          · exact jobs_fulfillP { k with latches := k.latches.set l (p, true) } p _
  | callReject l v =>
    simp only [BOp.toK, applyOp, callReject]
    split
    · exact same _ rfl rfl
    · split
      · exact same _ rfl rfl
      · rename_i p already hl hal
        exact jobs_rejectP { k with latches := k.latches.set l (p, true) } p _
  | addReactions p cap f g =>
    simp only [BOp.toK, applyOp]
    split
    · exact jobs_addReactions k p cap f g
    · exact same _ rfl rfl
  | asyncStart => exact same _ rfl rfl
  | await ar p =>
    simp only [BOp.toK, applyOp, awaitOp]
    split
    · exact jobs_addReactions k p none _ _
    · exact same _ rfl rfl
  | asyncDone ar =>
    simp only [BOp.toK, applyOp, asyncDone]
    split <;> exact same _ rfl rfl

/-- Code running inside an outermost call or a job only APPENDS to the list of not yet started jobs and starts none. -/
theorem bodyReach_mono {k0 k : K} (h : BodyReach k0 k) : (∃ js, k.jobs = k0.jobs ++ js) ∧ k.ran = k0.ran := by
  induction h with
  | refl => exact ⟨⟨[], by simp⟩, rfl⟩
  | step o _ ih =>
    obtain ⟨⟨js, h1⟩, h2⟩ := ih
    obtain ⟨⟨js2, h3⟩, h4⟩ := jobs_applyB o _
    exact ⟨⟨js ++ js2, by rw [h3, h1, List.append_assoc]⟩, by rw [h4, h2]⟩

theorem popJob_cons (k : K) (j : Job) (rest : List Job) (hj : k.jobs = j :: rest) :
    (popJob k).jobs = rest ∧ (popJob k).ran = k.ran ++ [j] := by
  unfold popJob
  rw [hj]
  simp only []
  unfold popJobQ
  rw [hj]
  cases j <;> exact ⟨rfl, rfl⟩

end GojaModel.C10
