/-
  C10 — property theorems.  Every theorem here is one audited proof obligation.

  `Reach k` = k is reachable from the initial kernel state of a fresh Runtime by ANY finite sequence
  of kernel ops with ANY parameters (Model.lean).  This over-approximates every program: user code can
  only create capabilities, call resolving functions (any number of times, any value, any time), attach
  reactions, and return to the drain loop.  The executable interpreter (Interp.lean) carries its kernel
  state in `{k // Reach k}`, so all of this holds for every state the model driver visits.
-/
import GojaModel.C10.LemmasQ
import GojaModel.C10.LemmasTr
import GojaModel.C10.LemmasR
import GojaModel.C10.LemmasA
import GojaModel.C10.LemmasC
import GojaModel.C10.Interp

namespace GojaModel.C10

def applyOps (ops : List KOp) (k : K) : K := ops.foldl (fun k o => applyOp o k) k

theorem reach_applyOps {k : K} (h : Reach k) (ops : List KOp) : Reach (applyOps ops k) := by
  induction ops generalizing k with
  | nil => exact h
  | cons o os ih => exact ih (Reach.step o h)

/-! ## The drain loop -/

/-- Runtime.leave() (nested loops over two buffers, jobs may enqueue jobs, a job may abort) computes exactly
what ONE FIFO queue computes, for every job behaviour: same final state, same jobs run in the same order,
same abort status; one terminates iff the other does. -/
theorem drain_double_buffer_eq_fifo {σ J : Type} (run : JobQueue.Run σ J) (s : σ) (ran q : List J)
    (out : JobQueue.Out σ J) :
    (∃ n, JobQueue.leave run n s ran q = some out) ↔ (∃ m, JobQueue.fifo run m s ran q = some out) :=
  ⟨fun ⟨n, h⟩ => JobQueue.leave_imp_fifo run n s ran q out h,
   fun ⟨m, h⟩ => JobQueue.fifo_imp_leave run m s ran q out h⟩

/-- Whenever leave() returns (normally or by an interrupt) nothing is left queued. -/
theorem leave_leaves_nothing {σ J : Type} (run : JobQueue.Run σ J) :
    ∀ (n : Nat) (s : σ) (ran q : List J) (out : JobQueue.Out σ J),
      JobQueue.leave run n s ran q = some out → out.left = [] := by
  intro n
  induction n with
  | zero => intro s ran q out h; simp only [JobQueue.leave] at h; split at h <;> simp at h; rw [← h]
  | succ n ih =>
    intro s ran q out h
    simp only [JobQueue.leave] at h
    split at h
    · simp at h; rw [← h]
    · split at h
      · simp at h; rw [← h]
      · exact ih _ _ _ _ h

/-! ## FIFO discipline of the kernel -/

/-- Jobs started ++ jobs not yet started = jobs enqueued (and not discarded by an interrupt), in enqueue order:
nothing skipped, nothing reordered, nothing invented. -/
theorem ran_is_prefix_of_enqueued {k : K} (h : Reach k) : k.ran ++ k.jobs = k.enq :=
  (qinv_reach h).fifo

theorem ran_prefix {k : K} (h : Reach k) : k.ran <+: k.enq :=
  ⟨k.jobs, ran_is_prefix_of_enqueued h⟩

/-- Step-wise simulation of the spec scheduler: the job the mechanism starts next (head of `jobs`) is the OLDEST
enqueued job that has not been started — exactly the choice of the specification's single FIFO queue. -/
theorem popJob_starts_oldest {k : K} (h : Reach k) (j : Job) (rest : List Job) (hj : k.jobs = j :: rest) :
    (k.enq.drop k.ran.length).head? = some j ∧ (popJob k).ran = k.ran ++ [j] := by
  constructor
  · rw [← ran_is_prefix_of_enqueued h, hj]; simp
  · unfold popJob; rw [hj]; cases j <;> rfl

/-- Every job is started at most once (serials of started jobs are pairwise distinct). -/
theorem job_runs_at_most_once {k : K} (h : Reach k) : (k.ran.map Job.sid).Nodup := by
  have hq := qinv_reach h
  have h1 := hq.sids.1
  rw [← hq.fifo, List.map_append, List.pairwise_append] at h1
  exact h1.1.imp (fun hlt => Nat.ne_of_lt hlt)

/-- When the drain loop finds no job left (the only way leave() returns normally), every job enqueued
has been started: exactly once, by `job_runs_at_most_once`. -/
theorem queue_empty_on_normal_return {k : K} (h : Reach k) (hq : k.jobs = []) : k.ran = k.enq := by
  have := ran_is_prefix_of_enqueued h
  rw [hq] at this
  simpa using this

/-- The interpreter's drain (mechanism, with the batch counter) returns "not aborted" only with no job left. -/
theorem drain_normal_return_empty (prog : Prog) : ∀ (n c : Nat) (st st' : St),
    drainS prog n c st = (false, st') → st'.rk.val.jobs = [] := by
  intro n
  induction n with
  | zero => intro c st st' h; simp [drainS] at h
  | succ n ih =>
    intro c st st' h
    simp only [drainS] at h
    split at h
    · rename_i hq
      simp only [Prod.mk.injEq, true_and] at h
      rw [← h]
      exact List.isEmpty_iff.mp hq
    · split at h
      · simp at h
      · exact ih _ _ _ h

/-- WHOLE-PROGRAM REFINEMENT, drain loop: the mechanism-level drain of the interpreter (Runtime.leave() with its
batch counter = double buffer) and the specification drain (one FIFO queue, oldest job first) are the same function
of the interpreter state, for every program, every fuel and every batch counter — same jobs run in the same order
from the same states, same abort behaviour, same final state (event log, tracker log, promise table, …). -/
theorem drain_mech_eq_spec (prog : Prog) : ∀ (n c : Nat) (st : St), drainS prog n c st = drainF prog n st := by
  intro n
  induction n with
  | zero => intro c st; rfl
  | succ n ih =>
    intro c st
    simp only [drainS, drainF]
    split
    · rfl
    · split
      · rfl
      · exact ih _ _

/-- WHOLE-PROGRAM REFINEMENT (trace equivalence): running any program — every outermost call (RunString, Go-side
resolve/reject) followed by its drain — with the mechanism-level drain loop yields exactly the result of running
it against the specification's single FIFO job queue: identical error kinds and identical final state, hence
identical global event log, tracker log, promise states/results and kernel logs. -/
theorem whole_program_mech_eq_spec (prog : Prog) (segs : List Seg) (st : St) :
    runSegsWith drain prog segs st = runSegsWith drainSpec prog segs st := by
  have : drain = drainSpec := by
    funext p n st
    exact drain_mech_eq_spec p n 0 st
  rw [this]

/-- leaveAbrupt: all queued jobs are discarded without starting anything; the discarded jobs leave the live log. -/
theorem interrupt_drops_queue (k : K) :
    (leaveAbrupt k).jobs = [] ∧ (leaveAbrupt k).ran = k.ran ∧
    (leaveAbrupt k).enq = k.ran := ⟨rfl, rfl, rfl⟩

/-- After an interrupt, whatever happens next, only jobs enqueued later are ever started: the jobs started before
the interrupt stay a prefix of the started log, and every job started afterwards carries a serial ≥ the serial
counter at the moment of the interrupt — whereas every discarded job has a serial below it. -/
theorem after_interrupt_only_new_jobs {k : K} (h : Reach k) (ops : List KOp) :
    let k' := applyOps ops (leaveAbrupt k)
    (∃ x, k'.ran = k.ran ++ x ∧ ∀ j ∈ x, k.nextSid ≤ j.sid) ∧
    (∀ j ∈ k.jobs, j.sid < k.nextSid) := by
  have hdrop : ∀ j ∈ k.jobs, j.sid < k.nextSid := by
    intro j hj
    have hq := qinv_reach h
    apply hq.sids.2
    rw [← hq.fifo]
    exact List.mem_map_of_mem (List.mem_append_right _ hj)
  refine ⟨?_, hdrop⟩
  have key : ∀ (ops : List KOp) (k1 : K), Reach k1 → After k.ran k.nextSid k1 →
      After k.ran k.nextSid (applyOps ops k1) ∧ Reach (applyOps ops k1) := by
    intro ops
    induction ops with
    | nil => intro k1 hr ha; exact ⟨ha, hr⟩
    | cons o os ih =>
      intro k1 hr ha
      exact ih _ (Reach.step o hr) (after_step (qinv_reach hr) ha (shape_applyOp k1 o))
  have h0 : After k.ran k.nextSid (leaveAbrupt k) :=
    ⟨⟨[], by simp [leaveAbrupt], by simp⟩, Nat.le_refl _, ⟨[], by simp [leaveAbrupt]⟩⟩
  obtain ⟨ha, hr⟩ := key ops _ (Reach.step .leaveAbrupt h) h0
  obtain ⟨l, hl, hlb⟩ := ha.later
  obtain ⟨x, hx⟩ := ha.pre
  refine ⟨x, hx, ?_⟩
  have hf := (qinv_reach hr).fifo
  rw [hx, hl, List.append_assoc] at hf
  have hl2 := List.append_cancel_left hf
  intro j hj
  apply hlb
  rw [← hl2]
  exact List.mem_append_left _ hj

/-! ## Settling -/

/-- Token invariant: per promise at most ONE live way to settle it (an unlatched resolving pair or a queued
thenable job that will create one); none once it is settled. -/
theorem token_invariant {k : K} (h : Reach k) (p : Nat) :
    live k p ≤ 1 ∧ ((k.getP p).state ≠ .pending → live k p = 0) :=
  ⟨(tinv_reach h).tok p, (tinv_reach h).settled p⟩

/-- Resolving functions that are still unlatched belong to a pending promise. -/
theorem unlatched_implies_pending {k : K} (h : Reach k) {l p : Nat} (hl : k.latches[l]? = some (p, false)) :
    (k.getP p).state = .pending :=
  (pending_of_unlatched (tinv_reach h) hl).1

/-- settle_once: once a promise is fulfilled or rejected, no sequence of operations whatsoever changes its
state or its result. -/
theorem settle_once {k : K} (h : Reach k) (p : Nat) (hp : (k.getP p).state ≠ .pending) (ops : List KOp) :
    ((applyOps ops k).getP p).state = (k.getP p).state ∧ ((applyOps ops k).getP p).result = (k.getP p).result := by
  induction ops generalizing k with
  | nil => exact ⟨rfl, rfl⟩
  | cons o os ih =>
    have hf := frozen_applyOp (tinv_reach h) o p hp
    have hp' : ((applyOp o k).getP p).state ≠ .pending := by rw [hf.1]; exact hp
    have := ih (Reach.step o h) hp'
    exact ⟨by rw [← hf.1]; exact this.1, by rw [← hf.2]; exact this.2⟩

/-- resolve_reject_idempotent: calling either function of a pair whose latch is set is a no-op. -/
theorem resolve_reject_idempotent (k : K) (l p : Nat) (hl : k.latches[l]? = some (p, true)) (v : Val)
    (look : ThenLook) : callResolve k l v look = k ∧ callReject k l v = k := by
  constructor
  · unfold callResolve; rw [hl]; simp
  · unfold callReject; rw [hl]; simp

/-- …and the first call of either function sets the shared latch. -/
theorem first_call_sets_latch (k : K) (l p : Nat) (b : Bool) (hl : k.latches[l]? = some (p, b)) (v : Val)
    (look : ThenLook) :
    (callResolve k l v look).latches[l]? = some (p, true) ∧ (callReject k l v).latches[l]? = some (p, true) := by
  have hlt : l < k.latches.length := (List.getElem?_eq_some_iff.mp hl).1
  cases b with
  | true => rw [(resolve_reject_idempotent k l p hl v look).1, (resolve_reject_idempotent k l p hl v look).2]; exact ⟨hl, hl⟩
  | false =>
    have hset : (k.latches.set l (p, true))[l]? = some (p, true) := by simp [hlt]
    constructor
    · unfold callResolve; rw [hl]
      simp only [Bool.false_eq_true, if_false]
      split
      · rw [(rejectP_frame _ _ _).2.1]; exact hset
      · split
        · rw [(rejectP_frame _ _ _).2.1]; exact hset
        · exact hset
        · rw [(fulfillP_frame _ _ _).2.1]; exact hset
    · unfold callReject; rw [hl]
      simp only [Bool.false_eq_true, if_false]
      rw [(rejectP_frame _ _ _).2.1]; exact hset

/-- A call of one of the two functions of a resolving pair. -/
inductive PairCall | res (v : Val) (look : ThenLook) | rej (v : Val)

def PairCall.op (l : Nat) : PairCall → KOp
  | .res v look => .callResolve l v look
  | .rej v => .callReject l v

/-- Promise.race (and every other place where ONE capability's functions are handed to many reactions,
builtin_promise.go:534): whichever element's reaction job runs first decides; every later call of the capability's
resolve or reject function — any number, any values — leaves the whole kernel state unchanged. -/
theorem race_first_call_wins (k : K) (l p : Nat) (b : Bool) (hl : k.latches[l]? = some (p, b))
    (first : PairCall) (later : List PairCall) :
    applyOps (later.map (PairCall.op l)) (applyOp (first.op l) k) = applyOp (first.op l) k := by
  have hset : (applyOp (first.op l) k).latches[l]? = some (p, true) := by
    cases first with
    | res v look => exact (first_call_sets_latch k l p b hl v look).1
    | rej v => exact (first_call_sets_latch k l p b hl v .notCallable).2
  generalize applyOp (first.op l) k = k1 at hset
  induction later with
  | nil => rfl
  | cons c cs ih =>
    simp only [List.map_cons, applyOps, List.foldl_cons]
    have : applyOp (c.op l) k1 = k1 := by
      cases c with
      | res v look => exact (resolve_reject_idempotent k1 l p hset v look).1
      | rej v => exact (resolve_reject_idempotent k1 l p hset v .notCallable).2
    rw [this]
    exact ih

/-! ## HostPromiseRejectionTracker protocol -/

/-- Per promise the tracker sees a prefix of [reject, handle]. -/
theorem tracker_reject_then_handle {k : K} (h : Reach k) (p : Nat) :
    trkL k.tracker p = [] ∨ trkL k.tracker p = [.reject] ∨ trkL k.tracker p = [.reject, .handle] := by
  have := (trinv_reach h).ok p
  cases hs : (k.getP p).state with
  | rejected =>
    cases hh : (k.getP p).handled with
    | false => exact Or.inr (Or.inl (this.2.1 hs hh))
    | true => rcases this.2.2 hs hh with x | x
              · exact Or.inl x
              · exact Or.inr (Or.inr x)
  | pending => exact Or.inl (this.1 (by rw [hs]; simp))
  | fulfilled => exact Or.inl (this.1 (by rw [hs]; simp))

/-- The tracker has heard of a promise only if it is rejected. -/
theorem tracker_only_rejected {k : K} (h : Reach k) (p : Nat) (ht : trkL k.tracker p ≠ []) :
    (k.getP p).state = .rejected := by
  false_or_by_contra
  rename_i hne
  exact ht (((trinv_reach h).ok p).1 hne)

/-- A promise that is rejected and has never had a reaction attached has been reported: exactly one "reject". -/
theorem tracker_reject_iff_unhandled {k : K} (h : Reach k) (p : Nat) (hs : (k.getP p).state = .rejected)
    (hh : (k.getP p).handled = false) : trkL k.tracker p = [.reject] :=
  ((trinv_reach h).ok p).2.1 hs hh

/-- "handle" is reported only for a promise that has a reaction attached, and only after "reject". -/
theorem tracker_handle_only_after_attach {k : K} (h : Reach k) (p : Nat) (hm : TrackOp.handle ∈ trkL k.tracker p) :
    (k.getP p).handled = true ∧ trkL k.tracker p = [.reject, .handle] := by
  have hs := tracker_only_rejected h p (by intro e; rw [e] at hm; simp at hm)
  cases hh : (k.getP p).handled with
  | false => have := ((trinv_reach h).ok p).2.1 hs hh; rw [this] at hm; simp at hm
  | true =>
    rcases ((trinv_reach h).ok p).2.2 hs hh with x | x
    · rw [x] at hm; simp at hm
    · exact ⟨rfl, x⟩

/-- Attaching a reaction to a rejected, so far unhandled promise reports "handle" at once. -/
theorem attach_to_unhandled_rejection_reports_handle {k : K} (h : Reach k) (p : Nat) (cap : Option Cap)
    (f g : Option Fn) (hs : (k.getP p).state = .rejected) (hh : (k.getP p).handled = false) :
    trkL (addReactions k p cap f g).tracker p = [.reject, .handle] := by
  have hr : Reach (addReactions k p cap f g) := Reach.step (.addReactions p cap f g) h
  have hlt : p < k.proms.length := lt_of_not_pending (by rw [hs]; simp)
  have hst := (frozen_applyOp (tinv_reach h) (.addReactions p cap f g) p (by rw [hs]; simp)).1
  simp only [applyOp] at hst
  have hhd : ((addReactions k p cap f g).getP p).handled = true := by
    unfold addReactions
    simp only [hlt, if_true]
    rw [(markHandled_getP _ p k.nextRid p).2.2]
    have := (addReactionsCore_frame { k with nextRid := k.nextRid + 1 } p
        { cap := cap, isFul := true, handler := f, rid := k.nextRid }
        { cap := cap, isFul := false, handler := g, rid := k.nextRid }).2.2.1
    simp [this, hlt]
  rcases ((trinv_reach hr).ok p).2.2 (by rw [hst]; exact hs) hhd with x | x
  · -- impossible: the old log [reject] is a prefix of the new one
    exfalso
    have hold := tracker_reject_iff_unhandled h p hs hh
    have : (addReactions k p cap f g).tracker = k.tracker ++ [(p, .handle)] := by
      unfold addReactions
      simp only [hlt, if_true]
      show (addReactionsCore _ p _ _).tracker = _
      rw [addReactionsCore_tracker]
      have e1 : (({ k with nextRid := k.nextRid + 1 } : K).getP p) = k.getP p := rfl
      simp [e1, hs, hh]
    rw [this, trkL_append, hold] at x
    simp at x
  · exact x

/-! ## Reactions -/

theorem countP_eq_one_of_sorted : ∀ (l : List Nat) (a : Nat), l.Pairwise (· < ·) → a ∈ l →
    l.countP (fun x => x == a) = 1 := by
  intro l
  induction l with
  | nil => intro a _ h; simp at h
  | cons x xs ih =>
    intro a hp hm
    rw [List.pairwise_cons] at hp
    by_cases e : x = a
    · subst e
      have : xs.countP (fun y => y == x) = 0 := by
        rw [List.countP_eq_zero]
        intro y hy
        have := hp.1 y hy
        simp; omega
      simp [this]
    · have hm' : a ∈ xs := by
        rcases List.mem_cons.mp hm with h | h
        · exact absurd h.symm e
        · exact h
      simp [e, ih a hp.2 hm']

/-- reaction_enqueued_iff_settled_exactly_once (one trace statement, every reachable state).
For every promise `p`, the reaction jobs EVER enqueued on its behalf are, in enqueue order, exactly:
nothing while `p` is pending; once `p` is settled, one job per attachment (`then`/await/…), in attachment order, of the
kind matching the settlement (fulfil-type iff fulfilled) and carrying `p`'s result.  Attachment ids are pairwise
distinct, so each attachment has exactly one job iff `p` is settled and none otherwise — never both members of a pair,
never twice.  (That each enqueued job then runs at most once, in order, and has run when the queue is found empty is
`ran_is_prefix_of_enqueued` / `job_runs_at_most_once` / `queue_empty_on_normal_return`.) -/
theorem reaction_enqueued_iff_settled_exactly_once {k : K} (h : Reach k) (p : Nat) :
    rlog p k.enqEver = expectedLog (k.getP p) ∧
    (k.getP p).attached.Pairwise (· < ·) ∧
    (∀ rid ∈ (k.getP p).attached,
        (rlog p k.enqEver).countP (fun e => e.1 == rid) = if (k.getP p).state = .pending then 0 else 1) := by
  have he := einv_reach h p
  have ha := (ainv_reach h p).1
  refine ⟨he, ha, ?_⟩
  intro rid hr
  rw [he]
  unfold expectedLog
  cases hs : (k.getP p).state with
  | pending => simp
  | fulfilled =>
    simp only [List.countP_map]
    have := countP_eq_one_of_sorted _ rid ha hr
    simpa [Function.comp_def] using this
  | rejected =>
    simp only [List.countP_map]
    have := countP_eq_one_of_sorted _ rid ha hr
    simpa [Function.comp_def] using this

/-- An await (or any other attachment) is resumed through at most one of its two handlers, at most once: the log never
contains two jobs for one attachment. -/
theorem attachment_fires_at_most_one_job {k : K} (h : Reach k) (p rid : Nat) (hr : rid ∈ (k.getP p).attached) :
    (rlog p k.enqEver).countP (fun e => e.1 == rid) ≤ 1 := by
  rw [(reaction_enqueued_iff_settled_exactly_once h p).2.2 rid hr]
  split <;> omega

/-- While a promise is pending its fulfil list and its reject list hold exactly the attached pairs — once each, in
attachment order, in lock-step, with the right types; once it is settled nothing is stored any more. -/
theorem stored_reactions_while_pending {k : K} (h : Reach k) (p : Nat) : RecOk (k.getP p) := rinv_reach h p

/-- Settlement hands exactly the stored reactions of the matching kind to the job queue: one job per stored
reaction, in order, each carrying that reaction and the settlement value. -/
theorem settlement_enqueues_stored_reactions_once (k : K) (p : Nat) (v : Val) :
    (rejectP k p v).enqEver = k.enqEver ++ trigJobs k.nextSid p (k.getP p).rejR v ∧
    (fulfillP k p v).enqEver = k.enqEver ++ trigJobs k.nextSid p (k.getP p).fulR v ∧
    (∀ (rs : List Reaction) (sid : Nat), (trigJobs sid p rs v).filterMap Job.reaction? = rs) :=
  ⟨rejectP_enqEver k p v, fulfillP_enqEver k p v, fun rs sid => trigJobs_reactions p v rs sid⟩

/-- Attaching to a settled promise enqueues exactly one job, of the matching kind, with the promise's result;
attaching to a pending promise enqueues nothing. -/
theorem late_attach_enqueues_one_job (k : K) (p : Nat) (cap : Option Cap) (f g : Option Fn) :
    ((k.getP p).state = .fulfilled → (addReactions k p cap f g).enqEver =
        k.enqEver ++ [Job.reaction k.nextSid p { cap := cap, isFul := true, handler := f, rid := k.nextRid } (k.getP p).result]) ∧
    ((k.getP p).state = .rejected → (addReactions k p cap f g).enqEver =
        k.enqEver ++ [Job.reaction k.nextSid p { cap := cap, isFul := false, handler := g, rid := k.nextRid } (k.getP p).result]) ∧
    ((k.getP p).state = .pending → (addReactions k p cap f g).enqEver = k.enqEver) :=
  addReactions_enqEver k p cap f g

/-! ## Combinators: Promise.all / allSettled / any (remainingElementsCount protocol) -/

/-- In every reachable bookkeeping record: remainingElementsCount = (1 while iterating) + number of elements whose
function has not fired; `values` has one slot per element. -/
theorem comb_remaining_protocol {c : CombRec} (h : CReach c) :
    c.remaining = (if c.iterating then 1 else 0) + (openCells c : Int) ∧ c.values.length = c.cells.length :=
  ⟨(cinv_reach h).count, (cinv_reach h).len⟩

/-- The aggregate capability is resolved/rejected by the counter at most once, and exactly when the iteration is
over and every element function has fired. -/
theorem comb_fires_once_iff_complete {c : CombRec} (h : CReach c) :
    c.fires ≤ 1 ∧ (c.fires = 1 ↔ (c.iterating = false ∧ openCells c = 0)) := by
  have := (cinv_reach h).fires
  constructor
  · rw [this]; split <;> omega
  · rw [this]; split <;> simp_all

/-- Each element's function takes effect at most once: a second call changes nothing and fires nothing. -/
theorem comb_elem_at_most_once (c : CombRec) (idx : Nat) (v : Val) (h : c.cells[idx]? = some true) :
    c.elemCall idx v = (c, false) := by
  unfold CombRec.elemCall; rw [h]

/-- …and the first call marks the element. -/
theorem comb_elem_first_call_marks (c : CombRec) (idx : Nat) (v : Val) (h : c.cells[idx]? = some false) :
    (c.elemCall idx v).1.cells[idx]? = some true ∧ (c.elemCall idx v).1.values = c.values.set idx v := by
  have hlt : idx < c.cells.length := (List.getElem?_eq_some_iff.mp h).1
  unfold CombRec.elemCall CombRec.dec
  rw [h]
  simp only []
  split <;> simp [hlt]

/-- Once an element has fired, no operation changes its slot of `values` or un-marks it. -/
theorem comb_value_written_once {c : CombRec} (hc : CReach c) (idx : Nat) (h : c.cells[idx]? = some true) (op : COp) :
    (applyC op c).cells[idx]? = some true ∧ (applyC op c).values[idx]? = c.values[idx]? := by
  have hlt : idx < c.cells.length := (List.getElem?_eq_some_iff.mp h).1
  have hlv : idx < c.values.length := by rw [(cinv_reach hc).len]; exact hlt
  cases op with
  | addElem =>
    simp only [applyC, CombRec.addElem]
    split
    · simp [List.getElem?_append_left hlt, List.getElem?_append_left hlv, h]
    · exact ⟨h, rfl⟩
  | finish =>
    simp only [applyC, CombRec.finish, CombRec.dec]
    split
    · split <;> exact ⟨h, rfl⟩
    · exact ⟨h, rfl⟩
  | elemCall j v =>
    simp only [applyC, CombRec.elemCall, CombRec.dec]
    split
    · exact ⟨h, rfl⟩
    · exact ⟨h, rfl⟩
    · rename_i hj
      have hne : j ≠ idx := by intro e; subst e; rw [h] at hj; simp at hj
      split <;> simp [hne, h]

/-! ## The executable model never leaves the invariants -/

/-- Every state of the interpreter satisfies all kernel invariants (by typing: `St.rk : {k // Reach k}`). -/
theorem interpreter_state_invariants (st : St) :
    QInv st.rk.val ∧ TInv st.rk.val ∧ TrInv st.rk.val ∧ RInv st.rk.val ∧ EInv st.rk.val ∧ AInv st.rk.val ∧
    (∀ cb ∈ st.combs, CInv cb.crec.val) :=
  ⟨qinv_reach st.rk.property, tinv_reach st.rk.property, trinv_reach st.rk.property, rinv_reach st.rk.property,
   einv_reach st.rk.property, ainv_reach st.rk.property, fun cb _ => cinv_reach cb.crec.property⟩

/-! ## Non-vacuity (tests on literals, not proofs of the property) -/

/-- test: a reachable state with a rejected unhandled promise, then handled; two jobs run in order. -/
example :
    let k := applyOps [.newCap, .callReject 0 (.num 1), .addReactions 0 none none none, .popJob] {}
    Reach k ∧ k.ran.length = 1 ∧ k.jobs.length = 0 ∧ trkL k.tracker 0 = [.reject, .handle] ∧
    (k.getP 0).state = .rejected :=
  ⟨reach_applyOps .init _, by decide, by decide, by decide, by decide⟩

/-- test: resolving with a thenable keeps the promise pending with exactly one live token. -/
example :
    let k := applyOps [.newCap, .callResolve 0 (.thenable 0) (.callable (.thenableThen 0)), .callResolve 0 (.num 2) .notCallable] {}
    (k.getP 0).state = .pending ∧ live k 0 = 1 ∧ k.jobs.length = 1 :=
  ⟨by decide, by decide, by decide⟩

end GojaModel.C10
