/-
  C10 — property theorems.  Every theorem here is one audited proof obligation.

  `Reach k` = k is reachable from the initial kernel state of a fresh Runtime by ANY finite sequence
  of kernel ops with ANY parameters (Model.lean).  This over-approximates every program: user code can
  only create capabilities, call resolving functions (any number of times, any value, any time), attach
  reactions, and return to the drain loop.  The executable interpreter (Interp.lean) carries its kernel
  state in `{k // Reach k}`, so all of this holds for every state the model driver visits.
-/
import GojaModel.C10.LemmasQ
import GojaModel.C10.LemmasTr
import GojaModel.C10.LemmasR
import GojaModel.C10.LemmasA
import GojaModel.C10.LemmasC
import GojaModel.C10.LemmasAw
import GojaModel.C10.LemmasFin
import GojaModel.C10.Interp

namespace GojaModel.C10

def applyOps (ops : List KOp) (k : K) : K := ops.foldl (fun k o => applyOp o k) k

theorem reach_applyOps {k : K} (h : Reach k) (ops : List KOp) : Reach (applyOps ops k) := by
  induction ops generalizing k with
  | nil => exact h
  | cons o os ih => exact ih (Reach.step o h)

/-! ## The drain loop -/

/-- Runtime.leave() (nested loops over two buffers, jobs may enqueue jobs, a job may abort) computes exactly
what ONE FIFO queue computes, for every job behaviour: same final state, same jobs run in the same order,
same abort status; one terminates iff the other does. -/
theorem drain_double_buffer_eq_fifo {σ J : Type} (run : JobQueue.Run σ J) (s : σ) (ran q : List J)
    (out : JobQueue.Out σ J) :
    (∃ n, JobQueue.leave run n s ran q = some out) ↔ (∃ m, JobQueue.fifo run m s ran q = some out) :=
  ⟨fun ⟨n, h⟩ => JobQueue.leave_imp_fifo run n s ran q out h,
   fun ⟨m, h⟩ => JobQueue.fifo_imp_leave run m s ran q out h⟩

/-- Whenever leave() returns (normally or by an interrupt) nothing is left queued. -/
theorem leave_leaves_nothing {σ J : Type} (run : JobQueue.Run σ J) :
    ∀ (n : Nat) (s : σ) (ran q : List J) (out : JobQueue.Out σ J),
      JobQueue.leave run n s ran q = some out → out.left = [] := by
  intro n
  induction n with
  | zero => intro s ran q out h; simp only [JobQueue.leave] at h; split at h <;> simp at h; rw [← h]
  | succ n ih =>
    intro s ran q out h
    simp only [JobQueue.leave] at h
    split at h
    · simp at h; rw [← h]
    · split at h
      · simp at h; rw [← h]
      · exact ih _ _ _ _ h

/-! ## FIFO discipline of the kernel -/

/-- Jobs started ++ jobs not yet started = jobs enqueued (and not discarded by an interrupt), in enqueue order:
nothing skipped, nothing reordered, nothing invented. -/
theorem ran_is_prefix_of_enqueued {k : K} (h : Reach k) : k.ran ++ k.jobs = k.enq :=
  (qinv_reach h).fifo

theorem ran_prefix {k : K} (h : Reach k) : k.ran <+: k.enq :=
  ⟨k.jobs, ran_is_prefix_of_enqueued h⟩

/-- Step-wise simulation of the spec scheduler: the job the mechanism starts next (head of `jobs`) is the OLDEST
enqueued job that has not been started — exactly the choice of the specification's single FIFO queue. -/
theorem popJob_starts_oldest {k : K} (h : Reach k) (j : Job) (rest : List Job) (hj : k.jobs = j :: rest) :
    (k.enq.drop k.ran.length).head? = some j ∧ (popJob k).ran = k.ran ++ [j] := by
  constructor
  · rw [← ran_is_prefix_of_enqueued h, hj]; simp
  · exact (popJob_cons k j rest hj).2

/-- Every job is started at most once (serials of started jobs are pairwise distinct). -/
theorem job_runs_at_most_once {k : K} (h : Reach k) : (k.ran.map Job.sid).Nodup := by
  have hq := qinv_reach h
  have h1 := hq.sids.1
  rw [← hq.fifo, List.map_append, List.pairwise_append] at h1
  exact h1.1.imp (fun hlt => Nat.ne_of_lt hlt)

/-- When the drain loop finds no job left (the only way leave() returns normally), every job enqueued
has been started: exactly once, by `job_runs_at_most_once`. -/
theorem queue_empty_on_normal_return {k : K} (h : Reach k) (hq : k.jobs = []) : k.ran = k.enq := by
  have := ran_is_prefix_of_enqueued h
  rw [hq] at this
  simpa using this

/-- The interpreter's drain (mechanism, with the batch counter) returns "not aborted" only with no job left. -/
theorem drain_normal_return_empty (prog : Prog) : ∀ (n c : Nat) (u u' : StU),
    drainS prog n c u = (false, u') → u'.k.jobs = [] := by
  intro n
  induction n with
  | zero => intro c u u' h; simp [drainS] at h
  | succ n ih =>
    intro c u u' h
    simp only [drainS] at h
    split at h
    · rename_i hq
      simp only [Prod.mk.injEq, true_and] at h
      rw [← h]
      exact List.isEmpty_iff.mp hq.2
    · split at h
      · simp at h
      · exact ih _ _ _ h

/-- A job body is body code: by typing (`St k0` carries `BodyReach k0`), running the oldest job removes exactly that
job from the front of the job list and otherwise only appends to it. -/
theorem runJob_only_appends (prog : Prog) (fuel : Nat) (u : StU) (j : Job) (rest : List Job)
    (hj : u.k.jobs = j :: rest) : ∃ new, (runJob prog fuel u).2.k.jobs = rest ++ new := by
  unfold runJob
  split
  · rename_i h; rw [hj] at h; cases h
  · rename_i j' rest' h
    rw [hj] at h
    cases h
    simp only []
    have hb := (bodyReach_mono
      ((jobBody prog fuel j u.k.latches.length).run (u.sched .popJob).st).2.rk.property.2).1
    obtain ⟨js, hjs⟩ := hb
    refine ⟨js, ?_⟩
    show ((jobBody prog fuel j u.k.latches.length).run (u.sched .popJob).st).2.rk.val.jobs = rest ++ js
    rw [hjs]
    have : (popJob u.k).jobs = rest := (popJob_cons u.k j rest hj).1
    show (applyOp .popJob u.k).jobs ++ js = rest ++ js
    simp only [applyOp]
    rw [this]

/-- WHOLE-PROGRAM REFINEMENT, drain loop.  The mechanism (Runtime.leave(): the loop may END only between batches, inside
a batch it starts the next job without looking at the queue) and the specification (one FIFO queue, "while not empty run
the oldest job") are the same function of the interpreter state whenever the batch counter does not exceed the number of
queued jobs — in particular at every entry of leave() (counter 0): same jobs run in the same order from the same states,
same abort behaviour, same final state.  The proof needs that job bodies only append to the job list
(`runJob_only_appends`), which is exactly why the double buffer is sound. -/
theorem drain_mech_eq_spec (prog : Prog) : ∀ (n c : Nat) (u : StU), c ≤ u.k.jobs.length →
    drainS prog n c u = drainF prog n u := by
  intro n
  induction n with
  | zero => intro c u _; rfl
  | succ n ih =>
    intro c u hc
    simp only [drainS, drainF]
    cases hjobs : u.k.jobs with
    | nil =>
      have : c = 0 := by rw [hjobs] at hc; simpa using hc
      simp [this]
    | cons j rest =>
      obtain ⟨new, hnew⟩ := runJob_only_appends prog 100000 u j rest hjobs
      simp only [List.isEmpty_cons, and_false, Bool.false_eq_true, if_false]
      rcases hr : runJob prog 100000 u with ⟨ab, u1⟩
      rw [hr] at hnew
      cases ab with
      | true => rfl
      | false =>
        simp only []
        apply ih
        simp only [] at hnew
        rw [hnew, List.length_append]
        rw [hjobs] at hc
        simp only [List.length_cons] at hc ⊢
        split <;> omega

/-- WHOLE-PROGRAM REFINEMENT (trace equivalence): running any program — every outermost call (RunString, Go-side
resolve/reject) followed by its drain — with the mechanism-level drain loop yields exactly the result of running
it against the specification's single FIFO job queue: identical error kinds and identical final state, hence
identical global event log, tracker log, promise states/results and kernel logs. -/
theorem whole_program_mech_eq_spec (prog : Prog) (segs : List Seg) (u : StU) :
    runSegsWith drain prog segs u = runSegsWith drainF prog segs u := by
  have : drain = drainF := by
    funext p n u
    exact drain_mech_eq_spec p n 0 u (Nat.zero_le _)
  rw [this]

/-- leaveAbrupt: all queued jobs are discarded without starting anything; the discarded jobs leave the live log. -/
theorem interrupt_drops_queue (k : K) :
    (leaveAbrupt k).jobs = [] ∧ (leaveAbrupt k).ran = k.ran ∧
    (leaveAbrupt k).enq = k.ran := ⟨rfl, rfl, rfl⟩

/-- After an interrupt, whatever happens next, only jobs enqueued later are ever started: the jobs started before
the interrupt stay a prefix of the started log, and every job started afterwards carries a serial ≥ the serial
counter at the moment of the interrupt — whereas every discarded job has a serial below it. -/
theorem after_interrupt_only_new_jobs {k : K} (h : Reach k) (ops : List KOp) :
    let k' := applyOps ops (leaveAbrupt k)
    (∃ x, k'.ran = k.ran ++ x ∧ ∀ j ∈ x, k.nextSid ≤ j.sid) ∧
    (∀ j ∈ k.jobs, j.sid < k.nextSid) := by
  have hdrop : ∀ j ∈ k.jobs, j.sid < k.nextSid := by
    intro j hj
    have hq := qinv_reach h
    apply hq.sids.2
    rw [← hq.fifo]
    exact List.mem_map_of_mem (List.mem_append_right _ hj)
  refine ⟨?_, hdrop⟩
  have key : ∀ (ops : List KOp) (k1 : K), Reach k1 → After k.ran k.nextSid k1 →
      After k.ran k.nextSid (applyOps ops k1) ∧ Reach (applyOps ops k1) := by
    intro ops
    induction ops with
    | nil => intro k1 hr ha; exact ⟨ha, hr⟩
    | cons o os ih =>
      intro k1 hr ha
      exact ih _ (Reach.step o hr) (after_step (qinv_reach hr) ha (shape_applyOp k1 o))
  have h0 : After k.ran k.nextSid (leaveAbrupt k) :=
    ⟨⟨[], by simp [leaveAbrupt], by simp⟩, Nat.le_refl _, ⟨[], by simp [leaveAbrupt]⟩⟩
  obtain ⟨ha, hr⟩ := key ops _ (Reach.step .leaveAbrupt h) h0
  obtain ⟨l, hl, hlb⟩ := ha.later
  obtain ⟨x, hx⟩ := ha.pre
  refine ⟨x, hx, ?_⟩
  have hf := (qinv_reach hr).fifo
  rw [hx, hl, List.append_assoc] at hf
  have hl2 := List.append_cancel_left hf
  intro j hj
  apply hlb
  rw [← hl2]
  exact List.mem_append_left _ hj

/-! ## Settling -/

/-- Token invariant: per promise at most ONE live way to settle it (an unlatched resolving pair or a queued
thenable job that will create one); none once it is settled. -/
theorem token_invariant {k : K} (h : Reach k) (p : Nat) :
    live k p ≤ 1 ∧ ((k.getP p).state ≠ .pending → live k p = 0) :=
  ⟨(tinv_reach h).tok p, (tinv_reach h).settled p⟩

/-- Resolving functions that are still unlatched belong to a pending promise. -/
theorem unlatched_implies_pending {k : K} (h : Reach k) {l p : Nat} (hl : k.latches[l]? = some (p, false)) :
    (k.getP p).state = .pending :=
  (pending_of_unlatched (tinv_reach h) hl).1

/-- settle_once: once a promise is fulfilled or rejected, no sequence of operations whatsoever changes its
state or its result. -/
theorem settle_once {k : K} (h : Reach k) (p : Nat) (hp : (k.getP p).state ≠ .pending) (ops : List KOp) :
    ((applyOps ops k).getP p).state = (k.getP p).state ∧ ((applyOps ops k).getP p).result = (k.getP p).result := by
  induction ops generalizing k with
  | nil => exact ⟨rfl, rfl⟩
  | cons o os ih =>
    have hf := frozen_applyOp (tinv_reach h) o p hp
    have hp' : ((applyOp o k).getP p).state ≠ .pending := by rw [hf.1]; exact hp
    have := ih (Reach.step o h) hp'
    exact ⟨by rw [← hf.1]; exact this.1, by rw [← hf.2]; exact this.2⟩

/-- resolve_reject_idempotent: calling either function of a pair whose latch is set is a no-op. -/
theorem resolve_reject_idempotent (k : K) (l p : Nat) (hl : k.latches[l]? = some (p, true)) (v : Val)
    (look : ThenLook) : callResolve k l v look = k ∧ callReject k l v = k := by
  constructor
  · unfold callResolve; rw [hl]; simp
  · unfold callReject; rw [hl]; simp

/-- …and the first call of either function sets the shared latch. -/
theorem first_call_sets_latch (k : K) (l p : Nat) (b : Bool) (hl : k.latches[l]? = some (p, b)) (v : Val)
    (look : ThenLook) :
    (callResolve k l v look).latches[l]? = some (p, true) ∧ (callReject k l v).latches[l]? = some (p, true) := by
  have hlt : l < k.latches.length := (List.getElem?_eq_some_iff.mp hl).1
  cases b with
  | true => rw [(resolve_reject_idempotent k l p hl v look).1, (resolve_reject_idempotent k l p hl v look).2]; exact ⟨hl, hl⟩
  | false =>
    have hset : (k.latches.set l (p, true))[l]? = some (p, true) := by simp [hlt]
    constructor
    · unfold callResolve; rw [hl]
      simp only [Bool.false_eq_true, if_false]
      split
      · rw [(rejectP_frame _ _ _).2.1]; exact hset
      · split
        · rw [(rejectP_frame _ _ _).2.1]; exact hset
        · exact hset
        · rw [(fulfillP_frame _ _ _).2.1]; exact hset
    · unfold callReject; rw [hl]
      simp only [Bool.false_eq_true, if_false]
      rw [(rejectP_frame _ _ _).2.1]; exact hset

/-- A call of one of the two functions of a resolving pair. -/
inductive PairCall | res (v : Val) (look : ThenLook) | rej (v : Val)

def PairCall.op (l : Nat) : PairCall → KOp
  | .res v look => .callResolve l v look
  | .rej v => .callReject l v

/-- Promise.race (and every other place where ONE capability's functions are handed to many reactions,
builtin_promise.go:534): whichever element's reaction job runs first decides; every later call of the capability's
resolve or reject function — any number, any values — leaves the whole kernel state unchanged. -/
theorem race_first_call_wins (k : K) (l p : Nat) (b : Bool) (hl : k.latches[l]? = some (p, b))
    (first : PairCall) (later : List PairCall) :
    applyOps (later.map (PairCall.op l)) (applyOp (first.op l) k) = applyOp (first.op l) k := by
  have hset : (applyOp (first.op l) k).latches[l]? = some (p, true) := by
    cases first with
    | res v look => exact (first_call_sets_latch k l p b hl v look).1
    | rej v => exact (first_call_sets_latch k l p b hl v .notCallable).2
  generalize applyOp (first.op l) k = k1 at hset
  induction later with
  | nil => rfl
  | cons c cs ih =>
    simp only [List.map_cons, applyOps, List.foldl_cons]
    have : applyOp (c.op l) k1 = k1 := by
      cases c with
      | res v look => exact (resolve_reject_idempotent k1 l p hset v look).1
      | rej v => exact (resolve_reject_idempotent k1 l p hset v .notCallable).2
    rw [this]
    exact ih

/-! ## HostPromiseRejectionTracker protocol -/

/-- Per promise the tracker sees a prefix of [reject, handle]. -/
theorem tracker_reject_then_handle {k : K} (h : Reach k) (p : Nat) :
    trkL k.tracker p = [] ∨ trkL k.tracker p = [.reject] ∨ trkL k.tracker p = [.reject, .handle] := by
  have := (trinv_reach h).ok p
  cases hs : (k.getP p).state with
  | rejected =>
    cases hh : (k.getP p).handled with
    | false => exact Or.inr (Or.inl (this.2.1 hs hh))
    | true => rcases this.2.2 hs hh with x | x
              · exact Or.inl x
              · exact Or.inr (Or.inr x)
  | pending => exact Or.inl (this.1 (by rw [hs]; simp))
  | fulfilled => exact Or.inl (this.1 (by rw [hs]; simp))

/-- The tracker has heard of a promise only if it is rejected. -/
theorem tracker_only_rejected {k : K} (h : Reach k) (p : Nat) (ht : trkL k.tracker p ≠ []) :
    (k.getP p).state = .rejected := by
  false_or_by_contra
  rename_i hne
  exact ht (((trinv_reach h).ok p).1 hne)

/-- A promise that is rejected and has never had a reaction attached has been reported: exactly one "reject". -/
theorem tracker_reject_iff_unhandled {k : K} (h : Reach k) (p : Nat) (hs : (k.getP p).state = .rejected)
    (hh : (k.getP p).handled = false) : trkL k.tracker p = [.reject] :=
  ((trinv_reach h).ok p).2.1 hs hh

/-- "handle" is reported only for a promise that has a reaction attached, and only after "reject". -/
theorem tracker_handle_only_after_attach {k : K} (h : Reach k) (p : Nat) (hm : TrackOp.handle ∈ trkL k.tracker p) :
    (k.getP p).handled = true ∧ trkL k.tracker p = [.reject, .handle] := by
  have hs := tracker_only_rejected h p (by intro e; rw [e] at hm; simp at hm)
  cases hh : (k.getP p).handled with
  | false => have := ((trinv_reach h).ok p).2.1 hs hh; rw [this] at hm; simp at hm
  | true =>
    rcases ((trinv_reach h).ok p).2.2 hs hh with x | x
    · rw [x] at hm; simp at hm
    · exact ⟨rfl, x⟩

/-- Attaching a reaction to a rejected, so far unhandled promise reports "handle" at once. -/
theorem attach_to_unhandled_rejection_reports_handle {k : K} (h : Reach k) (p : Nat) (cap : Option Cap)
    (f g : Option Fn) (hs : (k.getP p).state = .rejected) (hh : (k.getP p).handled = false) :
    trkL (addReactions k p cap f g).tracker p = [.reject, .handle] := by
  have htr : TrInv (addReactions k p cap f g) := trinv_addReactions (trinv_reach h) p cap f g
  have hlt : p < k.proms.length := lt_of_not_pending (by rw [hs]; simp)
  have hst := (frozen_addReactions k p cap f g p).1
  have hhd : ((addReactions k p cap f g).getP p).handled = true := by
    unfold addReactions
    simp only [hlt, if_true]
    rw [(markHandled_getP _ p k.nextRid p).2.2]
    have := (addReactionsCore_frame { k with nextRid := k.nextRid + 1 } p
        { cap := cap, isFul := true, handler := f, rid := k.nextRid }
        { cap := cap, isFul := false, handler := g, rid := k.nextRid }).2.2.1
    simp [this, hlt]
  rcases (htr.ok p).2.2 (by rw [hst]; exact hs) hhd with x | x
  · -- impossible: the old log [reject] is a prefix of the new one
    exfalso
    have hold := tracker_reject_iff_unhandled h p hs hh
    have : (addReactions k p cap f g).tracker = k.tracker ++ [(p, .handle)] := by
      unfold addReactions
      simp only [hlt, if_true]
      show (addReactionsCore _ p _ _).tracker = _
      rw [addReactionsCore_tracker]
      have e1 : (({ k with nextRid := k.nextRid + 1 } : K).getP p) = k.getP p := rfl
      simp [e1, hs, hh]
    rw [this, trkL_append, hold] at x
    simp at x
  · exact x

/-! ## Reactions -/

theorem countP_eq_one_of_sorted : ∀ (l : List Nat) (a : Nat), l.Pairwise (· < ·) → a ∈ l →
    l.countP (fun x => x == a) = 1 := by
  intro l
  induction l with
  | nil => intro a _ h; simp at h
  | cons x xs ih =>
    intro a hp hm
    rw [List.pairwise_cons] at hp
    by_cases e : x = a
    · subst e
      have : xs.countP (fun y => y == x) = 0 := by
        rw [List.countP_eq_zero]
        intro y hy
        have := hp.1 y hy
        simp; omega
      simp [this]
    · have hm' : a ∈ xs := by
        rcases List.mem_cons.mp hm with h | h
        · exact absurd h.symm e
        · exact h
      simp [e, ih a hp.2 hm']

/-- reaction_enqueued_iff_settled_exactly_once (one trace statement, every reachable state).
For every promise `p`, the reaction jobs EVER enqueued on its behalf are, in enqueue order, exactly:
nothing while `p` is pending; once `p` is settled, one job per attachment (`then`/await/…), in attachment order, of the
kind matching the settlement (fulfil-type iff fulfilled) and carrying `p`'s result.  Attachment ids are pairwise
distinct, so each attachment has exactly one job iff `p` is settled and none otherwise — never both members of a pair,
never twice.  (That each enqueued job then runs at most once, in order, and has run when the queue is found empty is
`ran_is_prefix_of_enqueued` / `job_runs_at_most_once` / `queue_empty_on_normal_return`.) -/
theorem reaction_enqueued_iff_settled_exactly_once {k : K} (h : Reach k) (p : Nat) :
    rlog p k.enqEver = expectedLog (k.getP p) ∧
    (k.getP p).attached.Pairwise (· < ·) ∧
    (∀ rid ∈ (k.getP p).attached,
        (rlog p k.enqEver).countP (fun e => e.1 == rid) = if (k.getP p).state = .pending then 0 else 1) := by
  have he := einv_reach h p
  have ha := (ainv_reach h p).1
  refine ⟨he, ha, ?_⟩
  intro rid hr
  rw [he]
  unfold expectedLog
  cases hs : (k.getP p).state with
  | pending => simp
  | fulfilled =>
    simp only [List.countP_map]
    have := countP_eq_one_of_sorted _ rid ha hr
    simpa [Function.comp_def] using this
  | rejected =>
    simp only [List.countP_map]
    have := countP_eq_one_of_sorted _ rid ha hr
    simpa [Function.comp_def] using this

/-- An await (or any other attachment) is resumed through at most one of its two handlers, at most once: the log never
contains two jobs for one attachment. -/
theorem attachment_fires_at_most_one_job {k : K} (h : Reach k) (p rid : Nat) (hr : rid ∈ (k.getP p).attached) :
    (rlog p k.enqEver).countP (fun e => e.1 == rid) ≤ 1 := by
  rw [(reaction_enqueued_iff_settled_exactly_once h p).2.2 rid hr]
  split <;> omega

/-- While a promise is pending its fulfil list and its reject list hold exactly the attached pairs — once each, in
attachment order, in lock-step, with the right types; once it is settled nothing is stored any more. -/
theorem stored_reactions_while_pending {k : K} (h : Reach k) (p : Nat) : RecOk (k.getP p) := rinv_reach h p

/-- Settlement hands exactly the stored reactions of the matching kind to the job queue: one job per stored
reaction, in order, each carrying that reaction and the settlement value. -/
theorem settlement_enqueues_stored_reactions_once (k : K) (p : Nat) (v : Val) :
    (rejectP k p v).enqEver = k.enqEver ++ trigJobs k.nextSid p (k.getP p).rejR v ∧
    (fulfillP k p v).enqEver = k.enqEver ++ trigJobs k.nextSid p (k.getP p).fulR v ∧
    (∀ (rs : List Reaction) (sid : Nat), (trigJobs sid p rs v).filterMap Job.reaction? = rs) :=
  ⟨rejectP_enqEver k p v, fulfillP_enqEver k p v, fun rs sid => trigJobs_reactions p v rs sid⟩

/-- Attaching to a settled promise enqueues exactly one job, of the matching kind, with the promise's result;
attaching to a pending promise enqueues nothing. -/
theorem late_attach_enqueues_one_job (k : K) (p : Nat) (cap : Option Cap) (f g : Option Fn) :
    ((k.getP p).state = .fulfilled → (addReactions k p cap f g).enqEver =
        k.enqEver ++ [Job.reaction k.nextSid p { cap := cap, isFul := true, handler := f, rid := k.nextRid } (k.getP p).result]) ∧
    ((k.getP p).state = .rejected → (addReactions k p cap f g).enqEver =
        k.enqEver ++ [Job.reaction k.nextSid p { cap := cap, isFul := false, handler := g, rid := k.nextRid } (k.getP p).result]) ∧
    ((k.getP p).state = .pending → (addReactions k p cap f g).enqEver = k.enqEver) :=
  addReactions_enqEver k p cap f g

/-! ## Async functions: control state of the activations (asyncRunner, func.go:681-745) -/

/-- A SUSPENDED activation has exactly one pending way to be resumed (its reaction pair stored in a pending promise, or
one queued reaction job whose handler is its onFulfilled/onRejected); a running, finished or abandoned one has none.
So a continuation is never resumed twice, never after completion, and never while it is running. -/
theorem async_one_pending_resumption_iff_suspended {k : K} (h : Reach k) (ar : Nat) :
    acount k ar = if (k.getR ar).phase = .suspended then 1 else 0 :=
  (asinv_reach h).count ar

/-- Which continuation: the activation has executed exactly one more await than it has been resumed while it waits,
and exactly as many otherwise — the n-th resumption continues after the n-th await (the interpreter keeps only that
continuation). -/
theorem async_nth_resume_follows_nth_await {k : K} (h : Reach k) (ar : Nat) :
    (k.getR ar).awaits = (k.getR ar).resumes + waiting (k.getR ar) :=
  (asinv_reach h).ctr ar

/-- In job order: when the scheduler starts a job that resumes activation `ar`, that activation is suspended; starting
the job makes it running again with `resumes = awaits`; and no other way to resume it is left anywhere. -/
theorem async_resumed_exactly_when_its_job_starts {k : K} (h : Reach k) (j : Job) (rest : List Job) (ar : Nat)
    (hj : k.jobs = j :: rest) (hr : j.runner? = some ar) :
    (k.getR ar).phase = .suspended ∧ ((popJob k).getR ar).phase = .running ∧
    ((popJob k).getR ar).resumes = ((popJob k).getR ar).awaits ∧ acount (popJob k) ar = 0 := by
  have hc := async_one_pending_resumption_iff_suspended h ar
  have hpos : 1 ≤ acount k ar := by
    unfold acount; rw [hj, List.countP_cons]
    have : jRun ar j = true := by simp [jRun, hr]
    rw [this]; simp; omega
  have hs : (k.getR ar).phase = .suspended := by
    false_or_by_contra
    rename_i hne
    simp [hne] at hc; omega
  have hlt : ar < k.runners.length := lt_of_susp (by simp [susp, hs])
  have hra : k.runners[ar]? = some (k.getR ar) := by
    unfold K.getR; simp [List.getD_eq_getElem?_getD, List.getElem?_eq_getElem hlt]
  have hrun : (popJob k).runners = k.runners.set ar { k.getR ar with phase := .running, resumes := (k.getR ar).resumes + 1 } := by
    unfold popJob; rw [hj]; simp only []; unfold resumeRunner; rw [hr]; simp only []; rw [hra]
  have hg := getR_set k ar _ ar hlt (popJob k) hrun
  have hr' : Reach (popJob k) := Reach.step .popJob h
  have hphase : ((popJob k).getR ar).phase = .running := by rw [hg]; simp
  refine ⟨hs, hphase, ?_, ?_⟩
  · have := async_nth_resume_follows_nth_await hr' ar
    simp [waiting, hphase] at this
    exact this.symm
  · rw [async_one_pending_resumption_iff_suspended hr' ar]; simp [hphase]

/-- `await v`, v neither promise nor thenable: the resumption job is enqueued at once (the activation continues one
job later with v). -/
theorem await_nonthenable_resumes_next_job (k : K) (ar : Nat) (v : Val) (hv : isSelf v k.proms.length = false)
    (hrun : (k.getR ar).phase = .running) (hlt : ar < k.runners.length) :
    (awaitOp (callResolve (newCap k) k.latches.length v .notCallable) ar k.proms.length).jobs =
      k.jobs ++ [Job.reaction k.nextSid k.proms.length
        { cap := none, isFul := true, handler := some (.asyncFul ar), rid := k.nextRid } v] :=
  (await_nonthenable k ar v hv hrun hlt).1

/-- `await v`, v a thenable (or a promise with an overridden `then`): only the thenable job is enqueued, the
resumption is stored in the still pending promise — at least two more jobs before the activation continues. -/
theorem await_thenable_waits_for_thenable_job (k : K) (ar : Nat) (v : Val) (f : Fn) (hv : isSelf v k.proms.length = false)
    (hrun : (k.getR ar).phase = .running) (hlt : ar < k.runners.length) :
    (awaitOp (callResolve (newCap k) k.latches.length v (.callable f)) ar k.proms.length).jobs =
      k.jobs ++ [Job.thenable k.nextSid k.proms.length v f] :=
  (await_thenable k ar v f hv hrun hlt).1

/-- `await p`, p a native promise: PerformPromiseThen directly on p (no `then` lookup, no wrapper promise): if p is
already settled exactly one resumption job is enqueued carrying p's result, of the kind matching p's state; if p is
pending nothing is enqueued. -/
theorem await_promise_attaches_directly (k : K) (ar p : Nat) (hrun : (k.getR ar).phase = .running)
    (hlt : ar < k.runners.length) (hp : p < k.proms.length) :
    (awaitOp k ar p).jobs =
      match (k.getP p).state with
      | .pending => k.jobs
      | .fulfilled => k.jobs ++ [.reaction k.nextSid p { cap := none, isFul := true, handler := some (.asyncFul ar), rid := k.nextRid } (k.getP p).result]
      | .rejected => k.jobs ++ [.reaction k.nextSid p { cap := none, isFul := false, handler := some (.asyncRej ar), rid := k.nextRid } (k.getP p).result] := by
  unfold awaitOp
  simp only [hrun, hlt, hp, and_self, if_true]
  exact (addReactions_jobs k p none _ _ hp).2

/-- An interrupt abandons exactly the suspended activations whose resumption was queued: afterwards nothing can resume
them (and the others keep their one pending resumption). -/
theorem async_after_interrupt {k : K} (h : Reach k) (ar : Nat) :
    acount (leaveAbrupt k) ar = if ((leaveAbrupt k).getR ar).phase = .suspended then 1 else 0 :=
  async_one_pending_resumption_iff_suspended (Reach.step .leaveAbrupt h) ar

/-! ## Promise.prototype.finally: tick structure (the class of seeded change C10-m2) -/

/-- The thenFinally closure of `p.finally(f)` (builtin_promise.go:362-370), f returning a plain value x, performs
EXACTLY: a new promise q resolved with x; a new capability d; `q.then(valueThunk)` attached through d; and it returns
the PROMISE d — never `value` itself.  (So the reaction job that ran it resolves the result promise with a promise.) -/
theorem finally_thenFinally_structure {k0 : K} (prog : Prog) (n f : Nat) (this value x : Val) (st st1 : St k0)
    (hcall : (callFn prog (n + 1) (.user f) .undef []).run st = (.normal x, st1))
    (hx : x.plain = true) (hbad : badTid st1 st1.rk.val.proms.length = none) :
    (callFn prog (n + 2) (.thenFinally f) this [.v value]).run st =
      (.normal (.prom (st1.rk.val.proms.length + 1)),
       st1.ops [.newCap, .callResolve st1.rk.val.latches.length x .notCallable, .newCap,
         .addReactions st1.rk.val.proms.length
           (some (Cap.mk (st1.rk.val.proms.length + 1) (.resolve (st1.rk.val.latches.length + 1))
                   (.reject (st1.rk.val.latches.length + 1))))
           (some (.valueThunk value)) none]) :=
  thenFinally_spec prog n f this value x st st1 hcall hx hbad

/-- Same for the catchFinally closure (builtin_promise.go:372-380) with a thrower of the original reason. -/
theorem finally_catchFinally_structure {k0 : K} (prog : Prog) (n f : Nat) (this reason x : Val) (st st1 : St k0)
    (hcall : (callFn prog (n + 1) (.user f) .undef []).run st = (.normal x, st1))
    (hx : x.plain = true) (hbad : badTid st1 st1.rk.val.proms.length = none) :
    (callFn prog (n + 2) (.catchFinally f) this [.v reason]).run st =
      (.normal (.prom (st1.rk.val.proms.length + 1)),
       st1.ops [.newCap, .callResolve st1.rk.val.latches.length x .notCallable, .newCap,
         .addReactions st1.rk.val.proms.length
           (some (Cap.mk (st1.rk.val.proms.length + 1) (.resolve (st1.rk.val.latches.length + 1))
                   (.reject (st1.rk.val.latches.length + 1))))
           (some (.thrower reason)) none]) :=
  catchFinally_spec prog n f this reason x st st1 hcall hx hbad

/-- If onFinally throws or is interrupted, that completion replaces the original one and nothing else happens. -/
theorem finally_onFinally_abrupt {k0 : K} (prog : Prog) (n f : Nat) (this value : Val) (st st1 : St k0) (r : Res)
    (hcall : (callFn prog (n + 1) (.user f) .undef []).run st = (r, st1)) (hr : ∀ x, r ≠ .normal x) :
    (callFn prog (n + 2) (.thenFinally f) this [.v value]).run st = (r, st1) :=
  thenFinally_abrupt prog n f this value st st1 r hcall hr

/-- One tick per level of promise nesting: resolving a pending promise with a thenable or a promise (what the reaction
job does with thenFinally's result) only appends ONE thenable job and leaves every promise as it is — it cannot settle
in the same job.  With `late_attach_enqueues_one_job` (the thenable job's `then` on the already fulfilled d, or the
stored reaction otherwise) the result of `finally` settles two jobs after the valueThunk job at the earliest. -/
theorem resolve_with_thenable_defers (k : K) (l p : Nat) (v : Val) (f : Fn)
    (hl : k.latches[l]? = some (p, false)) (hv : isSelf v p = false) :
    (callResolve k l v (.callable f)).jobs = k.jobs ++ [Job.thenable k.nextSid p v f] ∧
    (callResolve k l v (.callable f)).proms = k.proms :=
  resolve_with_thenable_defers_k k l p v f hl hv

/-! ## Combinators: Promise.all / allSettled / any (remainingElementsCount protocol) -/

/-- In every reachable bookkeeping record: remainingElementsCount = (1 while iterating) + number of elements whose
function has not fired; `values` has one slot per element. -/
theorem comb_remaining_protocol {c : CombRec} (h : CReach c) :
    c.remaining = (if c.iterating then 1 else 0) + (openCells c : Int) ∧ c.values.length = c.cells.length :=
  ⟨(cinv_reach h).count, (cinv_reach h).len⟩

/-- The aggregate capability is resolved/rejected by the counter at most once, and exactly when the iteration is
over and every element function has fired. -/
theorem comb_fires_once_iff_complete {c : CombRec} (h : CReach c) :
    c.fires ≤ 1 ∧ (c.fires = 1 ↔ (c.iterating = false ∧ openCells c = 0)) := by
  have := (cinv_reach h).fires
  constructor
  · rw [this]; split <;> omega
  · rw [this]; split <;> simp_all

/-- Each element's function takes effect at most once: a second call changes nothing and fires nothing. -/
theorem comb_elem_at_most_once (c : CombRec) (idx : Nat) (v : Val) (h : c.cells[idx]? = some true) :
    c.elemCall idx v = (c, false) := by
  unfold CombRec.elemCall; rw [h]

/-- …and the first call marks the element. -/
theorem comb_elem_first_call_marks (c : CombRec) (idx : Nat) (v : Val) (h : c.cells[idx]? = some false) :
    (c.elemCall idx v).1.cells[idx]? = some true ∧ (c.elemCall idx v).1.values = c.values.set idx v := by
  have hlt : idx < c.cells.length := (List.getElem?_eq_some_iff.mp h).1
  unfold CombRec.elemCall CombRec.dec
  rw [h]
  simp only []
  split <;> simp [hlt]

/-- Once an element has fired, no operation changes its slot of `values` or un-marks it. -/
theorem comb_value_written_once {c : CombRec} (hc : CReach c) (idx : Nat) (h : c.cells[idx]? = some true) (op : COp) :
    (applyC op c).cells[idx]? = some true ∧ (applyC op c).values[idx]? = c.values[idx]? := by
  have hlt : idx < c.cells.length := (List.getElem?_eq_some_iff.mp h).1
  have hlv : idx < c.values.length := by rw [(cinv_reach hc).len]; exact hlt
  cases op with
  | addElem =>
    simp only [applyC, CombRec.addElem]
    split
    · simp [List.getElem?_append_left hlt, List.getElem?_append_left hlv, h]
    · exact ⟨h, rfl⟩
  | finish =>
    simp only [applyC, CombRec.finish, CombRec.dec]
    split
    · split <;> exact ⟨h, rfl⟩
    · exact ⟨h, rfl⟩
  | elemCall j v =>
    simp only [applyC, CombRec.elemCall, CombRec.dec]
    split
    · exact ⟨h, rfl⟩
    · exact ⟨h, rfl⟩
    · rename_i hj
      have hne : j ≠ idx := by intro e; subst e; rw [h] at hj; simp at hj
      split <;> simp [hne, h]

/-! ## The executable model never leaves the invariants -/

/-- Every state of the interpreter satisfies all kernel invariants (by typing: `St.rk : {k // Reach k ∧ BodyReach k0 k}`). -/
theorem interpreter_state_invariants {k0 : K} (st : St k0) :
    QInv st.rk.val ∧ TInv st.rk.val ∧ TrInv st.rk.val ∧ RInv st.rk.val ∧ EInv st.rk.val ∧ AInv st.rk.val ∧
    AsInv st.rk.val ∧ (∀ cb ∈ st.combs, CInv cb.crec.val) :=
  ⟨qinv_reach st.rk.property.1, tinv_reach st.rk.property.1, trinv_reach st.rk.property.1,
   rinv_reach st.rk.property.1, einv_reach st.rk.property.1, ainv_reach st.rk.property.1,
   asinv_reach st.rk.property.1, fun cb _ => cinv_reach cb.crec.property⟩

/-! ## Non-vacuity (tests on literals, not proofs of the property) -/

/-- test: a reachable state with a rejected unhandled promise, then handled; two jobs run in order. -/
example :
    let k := applyOps [.newCap, .callReject 0 (.num 1), .addReactions 0 none none none, .popJob] {}
    Reach k ∧ k.ran.length = 1 ∧ k.jobs.length = 0 ∧ trkL k.tracker 0 = [.reject, .handle] ∧
    (k.getP 0).state = .rejected :=
  ⟨reach_applyOps .init _, by decide, by decide, by decide, by decide⟩

/-- test: resolving with a thenable keeps the promise pending with exactly one live token. -/
example :
    let k := applyOps [.newCap, .callResolve 0 (.thenable 0) (.callable (.thenableThen 0)), .callResolve 0 (.num 2) .notCallable] {}
    (k.getP 0).state = .pending ∧ live k 0 = 1 ∧ k.jobs.length = 1 :=
  ⟨by decide, by decide, by decide⟩

end GojaModel.C10
