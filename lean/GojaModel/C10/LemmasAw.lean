/-
  C10: what `await v` does to the job list, by kind of v.
-/
import GojaModel.C10.LemmasAs
namespace GojaModel.C10

theorem newCap_latch (k : K) : (newCap k).latches[k.latches.length]? = some (k.proms.length, false) := by
  unfold newCap createResolvingFunctions newPromise
  simp

theorem getP_newCap_new (k : K) : (newCap k).getP k.proms.length = {} := by
  unfold K.getP newCap createResolvingFunctions newPromise
  simp [List.getD_eq_getElem?_getD]

theorem fulfill_fresh (k1 : K) (p : Nat) (v : Val) (hg : k1.getP p = {}) (hlt : p < k1.proms.length) :
    (fulfillP k1 p v).jobs = k1.jobs ∧ (fulfillP k1 p v).runners = k1.runners ∧
    (fulfillP k1 p v).nextSid = k1.nextSid ∧ (fulfillP k1 p v).nextRid = k1.nextRid ∧
    ((fulfillP k1 p v).getP p).state = .fulfilled ∧ ((fulfillP k1 p v).getP p).result = v ∧
    (fulfillP k1 p v).proms.length = k1.proms.length := by
  have hfr := fulfillP_frame k1 p v
  have hfj := fulfillP_jobs k1 p v
  refine ⟨?_, hfj.2, ?_, ?_, ?_, ?_, ?_⟩
  · rw [hfj.1, hg]; simp [trigJobs]
  · unfold fulfillP; simp only []; rw [trigger_eq]; simp [hg, K.setP]
  · unfold fulfillP; simp only []; rw [trigger_eq]; rfl
  · rw [getP_of_proms_set k1 _ p p _ hfr.1]; simp [hlt]
  · rw [getP_of_proms_set k1 _ p p _ hfr.1]; simp [hlt]
  · rw [hfr.1]; simp

/-- `await v` for a value that is neither a promise nor a thenable: promiseResolve makes a fresh promise already
fulfilled with v, so the await enqueues the resumption at once — the activation continues exactly one job later,
with v. -/
theorem await_nonthenable (k : K) (ar : Nat) (v : Val) (hv : isSelf v k.proms.length = false)
    (hrun : (k.getR ar).phase = .running) (hlt : ar < k.runners.length) :
    (awaitOp (callResolve (newCap k) k.latches.length v .notCallable) ar k.proms.length).jobs =
      k.jobs ++ [Job.reaction k.nextSid k.proms.length
        { cap := none, isFul := true, handler := some (.asyncFul ar), rid := k.nextRid } v] ∧
    ((awaitOp (callResolve (newCap k) k.latches.length v .notCallable) ar k.proms.length).getR ar).phase = .suspended := by
  obtain ⟨k1, hk1⟩ : ∃ x : K, x = { newCap k with latches := (newCap k).latches.set k.latches.length (k.proms.length, true) } :=
    ⟨_, rfl⟩
  have h2 : callResolve (newCap k) k.latches.length v .notCallable = fulfillP k1 k.proms.length v := by
    unfold callResolve
    rw [newCap_latch, hk1]
    simp [hv]
  have hg1 : k1.getP k.proms.length = {} := by rw [hk1]; exact getP_newCap_new k
  have hl1 : k.proms.length < k1.proms.length := by
    rw [hk1]; simp [newCap, createResolvingFunctions, newPromise]
  have f1 : k1.jobs = k.jobs ∧ k1.runners = k.runners ∧ k1.nextSid = k.nextSid ∧ k1.nextRid = k.nextRid := by
    rw [hk1]; exact ⟨rfl, rfl, rfl, rfl⟩
  obtain ⟨a1, a2, a3, a4, a5, a6, a7⟩ := fulfill_fresh k1 k.proms.length v hg1 hl1
  rw [h2]
  generalize fulfillP k1 k.proms.length v = k2 at a1 a2 a3 a4 a5 a6 a7
  have hplen : k.proms.length < k2.proms.length := by rw [a7]; exact hl1
  have hguard : (k2.getR ar).phase = .running ∧ ar < k2.runners.length ∧ k.proms.length < k2.proms.length := by
    rw [getR_of_runners_eq (a2.trans f1.2.1), a2, f1.2.1]; exact ⟨hrun, hlt, hplen⟩
  constructor
  · unfold awaitOp
    simp only [hguard, and_self, if_true]
    show (addReactions k2 k.proms.length none (some (.asyncFul ar)) (some (.asyncRej ar))).jobs = _
    rw [(addReactions_jobs k2 k.proms.length none _ _ hplen).2, a5]
    simp only []
    rw [a1, f1.1, a3, f1.2.2.1, a4, f1.2.2.2, a6]
  · unfold awaitOp
    simp only [hguard, and_self, if_true]
    have hr := (addReactions_jobs k2 k.proms.length none (some (.asyncFul ar)) (some (.asyncRej ar)) hplen).1
    rw [getR_set (addReactions k2 k.proms.length none (some (.asyncFul ar)) (some (.asyncRej ar))) ar _ ar
      (by rw [hr]; exact hguard.2.1) _ rfl]
    simp
/-- `await v` for a thenable (or a promise with an overridden `then`): promiseResolve's fresh promise stays pending
behind a thenable job, the await only stores the resumption — the activation continues after at least two more jobs
(the thenable job, then the reaction job triggered when the thenable settles the promise). -/
theorem await_thenable (k : K) (ar : Nat) (v : Val) (f : Fn) (hv : isSelf v k.proms.length = false)
    (hrun : (k.getR ar).phase = .running) (hlt : ar < k.runners.length) :
    (awaitOp (callResolve (newCap k) k.latches.length v (.callable f)) ar k.proms.length).jobs =
      k.jobs ++ [Job.thenable k.nextSid k.proms.length v f] ∧
    ((awaitOp (callResolve (newCap k) k.latches.length v (.callable f)) ar k.proms.length).getR ar).phase = .suspended := by
  obtain ⟨k1, hk1⟩ : ∃ x : K, x = { newCap k with latches := (newCap k).latches.set k.latches.length (k.proms.length, true) } :=
    ⟨_, rfl⟩
  have h2 : callResolve (newCap k) k.latches.length v (.callable f) =
      enqueue k1 (fun sid => Job.thenable sid k.proms.length v f) := by
    unfold callResolve
    rw [newCap_latch, hk1]
    simp [hv]
  have hg1 : k1.getP k.proms.length = {} := by rw [hk1]; exact getP_newCap_new k
  have hl1 : k.proms.length < k1.proms.length := by
    rw [hk1]; simp [newCap, createResolvingFunctions, newPromise]
  have f1 : k1.jobs = k.jobs ∧ k1.runners = k.runners ∧ k1.nextSid = k.nextSid := by
    rw [hk1]; exact ⟨rfl, rfl, rfl⟩
  rw [h2]
  obtain ⟨k2, hk2⟩ : ∃ x : K, x = enqueue k1 (fun sid => Job.thenable sid k.proms.length v f) := ⟨_, rfl⟩
  rw [← hk2]
  have a1 : k2.jobs = k.jobs ++ [Job.thenable k.nextSid k.proms.length v f] := by
    rw [hk2]; simp only [enqueue]; rw [f1.1, f1.2.2]
  have a2 : k2.runners = k.runners := by rw [hk2]; exact f1.2.1
  have a5 : k2.getP k.proms.length = {} := by rw [hk2]; exact hg1
  have hplen : k.proms.length < k2.proms.length := by rw [hk2]; exact hl1
  have hguard : (k2.getR ar).phase = .running ∧ ar < k2.runners.length ∧ k.proms.length < k2.proms.length := by
    rw [getR_of_runners_eq a2, a2]; exact ⟨hrun, hlt, hplen⟩
  constructor
  · unfold awaitOp
    simp only [hguard, and_self, if_true]
    show (addReactions k2 k.proms.length none (some (.asyncFul ar)) (some (.asyncRej ar))).jobs = _
    rw [(addReactions_jobs k2 k.proms.length none _ _ hplen).2, a5]
    exact a1
  · unfold awaitOp
    simp only [hguard, and_self, if_true]
    have hr := (addReactions_jobs k2 k.proms.length none (some (.asyncFul ar)) (some (.asyncRej ar)) hplen).1
    rw [getR_set (addReactions k2 k.proms.length none (some (.asyncFul ar)) (some (.asyncRej ar))) ar _ ar
      (by rw [hr]; exact hguard.2.1) _ rfl]
    simp

end GojaModel.C10
