/-
  C10: reaction bookkeeping — what is stored while pending, nothing once settled, and what
  settlement / late attachment hand to the job queue.
-/
import GojaModel.C10.LemmasS

namespace GojaModel.C10

/-- Stored-reaction invariant of one promise record. -/
def RecOk (r : PRec) : Prop :=
  (r.state ≠ .pending → r.fulR = [] ∧ r.rejR = []) ∧
  (r.state = .pending →
    r.fulR.map (·.rid) = r.attached ∧ r.rejR.map (·.rid) = r.attached ∧
    (∀ x ∈ r.fulR, x.isFul = true) ∧ (∀ x ∈ r.rejR, x.isFul = false))

def RInv (k : K) : Prop := ∀ p, RecOk (k.getP p)

theorem recOk_default : RecOk {} := ⟨fun h => absurd rfl h, fun _ => ⟨rfl, rfl, by simp, by simp⟩⟩

theorem rinv_of_proms_set {k k' : K} (h : RInv k) (p : Nat) (r : PRec) (hp : k'.proms = k.proms.set p r)
    (hr : RecOk r) : RInv k' := by
  intro q
  rw [getP_of_proms_set k k' p q r hp]
  split
  · exact hr
  · exact h q

theorem rinv_congr {k k' : K} (h : RInv k) (hp : k'.proms = k.proms) : RInv k' := by
  intro q; rw [getP_of_proms_eq hp]; exact h q

theorem recOk_settled (r : PRec) (v : Val) (s : PState) (hs : s ≠ .pending) :
    RecOk { r with result := v, fulR := [], rejR := [], state := s } :=
  ⟨fun _ => ⟨rfl, rfl⟩, fun h => absurd h hs⟩

theorem rinv_rejectP {k : K} (h : RInv k) (p : Nat) (v : Val) : RInv (rejectP k p v) :=
  rinv_of_proms_set h p _ (rejectP_frame k p v).1 (recOk_settled _ _ _ (by simp))

theorem rinv_fulfillP {k : K} (h : RInv k) (p : Nat) (v : Val) : RInv (fulfillP k p v) :=
  rinv_of_proms_set h p _ (fulfillP_frame k p v).1 (recOk_settled _ _ _ (by simp))

theorem core_pending (k : K) (p : Nat) (fr rr : Reaction) (hs : (k.getP p).state = .pending) (q : Nat) :
    (addReactionsCore k p fr rr).getP q =
      if q = p ∧ p < k.proms.length then
        { k.getP p with fulR := (k.getP p).fulR ++ [fr], rejR := (k.getP p).rejR ++ [rr] }
      else k.getP q := by
  unfold addReactionsCore
  simp only [hs]
  rw [getP_setP]

theorem core_settled (k : K) (p : Nat) (fr rr : Reaction) (hs : (k.getP p).state ≠ .pending) (q : Nat) :
    (addReactionsCore k p fr rr).getP q = k.getP q := by
  unfold addReactionsCore
  simp only []
  split
  · rename_i h; exact absurd h hs
  · rfl
  · split <;> rfl

theorem markHandled_rec (k : K) (p rid : Nat) (q : Nat) :
    (markHandled k p rid).getP q =
      if q = p ∧ p < k.proms.length then
        { k.getP p with handled := true, attached := (k.getP p).attached ++ [rid] }
      else k.getP q := by
  unfold markHandled
  rw [getP_setP]

theorem recOk_attach_pending (r : PRec) (fr rr : Reaction) (rid : Nat) (h : RecOk r) (hs : r.state = .pending)
    (h1 : fr.rid = rid) (h2 : rr.rid = rid) (h3 : fr.isFul = true) (h4 : rr.isFul = false) :
    RecOk { r with fulR := r.fulR ++ [fr], rejR := r.rejR ++ [rr], handled := true, attached := r.attached ++ [rid] } := by
  obtain ⟨a, b, c, d⟩ := h.2 hs
  refine ⟨fun x => absurd hs x, fun _ => ⟨by simp [a, h1], by simp [b, h2], ?_, ?_⟩⟩
  · intro x hx; simp only [List.mem_append, List.mem_singleton] at hx
    rcases hx with hx | hx
    · exact c x hx
    · subst hx; exact h3
  · intro x hx; simp only [List.mem_append, List.mem_singleton] at hx
    rcases hx with hx | hx
    · exact d x hx
    · subst hx; exact h4

theorem recOk_attach_settled (r : PRec) (rid : Nat) (h : RecOk r) (hs : r.state ≠ .pending) :
    RecOk { r with handled := true, attached := r.attached ++ [rid] } :=
  ⟨fun _ => h.1 hs, fun x => absurd x hs⟩

theorem rinv_attach {k1 : K} (h : RInv k1) (p rid : Nat) (fr rr : Reaction) (hlt : p < k1.proms.length)
    (h1 : fr.rid = rid) (h2 : rr.rid = rid) (h3 : fr.isFul = true) (h4 : rr.isFul = false) :
    RInv (markHandled (addReactionsCore k1 p fr rr) p rid) := by
  have hclen := (addReactionsCore_frame k1 p fr rr).2.2.1
  intro q
  rw [markHandled_rec]
  by_cases hs : (k1.getP p).state = .pending
  · rw [core_pending k1 p fr rr hs, core_pending k1 p fr rr hs]
    rw [hclen]
    simp only [hlt, and_true, if_true]
    split
    · exact recOk_attach_pending (k1.getP p) fr rr rid (h p) hs h1 h2 h3 h4
    · exact h q
  · rw [core_settled k1 p fr rr hs, core_settled k1 p fr rr hs]
    split
    · exact recOk_attach_settled (k1.getP p) rid (h p) hs
    · exact h q

theorem rinv_addReactions {k : K} (h : RInv k) (p : Nat) (cap : Option Cap) (f g : Option Fn) :
    RInv (addReactions k p cap f g) := by
  unfold addReactions
  split
  · rename_i hlt
    have h' : RInv { k with nextRid := k.nextRid + 1 } := rinv_congr h rfl
    exact rinv_attach h' p k.nextRid _ _ hlt rfl rfl rfl rfl
  · exact h

theorem rinv_newCap {k : K} (h : RInv k) : RInv (newCap k) := by
  intro q
  by_cases e : q < k.proms.length
  · rw [getP_newCap_lt k q e]; exact h q
  · have : (newCap k).getP q = {} := by
      unfold K.getP newCap createResolvingFunctions newPromise
      simp only [List.getD_eq_getElem?_getD]
      by_cases e2 : q = k.proms.length
      · subst e2; simp
      · have : k.proms.length + 1 ≤ q := by omega
        rw [List.getElem?_eq_none (by simpa using this)]
        rfl
    rw [this]; exact recOk_default

theorem rinv_applyOp {k : K} (h : RInv k) (op : KOp) : RInv (applyOp op k) := by
  cases op with
  | newCap => exact rinv_newCap h
  | callResolve l v look =>
    simp only [applyOp, callResolve]
    split
    · exact h
    · split
      · exact h
      · rename_i p already hl hal
        have h' : RInv { k with latches := k.latches.set l (p, true) } := rinv_congr h rfl
        split
        · exact rinv_rejectP h' _ _
        · split
          · exact rinv_rejectP h' _ _
          · exact rinv_congr h' rfl
          · exact rinv_fulfillP h' _ _
  | callReject l v =>
    simp only [applyOp, callReject]
    split
    · exact h
    · split
      · exact h
      · rename_i p already hl hal
        have h' : RInv { k with latches := k.latches.set l (p, true) } := rinv_congr h rfl
        exact rinv_rejectP h' _ _
  | addReactions p cap f g =>
    simp only [applyOp]
    split
    · exact rinv_addReactions h p cap f g
    · exact h
  | popJob =>
    simp only [applyOp, popJob]
    split
    · exact h
    · exact rinv_congr h (popJobQ_proms k)
  | asyncStart => exact rinv_congr h rfl
  | await ar p =>
    simp only [applyOp, awaitOp]
    split
    · exact rinv_congr (rinv_addReactions h p none _ _) rfl
    · exact h
  | asyncDone ar =>
    simp only [applyOp, asyncDone]
    split
    · exact rinv_congr h rfl
    · exact h
  | leaveAbrupt => exact rinv_congr h rfl

theorem rinv_reach {k : K} (h : Reach k) : RInv k := by
  induction h with
  | init => intro p; rw [getP_default _ _ (by simp)]; exact recOk_default
  | step op _ ih => exact rinv_applyOp ih op

/-- The reaction carried by a reaction job. -/
def Job.reaction? : Job → Option Reaction
  | .reaction _ _ r _ => some r
  | .thenable _ _ _ _ => none

theorem trigJobs_reactions (owner : Nat) (arg : Val) : ∀ (rs : List Reaction) (sid : Nat),
    (trigJobs sid owner rs arg).filterMap Job.reaction? = rs := by
  intro rs
  induction rs with
  | nil => intro sid; simp [trigJobs]
  | cons r rs ih => intro sid; simp only [trigJobs, List.filterMap_cons, Job.reaction?]; rw [ih]

theorem rejectP_enqEver (k : K) (p : Nat) (v : Val) :
    (rejectP k p v).enqEver = k.enqEver ++ trigJobs k.nextSid p (k.getP p).rejR v := by
  unfold rejectP
  simp only []
  rw [trigger_eq]
  split <;> simp [K.setP, track]

theorem fulfillP_enqEver (k : K) (p : Nat) (v : Val) :
    (fulfillP k p v).enqEver = k.enqEver ++ trigJobs k.nextSid p (k.getP p).fulR v := by
  unfold fulfillP
  simp only []
  rw [trigger_eq]
  simp [K.setP]

end GojaModel.C10
