/-
  C10 — combinator bookkeeping of Promise.all / allSettled / any (builtin_promise.go:402-523):
  the `values`/`errors` slice, the per-element `alreadyCalled` flag and `remainingElementsCount`.
  Mechanism level, core Lean only; the interpreter holds each record as `{c // CReach c}`.
-/
import GojaModel.C10.Model

namespace GojaModel.C10

structure CombRec where
  values : List Val := []          -- `values` / `errors`
  cells : List Bool := []          -- `alreadyCalled`, one per element (shared by both allSettled functions)
  remaining : Int := 1             -- `remainingElementsCount := 1` (:410)
  iterating : Bool := true         -- inside iter.iterate
  fires : Nat := 0                 -- ghost: how often the counter reached 0 (pcap.resolve / pcap.reject called)
  deriving Inhabited

/-- `remainingElementsCount--; if remainingElementsCount == 0 { pcap.resolve(...) }` (:422-425, :431-434). -/
def CombRec.dec (c : CombRec) : CombRec × Bool :=
  let r := c.remaining - 1
  if r == 0 then ({ c with remaining := r, fires := c.fires + 1 }, true)
  else ({ c with remaining := r }, false)

/-- One iteration step: `values = append(values, _undefined)` (:413) … `remainingElementsCount++` (:428). -/
def CombRec.addElem (c : CombRec) : CombRec :=
  if c.iterating then
    { c with values := c.values ++ [.undef], cells := c.cells ++ [false], remaining := c.remaining + 1 }
  else c

/-- After the loop: `remainingElementsCount--; if … == 0 {…}` (:431). -/
def CombRec.finish (c : CombRec) : CombRec × Bool :=
  if c.iterating then ({ c with iterating := false } : CombRec).dec else (c, false)

/-- The element function (:416-427 / :453-468 / :497-510) called with `v` for element `idx`. -/
def CombRec.elemCall (c : CombRec) (idx : Nat) (v : Val) : CombRec × Bool :=
  match c.cells[idx]? with
  | none => (c, false)
  | some true => (c, false)                                        -- `if alreadyCalled { return }`
  | some false =>
    ({ c with cells := c.cells.set idx true, values := c.values.set idx v } : CombRec).dec

inductive COp | addElem | finish | elemCall (idx : Nat) (v : Val)

def applyC : COp → CombRec → CombRec
  | .addElem, c => c.addElem
  | .finish, c => c.finish.1
  | .elemCall idx v, c => (c.elemCall idx v).1

inductive CReach : CombRec → Prop
  | init : CReach {}
  | step (op : COp) {c : CombRec} : CReach c → CReach (applyC op c)

abbrev CRK := { c : CombRec // CReach c }

instance : Inhabited CRK := ⟨⟨{}, .init⟩⟩

def CRK.addElem (c : CRK) : CRK := ⟨c.val.addElem, .step .addElem c.property⟩
def CRK.finish (c : CRK) : CRK × Bool := (⟨c.val.finish.1, .step .finish c.property⟩, c.val.finish.2)
def CRK.elemCall (c : CRK) (idx : Nat) (v : Val) : CRK × Bool :=
  (⟨(c.val.elemCall idx v).1, .step (.elemCall idx v) c.property⟩, (c.val.elemCall idx v).2)

end GojaModel.C10
