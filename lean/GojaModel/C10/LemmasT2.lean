/-
  C10 invariant I2, preservation by every kernel op; one-step settle-once.
-/
import GojaModel.C10.LemmasT

namespace GojaModel.C10

theorem state_of_proms_set_same (k k' : K) (p : Nat) (r : PRec) (h : k'.proms = k.proms.set p r)
    (hs : r.state = (k.getP p).state) (q : Nat) : (k'.getP q).state = (k.getP q).state := by
  rw [getP_of_proms_set k k' p q r h]
  split
  · rename_i hh; rw [hh.1]; exact hs
  · rfl

theorem tinv_newCap {k : K} (h : TInv k) : TInv (newCap k) := by
  have hzero : k.latches.countP (latchLive k.proms.length) = 0 := by
    rw [List.countP_eq_zero]
    intro l hl
    have := h.wfL l hl
    simp [latchLive]; omega
  have hzero2 : (thenJobs k).count k.proms.length = 0 := by
    rw [List.count_eq_zero]
    intro hm
    have := h.wfJ _ hm
    omega
  have hlive : ∀ q, live (newCap k) q = live k q + (if q = k.proms.length then 1 else 0) := by
    intro q
    unfold live newCap createResolvingFunctions newPromise thenJobs
    simp only [List.countP_append, List.countP_cons, List.countP_nil, latchLive]
    by_cases e : q = k.proms.length
    · simp [e]; omega
    · have e' : ¬ (k.proms.length = q) := fun x => e x.symm
      simp [e, e']
  have hget : ∀ q, q < k.proms.length → (newCap k).getP q = k.getP q := by
    intro q hq
    unfold K.getP newCap createResolvingFunctions newPromise
    simp [List.getD_eq_getElem?_getD, List.getElem?_append_left hq]
  have hget2 : ∀ q, k.proms.length ≤ q → ((newCap k).getP q).state = .pending := by
    intro q hq
    unfold K.getP newCap createResolvingFunctions newPromise
    simp only [List.getD_eq_getElem?_getD]
    by_cases e : q = k.proms.length
    · subst e; simp
    · have : k.proms.length + 1 ≤ q := by omega
      rw [List.getElem?_eq_none (by simpa using this)]
      rfl
  constructor
  · intro l hl
    simp only [newCap, createResolvingFunctions, newPromise, List.mem_append, List.mem_singleton, List.length_append,
      List.length_cons, List.length_nil] at hl ⊢
    rcases hl with hl | hl
    · have := h.wfL l hl; omega
    · subst hl; simp
  · intro q hq
    have : thenJobs (newCap k) = thenJobs k := rfl
    rw [this] at hq
    have := h.wfJ q hq
    simp only [newCap, createResolvingFunctions, newPromise, List.length_append, List.length_cons, List.length_nil]
    omega
  · intro q
    rw [hlive]
    by_cases e : q = k.proms.length
    · subst e; unfold live; simp [hzero, hzero2]
    · simp [e]; exact h.tok q
  · intro q hq
    by_cases e : q < k.proms.length
    · rw [hget q e] at hq
      rw [hlive]
      have : q ≠ k.proms.length := by omega
      simp [this]; exact h.settled q hq
    · exact absurd (hget2 q (by omega)) hq

theorem tinv_callResolve {k : K} (h : TInv k) (l : Nat) (v : Val) (look : ThenLook) :
    TInv (callResolve k l v look) := by
  unfold callResolve
  split
  · exact h
  · rename_i p already hl
    cases already with
    | true => simpa using h
    | false =>
      simp only [Bool.false_eq_true, if_false]
      have settle : ∀ (k' : K) (r : PRec),
          k'.proms = k.proms.set p r → k'.latches = k.latches.set l (p, true) → thenJobs k' = thenJobs k → TInv k' := by
        intro k' r h1 h2 h3
        apply tinv_consume_settle h hl h2 h3 (by rw [h1]; simp)
        intro q hq
        rw [getP_of_proms_set k k' p q r h1]
        simp [hq]
      split
      · obtain ⟨h1, h2, h3⟩ := rejectP_frame { k with latches := k.latches.set l (p, true) } p .typeErr
        exact settle _ _ h1 h2 h3
      · split
        · rename_i e
          obtain ⟨h1, h2, h3⟩ := rejectP_frame { k with latches := k.latches.set l (p, true) } p e
          exact settle _ _ h1 h2 h3
        · apply tinv_consume_thenable h hl (by rfl) _ (by rfl) (by intro q; rfl)
          simp [thenJobs, enqueue, List.filterMap_append, Job.thenP?]
        · obtain ⟨h1, h2, h3⟩ := fulfillP_frame { k with latches := k.latches.set l (p, true) } p v
          exact settle _ _ h1 h2 h3

theorem tinv_callReject {k : K} (h : TInv k) (l : Nat) (v : Val) : TInv (callReject k l v) := by
  unfold callReject
  split
  · exact h
  · rename_i p already hl
    cases already with
    | true => simpa using h
    | false =>
      simp only [Bool.false_eq_true, if_false]
      obtain ⟨h1, h2, h3⟩ := rejectP_frame { k with latches := k.latches.set l (p, true) } p v
      apply tinv_consume_settle h hl h2 h3 (by rw [h1]; simp)
      intro q hq
      rw [getP_of_proms_set _ _ p q _ h1]
      simp [hq]
      rfl

theorem thenJobs_enqueue_reaction (k : K) (owner : Nat) (r : Reaction) (arg : Val) :
    thenJobs (enqueue k (fun sid => .reaction sid owner r arg)) = thenJobs k := by
  simp [thenJobs, enqueue, List.filterMap_append, Job.thenP?]

theorem addReactionsCore_frame (k : K) (p : Nat) (fr rr : Reaction) :
    (addReactionsCore k p fr rr).latches = k.latches ∧ thenJobs (addReactionsCore k p fr rr) = thenJobs k ∧
    (addReactionsCore k p fr rr).proms.length = k.proms.length ∧
    ∀ q, ((addReactionsCore k p fr rr).getP q).state = (k.getP q).state := by
  unfold addReactionsCore
  simp only []
  split
  · refine ⟨rfl, rfl, by simp [K.setP], ?_⟩
    intro q
    rw [getP_setP]
    split
    · rename_i hh; rw [hh.1]
    · rfl
  · refine ⟨rfl, thenJobs_enqueue_reaction _ _ _ _, rfl, fun q => rfl⟩
  · split
    · refine ⟨rfl, thenJobs_enqueue_reaction _ _ _ _, rfl, fun q => rfl⟩
    · refine ⟨rfl, ?_, rfl, fun q => rfl⟩
      exact thenJobs_enqueue_reaction (track k p .handle) _ _ _

theorem markHandled_frame (k : K) (p rid : Nat) :
    (markHandled k p rid).latches = k.latches ∧ thenJobs (markHandled k p rid) = thenJobs k ∧
    (markHandled k p rid).proms.length = k.proms.length ∧
    ∀ q, ((markHandled k p rid).getP q).state = (k.getP q).state := by
  unfold markHandled
  refine ⟨rfl, rfl, by simp [K.setP], ?_⟩
  intro q
  rw [getP_setP]
  split
  · rename_i hh; rw [hh.1]
  · rfl

theorem tinv_addReactions {k : K} (h : TInv k) (p : Nat) (cap : Option Cap) (f g : Option Fn) :
    TInv (addReactions k p cap f g) := by
  unfold addReactions
  split
  · simp only []
    obtain ⟨a1, a2, a3, a4⟩ := markHandled_frame
      (addReactionsCore { k with nextRid := k.nextRid + 1 } p
        { cap := cap, isFul := true, handler := f, rid := k.nextRid }
        { cap := cap, isFul := false, handler := g, rid := k.nextRid }) p k.nextRid
    obtain ⟨b1, b2, b3, b4⟩ := addReactionsCore_frame { k with nextRid := k.nextRid + 1 } p
        { cap := cap, isFul := true, handler := f, rid := k.nextRid }
        { cap := cap, isFul := false, handler := g, rid := k.nextRid }
    apply tinv_congr h (by rw [a1, b1]) (by rw [a2, b2]; rfl) (by rw [a3, b3])
    intro q; rw [a4, b4]; rfl
  · exact h

theorem tinv_leaveAbrupt {k : K} (h : TInv k) : TInv (leaveAbrupt k) := by
  have hle : ∀ q, live (leaveAbrupt k) q ≤ live k q := by
    intro q; unfold live leaveAbrupt thenJobs; simp
  constructor
  · exact h.wfL
  · intro q hq; simp [thenJobs, leaveAbrupt] at hq
  · intro q; have := hle q; have := h.tok q; omega
  · intro q hq
    have h1 := hle q
    have : (k.getP q).state ≠ .pending := hq
    have := h.settled q this; omega

theorem tinv_popJobQ {k : K} (h : TInv k) : TInv (popJobQ k) := by
  unfold popJobQ
  split
  · exact h
  · rename_i j rest hc
    cases j with
    | reaction sid owner r arg =>
      simp only []
      apply tinv_congr h
      · rfl
      · simp only [thenJobs, hc]
        rw [List.filterMap_cons]
        simp [Job.thenP?]
      · rfl
      · intro q; rfl
    | thenable sid p tv tf =>
      simp only []
      have hj : thenJobs k = p :: rest.filterMap Job.thenP? := by
        simp [thenJobs, hc, Job.thenP?]
      have hp : p < k.proms.length := h.wfJ p (by rw [hj]; simp)
      have hlive : ∀ q, live (createResolvingFunctions { k with jobs := rest, ran := k.ran ++ [Job.thenable sid p tv tf] } p) q = live k q := by
        intro q
        unfold live
        rw [hj]
        simp only [createResolvingFunctions, thenJobs, List.countP_append, List.countP_cons, List.countP_nil, latchLive,
          List.count_cons]
        by_cases e : p = q
        · subst e; simp; omega
        · simp [e]
      constructor
      · intro l hl
        simp only [createResolvingFunctions, List.mem_append, List.mem_singleton] at hl
        rcases hl with hl | hl
        · exact h.wfL l hl
        · subst hl; exact hp
      · intro q hq
        apply h.wfJ q
        rw [hj]
        exact List.mem_cons_of_mem _ hq
      · intro q; rw [hlive]; exact h.tok q
      · intro q hq; rw [hlive]; exact h.settled q hq

theorem tinv_applyOp {k : K} (h : TInv k) (op : KOp) : TInv (applyOp op k) := by
  cases op with
  | newCap => exact tinv_newCap h
  | callResolve l v look => exact tinv_callResolve h l v look
  | callReject l v => exact tinv_callReject h l v
  | addReactions p cap f g =>
    simp only [applyOp]
    split
    · exact tinv_addReactions h p cap f g
    · exact h
  | popJob =>
    simp only [applyOp, popJob]
    split
    · exact h
    · exact tinv_congr (tinv_popJobQ h) rfl rfl rfl (fun q => rfl)
  | leaveAbrupt => exact tinv_leaveAbrupt h
  | asyncStart => exact tinv_congr h rfl rfl rfl (fun q => rfl)
  | await ar p =>
    simp only [applyOp, awaitOp]
    split
    · exact tinv_congr (tinv_addReactions h p none _ _) rfl rfl rfl (fun q => rfl)
    · exact h
  | asyncDone ar =>
    simp only [applyOp, asyncDone]
    split
    · exact tinv_congr h rfl rfl rfl (fun q => rfl)
    · exact h

theorem tinv_reach {k : K} (h : Reach k) : TInv k := by
  induction h with
  | init =>
    constructor
    · intro l hl; simp at hl
    · intro p hp; simp [thenJobs] at hp
    · intro p; simp [live, thenJobs]
    · intro p hp; simp [live, thenJobs]
  | step op _ ih => exact tinv_applyOp ih op

end GojaModel.C10
