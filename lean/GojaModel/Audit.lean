/-
  `#audit_module M` prints, for every theorem declared in module `M`, the axioms it depends on:
      AUDIT <theorem name> :: <axiom names separated by spaces>
  The orchestrator (run/vlib.py) turns each line into one proof obligation and rejects any axiom
  outside {propext, Classical.choice, Quot.sound}.  Never imported by a driver.
-/
import Lean
open Lean Elab Command

namespace GojaModel.Audit

def isAux (n : Name) : Bool :=
  n.isInternal || n.components.any fun c =>
    let s := c.toString
    s.startsWith "_" || s.startsWith "match_" || s.startsWith "proof_" || s.startsWith "eq_" ||
    s == "eq_def" || s.startsWith "sizeOf_spec" || s.startsWith "injEq" || s.startsWith "inj" ||
    s.startsWith "noConfusion" || s.startsWith "congr_simp" || s.startsWith "fun_cases" ||
    s.startsWith "induct"

elab "#audit_module " m:ident : command => do
  let env ← getEnv
  let some idx := env.getModuleIdx? m.getId
    | throwError "module {m.getId} is not imported"
  let names := env.header.moduleData[idx.toNat]!.constNames
  let mut count : Nat := 0
  for n in names do
    match env.find? n with
    | some (.thmInfo _) =>
      if isAux n then continue
      let axs ← liftCoreM (collectAxioms n)
      let axStr := " ".intercalate (axs.toList.map (·.toString))
      logInfo m!"AUDIT {n} :: {axStr}"
      count := count + 1
    | _ => pure ()
  logInfo m!"AUDIT-DONE {m.getId} theorems={count}"

end GojaModel.Audit
