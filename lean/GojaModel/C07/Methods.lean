/-
  C07 — Array.prototype methods with a no-holes fast path (builtin_array.go), as pairs
  (fast path over `arrayObject.values`, generic algorithm over HasProperty/Get/Set).
  The fast path is taken when `checkStdArrayObj` accepts the receiver (`Dense.stdGuard`) and — for
  the methods that run user code (argument coercion) between reading `length` and choosing the
  path — the re-check `len(values) == length` added by a9604fe / 61fb8fc / f0b16cb holds.
  Values are opaque; `eq` is the comparison with the search element (StrictEquals / SameValueZero).
-/
import GojaModel.C07.Model

namespace GojaModel.C07

/-- what a fast path sees in a slot of `values`: the Go `Value` or nil. -/
def slotVal : Option Elem → Option Val
  | some (.plain v) => some v
  | _ => none

/-- the receiver as the generic algorithms see it: HasProperty and Get through the own element and
the prototype chain (`proto k` = inherited value, `gr` = result of calling a getter). -/
structure View where
  has : Nat → Bool
  get : Nat → Option Val      -- none = undefined

def Dense.view (a : Dense) (proto : Nat → Option Val) (gr : VProp → Option Val) : View :=
  { has := fun k => (a.slot k).isSome || (proto k).isSome,
    get := fun k => genericGet (a.slot k) (proto k) gr }

/-! ### indexOf (builtin_array.go:598) -/

/-- `for i, val := range arr.values[n:] { if StrictEquals(val) { return n+i } }` -/
def scanFirst (eq : Val → Bool) : Nat → List (Option Elem) → Option Nat
  | _, [] => none
  | i, o :: t => if (match slotVal o with | some v => eq v | none => false) then some i else scanFirst eq (i + 1) t

def indexOfFast (vals : List (Option Elem)) (eq : Val → Bool) (n : Nat) : Option Nat := scanFirst eq n (vals.drop n)

/-- `for ; n < length; n++ { if hasPropertyIdx(n) { if val := getIdx(n); val != nil && StrictEquals(val) {return n} } }` -/
def indexOfGeneric (w : View) (eq : Val → Bool) : Nat → Nat → Option Nat
  | _, 0 => none
  | n, c + 1 =>
    if w.has n && (match w.get n with | some v => eq v | none => false) then some n
    else indexOfGeneric w eq (n + 1) c

/-! ### includes (builtin_array.go:639): SameValueZero, reads every index with Get (undefined = 0) -/

def includesFast (vals : List (Option Elem)) (eq : Val → Bool) (n : Nat) : Bool :=
  (vals.drop n).any (fun o => match slotVal o with | some v => eq v | none => false)

def includesGeneric (w : View) (eq : Val → Bool) : Nat → Nat → Bool
  | _, 0 => false
  | n, c + 1 => eq ((w.get n).getD 0) || includesGeneric w eq (n + 1) c

/-! ### lastIndexOf (builtin_array.go:680): downwards from `fromIndex` -/

/-- `for k := fromIndex; k >= 0; k-- { if v := vals[k]; v != nil && StrictEquals(v) { return k } }`
(`c` = fromIndex + 1 iterations). -/
def lastIndexOfFast (vals : List (Option Elem)) (eq : Val → Bool) : Nat → Option Nat
  | 0 => none
  | c + 1 =>
    if (match slotVal ((vals[c]?).join) with | some v => eq v | none => false) then some c
    else lastIndexOfFast vals eq c

def lastIndexOfGeneric (w : View) (eq : Val → Bool) : Nat → Option Nat
  | 0 => none
  | c + 1 =>
    if w.has c && (match w.get c with | some v => eq v | none => false) then some c
    else lastIndexOfGeneric w eq c

/-! ### with / toReversed / toSpliced: new arrays built from reads (builtin_array.go:1272, 1317, 1381) -/

/-- element list of the result array; `none` = undefined. Fast: `src.values[k]`. -/
def withFast (vals : List (Option Elem)) (len idx : Nat) (v : Val) : List (Option Val) :=
  (List.range len).map (fun k => if k = idx then some v else slotVal ((vals[k]?).join))

def withGeneric (w : View) (len idx : Nat) (v : Val) : List (Option Val) :=
  (List.range len).map (fun k => if k = idx then some v else w.get k)

def toReversedFast (vals : List (Option Elem)) (len : Nat) : List (Option Val) :=
  (List.range len).map (fun k => slotVal ((vals[len - k - 1]?).join))

def toReversedGeneric (w : View) (len : Nat) : List (Option Val) :=
  (List.range len).map (fun k => w.get (len - k - 1))

/-- builtin_array.go:1391–1404: `values[:start] ++ items ++ values[start+skip:]`. -/
def toSplicedFast (vals : List (Option Elem)) (start skip : Nat) (items : List Val) : List (Option Val) :=
  (vals.take start).map slotVal ++ items.map some ++ (vals.drop (start + skip)).map slotVal

/-- builtin_array.go:1405–1432: three loops of `getIdx` + `createDataPropertyOrThrow`. -/
def toSplicedGeneric (w : View) (len start skip : Nat) (items : List Val) : List (Option Val) :=
  (List.range start).map w.get ++ items.map some ++
    (List.range (len - (start + skip))).map (fun j => w.get (start + skip + j))

/-! ### fill (builtin_array.go:1104) -/

/-- fast: `for ; k < final; k++ { arr.values[k] = value }` (`c` = final − k iterations). -/
def fillFast (vals : List (Option Elem)) (v : Val) : Nat → Nat → List (Option Elem)
  | _, 0 => vals
  | k, c + 1 => fillFast (vals.set k (some (.plain v))) v (k + 1) c

/-- generic: `for ; k < final; k++ { o.self.setOwnIdx(k, value, true) }` on the mechanism store
(prototype answer `pa k` for indices whose own element is absent). Stops at the first failing Set
(`throw = true`). -/
def fillGeneric (s : Store) (v : Val) (pa : Nat → Option Bool) : Nat → Nat → Store × Bool
  | _, 0 => (s, true)
  | k, c + 1 =>
    let r := s.setOwnIdx k v (pa k)
    if !r.2 then r else fillGeneric r.1 v pa (k + 1) c

/-! ### copyWithin (builtin_array.go:1052) -/

/-- fast path: Go's `copy(values[to:to+count], values[from:from+count])` — memmove semantics. -/
def memmove (vals : List (Option Elem)) (from_ to count : Nat) : List (Option Elem) :=
  (List.range vals.length).map (fun i => if to ≤ i ∧ i < to + count then (vals[from_ + (i - to)]?).join else (vals[i]?).join)

/-- generic loop, forward direction (`dir = 1`): `for count > 0 { set(to, get(from)); from++; to++ }`
on a receiver all of whose indices are present plain values (each `setOwnIdx` is `values[to] = v`). -/
def cwFwd : List (Option Elem) → Nat → Nat → Nat → List (Option Elem)
  | vals, _, _, 0 => vals
  | vals, f, t, c + 1 => cwFwd (vals.set t ((vals[f]?).join)) (f + 1) (t + 1) c

/-- generic loop, backward direction (`dir = -1`, taken when `from < to < from+count`): starts at the
last element. -/
def cwBwd : List (Option Elem) → Nat → Nat → Nat → List (Option Elem)
  | vals, _, _, 0 => vals
  | vals, f, t, c + 1 => cwBwd (vals.set (t + c) ((vals[f + c]?).join)) f t c

/-- builtin_array.go:1072–1090: the direction choice. -/
def copyWithinGeneric (vals : List (Option Elem)) (from_ to count : Nat) : List (Option Elem) :=
  if from_ < to ∧ to < from_ + count then cwBwd vals from_ to count else cwFwd vals from_ to count

/-! ### splice (builtin_array.go:438) on the element sequence

On a receiver without holes, extensible, with writable length and nothing indexed on the prototype
chain, every `setOwnIdx(i, v)` of the generic algorithm is "store at i, extending with holes if
needed" (`dense_set_refines` / `sparse_set_refines`) and every `deleteIdx` + final `length =` is a
truncation. -/

def setExt (l : List (Option Elem)) (i : Nat) (x : Option Elem) : List (Option Elem) :=
  if i < l.length then l.set i x else l ++ List.replicate (i - l.length) none ++ [x]

/-- `for i, item := range items { setOwnIdx(start+i, item) }` (builtin_array.go:523). -/
def writeItems : List (Option Elem) → Nat → List Val → List (Option Elem)
  | vals, _, [] => vals
  | vals, start, v :: t => writeItems (setExt vals start (some (.plain v))) (start + 1) t

/-- the backward move loop of the growing case (builtin_array.go:511): `for k := c; k > 0; k--`
`set(t+k-1, get(f+k-1))`. -/
def bwdExt : List (Option Elem) → Nat → Nat → Nat → List (Option Elem)
  | vals, _, _, 0 => vals
  | vals, f, t, c + 1 => bwdExt (setExt vals (t + c) ((vals[f + c]?).join)) f t c

/-- generic splice (the element moves of builtin_array.go:497–527 followed by `length = newLength`). -/
def spliceGeneric (vals : List (Option Elem)) (start del : Nat) (items : List Val) : List (Option Elem) :=
  let len := vals.length
  let ic := items.length
  if ic < del then
    writeItems ((cwFwd vals (start + del) (start + ic) (len - del - start)).take (len - del + ic)) start items
  else if ic > del then
    writeItems (bwdExt vals (start + del) (start + ic) (len - del - start)) start items
  else writeItems vals start items

/-- fast path (builtin_array.go:468–491): the new `values`. -/
def spliceFast (vals : List (Option Elem)) (start del : Nat) (items : List Val) : List (Option Elem) :=
  vals.take start ++ items.map (fun v => some (.plain v)) ++ vals.drop (start + del)

end GojaModel.C07
