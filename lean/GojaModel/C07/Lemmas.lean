/-
  C07 helper lemmas: sorted item lists, the truncation scans, counting.
-/
import GojaModel.C07.Model

namespace GojaModel.C07

/-! ### sorted item lists -/

theorem sorted_mono {lo lo' : Nat} {l : Items} (h : lo' ≤ lo) (hs : SortedFrom lo l) : SortedFrom lo' l := by
  cases l with
  | nil => trivial
  | cons p t => obtain ⟨k, x⟩ := p; exact ⟨Nat.le_trans h hs.1, hs.2⟩

theorem aGet_none_of_lt {lo : Nat} {l : Items} {i : Nat} (hs : SortedFrom lo l) (h : i < lo) : aGet l i = none := by
  induction l generalizing lo with
  | nil => rfl
  | cons p t ih =>
    obtain ⟨k, x⟩ := p
    have h1 : lo ≤ k := hs.1
    have : ¬ k = i := by omega
    simp only [aGet, this, if_false]
    exact ih hs.2 (by omega)

theorem sFind_eq_aGet {lo : Nat} {l : Items} (hs : SortedFrom lo l) (i : Nat) : sFind l i = aGet l i := by
  induction l generalizing lo with
  | nil => rfl
  | cons p t ih =>
    obtain ⟨k, x⟩ := p
    simp only [sFind, aGet]
    by_cases h1 : k < i
    · have : ¬ k = i := by omega
      simp only [h1, this, if_true, if_false]; exact ih hs.2
    · by_cases h2 : k = i
      · simp [h2]
      · simp only [h1, h2, if_false]
        exact (aGet_none_of_lt hs.2 (by omega)).symm

theorem aGet_sIns (l : Items) (idx : Nat) (e : Elem) (j : Nat) :
    aGet (sIns l idx e) j = if j = idx then some e else aGet l j := by
  induction l with
  | nil =>
    simp only [sIns, aGet]
    by_cases h : j = idx
    · simp [h]
    · have : ¬ idx = j := fun h' => h h'.symm
      simp [h, this]
  | cons p t ih =>
    obtain ⟨k, x⟩ := p
    simp only [sIns]
    by_cases h1 : k < idx
    · simp only [h1, if_true, aGet, ih]
      by_cases h2 : k = j
      · have : ¬ j = idx := by omega
        simp [h2, this]
      · simp [h2]
    · simp only [h1, if_false, aGet]
      by_cases h2 : j = idx
      · simp [h2]
      · have : ¬ idx = j := fun h => h2 h.symm
        simp [h2, this]

theorem sorted_sIns {lo : Nat} {l : Items} {idx : Nat} (e : Elem) (hs : SortedFrom lo l) (hlo : lo ≤ idx)
    (habs : aGet l idx = none) : SortedFrom lo (sIns l idx e) := by
  induction l generalizing lo with
  | nil => exact ⟨hlo, trivial⟩
  | cons p t ih =>
    obtain ⟨k, x⟩ := p
    simp only [sIns]
    by_cases h1 : k < idx
    · simp only [h1, if_true]
      have hne : ¬ k = idx := by omega
      simp only [aGet, hne, if_false] at habs
      exact ⟨hs.1, ih hs.2 (by omega) habs⟩
    · simp only [h1, if_false]
      have hne : ¬ k = idx := by
        intro h; simp [aGet, h] at habs
      exact ⟨hlo, ⟨by omega, hs.2⟩⟩

theorem mem_sIns {l : Items} {idx : Nat} {e : Elem} {p : Nat × Elem} (h : p ∈ sIns l idx e) :
    p = (idx, e) ∨ p ∈ l := by
  induction l with
  | nil => simp [sIns] at h; exact Or.inl h
  | cons q t ih =>
    obtain ⟨k, x⟩ := q
    simp only [sIns] at h
    by_cases h1 : k < idx
    · simp only [h1, if_true, List.mem_cons] at h
      rcases h with h | h
      · exact Or.inr (by simp [h])
      · rcases ih h with h | h
        · exact Or.inl h
        · exact Or.inr (List.mem_cons_of_mem _ h)
    · simp only [h1, if_false, List.mem_cons] at h
      rcases h with h | h | h
      · exact Or.inl h
      · exact Or.inr (by simp [h])
      · exact Or.inr (List.mem_cons_of_mem _ h)

theorem sorted_sSetAt {lo : Nat} {l : Items} (idx : Nat) (e : Elem) (hs : SortedFrom lo l) :
    SortedFrom lo (sSetAt l idx e) := by
  induction l generalizing lo with
  | nil => trivial
  | cons p t ih =>
    obtain ⟨k, x⟩ := p
    simp only [sSetAt]
    by_cases h1 : k < idx
    · simp only [h1, if_true]; exact ⟨hs.1, ih hs.2⟩
    · simp only [h1, if_false]; exact ⟨hs.1, hs.2⟩

theorem aGet_sSetAt {lo : Nat} {l : Items} {idx : Nat} (e : Elem) (hs : SortedFrom lo l)
    (hp : (aGet l idx).isSome) (j : Nat) :
    aGet (sSetAt l idx e) j = if j = idx then some e else aGet l j := by
  induction l generalizing lo with
  | nil => simp [aGet] at hp
  | cons p t ih =>
    obtain ⟨k, x⟩ := p
    simp only [sSetAt]
    by_cases h1 : k < idx
    · have hne : ¬ k = idx := by omega
      simp only [aGet, hne, if_false] at hp
      simp only [h1, if_true, aGet, ih hs.2 hp]
      by_cases h2 : k = j
      · have : ¬ j = idx := by omega
        simp [h2, this]
      · simp [h2]
    · have hk : k = idx := by
        by_cases hk : k = idx
        · exact hk
        · simp only [aGet, hk, if_false] at hp
          rw [aGet_none_of_lt hs.2 (by omega)] at hp
          simp at hp
      subst hk
      simp only [h1, if_false, aGet]
      by_cases h2 : j = k
      · simp [h2]
      · have : ¬ k = j := fun h => h2 h.symm
        simp [h2, this]

theorem mem_sSetAt_key {l : Items} {idx : Nat} {e : Elem} {p : Nat × Elem} (h : p ∈ sSetAt l idx e) :
    ∃ q ∈ l, q.1 = p.1 := by
  induction l with
  | nil => simp [sSetAt] at h
  | cons q t ih =>
    obtain ⟨k, x⟩ := q
    simp only [sSetAt] at h
    by_cases h1 : k < idx
    · simp only [h1, if_true, List.mem_cons] at h
      rcases h with h | h
      · exact ⟨(k, x), by simp, by simp [h]⟩
      · obtain ⟨q, hq, hk⟩ := ih h
        exact ⟨q, List.mem_cons_of_mem _ hq, hk⟩
    · simp only [h1, if_false, List.mem_cons] at h
      rcases h with h | h
      · exact ⟨(k, x), by simp, by simp [h]⟩
      · exact ⟨p, List.mem_cons_of_mem _ h, rfl⟩

theorem sorted_sDel {lo : Nat} {l : Items} (idx : Nat) (hs : SortedFrom lo l) : SortedFrom lo (sDel l idx) := by
  induction l generalizing lo with
  | nil => trivial
  | cons p t ih =>
    obtain ⟨k, x⟩ := p
    simp only [sDel]
    by_cases h1 : k < idx
    · simp only [h1, if_true]; exact ⟨hs.1, ih hs.2⟩
    · simp only [h1, if_false]; exact sorted_mono (by have := hs.1; omega) hs.2

theorem aGet_sDel {lo : Nat} {l : Items} {idx : Nat} (hs : SortedFrom lo l) (hp : (aGet l idx).isSome) (j : Nat) :
    aGet (sDel l idx) j = if j = idx then none else aGet l j := by
  induction l generalizing lo with
  | nil => simp [aGet] at hp
  | cons p t ih =>
    obtain ⟨k, x⟩ := p
    simp only [sDel]
    by_cases h1 : k < idx
    · have hne : ¬ k = idx := by omega
      simp only [aGet, hne, if_false] at hp
      simp only [h1, if_true, aGet, ih hs.2 hp]
      by_cases h2 : k = j
      · have : ¬ j = idx := by omega
        simp [h2, this]
      · simp [h2]
    · have hk : k = idx := by
        by_cases hk : k = idx
        · exact hk
        · simp only [aGet, hk, if_false] at hp
          rw [aGet_none_of_lt hs.2 (by omega)] at hp
          simp at hp
      subst hk
      simp only [h1, if_false, aGet]
      by_cases h2 : j = k
      · simp only [h2, if_true]; exact aGet_none_of_lt (lo := k + 1) hs.2 (by omega)
      · have : ¬ k = j := fun h => h2 h.symm
        simp [h2, this]

theorem mem_sDel {l : Items} {idx : Nat} {p : Nat × Elem} (h : p ∈ sDel l idx) : p ∈ l := by
  induction l with
  | nil => simp [sDel] at h
  | cons q t ih =>
    obtain ⟨k, x⟩ := q
    simp only [sDel] at h
    by_cases h1 : k < idx
    · simp only [h1, if_true, List.mem_cons] at h
      rcases h with h | h
      · simp [h]
      · exact List.mem_cons_of_mem _ (ih h)
    · simp only [h1, if_false] at h
      exact List.mem_cons_of_mem _ h

theorem sorted_sTake {lo : Nat} {l : Items} (n : Nat) (hs : SortedFrom lo l) : SortedFrom lo (sTake l n) := by
  induction l generalizing lo with
  | nil => trivial
  | cons p t ih =>
    obtain ⟨k, x⟩ := p
    simp only [sTake]
    by_cases h1 : k < n
    · simp only [h1, if_true]; exact ⟨hs.1, ih hs.2⟩
    · simp only [h1, if_false]; trivial

theorem below_sTake (l : Items) (n : Nat) : AllBelow n (sTake l n) := by
  induction l with
  | nil => intro p hp; simp [sTake] at hp
  | cons q t ih =>
    obtain ⟨k, x⟩ := q
    intro p hp
    simp only [sTake] at hp
    by_cases h1 : k < n
    · simp only [h1, if_true, List.mem_cons] at hp
      rcases hp with hp | hp
      · simp [hp, h1]
      · exact ih p hp
    · simp [h1] at hp

theorem aGet_sTake {lo : Nat} {l : Items} (n : Nat) (hs : SortedFrom lo l) (j : Nat) :
    aGet (sTake l n) j = if j < n then aGet l j else none := by
  induction l generalizing lo with
  | nil => simp [sTake, aGet]
  | cons p t ih =>
    obtain ⟨k, x⟩ := p
    simp only [sTake]
    by_cases h1 : k < n
    · simp only [h1, if_true, aGet, ih hs.2]
      by_cases h2 : k = j
      · have : j < n := by omega
        simp [h2, this]
      · simp [h2]
    · simp only [h1, if_false, aGet]
      by_cases h3 : j < n
      · have : ¬ k = j := by omega
        simp only [h3, this, if_true, if_false]
        exact (aGet_none_of_lt hs.2 (by omega)).symm
      · simp [h3]

theorem sTake_nil_of_le {lo : Nat} {l : Items} {n : Nat} (hs : SortedFrom lo l) (h : n ≤ lo) : sTake l n = [] := by
  cases l with
  | nil => rfl
  | cons p t =>
    obtain ⟨k, x⟩ := p
    have : ¬ k < n := by have := hs.1; omega
    simp [sTake, this]

theorem sTake_all {l : Items} {n : Nat} (h : AllBelow n l) : sTake l n = l := by
  induction l with
  | nil => rfl
  | cons p t ih =>
    obtain ⟨k, x⟩ := p
    have hk : k < n := h (k, x) (by simp)
    simp only [sTake, hk, if_true]
    rw [ih (fun q hq => h q (List.mem_cons_of_mem _ hq))]

theorem aGet_none_of_below {hi : Nat} {l : Items} {j : Nat} (h : AllBelow hi l) (hj : hi ≤ j) : aGet l j = none := by
  induction l with
  | nil => rfl
  | cons p t ih =>
    obtain ⟨k, x⟩ := p
    have hk : k < hi := h (k, x) (by simp)
    have : ¬ k = j := by omega
    simp only [aGet, this, if_false]
    exact ih (fun q hq => h q (List.mem_cons_of_mem _ hq))

/-! ### counting -/

theorem countProp_sIns (l : Items) (idx : Nat) (e : Elem) :
    countPropItems (sIns l idx e) = countPropItems l + (if e.isProp then 1 else 0) := by
  induction l with
  | nil => simp [sIns, countPropItems, List.countP_cons]
  | cons p t ih =>
    obtain ⟨k, x⟩ := p
    simp only [sIns]
    by_cases h1 : k < idx
    · simp only [h1, if_true]
      simp only [countPropItems, List.countP_cons] at ih ⊢
      omega
    · simp only [h1, if_false]
      simp only [countPropItems, List.countP_cons] <;> omega

theorem countProp_sSetAt_le (l : Items) (idx : Nat) (e : Elem) :
    countPropItems (sSetAt l idx e) ≤ countPropItems l + (if e.isProp then 1 else 0) := by
  induction l with
  | nil => simp [sSetAt, countPropItems]
  | cons p t ih =>
    obtain ⟨k, x⟩ := p
    simp only [sSetAt]
    by_cases h1 : k < idx
    · simp only [h1, if_true]
      simp only [countPropItems, List.countP_cons] at ih ⊢
      omega
    · simp only [h1, if_false]
      simp only [countPropItems, List.countP_cons]
      omega

theorem countProp_sDel_le (l : Items) (idx : Nat) : countPropItems (sDel l idx) ≤ countPropItems l := by
  induction l with
  | nil => simp [sDel]
  | cons p t ih =>
    obtain ⟨k, x⟩ := p
    simp only [sDel]
    by_cases h1 : k < idx
    · simp only [h1, if_true]
      simp only [countPropItems, List.countP_cons] at ih ⊢
      omega
    · simp only [h1, if_false]
      simp only [countPropItems, List.countP_cons]
      omega

theorem countProp_sDel_prop {l : Items} {idx : Nat} {p : VProp} (h : sFind l idx = some (.prop p)) :
    countPropItems (sDel l idx) + 1 = countPropItems l := by
  induction l with
  | nil => simp [sFind] at h
  | cons q t ih =>
    obtain ⟨k, x⟩ := q
    simp only [sFind] at h
    simp only [sDel]
    by_cases h1 : k < idx
    · simp only [h1, if_true] at h ⊢
      have := ih h
      simp only [countPropItems, List.countP_cons] at this ⊢
      omega
    · simp only [h1, if_false] at h ⊢
      by_cases h2 : k = idx
      · simp only [h2, if_true, Option.some.injEq] at h
        simp [countPropItems, List.countP_cons, h, Elem.isProp]
      · simp [h2] at h

theorem countProp_sTake_le (l : Items) (n : Nat) : countPropItems (sTake l n) ≤ countPropItems l := by
  induction l with
  | nil => simp [sTake]
  | cons p t ih =>
    obtain ⟨k, x⟩ := p
    simp only [sTake]
    by_cases h1 : k < n
    · simp only [h1, if_true]
      simp only [countPropItems, List.countP_cons] at ih ⊢
      omega
    · simp [h1, countPropItems]

theorem isProp_false_of_count_zero {l : Items} {i : Nat} {e : Elem} (h0 : countPropItems l = 0)
    (h : aGet l i = some e) : e.isProp = false := by
  induction l with
  | nil => simp [aGet] at h
  | cons p t ih =>
    obtain ⟨k, x⟩ := p
    simp only [countPropItems, List.countP_cons] at h0
    simp only [aGet] at h
    by_cases h1 : k = i
    · simp only [h1, if_true, Option.some.injEq] at h
      subst h
      cases hx : x.isProp
      · rfl
      · simp [hx] at h0
    · simp only [h1, if_false] at h
      exact ih (by simp only [countPropItems]; omega) h

/-! ### the truncation scan -/

theorem sScan_ok_len (l : Nat) (items : Items) (pvc : Nat) : (sScan l items pvc).ok = true → (sScan l items pvc).len = l := by
  induction items with
  | nil => intro _; rfl
  | cons p t ih =>
    obtain ⟨k, e⟩ := p
    simp only [sScan]
    cases hok : (sScan l t pvc).ok
    · simp [hok]
    · simp only [hok, Bool.not_true, Bool.false_eq_true, if_false]
      by_cases h1 : k < l
      · simp only [h1, if_true]; intro _; exact ih hok
      · simp only [h1, if_false]
        cases e with
        | plain v => intro _; exact ih hok
        | prop q =>
          dsimp only
          cases hc : q.configurable
          · simp
          · simp only [Bool.not_true, Bool.false_eq_true, if_false]; intro _; exact ih hok

/-- "index `i` holds a non-configurable element" for an item list. -/
def ncItems (items : Items) (i : Nat) : Bool :=
  match aGet items i with
  | some e => !e.configurable
  | none => false

theorem ncItems_cons (k : Nat) (e : Elem) (t : Items) (i : Nat) :
    ncItems ((k, e) :: t) i = if k = i then !e.configurable else ncItems t i := by
  by_cases h : k = i <;> simp [ncItems, aGet, h]

/-- what the scan computes (all cases at once). -/
theorem sScan_char {lo : Nat} {items : Items} (l pvc : Nat) (hs : SortedFrom lo items) :
    let r := sScan l items pvc
    l ≤ r.len ∧ (∀ i, r.len ≤ i → ncItems items i = false) ∧
    (r.ok = false → ncItems items (r.len - 1) = true ∧ l < r.len ∧ lo < r.len) := by
  induction items generalizing lo with
  | nil =>
    refine ⟨Nat.le_refl _, ?_, ?_⟩
    · intro i _; rfl
    · intro h; simp [sScan] at h
  | cons p t ih =>
    obtain ⟨k, e⟩ := p
    have hk : lo ≤ k := hs.1
    obtain ⟨ih1, ih2, ih3⟩ := ih (lo := k + 1) hs.2
    have hlen := sScan_ok_len l t pvc
    simp only [sScan]
    cases hok : (sScan l t pvc).ok
    · -- the loop had already stopped above k
      obtain ⟨h31, h32, h33⟩ := ih3 hok
      simp only [hok, Bool.not_false, if_true]
      refine ⟨ih1, ?_, ?_⟩
      · intro i hi
        have : ¬ k = i := by omega
        rw [ncItems_cons]; simp only [this, if_false]; exact ih2 i hi
      · intro _
        have : ¬ k = (sScan l t pvc).len - 1 := by omega
        refine ⟨?_, h32, by omega⟩
        rw [ncItems_cons]; simp only [this, if_false]; exact h31
    · have hl := hlen hok
      simp only [hok, Bool.not_true, Bool.false_eq_true, if_false]
      by_cases h1 : k < l
      · simp only [h1, if_true]
        refine ⟨ih1, ?_, ?_⟩
        · intro i hi
          have : ¬ k = i := by omega
          rw [ncItems_cons]; simp only [this, if_false]; exact ih2 i hi
        · intro h; rw [hok] at h; cases h
      · simp only [h1, if_false]
        cases e with
        | plain v =>
          refine ⟨ih1, ?_, ?_⟩
          · intro i hi
            rw [ncItems_cons]
            by_cases h2 : k = i
            · simp [h2, Elem.configurable]
            · simp only [h2, if_false]; exact ih2 i hi
          · intro h; rw [hok] at h; cases h
        | prop q =>
          dsimp only
          cases hc : q.configurable
          · simp only [Bool.not_false, if_true]
            refine ⟨by omega, ?_, ?_⟩
            · intro i hi
              have : ¬ k = i := by omega
              rw [ncItems_cons]; simp only [this, if_false]
              exact ih2 i (by omega)
            · intro _
              refine ⟨?_, by omega, by omega⟩
              rw [ncItems_cons]; simp [Elem.configurable, hc]
          · simp only [Bool.not_true, Bool.false_eq_true, if_false]
            refine ⟨by omega, ?_, ?_⟩
            · intro i hi
              rw [ncItems_cons]
              by_cases h2 : k = i
              · simp [h2, Elem.configurable, hc]
              · simp only [h2, if_false]; exact ih2 i (by omega)
            · intro h; cases h

/-- bookkeeping of the scan: `propValueCount` stays an upper bound of the descriptor-carrying
elements that survive (with arbitrary slack `s`). -/
theorem sScan_pvc {lo : Nat} {items : Items} (l pvc s : Nat) (hs : SortedFrom lo items)
    (h : countPropItems items + s ≤ pvc) :
    countPropItems (sTake items (sScan l items pvc).len) + s ≤ (sScan l items pvc).pvc := by
  induction items generalizing lo s with
  | nil => simpa [sScan, sTake] using h
  | cons p t ih =>
    obtain ⟨k, e⟩ := p
    have hk : lo ≤ k := hs.1
    have hchar := sScan_char l pvc hs.2
    have hlen := sScan_ok_len l t pvc
    have hcnt : countPropItems ((k, e) :: t) = countPropItems t + (if e.isProp then 1 else 0) := by
      simp [countPropItems, List.countP_cons]
    rw [hcnt] at h
    have ih' := ih (lo := k + 1) (s + (if e.isProp then 1 else 0)) hs.2 (by omega)
    simp only [sScan]
    cases hok : (sScan l t pvc).ok
    · obtain ⟨_, _, h3⟩ := hchar
      obtain ⟨_, _, h33⟩ := h3 hok
      simp only [hok, Bool.not_false, if_true]
      have hkl : k < (sScan l t pvc).len := by omega
      simp only [sTake, hkl, if_true]
      have : countPropItems ((k, e) :: sTake t (sScan l t pvc).len) =
          countPropItems (sTake t (sScan l t pvc).len) + (if e.isProp then 1 else 0) := by
        simp [countPropItems, List.countP_cons]
      rw [this]; omega
    · have hl := hlen hok
      simp only [hok, Bool.not_true, Bool.false_eq_true, if_false]
      rw [hl] at ih'
      by_cases h1 : k < l
      · simp only [h1, if_true, hl, sTake]
        have : countPropItems ((k, e) :: sTake t l) =
            countPropItems (sTake t l) + (if e.isProp then 1 else 0) := by
          simp [countPropItems, List.countP_cons]
        rw [this]; omega
      · simp only [h1, if_false]
        cases e with
        | plain v =>
          simp only [hl, sTake, h1, if_false]
          simp only [Elem.isProp] at ih'
          simp [countPropItems] at ih' ⊢; omega
        | prop q =>
          simp only [Elem.isProp, if_true] at ih'
          dsimp only
          cases hc : q.configurable
          · simp only [Bool.not_false, if_true]
            have hk1 : k < k + 1 := by omega
            simp only [sTake, hk1, if_true]
            rw [sTake_nil_of_le hs.2 (Nat.le_refl _)]
            simp [countPropItems, List.countP_cons, Elem.isProp]
            omega
          · simp only [Bool.not_true, Bool.false_eq_true, if_false, hl, sTake, h1]
            simp [countPropItems]; omega

theorem sScan_of_below {items : Items} {l : Nat} (pvc : Nat) (h : AllBelow l items) :
    sScan l items pvc = ⟨l, true, pvc⟩ := by
  induction items with
  | nil => rfl
  | cons p t ih =>
    obtain ⟨k, e⟩ := p
    have hk : k < l := h (k, e) (by simp)
    simp [sScan, ih (fun q hq => h q (List.mem_cons_of_mem _ hq)), hk]

/-! ### spec cutoff -/

def ncSpec (get : Nat → Option SProp) (i : Nat) : Bool :=
  match get i with
  | some p => !p.configurable
  | none => false

/-- declarative meaning of "delete downwards, stop at the first non-configurable". -/
structure CutChar (nc : Nat → Bool) (l top c : Nat) : Prop where
  lo : l ≤ c
  above : ∀ i, c ≤ i → i < top → nc i = false
  stop : c = l ∨ (nc (c - 1) = true ∧ c - 1 < top ∧ l < c)

theorem CutChar.unique {nc : Nat → Bool} {l top c1 c2 : Nat} (h1 : CutChar nc l top c1) (h2 : CutChar nc l top c2) :
    c1 = c2 := by
  rcases Nat.lt_trichotomy c1 c2 with h | h | h
  · rcases h2.stop with e | ⟨hn, ht, _⟩
    · have := h1.lo; omega
    · have := h1.above (c2 - 1) (by omega) ht
      rw [this] at hn; cases hn
  · exact h
  · rcases h1.stop with e | ⟨hn, ht, _⟩
    · have := h2.lo; omega
    · have := h2.above (c1 - 1) (by omega) ht
      rw [this] at hn; cases hn

theorem cutoff_char (get : Nat → Option SProp) (l d : Nat) : CutChar (ncSpec get) l (l + d) (cutoff get l d) := by
  induction d with
  | zero => exact ⟨Nat.le_refl _, fun i h1 h2 => by simp [cutoff] at h1; omega, Or.inl rfl⟩
  | succ d ih =>
    simp only [cutoff]
    cases hg : get (l + d) with
    | none =>
      simp only
      refine ⟨ih.lo, ?_, ?_⟩
      · intro i h1 h2
        by_cases h3 : i = l + d
        · simp [ncSpec, h3, hg]
        · exact ih.above i h1 (by omega)
      · rcases ih.stop with e | ⟨a, b, c⟩
        · exact Or.inl e
        · exact Or.inr ⟨a, by omega, c⟩
    | some p =>
      simp only
      cases hc : p.configurable
      · simp only [Bool.false_eq_true, if_false]
        refine ⟨by omega, fun i h1 h2 => by omega, Or.inr ⟨?_, by omega, by omega⟩⟩
        simp [ncSpec, hg, hc]
      · simp only [if_true]
        refine ⟨ih.lo, ?_, ?_⟩
        · intro i h1 h2
          by_cases h3 : i = l + d
          · simp [ncSpec, h3, hg, hc]
          · exact ih.above i h1 (by omega)
        · rcases ih.stop with e | ⟨a, b, c⟩
          · exact Or.inl e
          · exact Or.inr ⟨a, by omega, c⟩

theorem abs_configurable (e : Elem) : e.abs.configurable = e.configurable := by
  cases e with
  | plain v => rfl
  | prop p => simp only [Elem.abs, Elem.configurable]; split <;> rfl

theorem ncSpec_abs (items : Items) (i : Nat) :
    ncSpec (fun i => (aGet items i).map Elem.abs) i = ncItems items i := by
  simp only [ncSpec, ncItems]
  cases aGet items i with
  | none => rfl
  | some e => simp [abs_configurable]

/-! ### dense values as item lists -/

theorem dScan_eq_sScan (l i : Nat) (vs : List (Option Elem)) (pvc : Nat) :
    dScan l i vs pvc = sScan l (enumSome i vs) pvc := by
  induction vs generalizing i with
  | nil => rfl
  | cons e t ih =>
    cases e with
    | none =>
      simp only [dScan, enumSome, ih]
      split
      · rfl
      · split <;> rfl
    | some x =>
      simp only [dScan, enumSome, sScan, ih]
      cases x <;> rfl

theorem sorted_enumSome (i : Nat) (vs : List (Option Elem)) : SortedFrom i (enumSome i vs) := by
  induction vs generalizing i with
  | nil => trivial
  | cons e t ih =>
    cases e with
    | none => exact sorted_mono (Nat.le_succ i) (ih (i + 1))
    | some x => exact ⟨Nat.le_refl _, ih (i + 1)⟩

theorem below_enumSome (i : Nat) (vs : List (Option Elem)) : AllBelow (i + vs.length) (enumSome i vs) := by
  induction vs generalizing i with
  | nil => intro p hp; simp [enumSome] at hp
  | cons e t ih =>
    have ih' := ih (i + 1)
    cases e with
    | none =>
      intro p hp
      have := ih' p hp
      simp only [List.length_cons]; omega
    | some x =>
      intro p hp
      simp only [enumSome, List.mem_cons] at hp
      simp only [List.length_cons]
      rcases hp with hp | hp
      · subst hp; show i < i + (t.length + 1); omega
      · have := ih' p hp; omega

theorem aGet_enumSome (i : Nat) (vs : List (Option Elem)) (j : Nat) :
    aGet (enumSome i vs) j = if j < i then none else (vs[j - i]?).join := by
  induction vs generalizing i with
  | nil => simp [enumSome, aGet]
  | cons e t ih =>
    cases e with
    | none =>
      simp only [enumSome, ih]
      by_cases h1 : j < i
      · have : j < i + 1 := by omega
        simp [h1, this]
      · by_cases h2 : j = i
        · simp [h2]
        · have h3 : ¬ j < i + 1 := by omega
          have h4 : j - i = (j - (i + 1)) + 1 := by omega
          simp only [h1, h3, if_false]
          rw [h4, List.getElem?_cons_succ]
    | some x =>
      simp only [enumSome, aGet, ih]
      by_cases h2 : i = j
      · simp [h2]
      · by_cases h1 : j < i
        · have : j < i + 1 := by omega
          simp [h1, h2, this]
        · have h3 : ¬ j < i + 1 := by omega
          have h4 : j - i = (j - (i + 1)) + 1 := by omega
          simp only [h1, h2, h3, if_false]
          rw [h4, List.getElem?_cons_succ]

theorem countProp_enumSome (i : Nat) (vs : List (Option Elem)) : countPropItems (enumSome i vs) = countProp vs := by
  induction vs generalizing i with
  | nil => rfl
  | cons e t ih =>
    cases e with
    | none => simp only [enumSome, ih]; simp [countProp, List.countP_cons, isPropSlot]
    | some x =>
      have := ih (i + 1)
      simp only [countPropItems, countProp] at this
      simp only [enumSome, countPropItems, countProp, List.countP_cons, this]
      cases x <;> rfl

theorem length_enumSome (i : Nat) (vs : List (Option Elem)) : (enumSome i vs).length = countSome vs := by
  induction vs generalizing i with
  | nil => rfl
  | cons e t ih =>
    cases e with
    | none => simp only [enumSome, ih]; simp [countSome, List.countP_cons]
    | some x => simp [enumSome, ih, countSome, List.countP_cons]

theorem sTake_enumSome (i : Nat) (vs : List (Option Elem)) (n : Nat) (h : i ≤ n) :
    sTake (enumSome i vs) n = enumSome i (vs.take (n - i)) := by
  induction vs generalizing i with
  | nil => simp [enumSome, sTake]
  | cons e t ih =>
    by_cases h1 : i = n
    · subst h1
      simp only [Nat.sub_self, List.take_zero, enumSome]
      exact sTake_nil_of_le (sorted_enumSome i (e :: t)) (Nat.le_refl _)
    · have h2 : n - i = (n - (i + 1)) + 1 := by omega
      rw [h2, List.take_succ_cons]
      cases e with
      | none => simp only [enumSome]; exact ih (i + 1) (by omega)
      | some x =>
        have : i < n := by omega
        simp only [enumSome, sTake, this, if_true]
        rw [ih (i + 1) (by omega)]

theorem countP_set' (p : Option Elem → Bool) (vs : List (Option Elem)) (idx : Nat) (old new : Option Elem)
    (h : vs[idx]? = some old) :
    (vs.set idx new).countP p + (if p old then 1 else 0) = vs.countP p + (if p new then 1 else 0) := by
  induction vs generalizing idx with
  | nil => simp at h
  | cons e t ih =>
    cases idx with
    | zero =>
      simp only [List.getElem?_cons_zero, Option.some.injEq] at h
      subst h
      simp only [List.set_cons_zero, List.countP_cons]; omega
    | succ n =>
      simp only [List.getElem?_cons_succ] at h
      have := ih n h
      simp only [List.set_cons_succ, List.countP_cons]; omega

theorem countP_append_replicate_none (p : Option Elem → Bool) (hp : p none = false) (vs : List (Option Elem)) (n : Nat) :
    (vs ++ List.replicate n none).countP p = vs.countP p := by
  rw [List.countP_append]
  have : (List.replicate n (none : Option Elem)).countP p = 0 := by
    induction n with
    | zero => rfl
    | succ n ih => simp [List.replicate_succ, List.countP_cons, hp, ih]
  omega

end GojaModel.C07
