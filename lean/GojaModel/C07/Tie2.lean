/-
  C07 tie, part 2 (deepening round 2): the fast-path guards of sort / toSorted / filter / Array.from as
  regenerated from the Go source.
-/
import GojaModel.C07.Model
import GojaModel.Generated.C07_Thresholds

namespace GojaModel.C07

/-- sort and toSorted take their copy-the-values path exactly when `checkStdArrayObj` accepts the
receiver (hypotheses of `sortCollect_fast_eq_generic` / `toSorted_collect_fast_eq_generic`); filter's
guard is on the RESULT array and is evaluated once, before the callbacks run (finding
`filter-fastpath-overwrites-result-array-changed-by-callback`); Array.from's guard is
`checkStdArrayIter`. -/
theorem fastPathGuards2_tie : GojaModel.Generated.C07.fastPathGuards2 =
    [("arrayproto_sort/checkStdArrayObj", "src != nil"),
     ("arrayproto_toSorted/checkStdArrayObj", "src != nil"),
     ("arrayproto_filter/checkStdArrayObj", "arr != nil"),
     ("array_from/checkStdArrayIter", "arr != nil")] := by rfl

/-- `checkStdArrayIter` looks at the array's own `Symbol.iterator` only — not at
`%ArrayIteratorPrototype%.next` (finding `array-from-fastpath-ignores-patched-ArrayIteratorPrototype-next`). -/
theorem stdArrayIterCond_tie : GojaModel.Generated.C07.stdArrayIterCond =
    "arr != nil && arr.getSym(SymIterator, nil) == r.getArrayValues()" := by rfl

end GojaModel.C07
