/-
  C07 property theorems, part 10 (deepening round 2): histories that also contain
  `Array.prototype.pop` (fast path, bail-out, sparse storage), and the list-level meaning of the generic
  shift / unshift / push loops (hole branches included) as corollaries of the splice theorem.
-/
import GojaModel.C07.PropsMethods2

namespace GojaModel.C07

/-- an operation of `PropsHist.Op`, or a pop. -/
inductive OpP where
  | op (o : Op)
  | pop

def OpP.Valid : OpP → Prop
  | .op o => o.Valid
  | .pop => True

def Store.stepP (s : Store) : OpP → Store × Bool
  | .op o => s.step o
  | .pop => s.pop true

def SpecArray.stepP (a : SpecArray) : OpP → SpecArray × Bool
  | .op o => a.step o
  | .pop => a.pop

def Store.runP (s : Store) : List OpP → Store × List Bool
  | [] => (s, [])
  | o :: rest =>
    let r := s.stepP o
    let q := r.1.runP rest
    (q.1, r.2 :: q.2)

def SpecArray.runP (a : SpecArray) : List OpP → SpecArray × List Bool
  | [] => (a, [])
  | o :: rest =>
    let r := a.stepP o
    let q := r.1.runP rest
    (q.1, r.2 :: q.2)

theorem stepP_refines (s : Store) (hg : s.Good) (o : OpP) (hv : o.Valid) :
    ((s.stepP o).1.abs, (s.stepP o).2) = s.abs.stepP o ∧ (s.stepP o).1.Good := by
  cases o with
  | op o => exact step_refines s hg o hv
  | pop => exact pop_refines s hg

/-- `history_refines` extended by pop: every finite sequence of the seven operations AND pops, on
either storage and across any number of storage switches, gives the spec's results and state. -/
theorem historyP_refines (ops : List OpP) (s : Store) (hg : s.Good) (hv : ∀ o ∈ ops, o.Valid) :
    ((s.runP ops).1.abs, (s.runP ops).2) = s.abs.runP ops ∧ (s.runP ops).1.Good := by
  induction ops generalizing s with
  | nil => exact ⟨rfl, hg⟩
  | cons o rest ih =>
    obtain ⟨h1, h2⟩ := stepP_refines s hg o (hv o (by simp))
    obtain ⟨i1, i2⟩ := ih (s.stepP o).1 h2 (fun x hx => hv x (List.mem_cons_of_mem _ hx))
    refine ⟨?_, i2⟩
    simp only [Store.runP, SpecArray.runP]
    have e1 : (s.stepP o).1.abs = (s.abs.stepP o).1 := congrArg Prod.fst h1
    have e2 : (s.stepP o).2 = (s.abs.stepP o).2 := congrArg Prod.snd h1
    rw [← e1, ← e2, ← i1]

/-! ## shift / unshift / push: the generic loops on the slot list -/

/-- `arrayproto_shift` generic (builtin_array.go:1028): move i → i−1 for 1 ≤ i < len (hole branch:
delete), delete the last index, `length = len−1`. -/
def shiftGeneric (vals : List (Option Elem)) : List (Option Elem) :=
  (cwFwdGeneric vals 1 0 (vals.length - 1)).take (vals.length - 1)

/-- `arrayproto_unshift` generic (builtin_array.go:561): move k → k+argCount from the top down (hole
branch: delete), then store the arguments at 0… -/
def unshiftGeneric (vals : List (Option Elem)) (items : List Val) : List (Option Elem) :=
  writeItems (bwdExt vals 0 items.length vals.length) 0 items

/-- `generic_push`: store the arguments at len, len+1, … -/
def pushGeneric (vals : List (Option Elem)) (items : List Val) : List (Option Elem) :=
  writeItems vals vals.length items

theorem shift_generic_eq_drop (vals : List (Option Elem)) (h : 0 < vals.length) : shiftGeneric vals = vals.drop 1 := by
  have hs := splice_fast_eq_generic vals 0 1 [] (by omega)
  unfold spliceFast spliceGeneric at hs
  simp only [List.length_nil, Nat.zero_lt_one, if_true, List.take_zero, List.map_nil, List.nil_append,
    Nat.zero_add, Nat.add_zero, writeItems] at hs
  unfold shiftGeneric
  rw [(copyWithin_generic_with_holes (vals.length - 1) vals 1 0).1]
  have : vals.length - 1 - 0 = vals.length - 1 := by omega
  rw [this] at hs
  exact hs.symm

theorem unshift_generic_eq (vals : List (Option Elem)) (items : List Val) (h : 0 < items.length) :
    unshiftGeneric vals items = items.map (fun v => some (.plain v)) ++ vals := by
  have hs := splice_fast_eq_generic vals 0 0 items (by omega)
  unfold spliceFast spliceGeneric at hs
  have h1 : ¬ items.length < 0 := by omega
  simp only [h1, if_false, h, if_true, List.take_zero, List.nil_append, Nat.zero_add, Nat.add_zero, List.drop_zero,
    Nat.sub_zero] at hs
  unfold unshiftGeneric
  exact hs.symm

theorem push_generic_eq (vals : List (Option Elem)) (items : List Val) (h : 0 < items.length) :
    pushGeneric vals items = vals ++ items.map (fun v => some (.plain v)) := by
  have hs := splice_fast_eq_generic vals vals.length 0 items (by omega)
  unfold spliceFast spliceGeneric at hs
  have h1 : ¬ items.length < 0 := by omega
  simp only [h1, if_false, h, if_true, Nat.add_zero, List.take_length, List.drop_length, List.append_nil,
    Nat.sub_self, Nat.sub_zero, bwdExt] at hs
  unfold pushGeneric
  exact hs.symm

end GojaModel.C07
