/-
  C07 property theorems, part 4: per-method "fast path = generic algorithm" under the guard of
  `checkStdArrayObj` (+ the `len(values) == length` re-check), and `Array.prototype.pop`.
-/
import GojaModel.C07.Methods
import GojaModel.C07.PropsHist

namespace GojaModel.C07

/-- all slots of `values` hold plain values (what `stdGuard` gives under `Inv`). -/
def AllPlain (vals : List (Option Elem)) : Prop := ∀ k (hk : k < vals.length), ∃ v, vals[k] = some (.plain v)

theorem guard_allPlain (a : Dense) (h : a.Inv) (hg : a.stdGuard = true) : AllPlain a.values ∧ a.values.length = a.length := by
  have hlen : a.values.length = a.length := by
    simp only [Dense.stdGuard, Bool.and_eq_true, beq_iff_eq] at hg
    exact hg.1.2.symm
  refine ⟨?_, hlen⟩
  intro k hk
  obtain ⟨v, hv⟩ := stdGuard_no_holes a h hg k (by omega)
  simp only [Dense.slot, List.getElem?_eq_getElem hk, Option.join_some] at hv
  exact ⟨v, hv⟩

private theorem view_at (a : Dense) (hp : AllPlain a.values) (proto : Nat → Option Val) (gr : VProp → Option Val)
    (k : Nat) (hk : k < a.values.length) :
    ∃ v, a.values[k] = some (.plain v) ∧ (a.view proto gr).has k = true ∧ (a.view proto gr).get k = some v ∧
      slotVal ((a.values[k]?).join) = some v := by
  obtain ⟨v, hv⟩ := hp k hk
  refine ⟨v, hv, ?_, ?_, ?_⟩ <;>
    simp [Dense.view, Dense.slot, List.getElem?_eq_getElem hk, hv, genericGet, slotVal]

/-- indexOf: the fast path (scan of `values[n:]`) finds exactly what the generic loop
(HasProperty + Get + StrictEquals for n ≤ k < length) finds — whatever the prototype chain holds. -/
theorem indexOf_fast_eq_generic (a : Dense) (h : a.Inv) (hg : a.stdGuard = true) (proto : Nat → Option Val)
    (gr : VProp → Option Val) (eq : Val → Bool) (n L : Nat) (hL : a.values.length = L) (hn : n ≤ L) :
    indexOfFast a.values eq n = indexOfGeneric (a.view proto gr) eq n (L - n) := by
  obtain ⟨hp, _⟩ := guard_allPlain a h hg
  unfold indexOfFast
  have key : ∀ c n, n + c = L → scanFirst eq n (a.values.drop n) = indexOfGeneric (a.view proto gr) eq n c := by
    intro c
    induction c with
    | zero =>
      intro n hn
      have : a.values.drop n = [] := List.drop_eq_nil_of_le (by omega)
      rw [this]; rfl
    | succ c ih =>
      intro n hn
      have hk : n < a.values.length := by omega
      obtain ⟨v, hv, h1, h2, _⟩ := view_at a hp proto gr n hk
      rw [List.drop_eq_getElem_cons hk, hv]
      simp only [scanFirst, indexOfGeneric, slotVal, h1, h2, Bool.true_and]
      by_cases he : eq v = true
      · rw [if_pos he, if_pos he]
      · rw [if_neg he, if_neg he]; exact ih (n + 1) (by omega)
  exact key (L - n) n (by omega)

/-- includes (SameValueZero, every index read with Get): fast = generic. -/
theorem includes_fast_eq_generic (a : Dense) (h : a.Inv) (hg : a.stdGuard = true) (proto : Nat → Option Val)
    (gr : VProp → Option Val) (eq : Val → Bool) (n L : Nat) (hL : a.values.length = L) (hn : n ≤ L) :
    includesFast a.values eq n = includesGeneric (a.view proto gr) eq n (L - n) := by
  obtain ⟨hp, _⟩ := guard_allPlain a h hg
  unfold includesFast
  have key : ∀ c n, n + c = L →
      (a.values.drop n).any (fun o => match slotVal o with | some v => eq v | none => false) =
        includesGeneric (a.view proto gr) eq n c := by
    intro c
    induction c with
    | zero =>
      intro n hn
      have : a.values.drop n = [] := List.drop_eq_nil_of_le (by omega)
      rw [this]; rfl
    | succ c ih =>
      intro n hn
      have hk : n < a.values.length := by omega
      obtain ⟨v, hv, h1, h2, _⟩ := view_at a hp proto gr n hk
      rw [List.drop_eq_getElem_cons hk, hv]
      simp only [List.any_cons, includesGeneric, h2, Option.getD_some]
      rw [ih (n + 1) (by omega)]
      rfl
  exact key (L - n) n (by omega)

/-- lastIndexOf (downwards from `fromIndex = c − 1 < length`): fast = generic. -/
theorem lastIndexOf_fast_eq_generic (a : Dense) (h : a.Inv) (hg : a.stdGuard = true) (proto : Nat → Option Val)
    (gr : VProp → Option Val) (eq : Val → Bool) (c : Nat) (hc : c ≤ a.values.length) :
    lastIndexOfFast a.values eq c = lastIndexOfGeneric (a.view proto gr) eq c := by
  obtain ⟨hp, _⟩ := guard_allPlain a h hg
  induction c with
  | zero => rfl
  | succ c ih =>
    have hk : c < a.values.length := by omega
    obtain ⟨v, hv, h1, h2, h3⟩ := view_at a hp proto gr c hk
    simp only [lastIndexOfFast, lastIndexOfGeneric, h1, h2, h3, Bool.true_and]
    split
    · rfl
    · exact ih (by omega)

private theorem map_range_congr (f g : Nat → Option Val) (n : Nat) (hfg : ∀ k, k < n → f k = g k) :
    (List.range n).map f = (List.range n).map g := by
  apply List.map_congr_left
  intro k hk
  exact hfg k (List.mem_range.mp hk)

/-- `with` (after f0b16cb: length first, fast path only if `len(values) == length`): fast = generic. -/
theorem with_fast_eq_generic (a : Dense) (h : a.Inv) (hg : a.stdGuard = true) (proto : Nat → Option Val)
    (gr : VProp → Option Val) (L idx : Nat) (v : Val) (hL : a.values.length = L) :
    withFast a.values L idx v = withGeneric (a.view proto gr) L idx v := by
  obtain ⟨hp, _⟩ := guard_allPlain a h hg
  unfold withFast withGeneric
  apply map_range_congr
  intro k hk
  split
  · rfl
  · obtain ⟨w, _, _, h2, h3⟩ := view_at a hp proto gr k (by omega)
    rw [h2, h3]

theorem toReversed_fast_eq_generic (a : Dense) (h : a.Inv) (hg : a.stdGuard = true) (proto : Nat → Option Val)
    (gr : VProp → Option Val) (L : Nat) (hL : a.values.length = L) :
    toReversedFast a.values L = toReversedGeneric (a.view proto gr) L := by
  obtain ⟨hp, _⟩ := guard_allPlain a h hg
  unfold toReversedFast toReversedGeneric
  apply map_range_congr
  intro k hk
  obtain ⟨w, _, _, h2, h3⟩ := view_at a hp proto gr (L - k - 1) (by omega)
  rw [h2, h3]

private theorem map_slotVal (a : Dense) (hp : AllPlain a.values) (proto : Nat → Option Val) (gr : VProp → Option Val) :
    a.values.map slotVal = (List.range a.values.length).map (a.view proto gr).get := by
  apply List.ext_getElem
  · simp
  · intro k h1 h2
    simp only [List.getElem_map, List.getElem_range]
    have hk : k < a.values.length := by simpa using h1
    obtain ⟨w, hv, _, hget, _⟩ := view_at a hp proto gr k hk
    rw [hv, hget]; rfl

/-- toSpliced (after 61fb8fc: fast path only if `len(values) == length`): fast = generic. -/
theorem toSpliced_fast_eq_generic (a : Dense) (h : a.Inv) (hg : a.stdGuard = true) (proto : Nat → Option Val)
    (gr : VProp → Option Val) (L start skip : Nat) (items : List Val) (hL : a.values.length = L)
    (hs : start + skip ≤ L) :
    toSplicedFast a.values start skip items = toSplicedGeneric (a.view proto gr) L start skip items := by
  obtain ⟨hp, _⟩ := guard_allPlain a h hg
  have hm := map_slotVal a hp proto gr
  unfold toSplicedFast toSplicedGeneric
  congr 1
  · congr 1
    rw [List.map_take, hm, ← List.map_take, List.take_range]
    congr 2
    omega
  · rw [List.map_drop, hm, ← List.map_drop]
    apply List.ext_getElem
    · simp; omega
    · intro k h1 h2
      simp only [List.getElem_map, List.getElem_drop, List.getElem_range]

/-- fill: on a no-holes array the fast path (`values[k] = v`) does exactly what the generic loop of
`setOwnIdx` does on the mechanism (which in turn refines the spec's Set by `step_refines`). -/
theorem fill_fast_eq_generic (v : Val) (pa : Nat → Option Bool) (c : Nat) :
    ∀ (a : Dense) (k : Nat), AllPlain a.values → k + c ≤ a.values.length →
      fillGeneric (.dense a) v pa k c = (.dense { a with values := fillFast a.values v k c }, true) := by
  induction c with
  | zero => intro a k _ _; rfl
  | succ c ih =>
    intro a k hp hk
    have hlt : k < a.values.length := by omega
    obtain ⟨w, hw⟩ := hp k hlt
    have hslot : a.slot k = some (.plain w) := by
      simp [Dense.slot, List.getElem?_eq_getElem hlt, hw]
    have hstep : (Store.dense a).setOwnIdx k v (pa k) =
        (.dense { a with values := a.values.set k (some (.plain v)) }, true) := by
      simp only [Store.setOwnIdx, Dense.setOwnIdx, hslot]
    simp only [fillGeneric, hstep, Bool.not_true, Bool.false_eq_true, if_false, fillFast]
    have hp' : AllPlain (a.values.set k (some (.plain v))) := by
      intro j hj
      have hj' : j < a.values.length := by simpa using hj
      by_cases hjk : k = j
      · subst hjk; exact ⟨v, by simp⟩
      · obtain ⟨u, hu⟩ := hp j hj'
        exact ⟨u, by simp [List.getElem_set_ne hjk, hu]⟩
    have := ih { a with values := a.values.set k (some (.plain v)) } (k + 1) hp' (by simp; omega)
    simpa using this

/-! ## pop -/

/-- the generic pop on the mechanism refines the spec's pop and keeps `Good` (both storages). -/
theorem pop_generic_refines (s : Store) (hg : s.Good) :
    ((s.popGeneric).1.abs, (s.popGeneric).2) = s.abs.pop ∧ (s.popGeneric).1.Good := by
  have hlen : s.length = s.abs.length := by cases s <;> rfl
  unfold Store.popGeneric SpecArray.pop
  rw [hlen]
  by_cases h0 : s.abs.length = 0
  · simp only [h0, if_true]
    exact step_refines s hg (.setLength 0) trivial
  · simp only [h0, if_false]
    obtain ⟨d1, d2⟩ := step_refines s hg (.delete (s.abs.length - 1)) trivial
    have e1 : (s.deleteIdx (s.abs.length - 1)).1.abs = (s.abs.delete (s.abs.length - 1)).1 := congrArg Prod.fst d1
    have e2 : (s.deleteIdx (s.abs.length - 1)).2 = (s.abs.delete (s.abs.length - 1)).2 := congrArg Prod.snd d1
    cases hd : (s.abs.delete (s.abs.length - 1)).2
    · have hd' : (s.deleteIdx (s.abs.length - 1)).2 = false := by rw [e2, hd]
      simp only [hd', Bool.not_false, if_true]
      exact ⟨Prod.ext e1 hd.symm, d2⟩
    · have hd' : (s.deleteIdx (s.abs.length - 1)).2 = true := by rw [e2, hd]
      simp only [hd', Bool.not_true, Bool.false_eq_true, if_false]
      obtain ⟨s1, s2⟩ := step_refines (s.deleteIdx (s.abs.length - 1)).1 d2 (.setLength (s.abs.length - 1)) trivial
      refine ⟨?_, s2⟩
      have : ((s.deleteIdx (s.abs.length - 1)).1.step (.setLength (s.abs.length - 1))) =
          (s.deleteIdx (s.abs.length - 1)).1.setLength (s.abs.length - 1) := rfl
      rw [this] at s1
      rw [s1, e1]; rfl

/-- the PATCHED fast path (`objCount--`, fixes/C07-pop-fastpath-objCount.diff) refines the spec's pop
and keeps `Inv`. -/
theorem pop_fast_refines (a : Dense) (h : a.Inv) (r : Dense × Bool) (hr : a.popFast true = some r) :
    (r.1.abs, r.2) = a.abs.pop ∧ r.1.Inv := by
  have hal : a.abs.length = a.length := rfl
  have hlw : a.abs.lengthWritable = a.lenW := rfl
  unfold Dense.popFast at hr
  unfold SpecArray.pop
  rw [hal]
  by_cases hpos : a.length > 0
  · have hne : ¬ a.length = 0 := by omega
    simp only [hpos, if_true] at hr
    simp only [hne, if_false]
    cases hs : a.slot (a.length - 1) with
    | none => simp [hs] at hr
    | some e =>
      cases e with
      | prop p => simp [hs] at hr
      | plain v =>
        simp only [hs] at hr
        obtain ⟨hlt, hv⟩ := slot_some_lt (by simpa [Dense.slot] using hs)
        have hvlen : a.values.length = a.length := by have := h.lenValues; omega
        have hsplit : a.values = a.values.take (a.length - 1) ++ [some (.plain v)] := by
          have hd : a.values.drop (a.length - 1) = [some (.plain v)] := by
            rw [List.drop_eq_getElem_cons hlt]
            have : a.values[a.length - 1] = some (.plain v) := by
              have := List.getElem?_eq_getElem hlt; rw [this] at hv; exact Option.some.inj hv
            rw [this, List.drop_eq_nil_of_le (by omega)]
          rw [← hd, List.take_append_drop]
        have c1 : countSome a.values = countSome (a.values.take (a.length - 1)) + 1 := by
          conv => lhs; rw [hsplit]
          simp [countSome, List.countP_append]
        have c2 : countProp a.values = countProp (a.values.take (a.length - 1)) := by
          conv => lhs; rw [hsplit]
          simp [countProp, List.countP_append, isPropSlot]
        have ho := h.objCount; have hq := h.pvc
        -- spec side: delete the last element (a plain value is configurable) …
        have hget : a.abs.get (a.length - 1) = some (.data v true true true) := by
          show (a.slot (a.length - 1)).map Elem.abs = _
          rw [hs]; rfl
        have hdel : a.abs.delete (a.length - 1) =
            ({ a.abs with get := fun i => if i = a.length - 1 then none else a.abs.get i }, true) := by
          simp [SpecArray.delete, hget, SProp.configurable]
        rw [hdel]
        simp only [Bool.not_true, Bool.false_eq_true, if_false]
        -- the abstract elements of the fast result
        have hres : ∀ i, (((a.values.take (a.length - 1))[i]?).join).map Elem.abs =
            if i < a.length - 1 then a.abs.get i else none := by
          intro i
          by_cases hi : i < a.length - 1
          · simp only [hi, if_true, List.getElem?_take, if_true]; rfl
          · simp only [hi, if_false, List.getElem?_take]; rfl
        have hbeyond : ∀ i, a.length ≤ i → a.abs.get i = none := by
          intro i hi
          show ((a.values[i]?).join).map Elem.abs = none
          rw [List.getElem?_eq_none (by omega)]; rfl
        cases hw : a.lenW
        · simp only [hw, Bool.false_eq_true, if_false, Option.some.injEq] at hr
          subst hr
          refine ⟨?_, ⟨by show (a.values.take _).length ≤ a.length; simp; omega, by show a.objCount - 1 = countSome (a.values.take _); omega,
            by show countProp (a.values.take _) ≤ a.pvc; omega⟩⟩
          have hsl : ({ a.abs with get := fun i => if i = a.length - 1 then none else a.abs.get i } : SpecArray).setLength (a.length - 1) =
              ({ a.abs with get := fun i => if i = a.length - 1 then none else a.abs.get i }, false) := by
            simp [SpecArray.setLength, hlw, hw]
          rw [hsl]
          refine Prod.ext ?_ rfl
          refine SpecArray.ext' ?_ rfl (hlw.trans hw).symm rfl
          funext i
          show (((a.values.take (a.length - 1))[i]?).join).map Elem.abs = if i = a.length - 1 then none else a.abs.get i
          rw [hres]
          by_cases hi : i < a.length - 1
          · have : ¬ i = a.length - 1 := by omega
            simp [hi, this]
          · by_cases hi2 : i = a.length - 1
            · simp [hi, hi2]
            · simp only [hi, hi2, if_false]; exact (hbeyond i (by omega)).symm
        · simp only [hw, if_true, Option.some.injEq] at hr
          subst hr
          refine ⟨?_, ⟨by show (a.values.take _).length ≤ a.length - 1; simp; omega, by show a.objCount - 1 = countSome (a.values.take _); omega,
            by show countProp (a.values.take _) ≤ a.pvc; omega⟩⟩
          have hlt2 : ¬ a.length - 1 ≥ a.length := by omega
          have hcut : cutoff (fun i => if i = a.length - 1 then none else a.abs.get i) (a.length - 1) (a.length - (a.length - 1)) = a.length - 1 := by
            have : a.length - (a.length - 1) = 1 := by omega
            rw [this]
            simp [cutoff]
          have hsl : ({ a.abs with get := fun i => if i = a.length - 1 then none else a.abs.get i } : SpecArray).setLength (a.length - 1) =
              ({ a.abs with get := fun i => if i < a.length - 1 then (if i = a.length - 1 then none else a.abs.get i) else none,
                            length := a.length - 1 }, true) := by
            simp only [SpecArray.setLength, hlw, hw, Bool.not_true, Bool.false_eq_true, if_false, hal, hlt2, SpecArray.truncate, hcut, beq_self_eq_true]
          rw [hsl]
          refine Prod.ext ?_ rfl
          refine SpecArray.ext' ?_ rfl (hlw.trans hw).symm rfl
          funext i
          show (((a.values.take (a.length - 1))[i]?).join).map Elem.abs = _
          rw [hres]
          by_cases hi : i < a.length - 1
          · have : ¬ i = a.length - 1 := by omega
            simp [hi, this]
          · simp [hi]
  · have h0 : a.length = 0 := by omega
    simp only [hpos, if_false] at hr
    simp only [h0, if_true]
    have hsl : a.abs.setLength 0 = if a.lenW then (a.abs, true) else (a.abs, false) := by
      simp only [SpecArray.setLength, hlw, hal, h0]
      cases hw2 : a.lenW
      · rfl
      · simp only [Bool.not_true, Bool.false_eq_true, if_false, Nat.le_refl, ge_iff_le, if_true]
        refine Prod.ext ?_ rfl
        exact SpecArray.ext' rfl (hal.trans h0).symm rfl rfl
    rw [hsl]
    cases hw : a.lenW
    · simp only [hw, Bool.false_eq_true, if_false, Option.some.injEq] at hr
      subst hr; exact ⟨rfl, h⟩
    · simp only [hw, if_true, Option.some.injEq] at hr
      subst hr; exact ⟨rfl, h⟩

/-- the code as it is today (`decr = false`) breaks `Inv` — witness of the finding
`pop-fastpath-objCount-not-decremented`: `[1,2,3].pop()` leaves `objCount = 3` with two elements. -/
theorem pop_current_breaks_inv_witness :
    let a : Dense := { values := [some (.plain 1), some (.plain 2), some (.plain 3)], cap := 3, length := 3,
                       objCount := 3, pvc := 0, lenW := true, ext := true }
    a.Inv ∧ ∀ r, a.popFast false = some r → ¬ r.1.Inv := by
  refine ⟨⟨by decide, by decide, by decide⟩, ?_⟩
  intro r hr
  simp [Dense.popFast, Dense.slot] at hr
  subst hr
  intro hinv
  have := hinv.objCount
  simp [countSome] at this

end GojaModel.C07
