/-
  C07 property theorems, part 4: per-method "fast path = generic algorithm" under the guard of
  `checkStdArrayObj` (+ the `len(values) == length` re-check), and `Array.prototype.pop`.
-/
import GojaModel.C07.Methods
import GojaModel.C07.PropsHist

namespace GojaModel.C07

/-- all slots of `values` hold plain values (what `stdGuard` gives under `Inv`). -/
def AllPlain (vals : List (Option Elem)) : Prop := ∀ k (hk : k < vals.length), ∃ v, vals[k] = some (.plain v)

theorem guard_allPlain (a : Dense) (h : a.Inv) (hg : a.stdGuard = true) : AllPlain a.values ∧ a.values.length = a.length := by
  have hlen : a.values.length = a.length := by
    simp only [Dense.stdGuard, Bool.and_eq_true, beq_iff_eq] at hg
    exact hg.1.2.symm
  refine ⟨?_, hlen⟩
  intro k hk
  obtain ⟨v, hv⟩ := stdGuard_no_holes a h hg k (by omega)
  simp only [Dense.slot, List.getElem?_eq_getElem hk, Option.join_some] at hv
  exact ⟨v, hv⟩

private theorem view_at (a : Dense) (hp : AllPlain a.values) (proto : Nat → Option Val) (gr : VProp → Option Val)
    (k : Nat) (hk : k < a.values.length) :
    ∃ v, a.values[k] = some (.plain v) ∧ (a.view proto gr).has k = true ∧ (a.view proto gr).get k = some v ∧
      slotVal ((a.values[k]?).join) = some v := by
  obtain ⟨v, hv⟩ := hp k hk
  refine ⟨v, hv, ?_, ?_, ?_⟩ <;>
    simp [Dense.view, Dense.slot, List.getElem?_eq_getElem hk, hv, genericGet, slotVal]

/-- indexOf: the fast path (scan of `values[n:]`) finds exactly what the generic loop
(HasProperty + Get + StrictEquals for n ≤ k < length) finds — whatever the prototype chain holds. -/
theorem indexOf_fast_eq_generic (a : Dense) (h : a.Inv) (hg : a.stdGuard = true) (proto : Nat → Option Val)
    (gr : VProp → Option Val) (eq : Val → Bool) (n L : Nat) (hL : a.values.length = L) (hn : n ≤ L) :
    indexOfFast a.values eq n = indexOfGeneric (a.view proto gr) eq n (L - n) := by
  obtain ⟨hp, _⟩ := guard_allPlain a h hg
  unfold indexOfFast
  have key : ∀ c n, n + c = L → scanFirst eq n (a.values.drop n) = indexOfGeneric (a.view proto gr) eq n c := by
    intro c
    induction c with
    | zero =>
      intro n hn
      have : a.values.drop n = [] := List.drop_eq_nil_of_le (by omega)
      rw [this]; rfl
    | succ c ih =>
      intro n hn
      have hk : n < a.values.length := by omega
      obtain ⟨v, hv, h1, h2, _⟩ := view_at a hp proto gr n hk
      rw [List.drop_eq_getElem_cons hk, hv]
      simp only [scanFirst, indexOfGeneric, slotVal, h1, h2, Bool.true_and]
      by_cases he : eq v = true
      · simp only [he, if_true]
      · simp only [he, if_false, Bool.false_eq_true]; exact ih (n + 1) (by omega)
  exact key (L - n) n (by omega)

/-- includes (SameValueZero, every index read with Get): fast = generic. -/
theorem includes_fast_eq_generic (a : Dense) (h : a.Inv) (hg : a.stdGuard = true) (proto : Nat → Option Val)
    (gr : VProp → Option Val) (eq : Val → Bool) (n L : Nat) (hL : a.values.length = L) (hn : n ≤ L) :
    includesFast a.values eq n = includesGeneric (a.view proto gr) eq n (L - n) := by
  obtain ⟨hp, _⟩ := guard_allPlain a h hg
  unfold includesFast
  have key : ∀ c n, n + c = L →
      (a.values.drop n).any (fun o => match slotVal o with | some v => eq v | none => false) =
        includesGeneric (a.view proto gr) eq n c := by
    intro c
    induction c with
    | zero =>
      intro n hn
      have : a.values.drop n = [] := List.drop_eq_nil_of_le (by omega)
      rw [this]; rfl
    | succ c ih =>
      intro n hn
      have hk : n < a.values.length := by omega
      obtain ⟨v, hv, h1, h2, _⟩ := view_at a hp proto gr n hk
      rw [List.drop_eq_getElem_cons hk, hv]
      simp only [List.any_cons, includesGeneric, h2, Option.getD_some]
      rw [ih (n + 1) (by omega)]
      rfl
  exact key (L - n) n (by omega)

/-- lastIndexOf (downwards from `fromIndex = c − 1 < length`): fast = generic. -/
theorem lastIndexOf_fast_eq_generic (a : Dense) (h : a.Inv) (hg : a.stdGuard = true) (proto : Nat → Option Val)
    (gr : VProp → Option Val) (eq : Val → Bool) (c : Nat) (hc : c ≤ a.values.length) :
    lastIndexOfFast a.values eq c = lastIndexOfGeneric (a.view proto gr) eq c := by
  obtain ⟨hp, _⟩ := guard_allPlain a h hg
  induction c with
  | zero => rfl
  | succ c ih =>
    have hk : c < a.values.length := by omega
    obtain ⟨v, hv, h1, h2, h3⟩ := view_at a hp proto gr c hk
    simp only [lastIndexOfFast, lastIndexOfGeneric, h1, h2, h3, Bool.true_and]
    split
    · rfl
    · exact ih (by omega)

private theorem map_range_congr (f g : Nat → Option Val) (n : Nat) (hfg : ∀ k, k < n → f k = g k) :
    (List.range n).map f = (List.range n).map g := by
  apply List.map_congr_left
  intro k hk
  exact hfg k (List.mem_range.mp hk)

/-- `with` (after f0b16cb: length first, fast path only if `len(values) == length`): fast = generic. -/
theorem with_fast_eq_generic (a : Dense) (h : a.Inv) (hg : a.stdGuard = true) (proto : Nat → Option Val)
    (gr : VProp → Option Val) (L idx : Nat) (v : Val) (hL : a.values.length = L) :
    withFast a.values L idx v = withGeneric (a.view proto gr) L idx v := by
  obtain ⟨hp, _⟩ := guard_allPlain a h hg
  unfold withFast withGeneric
  apply map_range_congr
  intro k hk
  split
  · rfl
  · obtain ⟨w, _, _, h2, h3⟩ := view_at a hp proto gr k (by omega)
    rw [h2, h3]

theorem toReversed_fast_eq_generic (a : Dense) (h : a.Inv) (hg : a.stdGuard = true) (proto : Nat → Option Val)
    (gr : VProp → Option Val) (L : Nat) (hL : a.values.length = L) :
    toReversedFast a.values L = toReversedGeneric (a.view proto gr) L := by
  obtain ⟨hp, _⟩ := guard_allPlain a h hg
  unfold toReversedFast toReversedGeneric
  apply map_range_congr
  intro k hk
  obtain ⟨w, _, _, h2, h3⟩ := view_at a hp proto gr (L - k - 1) (by omega)
  rw [h2, h3]

private theorem map_slotVal (a : Dense) (hp : AllPlain a.values) (proto : Nat → Option Val) (gr : VProp → Option Val) :
    a.values.map slotVal = (List.range a.values.length).map (a.view proto gr).get := by
  apply List.ext_getElem
  · simp
  · intro k h1 h2
    simp only [List.getElem_map, List.getElem_range]
    have hk : k < a.values.length := by simpa using h1
    obtain ⟨w, hv, _, hget, _⟩ := view_at a hp proto gr k hk
    rw [hv, hget]; rfl

/-- toSpliced (after 61fb8fc: fast path only if `len(values) == length`): fast = generic. -/
theorem toSpliced_fast_eq_generic (a : Dense) (h : a.Inv) (hg : a.stdGuard = true) (proto : Nat → Option Val)
    (gr : VProp → Option Val) (L start skip : Nat) (items : List Val) (hL : a.values.length = L)
    (hs : start + skip ≤ L) :
    toSplicedFast a.values start skip items = toSplicedGeneric (a.view proto gr) L start skip items := by
  obtain ⟨hp, _⟩ := guard_allPlain a h hg
  have hm := map_slotVal a hp proto gr
  unfold toSplicedFast toSplicedGeneric
  congr 1
  · congr 1
    rw [List.map_take, hm, ← List.map_take, List.take_range]
    congr 2
    omega
  · rw [List.map_drop, hm, ← List.map_drop]
    apply List.ext_getElem
    · simp; omega
    · intro k h1 h2
      simp only [List.getElem_map, List.getElem_drop, List.getElem_range]

/-- fill: on a no-holes array the fast path (`values[k] = v`) does exactly what the generic loop of
`setOwnIdx` does on the mechanism (which in turn refines the spec's Set by `step_refines`). -/
theorem fill_fast_eq_generic (v : Val) (pa : Nat → Option Bool) (c : Nat) :
    ∀ (a : Dense) (k : Nat), AllPlain a.values → k + c ≤ a.values.length →
      fillGeneric (.dense a) v pa k c = (.dense { a with values := fillFast a.values v k c }, true) := by
  induction c with
  | zero => intro a k _ _; rfl
  | succ c ih =>
    intro a k hp hk
    have hlt : k < a.values.length := by omega
    obtain ⟨w, hw⟩ := hp k hlt
    have hslot : a.slot k = some (.plain w) := by
      simp [Dense.slot, List.getElem?_eq_getElem hlt, hw]
    have hstep : (Store.dense a).setOwnIdx k v (pa k) =
        (.dense { a with values := a.values.set k (some (.plain v)) }, true) := by
      simp only [Store.setOwnIdx, Dense.setOwnIdx, hslot]
    simp only [fillGeneric, hstep, Bool.not_true, Bool.false_eq_true, if_false, fillFast]
    have hp' : AllPlain (a.values.set k (some (.plain v))) := by
      intro j hj
      have hj' : j < a.values.length := by simpa using hj
      by_cases hjk : k = j
      · subst hjk; exact ⟨v, by simp⟩
      · obtain ⟨u, hu⟩ := hp j hj'
        exact ⟨u, by simp [List.getElem_set_ne hjk, hu]⟩
    have := ih { a with values := a.values.set k (some (.plain v)) } (k + 1) hp' (by simp; omega)
    simpa using this

/-! ## copyWithin -/

private theorem cwFwd_get (c : Nat) : ∀ (vals : List (Option Elem)) (f t : Nat),
    (t ≤ f ∨ f + c ≤ t) → t + c ≤ vals.length → f + c ≤ vals.length →
    (cwFwd vals f t c).length = vals.length ∧
    ∀ i, (cwFwd vals f t c)[i]? = if t ≤ i ∧ i < t + c then (if f + (i - t) < vals.length then some ((vals[f + (i - t)]?).join) else none) else vals[i]? := by
  induction c with
  | zero =>
    intro vals f t _ _ _
    refine ⟨rfl, fun i => ?_⟩
    have : ¬ (t ≤ i ∧ i < t + 0) := by omega
    simp only [cwFwd]
    rw [if_neg this]
  | succ c ih =>
    intro vals f t hcond ht hf
    have hlen' : (vals.set t ((vals[f]?).join)).length = vals.length := by simp
    obtain ⟨l1, g1⟩ := ih (vals.set t ((vals[f]?).join)) (f + 1) (t + 1) (by omega) (by rw [hlen']; omega) (by rw [hlen']; omega)
    refine ⟨by simp only [cwFwd]; rw [l1, hlen'], fun i => ?_⟩
    simp only [cwFwd]
    rw [g1 i, hlen']
    by_cases h1 : t + 1 ≤ i ∧ i < t + 1 + c
    · have h2 : t ≤ i ∧ i < t + (c + 1) := by omega
      have h3 : f + 1 + (i - (t + 1)) = f + (i - t) := by omega
      have hne : ¬ t = f + (i - t) := by omega
      simp only [h1, h2, and_self, if_true, h3, List.getElem?_set, hne, if_false]
    · simp only [h1, if_false]
      by_cases h4 : i = t
      · subst h4
        have h2 : i ≤ i ∧ i < i + (c + 1) := by omega
        have hfl : f < vals.length := by omega
        have hil : i < vals.length := by omega
        simp [h2, List.getElem?_set, hil, hfl]
      · have h2 : ¬ (t ≤ i ∧ i < t + (c + 1)) := by omega
        have hne : ¬ t = i := fun e => h4 e.symm
        simp only [h2, if_false, List.getElem?_set, hne]

private theorem cwBwd_get (c : Nat) : ∀ (vals : List (Option Elem)) (f t : Nat),
    f < t → t + c ≤ vals.length →
    (cwBwd vals f t c).length = vals.length ∧
    ∀ i, (cwBwd vals f t c)[i]? = if t ≤ i ∧ i < t + c then (if f + (i - t) < vals.length then some ((vals[f + (i - t)]?).join) else none) else vals[i]? := by
  induction c with
  | zero =>
    intro vals f t _ _
    refine ⟨rfl, fun i => ?_⟩
    have : ¬ (t ≤ i ∧ i < t + 0) := by omega
    simp only [cwBwd]
    rw [if_neg this]
  | succ c ih =>
    intro vals f t hft ht
    have hlen' : (vals.set (t + c) ((vals[f + c]?).join)).length = vals.length := by simp
    obtain ⟨l1, g1⟩ := ih (vals.set (t + c) ((vals[f + c]?).join)) f t hft (by rw [hlen']; omega)
    refine ⟨by simp only [cwBwd]; rw [l1, hlen'], fun i => ?_⟩
    simp only [cwBwd]
    rw [g1 i, hlen']
    by_cases h1 : t ≤ i ∧ i < t + c
    · have h2 : t ≤ i ∧ i < t + (c + 1) := by omega
      have hne : ¬ t + c = f + (i - t) := by omega
      simp only [h1, h2, and_self, if_true, List.getElem?_set, hne, if_false]
    · simp only [h1, if_false]
      by_cases h4 : i = t + c
      · subst h4
        have h2 : t ≤ t + c ∧ t + c < t + (c + 1) := by omega
        have h3 : f + (t + c - t) = f + c := by omega
        have hfl : f + c < vals.length := by omega
        have hil : t + c < vals.length := by omega
        simp [h2, h3, List.getElem?_set, hil, hfl]
      · have h2 : ¬ (t ≤ i ∧ i < t + (c + 1)) := by omega
        have hne : ¬ t + c = i := fun e => h4 e.symm
        simp only [h2, if_false, List.getElem?_set, hne]

/-- copyWithin: Go's `copy` on the backing slice (memmove) equals the generic element-by-element loop
with its direction choice, for every `from`, `to`, `count` within the array. -/
theorem copyWithin_fast_eq_generic (vals : List (Option Elem)) (from_ to count : Nat)
    (hf : from_ + count ≤ vals.length) (ht : to + count ≤ vals.length) :
    memmove vals from_ to count = copyWithinGeneric vals from_ to count := by
  have key : ∀ (res : List (Option Elem)), res.length = vals.length →
      (∀ i, res[i]? = if to ≤ i ∧ i < to + count then (if from_ + (i - to) < vals.length then some ((vals[from_ + (i - to)]?).join) else none) else vals[i]?) →
      memmove vals from_ to count = res := by
    intro res hl hg
    apply List.ext_getElem?
    intro i
    rw [hg i]
    unfold memmove
    by_cases hi : i < vals.length
    · simp only [List.getElem?_map, List.getElem?_range hi, Option.map_some]
      by_cases h1 : to ≤ i ∧ i < to + count
      · have : from_ + (i - to) < vals.length := by omega
        simp only [h1, and_self, if_true, this]
      · simp only [h1, if_false]
        rw [List.getElem?_eq_getElem hi]; rfl
    · have h1 : ¬ (to ≤ i ∧ i < to + count) := by omega
      simp only [h1, if_false]
      rw [List.getElem?_eq_none (by simpa using hi), List.getElem?_eq_none (by omega)]
  unfold copyWithinGeneric
  split
  · next hb =>
    obtain ⟨l, g⟩ := cwBwd_get count vals from_ to hb.1 ht
    exact key _ l g
  · next hb =>
    obtain ⟨l, g⟩ := cwFwd_get count vals from_ to (by omega) ht hf
    exact key _ l g

/-! ## splice -/

private theorem setExt_get (l : List (Option Elem)) (i : Nat) (x : Option Elem) :
    (setExt l i x).length = max l.length (i + 1) ∧
    ∀ j, (setExt l i x)[j]? = if j = i then some x else if j < l.length then l[j]? else if j < i then some none else none := by
  unfold setExt
  by_cases hi : i < l.length
  · simp only [hi, if_true]
    refine ⟨by simp; omega, fun j => ?_⟩
    rw [List.getElem?_set]
    by_cases hji : j = i
    · subst hji; simp [hi]
    · have : ¬ i = j := fun e => hji e.symm
      simp only [this, if_false, hji]
      by_cases hjl : j < l.length
      · simp [hjl]
      · have : ¬ j < i := by omega
        simp [hjl, this, List.getElem?_eq_none (Nat.le_of_not_lt hjl)]
  · simp only [hi, if_false]
    refine ⟨by simp; omega, fun j => ?_⟩
    by_cases hji : j = i
    · subst hji
      have hlen : (l ++ List.replicate (j - l.length) none).length = j := by simp; omega
      rw [List.getElem?_append_right (by omega), hlen]
      simp
    · simp only [hji, if_false]
      by_cases hjl : j < l.length
      · simp only [hjl, if_true]
        rw [List.append_assoc, List.getElem?_append_left hjl]
      · simp only [hjl, if_false]
        by_cases hj2 : j < i
        · simp only [hj2, if_true]
          rw [List.getElem?_append_left (by simp; omega), List.getElem?_append_right (by omega)]
          simp [List.getElem?_replicate]; omega
        · simp only [hj2, if_false]
          rw [List.getElem?_eq_none (by simp; omega)]

private theorem writeItems_get (items : List Val) : ∀ (vals : List (Option Elem)) (start : Nat), start ≤ vals.length →
    (writeItems vals start items).length = max vals.length (start + items.length) ∧
    ∀ j, (writeItems vals start items)[j]? =
      if start ≤ j ∧ j < start + items.length then (items[j - start]?).map (fun v => some (.plain v)) else vals[j]? := by
  induction items with
  | nil =>
    intro vals start _
    refine ⟨by simp [writeItems]; omega, fun j => ?_⟩
    have : ¬ (start ≤ j ∧ j < start + ([] : List Val).length) := by simp
    simp only [writeItems]; rw [if_neg this]
  | cons v t ih =>
    intro vals start hs
    obtain ⟨l1, g1⟩ := setExt_get vals start (some (.plain v))
    obtain ⟨l2, g2⟩ := ih (setExt vals start (some (.plain v))) (start + 1) (by rw [l1]; omega)
    refine ⟨by simp only [writeItems, List.length_cons]; rw [l2, l1]; omega, fun j => ?_⟩
    simp only [writeItems]
    rw [g2 j, g1 j]
    by_cases h1 : start + 1 ≤ j ∧ j < start + 1 + t.length
    · have h2 : start ≤ j ∧ j < start + (v :: t).length := by simp; omega
      have h3 : j - start = (j - (start + 1)) + 1 := by omega
      simp only [h1, h2, and_self, if_true, h3, List.getElem?_cons_succ]
    · simp only [h1, if_false]
      by_cases h4 : j = start
      · subst h4
        have h2 : j ≤ j ∧ j < j + (v :: t).length := by simp
        simp [h2]
      · have h2 : ¬ (start ≤ j ∧ j < start + (v :: t).length) := by simp; omega
        simp only [h4, h2, if_false]
        by_cases hjl : j < vals.length
        · simp [hjl]
        · have : ¬ j < start := by omega
          simp [hjl, this, List.getElem?_eq_none (Nat.le_of_not_lt hjl)]

private theorem bwdExt_get (c : Nat) : ∀ (vals : List (Option Elem)) (f t : Nat), f < t → f + c ≤ vals.length →
    (bwdExt vals f t c).length = (if c = 0 then vals.length else max vals.length (t + c)) ∧
    ∀ j, (bwdExt vals f t c)[j]? =
      if t ≤ j ∧ j < t + c then some ((vals[f + (j - t)]?).join)
      else if j < vals.length then vals[j]? else if c ≠ 0 ∧ j < t then some none else none := by
  induction c with
  | zero =>
    intro vals f t _ _
    refine ⟨by simp [bwdExt], fun j => ?_⟩
    have h1 : ¬ (t ≤ j ∧ j < t + 0) := by omega
    simp only [bwdExt]
    rw [if_neg h1]
    by_cases hjl : j < vals.length
    · simp [hjl]
    · simp [hjl, List.getElem?_eq_none (Nat.le_of_not_lt hjl)]
  | succ c ih =>
    intro vals f t hft hf
    obtain ⟨l1, g1⟩ := setExt_get vals (t + c) ((vals[f + c]?).join)
    have hl1 : vals.length ≤ (setExt vals (t + c) ((vals[f + c]?).join)).length := by rw [l1]; omega
    obtain ⟨l2, g2⟩ := ih (setExt vals (t + c) ((vals[f + c]?).join)) f t hft (by omega)
    constructor
    · simp only [bwdExt]
      rw [l2, l1]
      by_cases hc : c = 0
      · subst hc; simp
      · simp only [hc, if_false, Nat.succ_ne_zero]; omega
    · intro j
      simp only [bwdExt]
      rw [g2 j]
      by_cases h1 : t ≤ j ∧ j < t + c
      · have h2 : t ≤ j ∧ j < t + (c + 1) := by omega
        simp only [h1, h2, and_self, if_true]
        -- the source slot f+(j-t) < t+c has not been overwritten
        rw [g1 (f + (j - t))]
        have hne : ¬ f + (j - t) = t + c := by omega
        have hlt : f + (j - t) < vals.length := by omega
        simp only [hne, if_false, hlt, if_true]
      · simp only [h1, if_false]
        rw [l1, g1 j]
        by_cases h4 : j = t + c
        · subst h4
          have h2 : t ≤ t + c ∧ t + c < t + (c + 1) := by omega
          have h3 : f + (t + c - t) = f + c := by omega
          have : t + c < max vals.length (t + c + 1) := by omega
          simp [h2, h3, this]
        · have h2 : ¬ (t ≤ j ∧ j < t + (c + 1)) := by omega
          simp only [h2, if_false, h4]
          by_cases hjl : j < vals.length
          · have : j < max vals.length (t + c + 1) := by omega
            simp [hjl, this]
          · simp only [hjl, if_false]
            by_cases hjm : j < max vals.length (t + c + 1)
            · have hjt : j < t + c := by omega
              have hjt2 : j < t := by omega
              simp [hjm, hjt, hjt2]
            · have hjt : ¬ j < t + c := by omega
              have hjt2 : ¬ j < t := by omega
              by_cases hc : c = 0
              · simp [hjm, hjt, hjt2, hc]
              · simp [hjm, hjt, hjt2, hc]

/-- splice: the fast path's new `values` (`values[:start] ++ items ++ values[start+del:]`) is what the
generic element moves + truncation produce, in all three cases (shrinking, growing, same size). -/
theorem splice_fast_eq_generic (vals : List (Option Elem)) (start del : Nat) (items : List Val)
    (hsd : start + del ≤ vals.length) :
    spliceFast vals start del items = spliceGeneric vals start del items := by
  apply List.ext_getElem?
  intro j
  have hfast : (spliceFast vals start del items)[j]? =
      if j < start then vals[j]?
      else if j < start + items.length then (items[j - start]?).map (fun v => some (.plain v))
      else vals[j - items.length + del]? := by
    unfold spliceFast
    by_cases h1 : j < start
    · simp only [h1, if_true]
      rw [List.append_assoc, List.getElem?_append_left (by simp; omega), List.getElem?_take_of_lt h1]
    · simp only [h1, if_false]
      have hts : (vals.take start).length = start := by simp; omega
      by_cases h2 : j < start + items.length
      · simp only [h2, if_true]
        rw [List.append_assoc, List.getElem?_append_right (by omega), hts,
          List.getElem?_append_left (by simp; omega), List.getElem?_map]
      · simp only [h2, if_false]
        rw [List.getElem?_append_right (by simp; omega)]
        simp only [List.length_append, List.length_map, hts, List.getElem?_drop]
        congr 1; omega
  rw [hfast]
  unfold spliceGeneric
  simp only
  by_cases hlt : items.length < del
  · -- shrinking
    simp only [hlt, if_true]
    obtain ⟨cl, cg⟩ := cwFwd_get (vals.length - del - start) vals (start + del) (start + items.length)
      (by omega) (by omega) (by omega)
    have hM : start ≤ ((cwFwd vals (start + del) (start + items.length) (vals.length - del - start)).take (vals.length - del + items.length)).length := by
      simp [cl]; omega
    obtain ⟨_, wg⟩ := writeItems_get items _ start hM
    rw [wg j]
    by_cases h1 : j < start
    · have : ¬ (start ≤ j ∧ j < start + items.length) := by omega
      simp only [h1, if_true, this, if_false]
      rw [List.getElem?_take_of_lt (by omega), cg j]
      have : ¬ (start + items.length ≤ j ∧ j < start + items.length + (vals.length - del - start)) := by omega
      rw [if_neg this]
    · simp only [h1, if_false]
      by_cases h2 : j < start + items.length
      · have : start ≤ j ∧ j < start + items.length := by omega
        rw [if_pos h2, if_pos this]
      · have : ¬ (start ≤ j ∧ j < start + items.length) := by omega
        rw [if_neg h2, if_neg this]
        by_cases h3 : j < vals.length - del + items.length
        · rw [List.getElem?_take_of_lt h3, cg j]
          have h4 : start + items.length ≤ j ∧ j < start + items.length + (vals.length - del - start) := by omega
          have h5 : start + del + (j - (start + items.length)) = j - items.length + del := by omega
          have h6 : j - items.length + del < vals.length := by omega
          rw [if_pos h4, h5, if_pos h6, List.getElem?_eq_getElem h6]; rfl
        · rw [List.getElem?_eq_none (l := vals) (by omega), List.getElem?_eq_none (by rw [List.length_take, cl]; omega)]
  · simp only [hlt, if_false]
    by_cases hgt : items.length > del
    · -- growing
      simp only [hgt, if_true]
      obtain ⟨bl, bg⟩ := bwdExt_get (vals.length - del - start) vals (start + del) (start + items.length) (by omega) (by omega)
      have hM : start ≤ (bwdExt vals (start + del) (start + items.length) (vals.length - del - start)).length := by
        rw [bl]; split <;> omega
      obtain ⟨_, wg⟩ := writeItems_get items _ start hM
      rw [wg j]
      by_cases h1 : j < start
      · have : ¬ (start ≤ j ∧ j < start + items.length) := by omega
        simp only [h1, if_true, this, if_false]
        rw [bg j]
        have h2 : ¬ (start + items.length ≤ j ∧ j < start + items.length + (vals.length - del - start)) := by omega
        have h3 : j < vals.length := by omega
        simp only [h2, if_false, h3, if_true]
      · simp only [h1, if_false]
        by_cases h2 : j < start + items.length
        · have : start ≤ j ∧ j < start + items.length := by omega
          rw [if_pos h2, if_pos this]
        · have : ¬ (start ≤ j ∧ j < start + items.length) := by omega
          rw [if_neg h2, if_neg this]
          rw [bg j]
          by_cases h4 : j < start + items.length + (vals.length - del - start)
          · have h5 : start + items.length ≤ j ∧ j < start + items.length + (vals.length - del - start) := by omega
            have h6 : start + del + (j - (start + items.length)) = j - items.length + del := by omega
            have h7 : j - items.length + del < vals.length := by omega
            rw [if_pos h5, h6, List.getElem?_eq_getElem h7]; rfl
          · have h5 : ¬ (start + items.length ≤ j ∧ j < start + items.length + (vals.length - del - start)) := by omega
            have h6 : ¬ j < vals.length := by omega
            have h7 : ¬ (vals.length - del - start ≠ 0 ∧ j < start + items.length) := by omega
            rw [if_neg h5, if_neg h6, if_neg h7, List.getElem?_eq_none (by omega)]
    · -- same size: only the items are overwritten
      simp only [hgt, if_false]
      have heq : items.length = del := by omega
      obtain ⟨_, wg⟩ := writeItems_get items vals start (by omega)
      rw [wg j]
      by_cases h1 : j < start
      · have : ¬ (start ≤ j ∧ j < start + items.length) := by omega
        simp only [h1, if_true, this, if_false]
      · simp only [h1, if_false]
        by_cases h2 : j < start + items.length
        · have : start ≤ j ∧ j < start + items.length := by omega
          rw [if_pos h2, if_pos this]
        · have : ¬ (start ≤ j ∧ j < start + items.length) := by omega
          rw [if_neg h2, if_neg this]
          have : j - items.length + del = j := by omega
          rw [this]

/-! ## pop -/

/-- the generic pop on the mechanism refines the spec's pop and keeps `Good` (both storages). -/
theorem pop_generic_refines (s : Store) (hg : s.Good) :
    ((s.popGeneric).1.abs, (s.popGeneric).2) = s.abs.pop ∧ (s.popGeneric).1.Good := by
  have hlen : s.length = s.abs.length := by cases s <;> rfl
  unfold Store.popGeneric SpecArray.pop
  rw [hlen]
  by_cases h0 : s.abs.length = 0
  · simp only [h0, if_true]
    exact step_refines s hg (.setLength 0) trivial
  · simp only [h0, if_false]
    obtain ⟨d1, d2⟩ := step_refines s hg (.delete (s.abs.length - 1)) trivial
    have e1 : (s.deleteIdx (s.abs.length - 1)).1.abs = (s.abs.delete (s.abs.length - 1)).1 := congrArg Prod.fst d1
    have e2 : (s.deleteIdx (s.abs.length - 1)).2 = (s.abs.delete (s.abs.length - 1)).2 := congrArg Prod.snd d1
    cases hd : (s.abs.delete (s.abs.length - 1)).2
    · have hd' : (s.deleteIdx (s.abs.length - 1)).2 = false := by rw [e2, hd]
      simp only [hd', Bool.not_false, if_true]
      exact ⟨Prod.ext e1 hd.symm, d2⟩
    · have hd' : (s.deleteIdx (s.abs.length - 1)).2 = true := by rw [e2, hd]
      simp only [hd', Bool.not_true, Bool.false_eq_true, if_false]
      obtain ⟨s1, s2⟩ := step_refines (s.deleteIdx (s.abs.length - 1)).1 d2 (.setLength (s.abs.length - 1)) trivial
      refine ⟨?_, s2⟩
      have : ((s.deleteIdx (s.abs.length - 1)).1.step (.setLength (s.abs.length - 1))) =
          (s.deleteIdx (s.abs.length - 1)).1.setLength (s.abs.length - 1) := rfl
      rw [this] at s1
      rw [s1, e1]; rfl

/-- the fast path of pop as it is in /repo (`objCount--`, 4d714fc) refines the spec's pop
and keeps `Inv`. -/
theorem pop_fast_refines (a : Dense) (h : a.Inv) (r : Dense × Bool) (hr : a.popFast true = some r) :
    (r.1.abs, r.2) = a.abs.pop ∧ r.1.Inv := by
  have hal : a.abs.length = a.length := rfl
  have hlw : a.abs.lengthWritable = a.lenW := rfl
  unfold Dense.popFast at hr
  unfold SpecArray.pop
  rw [hal]
  by_cases hpos : a.length > 0
  · have hne : ¬ a.length = 0 := by omega
    simp only [hpos, if_true] at hr
    simp only [hne, if_false]
    cases hs : a.slot (a.length - 1) with
    | none => simp [hs] at hr
    | some e =>
      cases e with
      | prop p => simp [hs] at hr
      | plain v =>
        simp only [hs] at hr
        obtain ⟨hlt, hv⟩ := slot_some_lt (by simpa [Dense.slot] using hs)
        have hvlen : a.values.length = a.length := by have := h.lenValues; omega
        have hsplit : a.values = a.values.take (a.length - 1) ++ [some (.plain v)] := by
          have hd : a.values.drop (a.length - 1) = [some (.plain v)] := by
            rw [List.drop_eq_getElem_cons hlt]
            have : a.values[a.length - 1] = some (.plain v) := by
              have := List.getElem?_eq_getElem hlt; rw [this] at hv; exact Option.some.inj hv
            rw [this, List.drop_eq_nil_of_le (by omega)]
          rw [← hd, List.take_append_drop]
        have c1 : countSome a.values = countSome (a.values.take (a.length - 1)) + 1 := by
          conv => lhs; rw [hsplit]
          simp [countSome, List.countP_append]
        have c2 : countProp a.values = countProp (a.values.take (a.length - 1)) := by
          conv => lhs; rw [hsplit]
          simp [countProp, List.countP_append, isPropSlot]
        have ho := h.objCount; have hq := h.pvc
        -- spec side: delete the last element (a plain value is configurable) …
        have hget : a.abs.get (a.length - 1) = some (.data v true true true) := by
          show (a.slot (a.length - 1)).map Elem.abs = _
          rw [hs]; rfl
        have hdel : a.abs.delete (a.length - 1) =
            ({ a.abs with get := fun i => if i = a.length - 1 then none else a.abs.get i }, true) := by
          simp [SpecArray.delete, hget, SProp.configurable]
        rw [hdel]
        simp only [Bool.not_true, Bool.false_eq_true, if_false]
        -- the abstract elements of the fast result
        have hres : ∀ i, (((a.values.take (a.length - 1))[i]?).join).map Elem.abs =
            if i < a.length - 1 then a.abs.get i else none := by
          intro i
          by_cases hi : i < a.length - 1
          · simp only [hi, if_true, List.getElem?_take, if_true]; rfl
          · simp only [hi, if_false, List.getElem?_take]; rfl
        have hbeyond : ∀ i, a.length ≤ i → a.abs.get i = none := by
          intro i hi
          show ((a.values[i]?).join).map Elem.abs = none
          rw [List.getElem?_eq_none (by omega)]; rfl
        cases hw : a.lenW
        · simp only [hw, Bool.false_eq_true, if_false, Option.some.injEq] at hr
          subst hr
          refine ⟨?_, ⟨by show (a.values.take _).length ≤ a.length; simp; omega, by show a.objCount - 1 = countSome (a.values.take _); omega,
            by show countProp (a.values.take _) ≤ a.pvc; omega⟩⟩
          have hsl : ({ a.abs with get := fun i => if i = a.length - 1 then none else a.abs.get i } : SpecArray).setLength (a.length - 1) =
              ({ a.abs with get := fun i => if i = a.length - 1 then none else a.abs.get i }, false) := by
            simp [SpecArray.setLength, hlw, hw]
          rw [hsl]
          refine Prod.ext ?_ rfl
          refine SpecArray.ext' ?_ rfl (hlw.trans hw).symm rfl
          funext i
          show (((a.values.take (a.length - 1))[i]?).join).map Elem.abs = if i = a.length - 1 then none else a.abs.get i
          rw [hres]
          by_cases hi : i < a.length - 1
          · have : ¬ i = a.length - 1 := by omega
            simp [hi, this]
          · by_cases hi2 : i = a.length - 1
            · simp [hi, hi2]
            · simp only [hi, hi2, if_false]; exact (hbeyond i (by omega)).symm
        · simp only [hw, if_true, Option.some.injEq] at hr
          subst hr
          refine ⟨?_, ⟨by show (a.values.take _).length ≤ a.length - 1; simp; omega, by show a.objCount - 1 = countSome (a.values.take _); omega,
            by show countProp (a.values.take _) ≤ a.pvc; omega⟩⟩
          have hlt2 : ¬ a.length - 1 ≥ a.length := by omega
          have hcut : cutoff (fun i => if i = a.length - 1 then none else a.abs.get i) (a.length - 1) (a.length - (a.length - 1)) = a.length - 1 := by
            have : a.length - (a.length - 1) = 1 := by omega
            rw [this]
            simp [cutoff]
          have hsl : ({ a.abs with get := fun i => if i = a.length - 1 then none else a.abs.get i } : SpecArray).setLength (a.length - 1) =
              ({ a.abs with get := fun i => if i < a.length - 1 then (if i = a.length - 1 then none else a.abs.get i) else none,
                            length := a.length - 1 }, true) := by
            simp only [SpecArray.setLength, hlw, hw, Bool.not_true, Bool.false_eq_true, if_false, hal, hlt2, SpecArray.truncate, hcut, beq_self_eq_true]
          rw [hsl]
          refine Prod.ext ?_ rfl
          refine SpecArray.ext' ?_ rfl (hlw.trans hw).symm rfl
          funext i
          show (((a.values.take (a.length - 1))[i]?).join).map Elem.abs = _
          rw [hres]
          by_cases hi : i < a.length - 1
          · have : ¬ i = a.length - 1 := by omega
            simp [hi, this]
          · simp [hi]
  · have h0 : a.length = 0 := by omega
    simp only [hpos, if_false] at hr
    simp only [h0, if_true]
    have hsl : a.abs.setLength 0 = if a.lenW then (a.abs, true) else (a.abs, false) := by
      simp only [SpecArray.setLength, hlw, hal, h0]
      cases hw2 : a.lenW
      · rfl
      · simp only [Bool.not_true, Bool.false_eq_true, if_false, Nat.le_refl, ge_iff_le, if_true]
        refine Prod.ext ?_ rfl
        exact SpecArray.ext' rfl (hal.trans h0).symm (hlw.trans hw2).symm rfl
    rw [hsl]
    cases hw : a.lenW
    · simp only [hw, Bool.false_eq_true, if_false, Option.some.injEq] at hr
      subst hr; exact ⟨rfl, h⟩
    · simp only [hw, if_true, Option.some.injEq] at hr
      subst hr; exact ⟨rfl, h⟩

/-- `Array.prototype.pop` as a whole (fast path, bail-out to the generic path, sparse storage):
refines the spec's pop and keeps `Good` — so pop can be interleaved with the operations of
`history_refines`. -/
theorem pop_refines (s : Store) (hg : s.Good) :
    (((s.pop true).1).abs, (s.pop true).2) = s.abs.pop ∧ ((s.pop true).1).Good := by
  cases s with
  | sparse a => exact pop_generic_refines (.sparse a) hg
  | dense a =>
    cases hp : a.popFast true with
    | none =>
      have : (Store.dense a).pop true = (Store.dense a).popGeneric := by simp [Store.pop, hp]
      rw [this]; exact pop_generic_refines (.dense a) hg
    | some r =>
      have : (Store.dense a).pop true = (.dense r.1, r.2) := by simp [Store.pop, hp]
      rw [this]
      obtain ⟨r1, r2⟩ := pop_fast_refines a hg.inv r hp
      refine ⟨r1, r2, ?_⟩
      -- the elements of the result are elements of `a`: its `values` are a prefix of `a.values`
      have hpre : r.1.values = a.values ∨ ∃ n, r.1.values = a.values.take n := by
        unfold Dense.popFast at hp
        by_cases hpos : a.length > 0
        · simp only [hpos, if_true] at hp
          cases hs : a.slot (a.length - 1) with
          | none => simp [hs] at hp
          | some e =>
            cases e with
            | prop p => simp [hs] at hp
            | plain v =>
              simp only [hs] at hp
              cases hw : a.lenW <;> simp [hw] at hp <;> (subst hp; exact Or.inr ⟨_, rfl⟩)
        · simp only [hpos, if_false] at hp
          cases hw : a.lenW <;> simp [hw] at hp <;> (subst hp; exact Or.inl rfl)
      intro e he
      have he' : some e ∈ r.1.values := he
      rcases hpre with h | ⟨n, h⟩
      · rw [h] at he'; exact hg.wf e he'
      · rw [h] at he'; exact hg.wf e (List.mem_of_mem_take he')

/-- regression lemma about the code BEFORE 4d714fc (`decr = false`): it broke `Inv` — the repaired finding
`pop-fastpath-objCount-not-decremented`: `[1,2,3].pop()` leaves `objCount = 3` with two elements. -/
theorem pop_prefix_witness :
    let a : Dense := { values := [some (.plain 1), some (.plain 2), some (.plain 3)], cap := 3, length := 3,
                       objCount := 3, pvc := 0, lenW := true, ext := true }
    a.Inv ∧ ∀ r, a.popFast false = some r → ¬ r.1.Inv := by
  refine ⟨⟨by decide, by decide, by decide⟩, ?_⟩
  intro r hr
  simp [Dense.popFast, Dense.slot] at hr
  subst hr
  intro hinv
  have := hinv.objCount
  simp [countSome] at this

end GojaModel.C07
