/-
  C07 property theorems, part 6: uint32 non-wrapping.  The model computes with natural numbers;
  goja computes indices and lengths in `uint32`.  Along every history whose arguments are legal
  (array indices ≤ 2^32−2, lengths ≤ 2^32−1 — what `toIdx` / `toLengthUint32` let through) every
  length the mechanism stores stays ≤ 2^32−1, hence (by `Inv`) so do `len(values)`, every item
  index + 1 and every transient `idx+1` / `item.idx+1` the code computes: no `uint32` expression
  in array.go / array_sparse.go wraps, so the natural-number model and the code agree.
-/
import GojaModel.C07.PropsHist

namespace GojaModel.C07

/-- `math.MaxUint32`. -/
def maxLen : Nat := 4294967295

theorem maxLen_eq_thr : maxLen = thr.maxIdx := rfl

def Op.InRange : Op → Prop
  | .set i _ _ => i < maxLen
  | .define i _ => i < maxLen
  | .delete i => i < maxLen
  | .setLength l => l ≤ maxLen
  | .defineLength d => ∀ v, d.value = some v → v ≤ maxLen
  | .freeze => True
  | .preventExtensions => True

private theorem cutoff_le (get : Nat → Option SProp) (l d : Nat) : cutoff get l d ≤ l + d := by
  induction d with
  | zero => exact Nat.le_refl _
  | succ d ih =>
    simp only [cutoff]
    split
    · split
      · omega
      · omega
    · omega

private theorem truncate_len (a : SpecArray) (l : Nat) (hl : l ≤ a.length) : (a.truncate l).1.length ≤ a.length := by
  show cutoff a.get l (a.length - l) ≤ a.length
  have := cutoff_le a.get l (a.length - l)
  omega

private theorem defineIdx_len (sd : SpecDefine) (a : SpecArray) (i : Nat) (d : Desc) (M : Nat) (ha : a.length ≤ M) (hi : i < M) :
    (a.defineIdx sd i d).1.length ≤ M := by
  unfold SpecArray.defineIdx
  split
  · exact ha
  · split
    · exact ha
    · show (if i ≥ a.length then i + 1 else a.length) ≤ M
      split <;> omega

private theorem setLength_len (a : SpecArray) (l M : Nat) (ha : a.length ≤ M) (hl : l ≤ M) : (a.setLength l).1.length ≤ M := by
  unfold SpecArray.setLength
  split
  · exact ha
  · split
    · exact hl
    · have := truncate_len a l (by omega); omega

/-- the spec array's length stays within `uint32` under legal arguments. -/
theorem spec_step_bounded (a : SpecArray) (op : Op) (ha : a.length ≤ maxLen) (hr : op.InRange) :
    (a.step op).1.length ≤ maxLen := by
  cases op with
  | set i v pa =>
    show (a.set specDefine i v pa).1.length ≤ maxLen
    unfold SpecArray.set
    split
    · split
      · exact ha
      · exact defineIdx_len specDefine a i _ maxLen ha hr
    · split <;> exact ha
    · exact ha
  | define i d => exact defineIdx_len specDefine a i d maxLen ha hr
  | delete i =>
    show (a.delete i).1.length ≤ maxLen
    unfold SpecArray.delete
    split
    · exact ha
    · split <;> exact ha
  | setLength l => exact setLength_len a l maxLen ha hr
  | defineLength d =>
    show (a.defineLength d).1.length ≤ maxLen
    unfold SpecArray.defineLength
    split
    · exact ha
    · split
      · split
        · exact ha
        · split <;> exact ha
      · next newLen hv =>
        have hn : newLen ≤ maxLen := hr newLen hv
        split
        · split
          · exact hn
          · exact ha
        · split
          · exact ha
          · have := truncate_len a newLen (by omega)
            show (a.truncate newLen).1.length ≤ maxLen
            omega
  | freeze => exact ha
  | preventExtensions => exact ha

/-- one mechanism step keeps the stored length (and with `Inv`: `len(values)`, every index+1)
within `uint32`. -/
theorem step_bounded (s : Store) (hg : s.Good) (op : Op) (hv : op.Valid) (hr : op.InRange)
    (hb : s.abs.length ≤ maxLen) : (s.step op).1.abs.length ≤ maxLen := by
  obtain ⟨h1, _⟩ := step_refines s hg op hv
  have e1 : (s.step op).1.abs = (s.abs.step op).1 := congrArg Prod.fst h1
  rw [e1]
  exact spec_step_bounded s.abs op hb hr

/-- **no `uint32` wrap-around along any legal history** (from any `Good` store whose length fits,
e.g. `[]`): the final store — and, since every prefix of a legal history is one, every intermediate
store — has `length ≤ 2^32−1`. -/
theorem history_bounded (ops : List Op) (s : Store) (hg : s.Good) (hv : ∀ op ∈ ops, op.Valid)
    (hr : ∀ op ∈ ops, op.InRange) (hb : s.abs.length ≤ maxLen) : (s.run ops).1.abs.length ≤ maxLen := by
  induction ops generalizing s with
  | nil => exact hb
  | cons op rest ih =>
    have h2 := (step_refines s hg op (hv op (by simp))).2
    have hb2 := step_bounded s hg op (hv op (by simp)) (hr op (by simp)) hb
    exact ih (s.step op).1 h2 (fun o ho => hv o (List.mem_cons_of_mem _ ho)) (fun o ho => hr o (List.mem_cons_of_mem _ ho)) hb2

/-- what the bound means for the representation: under `Inv` everything the code stores in a
`uint32` or uses as a slice length is bounded by the length. -/
theorem inv_bounds (s : Store) (h : s.Inv) (hb : s.abs.length ≤ maxLen) :
    match s with
    | .dense a => a.values.length ≤ maxLen ∧ a.length ≤ maxLen
    | .sparse a => (∀ p ∈ a.items, p.1 + 1 ≤ maxLen) ∧ a.length ≤ maxLen := by
  cases s with
  | dense a => exact ⟨Nat.le_trans h.lenValues hb, hb⟩
  | sparse a => exact ⟨fun p hp => by have := h.below p hp; have : a.length ≤ maxLen := hb; omega, hb⟩

end GojaModel.C07
