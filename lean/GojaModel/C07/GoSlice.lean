/-
  C07 — the Go `[]interface{}` wrapper (object_goslice.go): a window `data = backing[:len]` onto a
  backing array whose spare capacity may hold stale values.  Model of `grow` / `shrink` / `putIdx` /
  `putLength` and the theorem that the script-visible window behaves like a plain list whatever the
  spare capacity contains.
-/
import GojaModel.C07.Model

namespace GojaModel.C07

structure GoSlice where
  backing : List (Option Val)     -- the backing array, `cap = backing.length`; `none` = nil
  len : Nat

def GoSlice.WF (g : GoSlice) : Prop := g.len ≤ g.backing.length

/-- what scripts (and Go code holding the slice) see. -/
def GoSlice.view (g : GoSlice) : List (Option Val) := g.backing.take g.len

/-- set the slots `from_ … from_+n-1` of the backing array to nil. -/
def clearRange (b : List (Option Val)) : Nat → Nat → List (Option Val)
  | _, 0 => b
  | from_, n + 1 => clearRange (b.set from_ none) (from_ + 1) n

/-- object_goslice.go:105 `grow(size)` (callers guarantee `size > len`). -/
def GoSlice.grow (g : GoSlice) (size : Nat) : GoSlice :=
  if g.backing.length < size then
    -- n := make([]interface{}, size, growCap(size, len, oldcap)); copy(n, *o.data)
    let cap' := max size (growCap size g.len g.backing.length)
    { backing := g.view ++ List.replicate (cap' - g.len) none, len := size }
  else
    -- tail := (*o.data)[len:size]; for k := range tail { tail[k] = nil }; *o.data = (*o.data)[:size]
    { backing := clearRange g.backing g.len (size - g.len), len := size }

/-- the red team's m4: reslice first, so the "tail" is empty and nothing is cleared. -/
def GoSlice.growM4 (g : GoSlice) (size : Nat) : GoSlice :=
  if g.backing.length < size then g.grow size else { backing := g.backing, len := size }

/-- object_goslice.go:120 `shrink(size)` (`size ≤ len`): clear the dropped tail, reslice. -/
def GoSlice.shrink (g : GoSlice) (size : Nat) : GoSlice :=
  { backing := clearRange g.backing size (g.len - size), len := size }

/-- object_goslice.go:128 `putIdx`. -/
def GoSlice.putIdx (g : GoSlice) (idx : Nat) (v : Option Val) : GoSlice :=
  let g1 := if idx ≥ g.len then g.grow (idx + 1) else g
  { g1 with backing := g1.backing.set idx v }

/-- object_goslice.go:135 `putLength`. -/
def GoSlice.putLength (g : GoSlice) (n : Nat) : GoSlice :=
  if n > g.len then g.grow n else if n < g.len then g.shrink n else g

/-! spec: a plain list of optional values -/

def listGrow (l : List (Option Val)) (size : Nat) : List (Option Val) := l ++ List.replicate (size - l.length) none
def listPut (l : List (Option Val)) (idx : Nat) (v : Option Val) : List (Option Val) :=
  (if idx ≥ l.length then listGrow l (idx + 1) else l).set idx v
def listSetLength (l : List (Option Val)) (n : Nat) : List (Option Val) :=
  if n > l.length then listGrow l n else l.take n

end GojaModel.C07
