/-
  C07 helper lemmas for element writes: growing the length, `expand`, placing a new element,
  replacing an existing one — for both storages, with `Inv` and the abstraction.
-/
import GojaModel.C07.Lemmas

namespace GojaModel.C07

theorem SpecArray.ext' {a b : SpecArray} (h1 : a.get = b.get) (h2 : a.length = b.length)
    (h3 : a.lengthWritable = b.lengthWritable) (h4 : a.extensible = b.extensible) : a = b := by
  cases a; cases b; simp_all

/-- the spec-level effect of writing property `p` at index `idx`. -/
def SpecArray.put (a : SpecArray) (idx : Nat) (p : SProp) : SpecArray :=
  { a with get := fun i => if i = idx then some p else a.get i }

/-! ### list slots -/

theorem slot_set (vs : List (Option Elem)) (idx : Nat) (x : Option Elem) (hlt : idx < vs.length) (i : Nat) :
    ((vs.set idx x)[i]?).join = if i = idx then x else (vs[i]?).join := by
  rw [List.getElem?_set]
  by_cases h : idx = i
  · subst h; simp [hlt]
  · have : ¬ i = idx := fun e => h e.symm
    simp [h, this]

theorem slot_append_none (vs : List (Option Elem)) (n i : Nat) :
    (((vs ++ List.replicate n none)[i]?).join : Option Elem) = (vs[i]?).join := by
  by_cases h : i < vs.length
  · rw [List.getElem?_append_left h]
  · rw [List.getElem?_append_right (by omega), List.getElem?_eq_none (l := vs) (by omega)]
    by_cases h2 : i - vs.length < n
    · simp [List.getElem?_replicate, h2]
    · simp [List.getElem?_replicate, h2]

theorem slot_none_of_ge {vs : List (Option Elem)} {i : Nat} (h : vs.length ≤ i) : ((vs[i]?).join : Option Elem) = none := by
  rw [List.getElem?_eq_none h]; rfl

theorem slot_some_lt {vs : List (Option Elem)} {idx : Nat} {e : Elem} (h : (vs[idx]?).join = some e) :
    idx < vs.length ∧ vs[idx]? = some (some e) := by
  cases hv : vs[idx]? with
  | none => simp [hv] at h
  | some o =>
    have hlt : idx < vs.length := by
      by_cases hl : idx < vs.length
      · exact hl
      · rw [List.getElem?_eq_none (by omega)] at hv; cases hv
    simp [hv] at h
    exact ⟨hlt, by rw [h]⟩

theorem slot_none_cases {vs : List (Option Elem)} {idx : Nat} (h : (vs[idx]?).join = none) (hlt : idx < vs.length) :
    vs[idx]? = some none := by
  cases hv : vs[idx]? with
  | none => rw [List.getElem?_eq_none_iff] at hv; omega
  | some o =>
    cases o with
    | none => rfl
    | some e => simp [hv] at h

/-! ### dense: growing the length, expand -/

theorem Dense.setLengthInt_grow (a : Dense) (h : a.Inv) (idx : Nat) (hge : a.length ≤ idx) (hw : a.lenW = true) :
    a.setLengthInt (idx + 1) = ({ a with length := idx + 1 }, true) := by
  have h1 : ¬ idx + 1 = a.length := by omega
  have h2 : ¬ (idx + 1 ≤ a.length ∧ a.pvc > 0) := by omega
  have h3 : ¬ idx + 1 ≤ a.values.length := by have := h.lenValues; omega
  simp only [Dense.setLengthInt, h1, if_false, hw, Bool.not_true, Bool.false_eq_true, Dense.setLengthInt_,
    Dense.scan, h2, Dense.applyScan, h3]

theorem Dense.setLengthInt_ro (a : Dense) (idx : Nat) (hge : a.length ≤ idx) (hw : a.lenW = false) :
    a.setLengthInt (idx + 1) = (a, false) := by
  have h1 : ¬ idx + 1 = a.length := by omega
  simp [Dense.setLengthInt, h1, hw]

theorem Dense.expand_of_lt (a : Dense) (idx : Nat) (h : idx < a.values.length) : a.expand idx = some a := by
  have : ¬ idx + 1 > a.values.length := by omega
  simp [Dense.expand, this]

theorem Dense.expand_some {a a2 : Dense} {idx : Nat} (h : a.expand idx = some a2) :
    a2.values = a.values ++ List.replicate (idx + 1 - a.values.length) none ∧ a2.length = a.length ∧
    a2.objCount = a.objCount ∧ a2.pvc = a.pvc ∧ a2.lenW = a.lenW ∧ a2.ext = a.ext := by
  simp only [Dense.expand] at h
  split at h
  · split at h
    · cases h; exact ⟨rfl, rfl, rfl, rfl, rfl, rfl⟩
    · split at h
      · cases h
      · cases h; exact ⟨rfl, rfl, rfl, rfl, rfl, rfl⟩
  · cases h
    have : idx + 1 - a.values.length = 0 := by omega
    simp [this]

theorem Dense.expand_none {a : Dense} {idx : Nat} (h : a.expand idx = none) : a.values.length ≤ idx := by
  simp only [Dense.expand] at h
  split at h
  · omega
  · cases h

/-! ### dense: writing a slot -/

/-- write element `e` into slot `idx` of a dense array whose `values` already reach `idx`;
`oc`/`pv` are the new counters. -/
def Dense.write (a : Dense) (idx : Nat) (e : Elem) (oc pv : Nat) : Dense :=
  { a with values := a.values.set idx (some e), objCount := oc, pvc := pv }

theorem Dense.write_abs (a : Dense) (idx : Nat) (e : Elem) (oc pv : Nat) (hlt : idx < a.values.length) :
    (a.write idx e oc pv).abs = a.abs.put idx e.abs := by
  apply SpecArray.ext'
  · funext i
    show (((a.values.set idx (some e))[i]?).join).map Elem.abs = if i = idx then some e.abs else ((a.values[i]?).join).map Elem.abs
    rw [slot_set _ _ _ hlt]
    split <;> rfl
  all_goals rfl

/-- `Inv` after a write, in terms of what was in the slot before. -/
theorem Dense.write_inv (a : Dense) (h : a.Inv) (idx : Nat) (e : Elem) (oc pv : Nat) (hlt : idx < a.values.length)
    (hoc : oc = a.objCount + (if (a.slot idx).isNone then 1 else 0))
    (hpv : a.pvc + (if e.isProp then 1 else 0) ≤ pv + (if isPropSlot (a.slot idx) then 1 else 0)) :
    (a.write idx e oc pv).Inv := by
  have hv : a.values[idx]? = some (a.slot idx) := by
    simp only [Dense.slot]
    rw [List.getElem?_eq_getElem hlt]; rfl
  have hs := countP_set' Option.isSome a.values idx (a.slot idx) (some e) hv
  have hp := countP_set' isPropSlot a.values idx (a.slot idx) (some e) hv
  have ho := h.objCount
  have hq := h.pvc
  simp only [countSome, countProp] at ho hq
  refine ⟨?_, ?_, ?_⟩
  · show (a.values.set idx (some e)).length ≤ a.length
    simpa using h.lenValues
  · show oc = countSome (a.values.set idx (some e))
    simp only [countSome]
    cases hsl : a.slot idx <;> simp [hsl] at hs hoc <;> omega
  · show countProp (a.values.set idx (some e)) ≤ pv
    simp only [countProp]
    have he : isPropSlot (some e) = e.isProp := by cases e <;> rfl
    rw [he] at hp
    omega

/-- extending `values` with holes changes neither the abstraction nor `Inv` (given room below `length`). -/
theorem Dense.extend_abs (a : Dense) (n : Nat) (c : Nat) :
    ({ a with values := a.values ++ List.replicate n none, cap := c } : Dense).abs = a.abs := by
  apply SpecArray.ext'
  · funext i
    show (((a.values ++ List.replicate n none)[i]?).join).map Elem.abs = ((a.values[i]?).join).map Elem.abs
    rw [slot_append_none]
  all_goals rfl

theorem Dense.extend_inv (a : Dense) (h : a.Inv) (n : Nat) (c : Nat) (hn : a.values.length + n ≤ a.length) :
    ({ a with values := a.values ++ List.replicate n none, cap := c } : Dense).Inv := by
  refine ⟨?_, ?_, ?_⟩
  · show (a.values ++ List.replicate n none).length ≤ a.length
    simp; omega
  · show a.objCount = countSome (a.values ++ List.replicate n none)
    simp only [countSome]
    rw [countP_append_replicate_none _ rfl]; exact h.objCount
  · show countProp (a.values ++ List.replicate n none) ≤ a.pvc
    simp only [countProp]
    rw [countP_append_replicate_none _ rfl]; exact h.pvc

/-- what `expand` returns when it stays dense: the same array with `values` padded by holes. -/
theorem Dense.expand_some_eq {a a2 : Dense} {idx : Nat} (h : a.expand idx = some a2) :
    a2 = { a with values := a.values ++ List.replicate (idx + 1 - a.values.length) none, cap := a2.cap } := by
  obtain ⟨h1, h2, h3, h4, h5, h6⟩ := Dense.expand_some h
  cases a2; cases a; simp_all

theorem Dense.expand_some_len {a a2 : Dense} {idx : Nat} (h : a.expand idx = some a2) : idx < a2.values.length := by
  obtain ⟨h1, _⟩ := Dense.expand_some h
  rw [h1]; simp; omega

/-! ### sparse: growing the length -/

theorem Sparse.setLengthInt_grow (a : Sparse) (h : a.Inv) (idx : Nat) (hge : a.length ≤ idx) (hw : a.lenW = true) :
    a.setLengthInt (idx + 1) = ({ a with length := idx + 1 }, true) := by
  have h1 : ¬ idx + 1 = a.length := by omega
  have h2 : ¬ (idx + 1 ≤ a.length ∧ a.pvc > 0) := by omega
  have hb : AllBelow (idx + 1) a.items := fun p hp => by have := h.below p hp; omega
  simp only [Sparse.setLengthInt, h1, if_false, hw, Bool.not_true, Bool.false_eq_true, Sparse.setLengthInt_,
    Sparse.scan, h2, Sparse.applyScan, sTake_all hb]

theorem Sparse.setLengthInt_ro (a : Sparse) (idx : Nat) (hge : a.length ≤ idx) (hw : a.lenW = false) :
    a.setLengthInt (idx + 1) = (a, false) := by
  have h1 : ¬ idx + 1 = a.length := by omega
  simp [Sparse.setLengthInt, h1, hw]

/-! ### sparse: inserting / replacing an item -/

theorem Sparse.insert_abs (a : Sparse) (idx : Nat) (e : Elem) (l pv : Nat) :
    ({ a with items := sIns a.items idx e, length := l, pvc := pv } : Sparse).abs =
      { a.abs.put idx e.abs with length := l } := by
  apply SpecArray.ext'
  · funext i
    show (aGet (sIns a.items idx e) i).map Elem.abs = if i = idx then some e.abs else (aGet a.items i).map Elem.abs
    rw [aGet_sIns]; split <;> rfl
  all_goals rfl

theorem Sparse.insert_inv (a : Sparse) (h : a.Inv) (idx : Nat) (e : Elem) (l pv : Nat)
    (habs : aGet a.items idx = none) (hl : a.length ≤ l) (hidx : idx < l)
    (hpv : a.pvc + (if e.isProp then 1 else 0) ≤ pv) :
    ({ a with items := sIns a.items idx e, length := l, pvc := pv } : Sparse).Inv := by
  refine ⟨sorted_sIns e h.sorted (Nat.zero_le _) habs, ?_, ?_⟩
  · intro p hp
    rcases mem_sIns hp with rfl | hp
    · exact hidx
    · have := h.below p hp
      show p.1 < l
      omega
  · show countPropItems (sIns a.items idx e) ≤ pv
    rw [countProp_sIns]
    have := h.pvc
    omega

theorem countProp_sSetAt_same {l : Items} {idx : Nat} {old new : Elem} (h : sFind l idx = some old)
    (hp : new.isProp = old.isProp) : countPropItems (sSetAt l idx new) = countPropItems l := by
  induction l with
  | nil => simp [sFind] at h
  | cons q t ih =>
    obtain ⟨k, x⟩ := q
    simp only [sFind] at h
    simp only [sSetAt]
    by_cases h1 : k < idx
    · simp only [h1, if_true] at h ⊢
      have := ih h
      simp only [countPropItems, List.countP_cons] at this ⊢
      omega
    · simp only [h1, if_false] at h ⊢
      by_cases h2 : k = idx
      · simp only [h2, if_true, Option.some.injEq] at h
        subst h
        simp [countPropItems, List.countP_cons, hp]
      · simp [h2] at h

theorem Sparse.replace_abs (a : Sparse) (h : a.Inv) (idx : Nat) (e : Elem) (pv : Nat)
    (hp : (aGet a.items idx).isSome) :
    ({ a with items := sSetAt a.items idx e, pvc := pv } : Sparse).abs = a.abs.put idx e.abs := by
  apply SpecArray.ext'
  · funext i
    show (aGet (sSetAt a.items idx e) i).map Elem.abs = if i = idx then some e.abs else (aGet a.items i).map Elem.abs
    rw [aGet_sSetAt e h.sorted hp]; split <;> rfl
  all_goals rfl

theorem Sparse.replace_inv (a : Sparse) (h : a.Inv) (idx : Nat) (e : Elem) (pv : Nat)
    (hpv : countPropItems (sSetAt a.items idx e) ≤ pv) :
    ({ a with items := sSetAt a.items idx e, pvc := pv } : Sparse).Inv := by
  refine ⟨sorted_sSetAt idx e h.sorted, ?_, hpv⟩
  intro p hp
  obtain ⟨q, hq, hk⟩ := mem_sSetAt_key hp
  have := h.below q hq
  show p.1 < a.length
  omega

/-! ### sparse → dense -/

theorem sFind_cons_of_lt (k : Nat) (x : Elem) (t : Items) (j : Nat) (h : k < j) : sFind ((k, x) :: t) j = sFind t j := by
  simp [sFind, h]

theorem enumSome_all_none (i : Nat) (l : List Nat) : enumSome i (l.map (fun j => sFind [] j)) = [] := by
  induction l generalizing i with
  | nil => rfl
  | cons a t ih => simp only [List.map_cons, sFind, enumSome]; exact ih (i + 1)

theorem map_sFind_congr (k : Nat) (x : Elem) (t : Items) (i n : Nat) (h : k < i) :
    (List.range' i n).map (fun j => sFind ((k, x) :: t) j) = (List.range' i n).map (fun j => sFind t j) := by
  apply List.map_congr_left
  intro j hj
  have : i ≤ j := (List.mem_range'_1.mp hj).1
  exact sFind_cons_of_lt k x t j (by omega)

/-- `setValuesFromSparse` followed by `setValues` is the identity on sorted item lists. -/
theorem enumSome_fromItems (items : Items) (i n : Nat) (hs : SortedFrom i items) (hb : AllBelow (i + n) items) :
    enumSome i ((List.range' i n).map (fun j => sFind items j)) = items := by
  induction n generalizing i items with
  | zero =>
    cases items with
    | nil => rfl
    | cons p t =>
      obtain ⟨k, x⟩ := p
      have := hb (k, x) (by simp)
      have := hs.1
      simp at *; omega
  | succ n ih =>
    rw [List.range'_succ, List.map_cons]
    cases items with
    | nil =>
      simp only [sFind, enumSome]
      exact enumSome_all_none (i + 1) _
    | cons p t =>
      obtain ⟨k, x⟩ := p
      have hk : i ≤ k := hs.1
      by_cases hki : k = i
      · subst hki
        have hf : sFind ((k, x) :: t) k = some x := by simp [sFind]
        rw [hf]
        simp only [enumSome]
        rw [map_sFind_congr k x t (k + 1) n (by omega)]
        rw [ih (i := k + 1) (items := t) hs.2 (fun q hq => by have := hb q (List.mem_cons_of_mem _ hq); omega)]
      · have hf : sFind ((k, x) :: t) i = none := by
          have h1 : ¬ k < i := by omega
          simp [sFind, h1, hki]
        rw [hf]
        simp only [enumSome]
        exact ih (i := i + 1) (items := (k, x) :: t) ⟨by omega, hs.2⟩ (fun q hq => by have := hb q hq; omega)

theorem Sparse.toDense_inv (a : Sparse) (h : a.Inv) (m : Nat) (hm : m < a.length) (hb : AllBelow (m + 1) a.items) :
    (a.toDense m).Inv := by
  have key : enumSome 0 (a.toDense m).values = a.items := by
    show enumSome 0 ((List.range (m + 1)).map (fun j => sFind a.items j)) = a.items
    rw [List.range_eq_range']
    exact enumSome_fromItems a.items 0 (m + 1) h.sorted (by simpa using hb)
  refine ⟨?_, ?_, ?_⟩
  · show ((List.range (m + 1)).map (fun j => sFind a.items j)).length ≤ a.length
    simp; omega
  · show a.items.length = countSome (a.toDense m).values
    rw [← length_enumSome 0, key]
  · show countProp (a.toDense m).values ≤ a.pvc
    rw [← countProp_enumSome 0, key]; exact h.pvc

theorem le_lastIdx {lo : Nat} {l : Items} (hs : SortedFrom lo l) (p : Nat × Elem) (hp : p ∈ l) :
    p.1 ≤ (match l.getLast? with | some q => q.1 | none => 0) := by
  induction l generalizing lo p with
  | nil => cases hp
  | cons q t ih =>
    obtain ⟨k, x⟩ := q
    cases t with
    | nil =>
      simp at hp; subst hp; simp
    | cons r t' =>
      have hrec := ih hs.2
      rw [List.getLast?_cons_cons]
      rcases List.mem_cons.mp hp with rfl | hp'
      · -- the head is below the last element
        have h1 := hrec r (by simp)
        obtain ⟨k', x'⟩ := r
        have : k + 1 ≤ k' := hs.2.1
        simp only at h1 ⊢
        omega
      · exact hrec p hp'

/-- what `expand` returns when it switches to dense storage. -/
theorem Sparse.expand_some {a : Sparse} {idx : Nat} {ar : Dense} (h : a.expand idx = some ar) :
    ∃ m, ar = a.toDense m ∧ idx ≤ m ∧ a.lastIdx ≤ m ∧ (m = idx ∨ m = a.lastIdx) := by
  unfold Sparse.expand at h
  by_cases hl : a.items.length ≥ thr.sparseMinItems
  · simp only [hl, if_true] at h
    by_cases hi : a.lastIdx > idx
    · simp only [hi, if_true] at h
      split at h
      · cases h; exact ⟨_, rfl, by omega, by omega, Or.inr rfl⟩
      · cases h
    · simp only [hi, if_false] at h
      split at h
      · cases h; exact ⟨_, rfl, by omega, by omega, Or.inl rfl⟩
      · cases h
  · simp only [hl, if_false] at h
    cases h

/-! ### the strategy switches (used by the placement lemmas; restated as theorems in Props) -/

theorem Dense.toSparse_abs (a : Dense) : a.toSparse.abs = a.abs := by
  apply SpecArray.ext'
  · funext i
    simp [Dense.toSparse, Sparse.abs, Dense.abs, Dense.slot, aGet_enumSome]
  all_goals rfl

theorem Dense.toSparse_inv' (a : Dense) (h : a.Inv) : a.toSparse.Inv := by
  refine ⟨sorted_enumSome 0 a.values, ?_, ?_⟩
  · intro p hp
    have := below_enumSome 0 a.values p hp
    have := h.lenValues
    simp only [Dense.toSparse]; omega
  · simp only [Dense.toSparse, countProp_enumSome]; exact h.pvc

theorem Sparse.toDense_abs (a : Sparse) (m : Nat) (hs : SortedFrom 0 a.items)
    (hb : AllBelow (m + 1) a.items) : (a.toDense m).abs = a.abs := by
  apply SpecArray.ext'
  · funext i
    simp only [Sparse.toDense, Dense.abs, Sparse.abs, Dense.slot, fromItems]
    by_cases hi : i < m + 1
    · simp [List.getElem?_map, List.getElem?_range, hi, sFind_eq_aGet hs]
    · have h1 : ((List.range (m + 1)).map (fun i => sFind a.items i))[i]? = none := by
        apply List.getElem?_eq_none; simp; omega
      rw [h1, aGet_none_of_below hb (by omega)]; rfl
  all_goals rfl

theorem Sparse.expand_transition (a : Sparse) (h : a.Inv) (idx : Nat) (hlt : idx < a.length) (ar : Dense)
    (hex : a.expand idx = some ar) : ar.abs = a.abs ∧ ar.Inv ∧ idx < ar.values.length := by
  obtain ⟨m, rfl, hm1, hm2, hm3⟩ := Sparse.expand_some hex
  have hb : AllBelow (m + 1) a.items := by
    intro p hp
    have := le_lastIdx h.sorted p hp
    have hl : (match a.items.getLast? with | some q => q.1 | none => 0) ≤ m := hm2
    omega
  have hmlt : m < a.length := by
    rcases hm3 with rfl | rfl
    · exact hlt
    · simp only [Sparse.lastIdx]
      cases hgl : a.items.getLast? with
      | none => simp; omega
      | some q =>
        have := h.below q (List.mem_of_getLast? hgl)
        simpa using this
  refine ⟨Sparse.toDense_abs a m h.sorted hb, Sparse.toDense_inv a h m hmlt hb, ?_⟩
  show idx < ((List.range (m + 1)).map (fun j => sFind a.items j)).length
  simp; omega

/-! ### placing an element: the common tail of `_setOwnIdx` (new element) and `_defineIdxProperty` -/

/-- array.go:439–453 (and :242–248, :260): `expand`, then store into `values` or hand over to the
sparse object. `newSlot` says whether the slot was empty (`objCount++`). -/
def Dense.place (a1 : Dense) (idx : Nat) (e : Elem) (newSlot : Bool) : Store :=
  match a1.expand idx with
  | some a2 =>
    .dense { a2 with values := a2.values.set idx (some e),
                     objCount := if newSlot then a2.objCount + 1 else a2.objCount,
                     pvc := if e.isProp then a2.pvc + 1 else a2.pvc }
  | none =>
    let sa := a1.toSparse.add idx e
    .sparse { sa with pvc := if e.isProp then sa.pvc + 1 else sa.pvc }

theorem Dense.place_spec (a1 : Dense) (h1 : a1.Inv) (idx : Nat) (hlt : idx < a1.length) (e : Elem) (newSlot : Bool)
    (hns : newSlot = (a1.slot idx).isNone) :
    (a1.place idx e newSlot).abs = a1.abs.put idx e.abs ∧ (a1.place idx e newSlot).Inv := by
  unfold Dense.place
  cases hex : a1.expand idx with
  | some a2 =>
    have heq := Dense.expand_some_eq hex
    have hlen := Dense.expand_some_len hex
    obtain ⟨hv, hl, hoc, hpv, _, _⟩ := Dense.expand_some hex
    have habs : a2.abs = a1.abs := by rw [heq]; exact Dense.extend_abs a1 _ _
    have hinv : a2.Inv := by
      rw [heq]; exact Dense.extend_inv a1 h1 _ _ (by have := h1.lenValues; omega)
    have hslot : a2.slot idx = a1.slot idx := by
      simp only [Dense.slot, hv, slot_append_none]
    constructor
    · show (a2.write idx e _ _).abs = _
      rw [Dense.write_abs a2 idx e _ _ hlen, habs]
    · show (a2.write idx e _ _).Inv
      apply Dense.write_inv a2 hinv idx e _ _ hlen
      · rw [hslot, hns]; split <;> rfl
      · split <;> omega
  | none =>
    have hge := Dense.expand_none hex
    have hsi := Dense.toSparse_inv' a1 h1
    have habsent : aGet a1.toSparse.items idx = none :=
      aGet_none_of_below (below_enumSome 0 a1.values) (by simpa using hge)
    constructor
    · show ({ a1.toSparse with items := sIns a1.toSparse.items idx e, length := a1.toSparse.length, pvc := _ } : Sparse).abs = _
      rw [Sparse.insert_abs, Dense.toSparse_abs]
      rfl
    · show ({ a1.toSparse with items := sIns a1.toSparse.items idx e, length := a1.toSparse.length, pvc := _ } : Sparse).Inv
      apply Sparse.insert_inv a1.toSparse hsi idx e _ _ habsent (Nat.le_refl _) hlt
      show a1.pvc + _ ≤ _
      simp only [Sparse.add]
      split <;> simp [Dense.toSparse]

/-- array_sparse.go:179–191 / :352–371: a new item: `expand`, then insert into `items` or store into
the new dense object. -/
def Sparse.place (a1 : Sparse) (idx : Nat) (e : Elem) : Store :=
  match a1.expand idx with
  | none =>
    .sparse { a1 with items := sIns a1.items idx e,
                      length := if idx ≥ a1.length then idx + 1 else a1.length,
                      pvc := if e.isProp then a1.pvc + 1 else a1.pvc }
  | some ar =>
    .dense { ar with values := ar.values.set idx (some e), objCount := ar.objCount + 1,
                     pvc := if e.isProp then ar.pvc + 1 else ar.pvc }

theorem Sparse.place_spec (a1 : Sparse) (h1 : a1.Inv) (idx : Nat) (hlt : idx < a1.length) (e : Elem)
    (habsent : aGet a1.items idx = none) :
    (a1.place idx e).abs = a1.abs.put idx e.abs ∧ (a1.place idx e).Inv := by
  unfold Sparse.place
  have hnl : ¬ idx ≥ a1.length := by omega
  cases hex : a1.expand idx with
  | none =>
    simp only [hnl, if_false]
    constructor
    · show ({ a1 with items := sIns a1.items idx e, length := a1.length, pvc := _ } : Sparse).abs = _
      rw [Sparse.insert_abs]; rfl
    · apply Sparse.insert_inv a1 h1 idx e _ _ habsent (Nat.le_refl _) hlt
      split <;> omega
  | some ar =>
    obtain ⟨m, rfl, hm1, hm2, hm3⟩ := Sparse.expand_some hex
    have hb : AllBelow (m + 1) a1.items := by
      intro p hp
      have := le_lastIdx h1.sorted p hp
      have hl : (match a1.items.getLast? with | some q => q.1 | none => 0) ≤ m := hm2
      omega
    have hmlt : m < a1.length := by
      rcases hm3 with rfl | rfl
      · exact hlt
      · -- the last index is a present index, hence below length (or 0 < length)
        simp only [Sparse.lastIdx]
        cases hgl : a1.items.getLast? with
        | none => simp; omega
        | some q =>
          have := h1.below q (List.mem_of_getLast? hgl)
          simpa using this
    have hinv := Sparse.toDense_inv a1 h1 m hmlt hb
    have habs := Sparse.toDense_abs a1 m h1.sorted hb
    have hlen : idx < (a1.toDense m).values.length := by
      show idx < ((List.range (m + 1)).map (fun j => sFind a1.items j)).length
      simp; omega
    have hslot : (a1.toDense m).slot idx = none := by
      have : ((a1.toDense m).abs.get idx) = a1.abs.get idx := by rw [habs]
      simp only [Dense.abs, Sparse.abs, habsent, Option.map_none, Option.map_eq_none_iff] at this
      exact this
    constructor
    · show ((a1.toDense m).write idx e _ _).abs = _
      rw [Dense.write_abs _ idx e _ _ hlen, habs]
    · show ((a1.toDense m).write idx e _ _).Inv
      apply Dense.write_inv _ hinv idx e _ _ hlen
      · rw [hslot]; rfl
      · split <;> omega

theorem aGet_some_mem {l : Items} {i : Nat} {e : Elem} (h : aGet l i = some e) : (i, e) ∈ l := by
  induction l with
  | nil => simp [aGet] at h
  | cons p t ih =>
    obtain ⟨k, x⟩ := p
    simp only [aGet] at h
    by_cases hk : k = i
    · simp only [hk, if_true, Option.some.injEq] at h
      simp [hk, h]
    · simp only [hk, if_false] at h
      exact List.mem_cons_of_mem _ (ih h)

theorem Sparse.lt_length_of_present (a : Sparse) (h : a.Inv) {idx : Nat} {e : Elem} (hp : aGet a.items idx = some e) :
    idx < a.length := h.below _ (aGet_some_mem hp)

end GojaModel.C07
