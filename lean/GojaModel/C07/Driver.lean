/-
  C07 model driver (line protocol).  One case per line:

    seq <op>;<op>;…        run an op sequence on a fresh `[]`, print results + final observation
    inv <dense|sparse> length n objCount pvc present props sorted maxIdxP1 nilItems
                           evaluate `invSummaryOk` on a white-box summary of the implementation
    sort <variant> <cmp> v,v,…   run the sort model (insertion phase) — see `runSort`

  ops:  S idx val pa | L len | D idx v w e c g s | DL v w e c acc | X idx | F | P
        FILL from count val | DS (dense→sparse detour) | DD (sparse→dense detour) | PROTO … (ignored)
-/
import GojaModel.Base.Proto
import GojaModel.C07.Model

namespace GojaModel.C07.Driver
open GojaModel.Proto GojaModel.C07

def tf (b : Bool) : String := if b then "T" else "F"

def optBool? (s : String) : Option (Option Bool) :=
  if s == "-" then some none else if s == "T" then some (some true) else if s == "F" then some (some false) else none

def optNat? (s : String) : Option (Option Nat) :=
  if s == "-" then some none else s.toNat?.map some

/-- getter/setter field: `-` absent, `u` undefined, number = function id. -/
def optFn? (s : String) : Option (Option (Option Nat)) :=
  if s == "-" then some none else if s == "u" then some (some none) else s.toNat?.map (fun n => some (some n))

def fnStr : Option Val → String
  | none => "u"
  | some f => toString f

def spropStr : SProp → String
  | .data v w e c => s!"d{v}.{tf w}{tf e}{tf c}"
  | .acc g s e c => s!"a{fnStr g}.{fnStr s}.{tf e}{tf c}"

def Store.items : Store → Items
  | .dense a => enumSome 0 a.values
  | .sparse a => a.items

def Store.getOwn : Store → Nat → Option Elem
  | .dense a, i => a.slot i
  | .sparse a, i => sFind a.items i

def Store.ext : Store → Bool
  | .dense a => a.ext
  | .sparse a => a.ext

def Store.tag : Store → String
  | .dense _ => "dense"
  | .sparse _ => "sparse"

structure St where
  s : Store
  res : String := ""
  quirk : String := "-"
  tags : String := ""       -- storage tag after every op (d/s)
  bad : Bool := false

def St.push (st : St) (r : Store × Bool) : St :=
  { st with s := r.1, res := st.res ++ tf r.2 }

def classifyQuirk (e : Option Elem) (d : Desc) (ext : Bool) : Option String :=
  if (mechDefine e d ext).map Elem.abs == specDefine (e.map Elem.abs) d ext then none
  else
    match e with
    | some (.prop p) =>
      if p.accessor && p.writable && d.value.isSome && d.writable.isNone then some "stale-writable"
      else if !p.configurable then some "kind-change-nonconfigurable"
      else some "other"
    | _ => some "other"

def doSet (st : St) (i v : Nat) (pa : Option Bool) : St := st.push (st.s.setOwnIdx i v pa)

def fillLoop (st : St) (from_ : Nat) (v : Nat) : Nat → St
  | 0 => st
  | n + 1 =>
    let st' := fillLoop st from_ v n
    let r := st'.s.setOwnIdx (from_ + n) v none
    { st' with s := r.1 }

def delLoop (st : St) (from_ : Nat) : Nat → St
  | 0 => st
  | n + 1 =>
    let st' := delLoop st from_ n
    { st' with s := (st'.s.deleteIdx (from_ + n)).1 }

def detourIdxSparse : Nat := 70000
def detourFillFrom : Nat := 100
def detourFillCount : Nat := 1300

def step (st : St) (op : String) : St :=
  let st1 : St :=
  match words op with
  | ["S", i, v, pa] =>
    match i.toNat?, v.toNat?, (if pa == "n" then some none else if pa == "t" then some (some true) else if pa == "f" then some (some false) else none) with
    | some i, some v, some pa =>
      -- spec: an accessor without a setter rejects [[Set]]; goja consults a stale `writable` flag
      let q := match Store.getOwn st.s i with
        | some (.prop p) => if p.accessor && p.writable && p.setter.isNone && st.quirk == "-" then "stale-writable" else st.quirk
        | _ => st.quirk
      { doSet st i v pa with quirk := q }
    | _, _, _ => { st with bad := true }
  | ["L", l] =>
    match l.toNat? with
    | some l => st.push (st.s.setLength l)
    | none => { st with bad := true }
  | ["D", i, v, w, e, c, g, s] =>
    match i.toNat?, optNat? v, optBool? w, optBool? e, optBool? c, optFn? g, optFn? s with
    | some i, some v, some w, some e, some c, some g, some s =>
      let d : Desc := { value := v, writable := w, enumerable := e, configurable := c, getter := g, setter := s }
      let q := if st.quirk == "-" then (classifyQuirk (Store.getOwn st.s i) d (Store.ext st.s)).getD "-" else st.quirk
      { st.push (st.s.defineIdx mechDefine i d) with quirk := q }
    | _, _, _, _, _, _, _ => { st with bad := true }
  | ["DL", v, w, e, c, acc] =>
    match optNat? v, optBool? w, optBool? e, optBool? c with
    | some v, some w, some e, some c =>
      st.push (st.s.defineLength { value := v, writable := w, enumerable := e, configurable := c, hasAccessor := acc == "1" })
    | _, _, _, _ => { st with bad := true }
  | ["X", i] =>
    match i.toNat? with
    | some i => st.push (st.s.deleteIdx i)
    | none => { st with bad := true }
  | ["POP"] => st.push (st.s.pop true)
  | ["F"] => { st with s := st.s.freeze, res := st.res ++ "T" }
  | ["P"] => { st with s := st.s.preventExtensions, res := st.res ++ "T" }
  | ["FILL", f, n, v] =>
    match f.toNat?, n.toNat?, v.toNat? with
    | some f, some n, some v => { fillLoop st f v n with res := st.res ++ "T" }
    | _, _, _ => { st with bad := true }
  | ["DS"] =>
    -- var L=a.length; a[70000]=1; delete a[70000]; a.length=L
    let l := st.s.length
    let s1 := (st.s.setOwnIdx detourIdxSparse 1 none).1
    let s2 := (s1.deleteIdx detourIdxSparse).1
    let s3 := (s2.setLength l).1
    { st with s := s3 }
  | ["DD"] =>
    -- var L=a.length; for(i=100;i<1400;i++)a[i]=1; for(…)delete a[i]; a.length=L
    let l := st.s.length
    let st2 := fillLoop st detourFillFrom 1 detourFillCount
    let tagMid := Store.tag st2.s
    let st3 := delLoop st2 detourFillFrom detourFillCount
    { st3 with s := (st3.s.setLength l).1, tags := st3.tags ++ (if tagMid == "dense" then "D" else "S") }
  | "PROTO" :: _ => st
  | _ => { st with bad := true }
  if (words op).head? == some "PROTO" then st1
  else { st1 with tags := st1.tags ++ (if Store.tag st1.s == "dense" then "d" else "s") }

def obs (st : St) : String :=
  let keys := ",".intercalate ((Store.items st.s).map (fun p => s!"{p.1}:{spropStr p.2.abs}"))
  s!"r={st.res}|len={st.s.length}|lw={tf st.s.lenW}|ext={tf (Store.ext st.s)}|keys={keys}|tag={Store.tag st.s}|tags={st.tags}|q={st.quirk}"

def runSeq (body : String) : String :=
  let ops := (body.splitOn ";").filter (fun s => (words s) ≠ [])
  let st := ops.foldl step { s := Store.empty }
  if st.bad then "BADOP" else obs st

def runInv (ws : List String) : String :=
  match ws with
  | [tag, length, n, oc, pvc, present, props, sorted, mx, nils] =>
    match length.toNat?, n.toNat?, oc.toNat?, pvc.toNat?, present.toNat?, props.toNat?, mx.toNat?, nils.toNat? with
    | some length, some n, some oc, some pvc, some present, some props, some mx, some nils =>
      if invSummaryOk (tag == "dense") length n oc pvc present props (sorted == "T") mx nils then "ok" else "BAD"
    | _, _, _, _, _, _, _, _ => "BAD(parse)"
  | _ => "BADOP"

/-- sort model: `sort <mech|spec> <cmpname> e,e,…`; elements `n` (nil), `u` (undefined) or `k.tag`
(key k ≥ 0, tag for identity). Comparator classes on keys: `asc` (a-b), `negzero` (always −0),
`nan` (always NaN), `desc-negate` (−(a−b), i.e. −0 for equal keys), `poszero` (always +0). -/
def cmpByName (name : String) (a b : Nat) : CmpRes :=
  -- a, b are encoded (key*1000 + tag + 1); compare keys
  let ka := (a - 1) / 1000
  let kb := (b - 1) / 1000
  if name == "asc" then (if ka < kb then .neg else if ka > kb then .pos else .posZero)
  else if name == "desc-negate" then (if ka < kb then .pos else if ka > kb then .neg else .negZero)
  else if name == "negzero" then .negZero
  else if name == "nan" then .nan
  else .posZero

def parseSortElem (s : String) : Option SortVal :=
  if s == "n" then some none
  else if s == "u" then some (some 0)
  else match s.splitOn "." with
    | [k, t] => match k.toNat?, t.toNat? with
      | some k, some t => some (some (k * 1000 + t + 1))
      | _, _ => none
    | _ => none

def sortElemStr : SortVal → String
  | none => "n"
  | some 0 => "u"
  | some (v + 1) => s!"{v / 1000}.{v % 1000}"

def runSort (ws : List String) : String :=
  match ws with
  | [variant, cmp, elems] =>
    let es := (elems.splitOn ",").filterMap parseSortElem
    let less := if variant == "mech" then mechLess (cmpByName cmp) else specLess (cmpByName cmp)
    ",".intercalate ((isort less es).map sortElemStr)
  | _ => "BADOP"

def handle (line : String) : String :=
  if line.startsWith "seq " then runSeq (line.drop 4).toString
  else match words line with
    | "inv" :: ws => runInv ws
    | "sort" :: ws => runSort ws
    | _ => "BADOP"

def main : IO Unit := lineMap handle

end GojaModel.C07.Driver
