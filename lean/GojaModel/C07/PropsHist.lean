/-
  C07 property theorems, part 3: whole histories.  For goja's own `_defineOwnProperty`
  (`mechDefine`) and the spec's ValidateAndApplyPropertyDescriptor (`specDefine`):
  every operation — and therefore every finite sequence of operations — on a store that satisfies
  `Good` (= `Inv` + all elements well-formed) yields exactly the results and the abstract state the
  ECMA-262 Array exotic object prescribes, and ends in a `Good` store again, whatever storage
  strategy is in use and however often it switches on the way.
-/
import GojaModel.C07.PropsElem

namespace GojaModel.C07

/-! ### well-formedness of all elements -/

def Dense.AllWF (a : Dense) : Prop := ∀ e, some e ∈ a.values → e.WF
def Sparse.AllWF (a : Sparse) : Prop := ∀ p ∈ a.items, p.2.WF

def Store.AllWF : Store → Prop
  | .dense a => a.AllWF
  | .sparse a => a.AllWF

structure Store.Good (s : Store) : Prop where
  inv : s.Inv
  wf : s.AllWF

private theorem mem_enumSome {i : Nat} {vs : List (Option Elem)} {p : Nat × Elem} (h : p ∈ enumSome i vs) :
    some p.2 ∈ vs := by
  induction vs generalizing i with
  | nil => simp [enumSome] at h
  | cons o t ih =>
    cases o with
    | none => exact List.mem_cons_of_mem _ (ih h)
    | some e =>
      simp only [enumSome, List.mem_cons] at h
      rcases h with rfl | h
      · simp
      · exact List.mem_cons_of_mem _ (ih h)

private theorem mem_sTake {l : Items} {n : Nat} {p : Nat × Elem} (h : p ∈ sTake l n) : p ∈ l := by
  induction l with
  | nil => simp [sTake] at h
  | cons q t ih =>
    obtain ⟨k, x⟩ := q
    simp only [sTake] at h
    by_cases h1 : k < n
    · simp only [h1, if_true, List.mem_cons] at h
      rcases h with h | h
      · simp [h]
      · exact List.mem_cons_of_mem _ (ih h)
    · simp [h1] at h

private theorem mem_sSetAt {l : Items} {idx : Nat} {e : Elem} {p : Nat × Elem} (h : p ∈ sSetAt l idx e) :
    p ∈ l ∨ p.2 = e := by
  induction l with
  | nil => simp [sSetAt] at h
  | cons q t ih =>
    obtain ⟨k, x⟩ := q
    simp only [sSetAt] at h
    by_cases h1 : k < idx
    · simp only [h1, if_true, List.mem_cons] at h
      rcases h with h | h
      · exact Or.inl (by simp [h])
      · rcases ih h with h | h
        · exact Or.inl (List.mem_cons_of_mem _ h)
        · exact Or.inr h
    · simp only [h1, if_false, List.mem_cons] at h
      rcases h with h | h
      · exact Or.inr (by simp [h])
      · exact Or.inl (List.mem_cons_of_mem _ h)

private theorem sFind_some_mem {l : Items} {i : Nat} {e : Elem} (h : sFind l i = some e) : (i, e) ∈ l := by
  induction l with
  | nil => simp [sFind] at h
  | cons q t ih =>
    obtain ⟨k, x⟩ := q
    simp only [sFind] at h
    by_cases h1 : k < i
    · simp only [h1, if_true] at h
      exact List.mem_cons_of_mem _ (ih h)
    · simp only [h1, if_false] at h
      by_cases h2 : k = i
      · simp only [h2, if_true, Option.some.injEq] at h
        simp [h2, h]
      · simp [h2] at h

private theorem slot_mem {vs : List (Option Elem)} {idx : Nat} {e : Elem} (h : (vs[idx]?).join = some e) : some e ∈ vs := by
  obtain ⟨hlt, hv⟩ := slot_some_lt h
  exact List.mem_of_getElem? hv

private theorem freeze_wf (e : Elem) (h : e.WF) : e.freeze.WF := by
  cases e with
  | plain v => exact ⟨fun h => Bool.noConfusion h, fun _ => ⟨rfl, rfl⟩⟩
  | prop p =>
    obtain ⟨pv, bw, be, bc, ba, pg, ps⟩ := p
    obtain ⟨h1, h2⟩ := h
    cases ba
    · exact ⟨fun h => Bool.noConfusion h, fun _ => h2 rfl⟩
    · obtain ⟨rfl, rfl⟩ := h1 rfl
      exact ⟨fun _ => ⟨rfl, rfl⟩, fun h => Bool.noConfusion h⟩

private theorem setValue_wf (p : VProp) (v : Val) (h : p.WF) (hw : p.isWritable = true) : (p.setValue v).WF := by
  obtain ⟨pv, bw, be, bc, ba, pg, ps⟩ := p
  obtain ⟨h1, h2⟩ := h
  cases ba
  · obtain ⟨rfl, rfl⟩ := h2 rfl
    exact ⟨fun h => Bool.noConfusion h, fun _ => ⟨rfl, rfl⟩⟩
  · obtain ⟨rfl, rfl⟩ := h1 rfl
    cases ps with
    | none => simp [VProp.isWritable] at hw
    | some f => exact ⟨fun _ => ⟨rfl, rfl⟩, fun h => Bool.noConfusion h⟩

/-! ### AllWF is preserved by the building blocks -/

private theorem Dense.applyScan_wf (a : Dense) (h : a.AllWF) (r : Scan) : (a.applyScan r).1.AllWF := by
  unfold Dense.applyScan
  split
  · intro e he; exact h e (List.mem_of_mem_take he)
  · exact h

private theorem Dense.setLengthInt_wf (a : Dense) (h : a.AllWF) (l : Nat) : (a.setLengthInt l).1.AllWF := by
  unfold Dense.setLengthInt
  split
  · exact h
  · split
    · exact h
    · exact Dense.applyScan_wf a h _

private theorem Dense.setLength_wf (a : Dense) (h : a.AllWF) (l : Nat) : (a.setLength l).1.AllWF := by
  unfold Dense.setLength
  split
  · exact h
  · exact Dense.applyScan_wf a h _

private theorem Sparse.applyScan_wf (a : Sparse) (h : a.AllWF) (r : Scan) : (a.applyScan r).1.AllWF := by
  intro p hp; exact h p (mem_sTake hp)

private theorem Sparse.setLengthInt_wf (a : Sparse) (h : a.AllWF) (l : Nat) : (a.setLengthInt l).1.AllWF := by
  unfold Sparse.setLengthInt
  split
  · exact h
  · split
    · exact h
    · exact Sparse.applyScan_wf a h _

private theorem Sparse.setLength_wf (a : Sparse) (h : a.AllWF) (l : Nat) : (a.setLength l).1.AllWF := by
  unfold Sparse.setLength
  split
  · exact h
  · exact Sparse.applyScan_wf a h _

private theorem Dense.toSparse_wf (a : Dense) (h : a.AllWF) : a.toSparse.AllWF := by
  intro p hp; exact h p.2 (mem_enumSome hp)

private theorem Sparse.toDense_wf (a : Sparse) (h : a.AllWF) (m : Nat) : (a.toDense m).AllWF := by
  intro e he
  have he' : some e ∈ (List.range (m + 1)).map (fun j => sFind a.items j) := he
  obtain ⟨j, _, hj⟩ := List.mem_map.mp he'
  exact h (j, e) (sFind_some_mem hj)

private theorem Dense.place_wf (a1 : Dense) (h : a1.AllWF) (idx : Nat) (e : Elem) (b : Bool) (he : e.WF) :
    (a1.place idx e b).AllWF := by
  unfold Dense.place
  cases hex : a1.expand idx with
  | some a2 =>
    obtain ⟨hv, _⟩ := Dense.expand_some hex
    intro x hx
    have hx' : some x ∈ a2.values.set idx (some e) := hx
    rcases List.mem_or_eq_of_mem_set hx' with hx' | hx'
    · rw [hv] at hx'
      rcases List.mem_append.mp hx' with hx' | hx'
      · exact h x hx'
      · have := List.eq_of_mem_replicate hx'; cases this
    · cases hx'; exact he
  | none =>
    intro p hp
    have hp' : p ∈ sIns (enumSome 0 a1.values) idx e := hp
    rcases mem_sIns hp' with rfl | hp'
    · exact he
    · exact h p.2 (mem_enumSome hp')

private theorem Sparse.place_wf (a1 : Sparse) (h : a1.AllWF) (idx : Nat) (e : Elem) (he : e.WF) :
    (a1.place idx e).AllWF := by
  unfold Sparse.place
  cases hex : a1.expand idx with
  | none =>
    intro p hp
    have hp' : p ∈ sIns a1.items idx e := hp
    rcases mem_sIns hp' with rfl | hp'
    · exact he
    · exact h p hp'
  | some ar =>
    obtain ⟨m, rfl, _⟩ := Sparse.expand_some hex
    intro x hx
    have hx' : some x ∈ (a1.toDense m).values.set idx (some e) := hx
    rcases List.mem_or_eq_of_mem_set hx' with hx' | hx'
    · exact Sparse.toDense_wf a1 h m x hx'
    · cases hx'; exact he

/-! ### operations -/

inductive Op where
  | set (idx : Nat) (v : Val) (protoAns : Option Bool)
  | define (idx : Nat) (d : Desc)
  | delete (idx : Nat)
  | setLength (l : Nat)
  | defineLength (d : LenDesc)
  | freeze
  | preventExtensions

def Op.Valid : Op → Prop
  | .define _ d => d.Valid
  | _ => True

/-- the mechanism: goja's array object under either storage. -/
def Store.step (s : Store) : Op → Store × Bool
  | .set i v pa => s.setOwnIdx i v pa
  | .define i d => s.defineIdx mechDefine i d
  | .delete i => s.deleteIdx i
  | .setLength l => s.setLength l
  | .defineLength d => s.defineLength d
  | .freeze => (s.freeze, true)
  | .preventExtensions => (s.preventExtensions, true)

/-- the specification: the ECMA-262 Array exotic object. -/
def SpecArray.step (a : SpecArray) : Op → SpecArray × Bool
  | .set i v pa => a.set specDefine i v pa
  | .define i d => a.defineIdx specDefine i d
  | .delete i => a.delete i
  | .setLength l => a.setLength l
  | .defineLength d => a.defineLength d
  | .freeze => (a.freeze, true)
  | .preventExtensions => (a.preventExtensions, true)

private theorem specDefine_full (v : Val) (ext : Bool) :
    specDefine none (fullDesc v) ext = if ext then some (.data v true true true) else none := by
  cases ext <;> rfl

private theorem dense_define_eq' (md : MechDefine) (a : Dense) (idx : Nat) (d : Desc) :
    a.defineIdx md idx d =
      match md (a.slot idx) d a.ext with
      | none => (.dense a, false)
      | some prop =>
        if idx ≥ a.length then
          if !(a.setLengthInt (idx + 1)).2 then (.dense (a.setLengthInt (idx + 1)).1, false)
          else ((a.setLengthInt (idx + 1)).1.place idx prop (a.slot idx).isNone, true)
        else (a.place idx prop (a.slot idx).isNone, true) := by
  unfold Dense.defineIdx Dense.place
  dsimp only
  cases md (a.slot idx) d a.ext with
  | none => rfl
  | some prop =>
    dsimp only
    by_cases hge : idx ≥ a.length
    · simp only [hge, if_true]
      cases (a.setLengthInt (idx + 1)).2
      · rfl
      · simp only [Bool.not_true, Bool.false_eq_true, if_false]
        cases (a.setLengthInt (idx + 1)).1.expand idx <;> rfl
    · simp only [hge, if_false, Bool.not_true, Bool.false_eq_true]
      cases a.expand idx <;> rfl

private theorem dense_define_wf (md : MechDefine) (a : Dense) (h : a.AllWF) (idx : Nat) (d : Desc)
    (hmd : ∀ y, md (a.slot idx) d a.ext = some y → y.WF) : (a.defineIdx md idx d).1.AllWF := by
  rw [dense_define_eq']
  cases hm : md (a.slot idx) d a.ext with
  | none => exact h
  | some prop =>
    have hp := hmd prop hm
    dsimp only
    split
    · split
      · exact Dense.setLengthInt_wf a h _
      · exact Dense.place_wf _ (Dense.setLengthInt_wf a h _) idx prop _ hp
    · exact Dense.place_wf a h idx prop _ hp

private theorem sparse_define_eq' (md : MechDefine) (a : Sparse) (idx : Nat) (d : Desc) :
    a.defineIdx md idx d =
      match md (sFind a.items idx) d a.ext with
      | none => (.sparse a, false)
      | some prop =>
        let r := if idx ≥ a.length then a.setLengthInt (idx + 1) else (a, true)
        if !r.2 then (.sparse r.1, false)
        else if (sFind a.items idx).isNone then (r.1.place idx prop, true)
        else (.sparse { r.1 with items := sSetAt r.1.items idx prop,
                                 pvc := if prop.isProp then r.1.pvc + 1 else r.1.pvc }, true) := by
  unfold Sparse.defineIdx Sparse.place
  dsimp only
  cases md (sFind a.items idx) d a.ext with
  | none => rfl
  | some prop =>
    dsimp only
    generalize (if idx ≥ a.length then a.setLengthInt (idx + 1) else (a, true)) = r
    obtain ⟨r1, b⟩ := r
    cases b
    · rfl
    · dsimp only
      cases (sFind a.items idx).isNone
      · rfl
      · simp only [Bool.not_true, Bool.false_eq_true, if_false, if_true]
        cases r1.expand idx <;> rfl

private theorem sparse_define_wf (md : MechDefine) (a : Sparse) (h : a.AllWF) (idx : Nat) (d : Desc)
    (hmd : ∀ y, md (sFind a.items idx) d a.ext = some y → y.WF) : (a.defineIdx md idx d).1.AllWF := by
  rw [sparse_define_eq']
  cases hm : md (sFind a.items idx) d a.ext with
  | none => exact h
  | some prop =>
    have hp := hmd prop hm
    dsimp only
    have hr : (if idx ≥ a.length then a.setLengthInt (idx + 1) else (a, true)).1.AllWF := by
      split
      · exact Sparse.setLengthInt_wf a h _
      · exact h
    generalize (if idx ≥ a.length then a.setLengthInt (idx + 1) else (a, true)) = r at hr
    split
    · exact hr
    · split
      · exact Sparse.place_wf _ hr idx prop hp
      · intro p hpm
        have hpm' : p ∈ sSetAt r.1.items idx prop := hpm
        rcases mem_sSetAt hpm' with hpm' | hpm'
        · exact hr p hpm'
        · rw [hpm']; exact hp

/-- one operation: the mechanism (any storage) does what the spec prescribes, and `Good` is kept. -/
theorem step_refines (s : Store) (hg : s.Good) (op : Op) (hv : op.Valid) :
    ((s.step op).1.abs, (s.step op).2) = s.abs.step op ∧ (s.step op).1.Good := by
  obtain ⟨hinv, hwf⟩ := hg
  cases op with
  | set i v pa =>
    cases s with
    | dense a =>
      have hw : ∀ p, a.slot i = some (.prop p) → p.WF := fun p hp => hwf _ (slot_mem hp)
      obtain ⟨r1, r2⟩ := dense_set_refines specDefine a hinv i v pa (specDefine_full v)
        (fun p hp hacc => ((hw p hp).1 hacc).1) (fun p hp hacc => ((hw p hp).2 hacc).2)
      refine ⟨r1, r2, ?_⟩
      -- well-formedness
      show (a.setOwnIdx i v pa).1.AllWF
      cases hs : a.slot i with
      | none =>
        cases pa with
        | some r => simp only [Dense.setOwnIdx, hs]; exact hwf
        | none =>
          simp only [Dense.setOwnIdx, hs]
          cases a.ext
          · exact hwf
          · simp only [Bool.not_true, Bool.false_eq_true, if_false]
            have hr : (if i ≥ a.length then a.setLengthInt (i + 1) else (a, true)).1.AllWF := by
              split
              · exact Dense.setLengthInt_wf a hwf _
              · exact hwf
            generalize (if i ≥ a.length then a.setLengthInt (i + 1) else (a, true)) = r at hr
            split
            · exact hr
            · cases hm : (if i ≥ r.1.values.length then r.1.expand i else some r.1) with
              | none =>
                intro p hp
                have hp' : p ∈ sIns (enumSome 0 r.1.values) i (.plain v) := hp
                rcases mem_sIns hp' with rfl | hp'
                · trivial
                · exact hr p.2 (mem_enumSome hp')
              | some a2 =>
                have hv2 : ∀ x, some x ∈ a2.values → x.WF := by
                  by_cases hge : i ≥ r.1.values.length
                  · simp only [hge, if_true] at hm
                    obtain ⟨hv, _⟩ := Dense.expand_some hm
                    intro x hx
                    rw [hv] at hx
                    rcases List.mem_append.mp hx with hx | hx
                    · exact hr x hx
                    · have := List.eq_of_mem_replicate hx; cases this
                  · simp only [hge, if_false, Option.some.injEq] at hm
                    subst hm; exact hr
                intro x hx
                have hx' : some x ∈ a2.values.set i (some (.plain v)) := hx
                rcases List.mem_or_eq_of_mem_set hx' with hx' | hx'
                · exact hv2 x hx'
                · cases hx'; trivial
      | some e =>
        obtain ⟨hlt, _⟩ := slot_some_lt (by simpa [Dense.slot] using hs)
        have hset : ∀ e' : Elem, e'.WF → ({ a with values := a.values.set i (some e') } : Dense).AllWF := by
          intro e' he' x hx
          have hx' : some x ∈ a.values.set i (some e') := hx
          rcases List.mem_or_eq_of_mem_set hx' with hx' | hx'
          · exact hwf x hx'
          · cases hx'; exact he'
        cases e with
        | plain v0 => simp only [Dense.setOwnIdx, hs]; exact hset _ trivial
        | prop p =>
          simp only [Dense.setOwnIdx, hs]
          cases hiw : p.isWritable
          · simp only [Bool.not_false, if_true]; exact hwf
          · simp only [Bool.not_true, Bool.false_eq_true, if_false]
            exact hset _ (setValue_wf p v (hw p hs) hiw)
    | sparse a =>
      have hw : ∀ p, sFind a.items i = some (.prop p) → p.WF := fun p hp => hwf _ (sFind_some_mem hp)
      obtain ⟨r1, r2⟩ := sparse_set_refines specDefine a hinv i v pa (specDefine_full v)
        (fun p hp hacc => ((hw p hp).1 hacc).1) (fun p hp hacc => ((hw p hp).2 hacc).2)
      refine ⟨r1, r2, ?_⟩
      show (a.setOwnIdx i v pa).1.AllWF
      have hrep : ∀ e' : Elem, e'.WF → ({ a with items := sSetAt a.items i e' } : Sparse).AllWF := by
        intro e' he' p hp
        have hp' : p ∈ sSetAt a.items i e' := hp
        rcases mem_sSetAt hp' with hp' | hp'
        · exact hwf p hp'
        · rw [hp']; exact he'
      cases hs : sFind a.items i with
      | none =>
        cases pa with
        | some r => simp only [Sparse.setOwnIdx, hs]; exact hwf
        | none =>
          simp only [Sparse.setOwnIdx, hs]
          cases a.ext
          · exact hwf
          · simp only [Bool.not_true, Bool.false_eq_true, if_false]
            have hr : (if i ≥ a.length then a.setLengthInt (i + 1) else (a, true)).1.AllWF := by
              split
              · exact Sparse.setLengthInt_wf a hwf _
              · exact hwf
            generalize (if i ≥ a.length then a.setLengthInt (i + 1) else (a, true)) = r at hr
            split
            · exact hr
            · cases hex : r.1.expand i with
              | none =>
                intro p hp
                have hp' : p ∈ sIns r.1.items i (.plain v) := hp
                rcases mem_sIns hp' with rfl | hp'
                · trivial
                · exact hr p hp'
              | some ar =>
                obtain ⟨m, rfl, _⟩ := Sparse.expand_some hex
                intro x hx
                have hx' : some x ∈ (r.1.toDense m).values.set i (some (.plain v)) := hx
                rcases List.mem_or_eq_of_mem_set hx' with hx' | hx'
                · exact Sparse.toDense_wf r.1 hr m x hx'
                · cases hx'; trivial
      | some e =>
        cases e with
        | plain v0 => simp only [Sparse.setOwnIdx, hs]; exact hrep _ trivial
        | prop p =>
          simp only [Sparse.setOwnIdx, hs]
          cases hiw : p.isWritable
          · simp only [Bool.not_false, if_true]; exact hwf
          · simp only [Bool.not_true, Bool.false_eq_true, if_false]
            exact hrep _ (setValue_wf p v (hw p hs) hiw)
  | define i d =>
    cases s with
    | dense a =>
      have hex : ∀ x, a.slot i = some x → x.WF := fun x hx => hwf _ (slot_mem hx)
      have hD := mechDefine_refines (a.slot i) d a.ext hex hv
      obtain ⟨r1, r2⟩ := dense_define_refines mechDefine specDefine a hinv i d hD
      exact ⟨r1, r2, dense_define_wf mechDefine a hwf i d (fun y hy => mechDefine_wf _ d a.ext hex hv y hy)⟩
    | sparse a =>
      have hex : ∀ x, sFind a.items i = some x → x.WF := fun x hx => hwf _ (sFind_some_mem hx)
      have hD := mechDefine_refines (sFind a.items i) d a.ext hex hv
      obtain ⟨r1, r2⟩ := sparse_define_refines mechDefine specDefine a hinv i d hD
      exact ⟨r1, r2, sparse_define_wf mechDefine a hwf i d (fun y hy => mechDefine_wf _ d a.ext hex hv y hy)⟩
  | delete i =>
    cases s with
    | dense a =>
      refine ⟨dense_delete_refines a i, dense_delete_inv a hinv i, ?_⟩
      show (a.deleteIdx i).1.AllWF
      have hdel : ({ a with values := a.values.set i none } : Dense).AllWF ∧
          ∀ oc pv, ({ a with pvc := pv, values := a.values.set i none, objCount := oc } : Dense).AllWF := by
        have key : ∀ x, some x ∈ a.values.set i none → x.WF := by
          intro x hx
          rcases List.mem_or_eq_of_mem_set hx with hx | hx
          · exact hwf x hx
          · cases hx
        exact ⟨key, fun _ _ => key⟩
      unfold Dense.deleteIdx
      split
      · exact hwf
      · split
        · exact hwf
        · exact hdel.2 _ _
      · exact hdel.2 _ _
    | sparse a =>
      refine ⟨sparse_delete_refines a hinv i, sparse_delete_inv a hinv i, ?_⟩
      show (a.deleteIdx i).1.AllWF
      have key : ∀ pv, ({ a with pvc := pv, items := sDel a.items i } : Sparse).AllWF :=
        fun _ p hp => hwf p (mem_sDel hp)
      unfold Sparse.deleteIdx
      split
      · exact hwf
      · split
        · exact hwf
        · exact key _
      · exact key _
  | setLength l =>
    obtain ⟨r1, r2⟩ := store_setLength_refines s hinv l
    refine ⟨r1, r2, ?_⟩
    cases s with
    | dense a => exact Dense.setLength_wf a hwf l
    | sparse a => exact Sparse.setLength_wf a hwf l
  | defineLength d =>
    obtain ⟨r1, r2⟩ := defineLength_refines s hinv d
    refine ⟨r1, r2, ?_⟩
    -- the elements of the result are those of `s` or of `s.setLength _`
    have hsl : ∀ l, (s.setLength l).1.AllWF := by
      intro l
      cases s with
      | dense a => exact Dense.setLength_wf a hwf l
      | sparse a => exact Sparse.setLength_wf a hwf l
    have hlw : ∀ (t : Store) (w : Bool), t.AllWF → (t.setLenW w).AllWF := by
      intro t w ht; cases t <;> exact ht
    show (s.defineLength d).1.AllWF
    unfold Store.defineLength
    split
    · exact hwf
    · dsimp only
      have hr : ∀ (r : Store × Bool), r.1.AllWF →
          (match d.writable with
            | none => r
            | some w => if r.1.lenW then (r.1.setLenW w, r.2) else if w then (r.1, false) else r).1.AllWF := by
        intro r hr
        split
        · exact hr
        · split
          · exact hlw _ _ hr
          · split <;> exact hr
      refine hr _ ?_
      split
      · split
        · exact hsl _
        · exact hwf
      · exact hwf
  | freeze =>
    obtain ⟨r1, r2⟩ := freeze_refines s hinv
    refine ⟨Prod.ext r1 rfl, r2, ?_⟩
    cases s with
    | dense a =>
      intro e he
      have he' : some e ∈ a.values.map (Option.map Elem.freeze) := he
      obtain ⟨o, ho, hoe⟩ := List.mem_map.mp he'
      cases o with
      | none => cases hoe
      | some e0 =>
        simp only [Option.map_some, Option.some.injEq] at hoe
        rw [← hoe]; exact freeze_wf e0 (hwf e0 ho)
    | sparse a =>
      intro p hp
      have hp' : p ∈ a.items.map (fun q => (q.1, q.2.freeze)) := hp
      obtain ⟨q, hq, rfl⟩ := List.mem_map.mp hp'
      exact freeze_wf q.2 (hwf q hq)
  | preventExtensions =>
    cases s with
    | dense a => exact ⟨rfl, ⟨hinv.lenValues, hinv.objCount, hinv.pvc⟩, hwf⟩
    | sparse a => exact ⟨rfl, ⟨hinv.sorted, hinv.below, hinv.pvc⟩, hwf⟩

/-! ### histories -/

def Store.run (s : Store) : List Op → Store × List Bool
  | [] => (s, [])
  | op :: rest =>
    let r := s.step op
    let q := r.1.run rest
    (q.1, r.2 :: q.2)

def SpecArray.run (a : SpecArray) : List Op → SpecArray × List Bool
  | [] => (a, [])
  | op :: rest =>
    let r := a.step op
    let q := r.1.run rest
    (q.1, r.2 :: q.2)

/-- THE property, for the modelled operations: any finite sequence of indexed writes, length
changes, defineProperty on elements and on length, deletes, freeze and preventExtensions, run on
goja's array object (dense or sparse, switching storage in either direction as its heuristics
decide), produces exactly the per-operation results and the final abstract array that the
ECMA-262 Array exotic object produces — the storage strategy is never observable. -/
theorem history_refines (ops : List Op) (s : Store) (hg : s.Good) (hv : ∀ op ∈ ops, op.Valid) :
    ((s.run ops).1.abs, (s.run ops).2) = s.abs.run ops ∧ (s.run ops).1.Good := by
  induction ops generalizing s with
  | nil => exact ⟨rfl, hg⟩
  | cons op rest ih =>
    obtain ⟨h1, h2⟩ := step_refines s hg op (hv op (by simp))
    obtain ⟨i1, i2⟩ := ih (s.step op).1 h2 (fun o ho => hv o (List.mem_cons_of_mem _ ho))
    refine ⟨?_, i2⟩
    simp only [Store.run, SpecArray.run]
    have e1 : (s.step op).1.abs = (s.abs.step op).1 := congrArg Prod.fst h1
    have e2 : (s.step op).2 = (s.abs.step op).2 := congrArg Prod.snd h1
    rw [← e1, ← e2, ← i1]

/-- the empty array literal is `Good`, so the theorem applies to every history from `[]`. -/
theorem empty_good : Store.empty.Good :=
  ⟨⟨Nat.le_refl _, rfl, Nat.le_refl _⟩, fun _ h => by cases h⟩

/-- a twin pushed through the other storage is indistinguishable: two `Good` stores with the same
abstraction (e.g. `a` and `a.toSparse`) answer every history identically. -/
theorem twin_indistinguishable (ops : List Op) (s t : Store) (hs : s.Good) (ht : t.Good) (hab : s.abs = t.abs)
    (hv : ∀ op ∈ ops, op.Valid) :
    (s.run ops).2 = (t.run ops).2 ∧ (s.run ops).1.abs = (t.run ops).1.abs := by
  obtain ⟨a1, _⟩ := history_refines ops s hs hv
  obtain ⟨b1, _⟩ := history_refines ops t ht hv
  rw [hab] at a1
  have := a1.trans b1.symm
  exact ⟨(Prod.mk.inj this).2, (Prod.mk.inj this).1⟩

end GojaModel.C07
