/-
  C07 property theorems, part 9 (deepening round 2): reverse (fast = generic = list reversal, holes
  included), the write-back of sort, sort as a whole on the own-slot layout, toSorted.
-/
import GojaModel.C07.Methods2
import GojaModel.C07.PropsMethods
import GojaModel.C07.PropsMerge

namespace GojaModel.C07

/-! ## reverse -/

/-- the generic step with its four exists/not-exists cases is the plain swap of the two slots. -/
theorem reverseStep_eq_swap (vals : List (Option Elem)) (lower upper : Nat)
    (hl : lower < vals.length) (hu : upper < vals.length) (hne : lower ≠ upper) :
    reverseStep vals lower upper = swapSlots vals lower upper := by
  unfold reverseStep swapSlots
  cases h1 : (vals[lower]?).join <;> cases h2 : (vals[upper]?).join <;> simp only []
  -- none, none: both writes store what is already there
  apply List.ext_getElem?
  intro i
  rw [List.getElem?_set, List.getElem?_set]
  have hl' : lower < (vals.set lower none).length := by simpa using hl
  by_cases hi : upper = i
  · subst hi
    have : vals[upper]? = some none := by
      rw [List.getElem?_eq_getElem hu] at h2 ⊢
      cases hv : vals[upper] with
      | none => rfl
      | some e => rw [hv] at h2; simp at h2
    simp [hu, this]
    rw [List.getElem?_eq_getElem hu] at this; exact Option.some.inj this
  · simp only [hi, if_false]
    by_cases hi2 : lower = i
    · subst hi2
      have : vals[lower]? = some none := by
        rw [List.getElem?_eq_getElem hl] at h1 ⊢
        cases hv : vals[lower] with
        | none => rfl
        | some e => rw [hv] at h1; simp at h1
      simp [hl, this]
      rw [List.getElem?_eq_getElem hl] at this; exact Option.some.inj this
    · simp [hi2]

private theorem swap_get (vals : List (Option Elem)) (i j : Nat) (hi : i < vals.length) (hj : j < vals.length) (k : Nat) :
    (swapSlots vals i j)[k]? = if k = j then vals[i]? else if k = i then vals[j]? else vals[k]? := by
  unfold swapSlots
  rw [List.getElem?_set, List.getElem?_set]
  have hi' : i < vals.length := hi
  by_cases hkj : j = k
  · subst hkj
    have : j < (vals.set i ((vals[j]?).join)).length := by simpa using hj
    simp only [this, if_true]
    rw [List.getElem?_eq_getElem hi]; rfl
  · have hkj' : ¬ k = j := fun e => hkj e.symm
    simp only [hkj, if_false, hkj']
    by_cases hki : i = k
    · subst hki
      simp only [hi, if_true]
      rw [List.getElem?_eq_getElem hj]; rfl
    · have hki' : ¬ k = i := fun e => hki e.symm
      simp only [hki, if_false, hki']

private theorem swapLoop_get (n : Nat) (c : Nat) : ∀ (vals : List (Option Elem)) (lower : Nat),
    vals.length = n → 2 * (lower + c) ≤ n →
    (reverseLoop swapSlots n vals lower c).length = n ∧
    ∀ i, (reverseLoop swapSlots n vals lower c)[i]? =
      if (lower ≤ i ∧ i < lower + c) ∨ (n - lower - c ≤ i ∧ i < n - lower) then vals[n - 1 - i]? else vals[i]? := by
  induction c with
  | zero =>
    intro vals lower hn _
    refine ⟨hn, fun i => ?_⟩
    have : ¬ ((lower ≤ i ∧ i < lower + 0) ∨ (n - lower - 0 ≤ i ∧ i < n - lower)) := by omega
    simp only [reverseLoop]; rw [if_neg this]
  | succ c ih =>
    intro vals lower hn hc
    have hl : lower < vals.length := by omega
    have hu : n - lower - 1 < vals.length := by omega
    have hlen' : (swapSlots vals lower (n - lower - 1)).length = n := by simp [swapSlots, hn]
    obtain ⟨l1, g1⟩ := ih (swapSlots vals lower (n - lower - 1)) (lower + 1) hlen' (by omega)
    refine ⟨by simp only [reverseLoop]; exact l1, fun i => ?_⟩
    simp only [reverseLoop]
    rw [g1 i]
    by_cases h1 : (lower + 1 ≤ i ∧ i < lower + 1 + c) ∨ (n - (lower + 1) - c ≤ i ∧ i < n - (lower + 1))
    · have h2 : (lower ≤ i ∧ i < lower + (c + 1)) ∨ (n - lower - (c + 1) ≤ i ∧ i < n - lower) := by omega
      rw [if_pos h1, if_pos h2, swap_get vals lower (n - lower - 1) hl hu]
      have a1 : ¬ n - 1 - i = n - lower - 1 := by omega
      have a2 : ¬ n - 1 - i = lower := by omega
      rw [if_neg a1, if_neg a2]
    · rw [if_neg h1, swap_get vals lower (n - lower - 1) hl hu]
      by_cases h3 : i = n - lower - 1
      · have h2 : (lower ≤ i ∧ i < lower + (c + 1)) ∨ (n - lower - (c + 1) ≤ i ∧ i < n - lower) := by omega
        have h4 : n - 1 - i = lower := by omega
        rw [if_pos h3, if_pos h2, h4]
      · rw [if_neg h3]
        by_cases h5 : i = lower
        · have h2 : (lower ≤ i ∧ i < lower + (c + 1)) ∨ (n - lower - (c + 1) ≤ i ∧ i < n - lower) := by omega
          have h4 : n - 1 - i = n - lower - 1 := by omega
          rw [if_pos h5, if_pos h2, h4]
        · have h2 : ¬ ((lower ≤ i ∧ i < lower + (c + 1)) ∨ (n - lower - (c + 1) ≤ i ∧ i < n - lower)) := by omega
          rw [if_neg h5, if_neg h2]

/-- the fast path of reverse (in-place swaps over `values`) is list reversal. -/
theorem reverseFast_eq_reverse (vals : List (Option Elem)) : reverseFast vals = vals.reverse := by
  obtain ⟨l, g⟩ := swapLoop_get vals.length (vals.length / 2) vals 0 rfl (by omega)
  apply List.ext_getElem?
  intro i
  unfold reverseFast
  rw [g i]
  by_cases hi : i < vals.length
  · rw [List.getElem?_reverse hi]
    by_cases h1 : (0 ≤ i ∧ i < 0 + vals.length / 2) ∨ (vals.length - 0 - vals.length / 2 ≤ i ∧ i < vals.length - 0)
    · rw [if_pos h1]
    · rw [if_neg h1]
      have : vals.length - 1 - i = i := by omega
      rw [this]
  · have h1 : ¬ ((0 ≤ i ∧ i < 0 + vals.length / 2) ∨ (vals.length - 0 - vals.length / 2 ≤ i ∧ i < vals.length - 0)) := by omega
    rw [if_neg h1, List.getElem?_eq_none (by omega), List.getElem?_eq_none (by simp; omega)]

private theorem loops_agree (n : Nat) (c : Nat) : ∀ (vals : List (Option Elem)) (lower : Nat),
    vals.length = n → 2 * (lower + c) ≤ n →
    reverseLoop reverseStep n vals lower c = reverseLoop swapSlots n vals lower c := by
  induction c with
  | zero => intro vals lower _ _; rfl
  | succ c ih =>
    intro vals lower hn hc
    simp only [reverseLoop]
    rw [reverseStep_eq_swap vals lower (n - lower - 1) (by omega) (by omega) (by omega)]
    exact ih _ (lower + 1) (by simp [swapSlots, hn]) (by omega)

/-- reverse: the generic algorithm — including its hole branches (set+delete / delete+set / nothing) —
and the fast path both compute the reversal of the slot list. -/
theorem reverse_fast_eq_generic (vals : List (Option Elem)) :
    reverseFast vals = reverseGeneric vals ∧ reverseGeneric vals = vals.reverse := by
  have h := loops_agree vals.length (vals.length / 2) vals 0 rfl (by omega)
  have hf := reverseFast_eq_reverse vals
  unfold reverseFast at hf
  unfold reverseFast reverseGeneric
  rw [h]
  exact ⟨rfl, hf⟩

/-! ## sort: write-back -/

private theorem writeBackSet_get (s : List SortVal) : ∀ (vals : List (Option Elem)) (i : Nat), i + s.length ≤ vals.length →
    (writeBackSet vals i s).length = vals.length ∧
    ∀ j, (writeBackSet vals i s)[j]? = if i ≤ j ∧ j < i + s.length then (s[j - i]?).map slotOfSortVal else vals[j]? := by
  induction s with
  | nil =>
    intro vals i _
    refine ⟨rfl, fun j => ?_⟩
    have : ¬ (i ≤ j ∧ j < i + ([] : List SortVal).length) := by simp
    simp only [writeBackSet]; rw [if_neg this]
  | cons x t ih =>
    intro vals i hi
    simp only [List.length_cons] at hi
    obtain ⟨l1, g1⟩ := ih (vals.set i (slotOfSortVal x)) (i + 1) (by simp; omega)
    refine ⟨by simp only [writeBackSet]; rw [l1]; simp, fun j => ?_⟩
    simp only [writeBackSet]
    rw [g1 j]
    by_cases h1 : i + 1 ≤ j ∧ j < i + 1 + t.length
    · have h2 : i ≤ j ∧ j < i + (x :: t).length := by simp; omega
      have h3 : j - i = (j - (i + 1)) + 1 := by omega
      rw [if_pos h1, if_pos h2, h3, List.getElem?_cons_succ]
    · rw [if_neg h1, List.getElem?_set]
      by_cases h4 : i = j
      · subst h4
        have h2 : i ≤ i ∧ i < i + (x :: t).length := by simp
        have : i < vals.length := by omega
        simp [h2, this]
      · have h2 : ¬ (i ≤ j ∧ j < i + (x :: t).length) := by simp; omega
        rw [if_neg h4, if_neg h2]

private theorem writeBackDelete_get (c : Nat) : ∀ (vals : List (Option Elem)) (i : Nat), i + c ≤ vals.length →
    (writeBackDelete vals i c).length = vals.length ∧
    ∀ j, (writeBackDelete vals i c)[j]? = if i ≤ j ∧ j < i + c then some none else vals[j]? := by
  induction c with
  | zero =>
    intro vals i _
    refine ⟨rfl, fun j => ?_⟩
    have : ¬ (i ≤ j ∧ j < i + 0) := by omega
    simp only [writeBackDelete]; rw [if_neg this]
  | succ c ih =>
    intro vals i hi
    obtain ⟨l1, g1⟩ := ih (vals.set i none) (i + 1) (by simp; omega)
    refine ⟨by simp only [writeBackDelete]; rw [l1]; simp, fun j => ?_⟩
    simp only [writeBackDelete]
    rw [g1 j]
    by_cases h1 : i + 1 ≤ j ∧ j < i + 1 + c
    · have h2 : i ≤ j ∧ j < i + (c + 1) := by omega
      rw [if_pos h1, if_pos h2]
    · rw [if_neg h1, List.getElem?_set]
      by_cases h4 : i = j
      · subst h4
        have h2 : i ≤ i ∧ i < i + (c + 1) := by omega
        have : i < vals.length := by omega
        simp [h2, this]
      · have h2 : ¬ (i ≤ j ∧ j < i + (c + 1)) := by omega
        rw [if_neg h4, if_neg h2]

/-- the write-back loops of `arrayproto_sort` (set the first `len(a)` indices, delete the rest up to the
old length) leave exactly "the sorted values as own elements, then holes". -/
theorem sortWriteBack_layout (vals : List (Option Elem)) (sorted : List SortVal) (h : sorted.length ≤ vals.length) :
    sortWriteBack vals sorted = sorted.map slotOfSortVal ++ List.replicate (vals.length - sorted.length) none := by
  obtain ⟨l1, g1⟩ := writeBackSet_get sorted vals 0 (by omega)
  obtain ⟨l2, g2⟩ := writeBackDelete_get (vals.length - sorted.length) (writeBackSet vals 0 sorted) sorted.length (by rw [l1]; omega)
  apply List.ext_getElem?
  intro j
  unfold sortWriteBack
  rw [g2 j, g1 j]
  by_cases hj : j < sorted.length
  · have h1 : ¬ (sorted.length ≤ j ∧ j < sorted.length + (vals.length - sorted.length)) := by omega
    have h2 : 0 ≤ j ∧ j < 0 + sorted.length := by omega
    rw [if_neg h1, if_pos h2, List.getElem?_append_left (by simpa using hj), List.getElem?_map]
    simp
  · by_cases hj2 : j < vals.length
    · have h1 : sorted.length ≤ j ∧ j < sorted.length + (vals.length - sorted.length) := by omega
      rw [if_pos h1, List.getElem?_append_right (by simp; omega)]
      simp [List.getElem?_replicate]; omega
    · have h1 : ¬ (sorted.length ≤ j ∧ j < sorted.length + (vals.length - sorted.length)) := by omega
      have h2 : ¬ (0 ≤ j ∧ j < 0 + sorted.length) := by omega
      rw [if_neg h1, if_neg h2, List.getElem?_eq_none (by omega), List.getElem?_eq_none (by simp; omega)]

/-- **`Array.prototype.sort` on the own-slot layout** (ECMA-262 23.1.3.30, SortIndexedProperties +
write-back): for every consistent comparator the receiver ends as "a sorted, stable permutation of
the collected elements (HasProperty + Get through `w`, so inherited values count), as own elements,
followed by holes up to the old length" — whatever blocks `sort.Stable` cuts the input into. -/
theorem sort_array_spec (less : SortVal → SortVal → Bool) (hc : Consistent less) (p : SortVal → Bool)
    (hp : ∀ a b, p a = true → p b = true → less a b = false)
    (vals : List (Option Elem)) (w : View) (blocks : List (List SortVal))
    (hb : blocks.flatten = sortCollect w vals.length) :
    let sorted := stableSortBlocks less blocks
    sortWriteBack vals sorted = sorted.map slotOfSortVal ++ List.replicate (vals.length - sorted.length) none ∧
    SortedBy less sorted ∧ sorted.Perm (sortCollect w vals.length) ∧
    sorted.filter p = (sortCollect w vals.length).filter p := by
  intro sorted
  obtain ⟨s1, s2, s3⟩ := stableSort_sorted_stable_perm less hc p hp blocks
  rw [hb] at s2 s3
  have hlen : sorted.length ≤ vals.length := by
    rw [s3.length_eq]
    unfold sortCollect
    have := List.length_filterMap_le (fun k => if w.has k then some (w.get k) else none) (List.range vals.length)
    simpa using this
  exact ⟨sortWriteBack_layout vals sorted hlen, s1, s3, s2⟩

/-- sort's fast collection (`copy(a, src.values)` under the no-holes guard) is the generic collection. -/
theorem sortCollect_fast_eq_generic (a : Dense) (h : a.Inv) (hg : a.stdGuard = true) (proto : Nat → Option Val)
    (gr : VProp → Option Val) : sortCollectFast a.values = sortCollect (a.view proto gr) a.values.length := by
  obtain ⟨hp, _⟩ := guard_allPlain a h hg
  unfold sortCollectFast sortCollect
  apply List.ext_getElem?
  intro k
  have hfm : ∀ (l : List Nat), (∀ k ∈ l, k < a.values.length) →
      l.filterMap (fun k => if (a.view proto gr).has k then some ((a.view proto gr).get k) else none) =
      l.map (fun k => slotVal ((a.values[k]?).join)) := by
    intro l
    induction l with
    | nil => intro _; rfl
    | cons x t ih =>
      intro hl
      have hx : x < a.values.length := hl x (by simp)
      obtain ⟨v, hv⟩ := hp x hx
      have h1 : (a.view proto gr).has x = true := by simp [Dense.view, Dense.slot, List.getElem?_eq_getElem hx, hv]
      have h2 : (a.view proto gr).get x = some v := by simp [Dense.view, Dense.slot, List.getElem?_eq_getElem hx, hv, genericGet]
      have h3 : slotVal ((a.values[x]?).join) = some v := by simp [List.getElem?_eq_getElem hx, hv, slotVal]
      simp only [List.filterMap_cons, h1, if_true, h2, List.map_cons, h3]
      rw [ih (fun k hk => hl k (List.mem_cons_of_mem _ hk))]
  rw [hfm (List.range a.values.length) (fun k hk => List.mem_range.mp hk)]
  by_cases hk : k < a.values.length
  · simp [List.getElem?_map, List.getElem?_range hk, List.getElem?_eq_getElem hk]
  · rw [List.getElem?_eq_none (by simp; omega), List.getElem?_eq_none (by simp; omega)]

/-- toSorted: the list handed to the sort by the fast path equals the generic one (Get of every index). -/
theorem toSorted_collect_fast_eq_generic (a : Dense) (h : a.Inv) (hg : a.stdGuard = true) (proto : Nat → Option Val)
    (gr : VProp → Option Val) (L : Nat) (hL : a.values.length = L) :
    toSortedCollectFast a.values L = toSortedCollectGeneric (a.view proto gr) L := by
  -- `with` at an index that is never hit
  have := with_fast_eq_generic a h hg proto gr L L 0 hL
  unfold withFast withGeneric at this
  unfold toSortedCollectFast toSortedCollectGeneric
  have e1 : ∀ (f : Nat → Option Val), (List.range L).map (fun k => if k = L then some 0 else f k) = (List.range L).map f := by
    intro f
    apply List.map_congr_left
    intro k hk
    have : ¬ k = L := by have := List.mem_range.mp hk; omega
    simp [this]
  rw [e1, e1] at this
  exact this

/-! ## the hole / delete branch of the element moves -/

/-- the generic move step, hole branch included, is "copy the slot". -/
theorem moveStep_eq_set (vals : List (Option Elem)) (f t : Nat) : moveStep vals f t = vals.set t ((vals[f]?).join) := by
  unfold moveStep
  cases (vals[f]?).join <;> rfl

/-- hence copyWithin's generic loops on a receiver WITH holes are the slot-copy loops `cwFwd` / `cwBwd`
of `copyWithin_fast_eq_generic` (which therefore describes the generic algorithm on every slot list,
not only on hole-free ones). -/
theorem copyWithin_generic_with_holes (c : Nat) (vals : List (Option Elem)) (f t : Nat) :
    cwFwdGeneric vals f t c = cwFwd vals f t c ∧ cwBwdGeneric vals f t c = cwBwd vals f t c := by
  constructor
  · induction c generalizing vals f t with
    | zero => rfl
    | succ c ih => simp only [cwFwdGeneric, cwFwd, moveStep_eq_set]; exact ih _ _ _
  · induction c generalizing vals with
    | zero => rfl
    | succ c ih => simp only [cwBwdGeneric, cwBwd, moveStep_eq_set]; exact ih _

end GojaModel.C07
