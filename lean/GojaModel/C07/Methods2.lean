/-
  C07 — more Array.prototype methods (deepening round 2): reverse, the write-back loop of sort,
  toSorted.  Receivers are seen as lists of slots (`none` = hole); where a loop's hole / delete
  branches are modelled, the receiver has no inherited indexed properties at those indices (then
  HasProperty = "own slot present", Set on an index below `length` = store into the slot, Delete =
  empty the slot — `dense_set_refines` / `sparse_set_refines` / `*_delete_refines`).
-/
import GojaModel.C07.Methods

namespace GojaModel.C07

/-! ### reverse (builtin_array.go:981 generic, :989 fast path) -/

/-- fast path: `a.values[lower], a.values[upper] = a.values[upper], a.values[lower]`. -/
def swapSlots (vals : List (Option Elem)) (i j : Nat) : List (Option Elem) :=
  (vals.set i ((vals[j]?).join)).set j ((vals[i]?).join)

/-- `arrayproto_reverse_generic_step`: the four cases on lowerExists / upperExists
(set+set, set+delete, delete+set, nothing). -/
def reverseStep (vals : List (Option Elem)) (lower upper : Nat) : List (Option Elem) :=
  match (vals[lower]?).join, (vals[upper]?).join with
  | some lv, some uv => (vals.set lower (some uv)).set upper (some lv)
  | none, some uv => (vals.set lower (some uv)).set upper none
  | some lv, none => (vals.set lower none).set upper (some lv)
  | none, none => vals

/-- `for lower := start; lower != middle; lower++ { step(lower, l-lower-1) }` with `l = n`. -/
def reverseLoop (step : List (Option Elem) → Nat → Nat → List (Option Elem)) (n : Nat) :
    List (Option Elem) → Nat → Nat → List (Option Elem)
  | vals, _, 0 => vals
  | vals, lower, c + 1 => reverseLoop step n (step vals lower (n - lower - 1)) (lower + 1) c

def reverseFast (vals : List (Option Elem)) : List (Option Elem) := reverseLoop swapSlots vals.length vals 0 (vals.length / 2)
def reverseGeneric (vals : List (Option Elem)) : List (Option Elem) := reverseLoop reverseStep vals.length vals 0 (vals.length / 2)

/-! ### sort: collecting and writing back (builtin_array.go:406–432) -/

/-- generic collection: `for i < length { if hasPropertyIdx(i) { a = append(a, nilSafe(getIdx(i))) } }`. -/
def sortCollect (w : View) (len : Nat) : List SortVal :=
  (List.range len).filterMap (fun k => if w.has k then some (w.get k) else none)

/-- fast collection: `copy(a, src.values)`. -/
def sortCollectFast (vals : List (Option Elem)) : List SortVal := vals.map slotVal

/-- a sorted value as a slot (`undefined` is a present element holding the value 0). -/
def slotOfSortVal (x : SortVal) : Option Elem := some (.plain (x.getD 0))

/-- `for i < len(a) { setOwnIdx(i, a[i]) }`. -/
def writeBackSet : List (Option Elem) → Nat → List SortVal → List (Option Elem)
  | vals, _, [] => vals
  | vals, i, x :: t => writeBackSet (vals.set i (slotOfSortVal x)) (i + 1) t

/-- `for i := len(a); i < length; i++ { deleteIdx(i) }`. -/
def writeBackDelete : List (Option Elem) → Nat → Nat → List (Option Elem)
  | vals, _, 0 => vals
  | vals, i, c + 1 => writeBackDelete (vals.set i none) (i + 1) c

def sortWriteBack (vals : List (Option Elem)) (sorted : List SortVal) : List (Option Elem) :=
  writeBackDelete (writeBackSet vals 0 sorted) sorted.length (vals.length - sorted.length)

/-! ### toSorted (builtin_array.go:1338): the list handed to the sort -/

def toSortedCollectFast (vals : List (Option Elem)) (len : Nat) : List SortVal :=
  (List.range len).map (fun k => slotVal ((vals[k]?).join))

def toSortedCollectGeneric (w : View) (len : Nat) : List SortVal := (List.range len).map w.get

/-! ### the element move with its hole branch (copyWithin :1082, splice :497/:511, shift, unshift)

`if hasPropertyIdx(from) { setOwnIdx(to, getIdx(from)) } else { deleteIdx(to) }` -/

def moveStep (vals : List (Option Elem)) (f t : Nat) : List (Option Elem) :=
  match (vals[f]?).join with
  | some x => vals.set t (some x)      -- present: Set(to, Get(from))
  | none => vals.set t none            -- hole: DeletePropertyOrThrow(to)

/-- copyWithin's forward loop written with the generic step. -/
def cwFwdGeneric : List (Option Elem) → Nat → Nat → Nat → List (Option Elem)
  | vals, _, _, 0 => vals
  | vals, f, t, c + 1 => cwFwdGeneric (moveStep vals f t) (f + 1) (t + 1) c

def cwBwdGeneric : List (Option Elem) → Nat → Nat → Nat → List (Option Elem)
  | vals, _, _, 0 => vals
  | vals, f, t, c + 1 => cwBwdGeneric (moveStep vals (f + c) (t + c)) f t c

end GojaModel.C07
