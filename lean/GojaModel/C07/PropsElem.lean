/-
  C07 property theorems, part 2: element writes (`[[DefineOwnProperty]]` on an index, `[[Set]]`),
  including the storage switches that happen inside them.  Audited like Props.lean.
  `md`/`sd` are the element-level define functions (parameters; `Props.mechDefine_refines` shows
  that goja's `_defineOwnProperty` and the spec's ValidateAndApply satisfy the hypothesis `hD`).
-/
import GojaModel.C07.ArrayLemmas
import GojaModel.C07.Props

namespace GojaModel.C07

private theorem dense_define_eq (md : MechDefine) (a : Dense) (idx : Nat) (d : Desc) :
    a.defineIdx md idx d =
      match md (a.slot idx) d a.ext with
      | none => (.dense a, false)
      | some prop =>
        if idx ≥ a.length then
          if !(a.setLengthInt (idx + 1)).2 then (.dense (a.setLengthInt (idx + 1)).1, false)
          else ((a.setLengthInt (idx + 1)).1.place idx prop (a.slot idx).isNone, true)
        else (a.place idx prop (a.slot idx).isNone, true) := by
  unfold Dense.defineIdx Dense.place
  dsimp only
  cases md (a.slot idx) d a.ext with
  | none => rfl
  | some prop =>
    dsimp only
    by_cases hge : idx ≥ a.length
    · simp only [hge, if_true]
      cases (a.setLengthInt (idx + 1)).2
      · rfl
      · simp only [Bool.not_true, Bool.false_eq_true, if_false]
        cases (a.setLengthInt (idx + 1)).1.expand idx <;> rfl
    · simp only [hge, if_false, Bool.not_true, Bool.false_eq_true]
      cases a.expand idx <;> rfl

/-- dense `_defineIdxProperty` (array.go:427) refines the Array `[[DefineOwnProperty]]` for an index
and preserves `Inv` — including the case where `expand` switches to sparse storage. -/
theorem dense_define_refines (md : MechDefine) (sd : SpecDefine) (a : Dense) (h : a.Inv) (idx : Nat) (d : Desc)
    (hD : (md (a.slot idx) d a.ext).map Elem.abs = sd ((a.slot idx).map Elem.abs) d a.ext) :
    ((a.defineIdx md idx d).1.abs, (a.defineIdx md idx d).2) = a.abs.defineIdx sd idx d ∧
    (a.defineIdx md idx d).1.Inv := by
  have hget : a.abs.get idx = (a.slot idx).map Elem.abs := rfl
  have hext : a.abs.extensible = a.ext := rfl
  rw [dense_define_eq]
  unfold SpecArray.defineIdx
  rw [hget, hext, ← hD]
  cases md (a.slot idx) d a.ext with
  | none =>
    refine ⟨?_, h⟩
    simp only [Option.map_none]
    split <;> rfl
  | some prop =>
    simp only [Option.map_some]
    by_cases hge : idx ≥ a.length
    · simp only [hge, if_true]
      cases hw : a.lenW
      · rw [Dense.setLengthInt_ro a idx hge hw]
        refine ⟨?_, h⟩
        have : a.abs.lengthWritable = false := hw
        have hal : a.abs.length ≤ idx := hge
        simp [this]
        rw [if_pos hal]; rfl
      · rw [Dense.setLengthInt_grow a h idx hge hw]
        have h1 : ({ a with length := idx + 1 } : Dense).Inv :=
          ⟨by have := h.lenValues; show a.values.length ≤ idx + 1; omega, h.objCount, h.pvc⟩
        obtain ⟨p1, p2⟩ := Dense.place_spec { a with length := idx + 1 } h1 idx (Nat.lt_succ_self idx) prop
          (a.slot idx).isNone rfl
        refine ⟨?_, p2⟩
        have hlw : a.abs.lengthWritable = true := hw
        have hal : a.abs.length = a.length := rfl
        simp only [Bool.not_true, Bool.false_eq_true, if_false, hlw, Bool.and_false, hal, hge, if_true]
        refine Prod.ext ?_ rfl
        rw [p1]
        exact SpecArray.ext' rfl rfl hw rfl
    · simp only [hge, if_false]
      obtain ⟨p1, p2⟩ := Dense.place_spec a h idx (by omega) prop (a.slot idx).isNone rfl
      refine ⟨?_, p2⟩
      have hal : a.abs.length = a.length := rfl
      have : (decide (idx ≥ a.abs.length) && !a.abs.lengthWritable) = false := by simp [hal, hge]
      simp only [this, Bool.false_eq_true, if_false, hal, hge]
      refine Prod.ext ?_ rfl
      rw [p1]
      exact SpecArray.ext' rfl rfl rfl rfl

/-! ## `[[Set]]` on an index -/

/-- the descriptor of CreateDataProperty. -/
def fullDesc (v : Val) : Desc :=
  { value := some v, writable := some true, enumerable := some true, configurable := some true }

/-- the element-level effect of the "new property" branch of `_setOwnIdx`. -/
def mdPlain (v : Val) : MechDefine := fun _ _ ext => if ext then some (.plain v) else none

private theorem dense_set_tail (a1 : Dense) (idx : Nat) (v : Val) :
    (match (if idx ≥ a1.values.length then a1.expand idx else some a1) with
      | none => ((Store.sparse (a1.toSparse.add idx (.plain v)), true) : Store × Bool)
      | some a2 => (.dense { a2 with objCount := a2.objCount + 1, values := a2.values.set idx (some (.plain v)) }, true)) =
    (a1.place idx (.plain v) true, true) := by
  unfold Dense.place
  by_cases hge : idx ≥ a1.values.length
  · simp only [hge, if_true]
    cases a1.expand idx <;> rfl
  · simp only [hge, if_false]
    rw [Dense.expand_of_lt a1 idx (by omega)]
    rfl

private theorem dense_set_absent_eq (a : Dense) (idx : Nat) (v : Val) (hs : a.slot idx = none) :
    a.setOwnIdx idx v none = a.defineIdx (mdPlain v) idx (fullDesc v) := by
  rw [dense_define_eq]
  unfold Dense.setOwnIdx mdPlain
  rw [hs]
  dsimp only
  cases a.ext
  · rfl
  · simp only [Bool.not_true, Bool.false_eq_true, if_false, if_true, Option.isNone_none]
    by_cases hge : idx ≥ a.length
    · simp only [hge, if_true]
      cases (a.setLengthInt (idx + 1)).2
      · rfl
      · simp only [Bool.not_true, Bool.false_eq_true, if_false]
        exact dense_set_tail _ idx v
    · simp only [hge, if_false, Bool.not_true, Bool.false_eq_true]
      exact dense_set_tail _ idx v

/-- dense `_setOwnIdx` (array.go:219) refines OrdinarySet on an Array for an index key and preserves
`Inv`; `pa` is the answer of the prototype chain (see `SpecArray.set`). -/
theorem dense_set_refines (sd : SpecDefine) (a : Dense) (h : a.Inv) (idx : Nat) (v : Val) (pa : Option Bool)
    (hsd : ∀ ext, sd none (fullDesc v) ext = if ext then some (.data v true true true) else none)
    (hwf : ∀ p, a.slot idx = some (.prop p) → p.accessor = true → p.writable = false)
    (hwf2 : ∀ p, a.slot idx = some (.prop p) → p.accessor = false → p.setter = none) :
    ((a.setOwnIdx idx v pa).1.abs, (a.setOwnIdx idx v pa).2) = a.abs.set sd idx v pa ∧
    (a.setOwnIdx idx v pa).1.Inv := by
  have hget : a.abs.get idx = (a.slot idx).map Elem.abs := rfl
  cases hs : a.slot idx with
  | none =>
    cases pa with
    | some r =>
      refine ⟨?_, by simp only [Dense.setOwnIdx, hs]; exact h⟩
      simp only [Dense.setOwnIdx, SpecArray.set, hget, hs, Option.map_none]
      rfl
    | none =>
      rw [dense_set_absent_eq a idx v hs]
      have hD : (mdPlain v (a.slot idx) (fullDesc v) a.ext).map Elem.abs =
          sd ((a.slot idx).map Elem.abs) (fullDesc v) a.ext := by
        rw [hs, Option.map_none, hsd]
        unfold mdPlain
        cases a.ext <;> rfl
      obtain ⟨r1, r2⟩ := dense_define_refines (mdPlain v) sd a h idx (fullDesc v) hD
      refine ⟨?_, r2⟩
      rw [r1]
      simp only [SpecArray.set, hget, hs, Option.map_none]
      rfl
  | some e =>
    obtain ⟨hlt, hv⟩ := slot_some_lt (by simpa [Dense.slot] using hs)
    cases e with
    | plain v0 =>
      have hw := Dense.write_inv a h idx (.plain v) a.objCount a.pvc hlt (by simp [hs]) (by simp [hs, isPropSlot, Elem.isProp])
      have ha := Dense.write_abs a idx (.plain v) a.objCount a.pvc hlt
      refine ⟨?_, by simp only [Dense.setOwnIdx, hs]; exact hw⟩
      simp only [Dense.setOwnIdx, SpecArray.set, hget, hs, Option.map_some, Elem.abs]
      refine Prod.ext ?_ rfl
      exact ha
    | prop p =>
      have h1 := hwf p hs
      have h2 := hwf2 p hs
      simp only [Dense.setOwnIdx, SpecArray.set, hget, hs, Option.map_some, Elem.abs]
      cases hacc : p.accessor
      · -- data property
        have hset : p.setter = none := h2 hacc
        have hiw : p.isWritable = p.writable := by simp [VProp.isWritable, hset]
        simp only [hiw, Bool.false_eq_true, if_false]
        cases hwr : p.writable
        · exact ⟨rfl, h⟩
        · simp only [Bool.not_true, Bool.false_eq_true, if_false]
          have hsv : p.setValue v = { p with value := v } := by simp [VProp.setValue, hset]
          have hw := Dense.write_inv a h idx (.prop (p.setValue v)) a.objCount a.pvc hlt (by simp [hs])
            (by simp [hs, isPropSlot, Elem.isProp])
          have ha := Dense.write_abs a idx (.prop (p.setValue v)) a.objCount a.pvc hlt
          refine ⟨?_, hw⟩
          refine Prod.ext ?_ rfl
          show (a.write idx (.prop (p.setValue v)) a.objCount a.pvc).abs = _
          rw [ha, hsv]
          simp [SpecArray.put, Elem.abs, hacc, hwr]
      · -- accessor
        have hwr : p.writable = false := h1 hacc
        have hiw : p.isWritable = p.setter.isSome := by simp [VProp.isWritable, hwr]
        simp only [hiw, if_true]
        cases hse : p.setter with
        | none => exact ⟨rfl, h⟩
        | some f =>
          simp only [Option.isSome_some, Bool.not_true, Bool.false_eq_true, if_false]
          have hsv : p.setValue v = p := by simp [VProp.setValue, hse]
          have hw := Dense.write_inv a h idx (.prop p) a.objCount a.pvc hlt (by simp [hs])
            (by simp [hs, isPropSlot, Elem.isProp])
          have ha := Dense.write_abs a idx (.prop p) a.objCount a.pvc hlt
          rw [hsv]
          refine ⟨?_, hw⟩
          refine Prod.ext ?_ rfl
          show (a.write idx (.prop p) a.objCount a.pvc).abs = a.abs
          rw [ha]
          refine SpecArray.ext' ?_ rfl rfl rfl
          funext i
          simp only [SpecArray.put]
          split
          · next hi => rw [hi, hget, hs]; rfl
          · rfl

/-! ## sparse storage -/

private theorem sparse_define_eq (md : MechDefine) (a : Sparse) (idx : Nat) (d : Desc) :
    a.defineIdx md idx d =
      match md (sFind a.items idx) d a.ext with
      | none => (.sparse a, false)
      | some prop =>
        let r := if idx ≥ a.length then a.setLengthInt (idx + 1) else (a, true)
        if !r.2 then (.sparse r.1, false)
        else if (sFind a.items idx).isNone then (r.1.place idx prop, true)
        else (.sparse { r.1 with items := sSetAt r.1.items idx prop,
                                 pvc := if prop.isProp then r.1.pvc + 1 else r.1.pvc }, true) := by
  unfold Sparse.defineIdx Sparse.place
  dsimp only
  cases md (sFind a.items idx) d a.ext with
  | none => rfl
  | some prop =>
    dsimp only
    generalize (if idx ≥ a.length then a.setLengthInt (idx + 1) else (a, true)) = r
    obtain ⟨r1, b⟩ := r
    cases b
    · rfl
    · dsimp only
      cases (sFind a.items idx).isNone
      · rfl
      · simp only [Bool.not_true, Bool.false_eq_true, if_false, if_true]
        cases r1.expand idx <;> rfl

/-- sparse `_defineIdxProperty` (array_sparse.go:339) refines the Array `[[DefineOwnProperty]]` for
an index and preserves `Inv` — including the case where `expand` switches to dense storage. -/
theorem sparse_define_refines (md : MechDefine) (sd : SpecDefine) (a : Sparse) (h : a.Inv) (idx : Nat) (d : Desc)
    (hD : (md (sFind a.items idx) d a.ext).map Elem.abs = sd ((sFind a.items idx).map Elem.abs) d a.ext) :
    ((a.defineIdx md idx d).1.abs, (a.defineIdx md idx d).2) = a.abs.defineIdx sd idx d ∧
    (a.defineIdx md idx d).1.Inv := by
  have hfind : sFind a.items idx = aGet a.items idx := sFind_eq_aGet h.sorted idx
  have hget : a.abs.get idx = (sFind a.items idx).map Elem.abs := by rw [hfind]; rfl
  have hext : a.abs.extensible = a.ext := rfl
  have hal : a.abs.length = a.length := rfl
  rw [sparse_define_eq]
  unfold SpecArray.defineIdx
  rw [hget, hext, ← hD]
  cases md (sFind a.items idx) d a.ext with
  | none =>
    refine ⟨?_, h⟩
    simp only [Option.map_none]
    split <;> rfl
  | some prop =>
    simp only [Option.map_some]
    by_cases hge : idx ≥ a.length
    · -- a new element beyond the current length
      have habsent : aGet a.items idx = none := aGet_none_of_below h.below hge
      have hnone : (sFind a.items idx).isNone = true := by rw [hfind, habsent]; rfl
      simp only [hge, if_true, hnone]
      cases hw : a.lenW
      · rw [Sparse.setLengthInt_ro a idx hge hw]
        refine ⟨?_, h⟩
        have : a.abs.lengthWritable = false := hw
        have hal' : a.abs.length ≤ idx := hge
        simp [this]
        rw [if_pos hal']; rfl
      · rw [Sparse.setLengthInt_grow a h idx hge hw]
        have h1 : ({ a with length := idx + 1 } : Sparse).Inv :=
          ⟨h.sorted, fun p hp => by have := h.below p hp; show p.1 < idx + 1; omega, h.pvc⟩
        obtain ⟨p1, p2⟩ := Sparse.place_spec { a with length := idx + 1 } h1 idx (Nat.lt_succ_self idx) prop habsent
        refine ⟨?_, p2⟩
        have hlw : a.abs.lengthWritable = true := hw
        simp only [Bool.not_true, Bool.false_eq_true, if_false, hlw, Bool.and_false, hal, hge, if_true]
        refine Prod.ext ?_ rfl
        rw [p1]
        exact SpecArray.ext' rfl rfl hw rfl
    · have hro : (decide (idx ≥ a.abs.length) && !a.abs.lengthWritable) = false := by simp [hal, hge]
      simp only [hge, if_false, Bool.not_true, Bool.false_eq_true, hro, hal]
      cases hs : aGet a.items idx with
      | none =>
        have hnone : (sFind a.items idx).isNone = true := by rw [hfind, hs]; rfl
        simp only [hnone, if_true]
        obtain ⟨p1, p2⟩ := Sparse.place_spec a h idx (by omega) prop hs
        refine ⟨?_, p2⟩
        refine Prod.ext ?_ rfl
        rw [p1]
        exact SpecArray.ext' rfl rfl rfl rfl
      | some old =>
        have hsome : (sFind a.items idx).isNone = false := by rw [hfind, hs]; rfl
        simp only [hsome, Bool.false_eq_true, if_false]
        have hp : (aGet a.items idx).isSome := by rw [hs]; rfl
        constructor
        · refine Prod.ext ?_ rfl
          show ({ a with items := sSetAt a.items idx prop, pvc := _ } : Sparse).abs = _
          rw [Sparse.replace_abs a h idx prop _ hp]
          exact SpecArray.ext' rfl rfl rfl rfl
        · apply Sparse.replace_inv a h idx prop
          have := countProp_sSetAt_le a.items idx prop
          have := h.pvc
          split <;> simp_all <;> omega

private theorem sparse_set_tail (a1 : Sparse) (idx : Nat) (v : Val) (hlt : idx < a1.length) :
    (match a1.expand idx with
      | none => ((Store.sparse (a1.add idx (.plain v)), true) : Store × Bool)
      | some ar => (.dense { ar with values := ar.values.set idx (some (.plain v)), objCount := ar.objCount + 1 }, true)) =
    (a1.place idx (.plain v), true) := by
  unfold Sparse.place
  have hnl : ¬ idx ≥ a1.length := by omega
  cases a1.expand idx with
  | none => simp [Sparse.add, hnl, Elem.isProp]
  | some ar => rfl

private theorem sparse_set_absent_eq (a : Sparse) (h : a.Inv) (idx : Nat) (v : Val) (hs : sFind a.items idx = none) :
    a.setOwnIdx idx v none = a.defineIdx (mdPlain v) idx (fullDesc v) := by
  rw [sparse_define_eq]
  unfold Sparse.setOwnIdx mdPlain
  rw [hs]
  dsimp only
  cases a.ext
  · rfl
  · simp only [Bool.not_true, Bool.false_eq_true, if_false, if_true, Option.isNone_none]
    by_cases hge : idx ≥ a.length
    · simp only [hge, if_true]
      cases hw : a.lenW
      · rw [Sparse.setLengthInt_ro a idx hge hw]; rfl
      · rw [Sparse.setLengthInt_grow a h idx hge hw]
        simp only [Bool.not_true, Bool.false_eq_true, if_false]
        exact sparse_set_tail _ idx v (Nat.lt_succ_self idx)
    · simp only [hge, if_false, Bool.not_true, Bool.false_eq_true]
      exact sparse_set_tail a idx v (by omega)

/-- sparse `_setOwnIdx` (array_sparse.go:152) refines OrdinarySet on an Array for an index key and
preserves `Inv` (the sparse→dense switch inside it included). -/
theorem sparse_set_refines (sd : SpecDefine) (a : Sparse) (h : a.Inv) (idx : Nat) (v : Val) (pa : Option Bool)
    (hsd : ∀ ext, sd none (fullDesc v) ext = if ext then some (.data v true true true) else none)
    (hwf : ∀ p, sFind a.items idx = some (.prop p) → p.accessor = true → p.writable = false)
    (hwf2 : ∀ p, sFind a.items idx = some (.prop p) → p.accessor = false → p.setter = none) :
    ((a.setOwnIdx idx v pa).1.abs, (a.setOwnIdx idx v pa).2) = a.abs.set sd idx v pa ∧
    (a.setOwnIdx idx v pa).1.Inv := by
  have hfind : sFind a.items idx = aGet a.items idx := sFind_eq_aGet h.sorted idx
  have hget : a.abs.get idx = (sFind a.items idx).map Elem.abs := by rw [hfind]; rfl
  cases hs : sFind a.items idx with
  | none =>
    cases pa with
    | some r =>
      refine ⟨?_, by simp only [Sparse.setOwnIdx, hs]; exact h⟩
      simp only [Sparse.setOwnIdx, SpecArray.set, hget, hs, Option.map_none]
      rfl
    | none =>
      rw [sparse_set_absent_eq a h idx v hs]
      have hD : (mdPlain v (sFind a.items idx) (fullDesc v) a.ext).map Elem.abs =
          sd ((sFind a.items idx).map Elem.abs) (fullDesc v) a.ext := by
        rw [hs, Option.map_none, hsd]
        unfold mdPlain
        cases a.ext <;> rfl
      obtain ⟨r1, r2⟩ := sparse_define_refines (mdPlain v) sd a h idx (fullDesc v) hD
      refine ⟨?_, r2⟩
      rw [r1]
      simp only [SpecArray.set, hget, hs, Option.map_none]
      rfl
  | some e =>
    have hp : (aGet a.items idx).isSome := by rw [← hfind, hs]; rfl
    have hrep : ∀ (e' : Elem), e'.isProp = e.isProp →
        ({ a with items := sSetAt a.items idx e' } : Sparse).abs = a.abs.put idx e'.abs ∧
        ({ a with items := sSetAt a.items idx e' } : Sparse).Inv := by
      intro e' hip
      constructor
      · exact Sparse.replace_abs a h idx e' a.pvc hp
      · apply Sparse.replace_inv a h idx e' a.pvc
        rw [countProp_sSetAt_same hs hip]; exact h.pvc
    cases e with
    | plain v0 =>
      obtain ⟨ha, hw⟩ := hrep (.plain v) rfl
      refine ⟨?_, by simp only [Sparse.setOwnIdx, hs]; exact hw⟩
      simp only [Sparse.setOwnIdx, SpecArray.set, hget, hs, Option.map_some, Elem.abs]
      refine Prod.ext ?_ rfl
      exact ha
    | prop p =>
      have h1 := hwf p hs
      have h2 := hwf2 p hs
      simp only [Sparse.setOwnIdx, SpecArray.set, hget, hs, Option.map_some, Elem.abs]
      cases hacc : p.accessor
      · have hset : p.setter = none := h2 hacc
        have hiw : p.isWritable = p.writable := by simp [VProp.isWritable, hset]
        simp only [hiw, Bool.false_eq_true, if_false]
        cases hwr : p.writable
        · exact ⟨rfl, h⟩
        · simp only [Bool.not_true, Bool.false_eq_true, if_false]
          have hsv : p.setValue v = { p with value := v } := by simp [VProp.setValue, hset]
          obtain ⟨ha, hw⟩ := hrep (.prop (p.setValue v)) rfl
          refine ⟨?_, hw⟩
          refine Prod.ext ?_ rfl
          show ({ a with items := sSetAt a.items idx (.prop (p.setValue v)) } : Sparse).abs = _
          rw [ha, hsv]
          simp [SpecArray.put, Elem.abs, hacc, hwr]
      · have hwr : p.writable = false := h1 hacc
        have hiw : p.isWritable = p.setter.isSome := by simp [VProp.isWritable, hwr]
        simp only [hiw, if_true]
        cases hse : p.setter with
        | none => exact ⟨rfl, h⟩
        | some f =>
          simp only [Option.isSome_some, Bool.not_true, Bool.false_eq_true, if_false]
          have hsv : p.setValue v = p := by simp [VProp.setValue, hse]
          obtain ⟨ha, hw⟩ := hrep (.prop p) rfl
          rw [hsv]
          refine ⟨?_, hw⟩
          refine Prod.ext ?_ rfl
          show ({ a with items := sSetAt a.items idx (.prop p) } : Sparse).abs = a.abs
          rw [ha]
          refine SpecArray.ext' ?_ rfl rfl rfl
          funext i
          simp only [SpecArray.put]
          split
          · next hi => rw [hi, hget, hs]; rfl
          · rfl

/-! ## the sparse → dense switch as `expand` performs it -/

/-- whenever sparse `expand` (array_sparse.go:317) decides to switch, the new dense object denotes
the same array and satisfies the dense invariant — in particular `objCount = len(items)` is exact. -/
theorem sparse_expand_transition (a : Sparse) (h : a.Inv) (idx : Nat) (hlt : idx < a.length) (ar : Dense)
    (hex : a.expand idx = some ar) : ar.abs = a.abs ∧ ar.Inv := by
  obtain ⟨h1, h2, _⟩ := Sparse.expand_transition a h idx hlt ar hex
  exact ⟨h1, h2⟩

/-! ## `defineArrayLength` -/

theorem store_setLength_refines (s : Store) (h : s.Inv) (l : Nat) :
    ((s.setLength l).1.abs, (s.setLength l).2) = s.abs.setLength l ∧ (s.setLength l).1.Inv := by
  cases s with
  | dense a =>
    refine ⟨dense_setLength_refines a h l, ?_⟩
    show (a.setLength l).1.Inv
    unfold Dense.setLength
    split
    · exact h
    · exact dense_setLengthInt_inv a h l
  | sparse a =>
    refine ⟨sparse_setLength_refines a h l, ?_⟩
    show (a.setLength l).1.Inv
    unfold Sparse.setLength
    split
    · exact h
    · exact sparse_setLengthInt_inv a h l

private theorem setLenW_abs (s : Store) (w : Bool) : (s.setLenW w).abs = { s.abs with lengthWritable := w } := by
  cases s <;> rfl

private theorem setLenW_inv (s : Store) (h : s.Inv) (w : Bool) : (s.setLenW w).Inv := by
  cases s with
  | dense a => exact ⟨h.lenValues, h.objCount, h.pvc⟩
  | sparse a => exact ⟨h.sorted, h.below, h.pvc⟩

private theorem store_lenW (s : Store) : s.lenW = s.abs.lengthWritable := by cases s <;> rfl
private theorem store_length (s : Store) : s.length = s.abs.length := by cases s <;> rfl

private theorem spec_setLength_lw (a : SpecArray) (l : Nat) : (a.setLength l).1.lengthWritable = a.lengthWritable := by
  unfold SpecArray.setLength SpecArray.truncate
  split
  · rfl
  · split <;> rfl

/-- `defineArrayLength` (array.go:386) with `setter = setLength` refines ArraySetLength with a full
descriptor (ECMA-262 10.4.2.4), for both storages, and preserves `Inv`. -/
theorem defineLength_refines (s : Store) (h : s.Inv) (d : LenDesc) :
    ((s.defineLength d).1.abs, (s.defineLength d).2) = s.abs.defineLength d ∧ (s.defineLength d).1.Inv := by
  unfold Store.defineLength SpecArray.defineLength
  by_cases hrej : (d.configurable == some true || d.enumerable == some true || d.hasAccessor) = true
  · rw [if_pos hrej, if_pos hrej]; exact ⟨rfl, h⟩
  · rw [if_neg hrej, if_neg hrej]
    have sl := store_setLength_refines s h
    cases hv : d.value with
    | none =>
      dsimp only
      cases hw : d.writable with
      | none => exact ⟨rfl, h⟩
      | some w =>
        dsimp only
        rw [store_lenW]
        cases hlw : s.abs.lengthWritable
        · simp only [Bool.false_eq_true, if_false]
          cases w
          · exact ⟨rfl, h⟩
          · exact ⟨rfl, h⟩
        · simp only [if_true]
          exact ⟨Prod.ext (setLenW_abs s w) rfl, setLenW_inv s h w⟩
    | some newLen =>
      dsimp only
      rw [store_length]
      have hr := (sl newLen).1
      have hri := (sl newLen).2
      have hsl := spec_setLength_lw s.abs newLen
      by_cases heq : s.abs.length = newLen
      · -- same length: no setter call
        have hne : (s.abs.length != newLen) = false := by simp [heq]
        have hge : newLen ≥ s.abs.length := by omega
        simp only [hne, Bool.false_eq_true, if_false, hge, if_true]
        cases hw : d.writable with
        | none =>
          dsimp only
          cases hlw : s.abs.lengthWritable
          · simp [heq]; exact h
          · simp only [if_true, Option.getD_none]
            exact ⟨Prod.ext (SpecArray.ext' rfl heq hlw rfl) rfl, h⟩
        | some w =>
          dsimp only
          rw [store_lenW]
          cases hlw : s.abs.lengthWritable
          · simp only [Bool.false_eq_true, if_false]
            cases w <;> simp [heq] <;> exact h
          · simp only [if_true, Option.getD_some]
            refine ⟨Prod.ext ?_ rfl, setLenW_inv s h w⟩
            rw [setLenW_abs]
            exact SpecArray.ext' rfl heq rfl rfl
      · have hne : (s.abs.length != newLen) = true := by simp [heq]
        simp only [hne, if_true]
        have hr1 : (s.setLength newLen).1.abs = (s.abs.setLength newLen).1 := congrArg Prod.fst hr
        have hr2 : (s.setLength newLen).2 = (s.abs.setLength newLen).2 := congrArg Prod.snd hr
        have hlw1 : (s.setLength newLen).1.lenW = s.abs.lengthWritable := by
          rw [store_lenW, hr1, hsl]
        cases hlw : s.abs.lengthWritable
        · -- not writable: the setter fails and nothing changes
          have hsp : s.abs.setLength newLen = (s.abs, false) := by
            simp [SpecArray.setLength, hlw]
          have e1 : (s.setLength newLen).1.abs = s.abs := by rw [hr1, hsp]
          have e2 : (s.setLength newLen).2 = false := by rw [hr2, hsp]
          by_cases hge : newLen ≥ s.abs.length
          · simp only [hge, if_true, Bool.false_eq_true, if_false]
            have hne' : (newLen == s.abs.length) = false := by
              simp; omega
            cases hw : d.writable with
            | none => dsimp only; exact ⟨Prod.ext (by simp [e1]) (by simp [e2, hne']), hri⟩
            | some w =>
              dsimp only
              rw [hlw1, hlw]
              simp only [Bool.false_eq_true, if_false]
              cases w
              · exact ⟨Prod.ext (by simp [e1]) (by simp [e2, hne']), hri⟩
              · exact ⟨Prod.ext (by simp [e1]) (by simp [hne']), hri⟩
          · simp only [hge, if_false, Bool.not_false, if_true]
            cases hw : d.writable with
            | none => dsimp only; exact ⟨Prod.ext e1 e2, hri⟩
            | some w =>
              dsimp only
              rw [hlw1, hlw]
              simp only [Bool.false_eq_true, if_false]
              cases w
              · exact ⟨Prod.ext e1 e2, hri⟩
              · exact ⟨Prod.ext e1 rfl, hri⟩
        · by_cases hge : newLen ≥ s.abs.length
          · have hsp : s.abs.setLength newLen = ({ s.abs with length := newLen }, true) := by
              simp [SpecArray.setLength, hlw, hge]
            have e1 : (s.setLength newLen).1.abs = { s.abs with length := newLen } := by rw [hr1, hsp]
            have e2 : (s.setLength newLen).2 = true := by rw [hr2, hsp]
            simp only [hge, if_true]
            cases hw : d.writable with
            | none =>
              dsimp only
              refine ⟨Prod.ext ?_ e2, hri⟩
              rw [e1]; exact SpecArray.ext' rfl rfl hlw rfl
            | some w =>
              dsimp only
              rw [hlw1, hlw]
              simp only [if_true, Option.getD_some]
              refine ⟨Prod.ext ?_ e2, setLenW_inv _ hri w⟩
              rw [setLenW_abs, e1]
          · have hsp : s.abs.setLength newLen = s.abs.truncate newLen := by
              simp [SpecArray.setLength, hlw, hge]
            rw [hsp] at hr1 hr2
            simp only [hge, if_false, Bool.not_true, Bool.false_eq_true]
            have htl : (s.abs.truncate newLen).1.lengthWritable = true := by
              rw [← hsp, hsl, hlw]
            cases hw : d.writable with
            | none =>
              dsimp only
              refine ⟨Prod.ext ?_ hr2, hri⟩
              rw [hr1]
              exact SpecArray.ext' rfl rfl htl rfl
            | some w =>
              dsimp only
              rw [hlw1, hlw]
              simp only [if_true, Option.getD_some]
              refine ⟨Prod.ext ?_ hr2, setLenW_inv _ hri w⟩
              rw [setLenW_abs, hr1]

/-! ## freeze -/

private theorem freeze_abs_elem (e : Elem) : e.freeze.abs = e.abs.freeze := by
  cases e with
  | plain v => rfl
  | prop p =>
    obtain ⟨pv, bw, be, bc, ba, pg, ps⟩ := p
    cases ba <;> rfl

private theorem counts_freeze (vs : List (Option Elem)) :
    countSome (vs.map (Option.map Elem.freeze)) = countSome vs ∧
    countProp (vs.map (Option.map Elem.freeze)) = countSome vs ∧
    countSome vs = countProp vs + countPlain vs := by
  induction vs with
  | nil => exact ⟨rfl, rfl, rfl⟩
  | cons o t ih =>
    obtain ⟨i1, i2, i3⟩ := ih
    simp only [countSome, countProp, countPlain, List.map_cons, List.countP_cons] at i1 i2 i3 ⊢
    cases o with
    | none =>
      simp only [Option.map_none, Option.isSome_none, isPropSlot, Bool.false_eq_true, if_false]
      omega
    | some e =>
      cases e <;>
        simp only [Option.map_some, Option.isSome_some, isPropSlot, Elem.freeze, Bool.false_eq_true, if_false, if_true] <;>
        omega

private theorem items_freeze (l : Items) (lo : Nat) (hs : SortedFrom lo l) :
    SortedFrom lo (l.map (fun p => (p.1, p.2.freeze))) ∧
    (∀ i, aGet (l.map (fun p => (p.1, p.2.freeze))) i = (aGet l i).map Elem.freeze) ∧
    countPropItems (l.map (fun p => (p.1, p.2.freeze))) = countPropItems l + l.countP (fun p => !p.2.isProp) := by
  induction l generalizing lo with
  | nil => exact ⟨trivial, fun _ => rfl, rfl⟩
  | cons q t ih =>
    obtain ⟨k, x⟩ := q
    obtain ⟨i1, i2, i3⟩ := ih (k + 1) hs.2
    refine ⟨⟨hs.1, i1⟩, ?_, ?_⟩
    · intro i
      simp only [List.map_cons, aGet]
      split
      · rfl
      · exact i2 i
    · simp only [countPropItems, List.map_cons, List.countP_cons] at i3 ⊢
      have f1 : ∀ v, (Elem.plain v).freeze.isProp = true := fun _ => rfl
      have f2 : ∀ v, (Elem.plain v).isProp = false := fun _ => rfl
      have f3 : ∀ q, (Elem.prop q).freeze.isProp = true := fun _ => rfl
      have f4 : ∀ q, (Elem.prop q).isProp = true := fun _ => rfl
      cases x <;>
        simp only [f1, f2, f3, f4, Bool.not_false, Bool.not_true, Bool.false_eq_true, if_false, if_true] <;>
        omega

/-- `Object.freeze` on an array (builtin_object.go:281, element by element) = SetIntegrityLevel
"frozen"; `Inv` is preserved (every former plain value is now counted in `propValueCount`). -/
theorem freeze_refines (s : Store) (h : s.Inv) : s.freeze.abs = s.abs.freeze ∧ s.freeze.Inv := by
  cases s with
  | dense a =>
    obtain ⟨c1, c2, c3⟩ := counts_freeze a.values
    constructor
    · refine SpecArray.ext' ?_ rfl rfl rfl
      funext i
      show (((a.values.map (Option.map Elem.freeze))[i]?).join).map Elem.abs = (((a.values[i]?).join).map Elem.abs).map SProp.freeze
      rw [List.getElem?_map]
      cases a.values[i]? with
      | none => rfl
      | some o =>
        cases o with
        | none => rfl
        | some e => simp [freeze_abs_elem]
    · refine ⟨?_, ?_, ?_⟩
      · show (a.values.map _).length ≤ a.length
        simpa using h.lenValues
      · show a.objCount = countSome (a.values.map _)
        rw [c1]; exact h.objCount
      · show countProp (a.values.map _) ≤ a.pvc + countPlain a.values
        rw [c2, c3]; have := h.pvc; omega
  | sparse a =>
    obtain ⟨i1, i2, i3⟩ := items_freeze a.items 0 h.sorted
    constructor
    · refine SpecArray.ext' ?_ rfl rfl rfl
      funext i
      show (aGet (a.items.map _) i).map Elem.abs = ((aGet a.items i).map Elem.abs).map SProp.freeze
      rw [i2]
      cases aGet a.items i with
      | none => rfl
      | some e => simp [freeze_abs_elem]
    · refine ⟨i1, ?_, ?_⟩
      · intro p hp
        obtain ⟨q, hq, rfl⟩ := List.mem_map.mp hp
        exact h.below q hq
      · show countPropItems (a.items.map _) ≤ a.pvc + _
        rw [i3]; have := h.pvc; omega

/-! ## Sort: sortedness and stability for every consistent comparator; totality under mutation -/

section SortSec
variable {α : Type}

/-- a consistent comparator in the sense of ECMA-262 23.1.3.30 induces a strict weak order:
`less` is asymmetric and its complement is transitive. -/
structure Consistent (less : α → α → Bool) : Prop where
  asymm : ∀ a b, less a b = true → less b a = false
  negTrans : ∀ a b c, less a b = false → less b c = false → less a c = false

/-- the processed prefix (kept reversed: head = latest position) is sorted: no earlier element is
`less`-greater than a later one. -/
def SortedRev (less : α → α → Bool) : List α → Prop
  | [] => True
  | y :: t => (∀ z ∈ t, less y z = false) ∧ SortedRev less t

private theorem insertRev_mem (less : α → α → Bool) (x : α) (l : List α) (z : α) :
    z ∈ insertRev less x l → z = x ∨ z ∈ l := by
  induction l with
  | nil => intro h; simp [insertRev] at h; exact Or.inl h
  | cons y t ih =>
    simp only [insertRev]
    split
    · intro h
      rcases List.mem_cons.mp h with rfl | h
      · exact Or.inr (by simp)
      · rcases ih h with h | h
        · exact Or.inl h
        · exact Or.inr (List.mem_cons_of_mem _ h)
    · intro h
      rcases List.mem_cons.mp h with rfl | h
      · exact Or.inl rfl
      · exact Or.inr h

private theorem insertRev_sorted (less : α → α → Bool) (hc : Consistent less) (x : α) (l : List α)
    (hs : SortedRev less l) : SortedRev less (insertRev less x l) := by
  induction l with
  | nil => exact ⟨fun _ h => (by cases h), trivial⟩
  | cons y t ih =>
    simp only [insertRev]
    cases hxy : less x y
    · -- x stays behind y: it is not less than y, hence (negative transitivity) not less than anything before y
      simp only [Bool.false_eq_true, if_false]
      refine ⟨?_, hs⟩
      intro z hz
      rcases List.mem_cons.mp hz with rfl | hz
      · exact hxy
      · exact hc.negTrans x y z hxy (hs.1 z hz)
    · simp only [if_true]
      refine ⟨?_, ih hs.2⟩
      intro z hz
      rcases insertRev_mem less x t z hz with rfl | hz
      · exact hc.asymm _ _ hxy
      · exact hs.1 z hz

private theorem isortRev_sorted (less : α → α → Bool) (hc : Consistent less) (acc l : List α)
    (hs : SortedRev less acc) : SortedRev less (isortRev less acc l) := by
  induction l generalizing acc with
  | nil => exact hs
  | cons x t ih => exact ih _ (insertRev_sorted less hc x acc hs)

private theorem sortedRev_pairwise (less : α → α → Bool) (l : List α) (h : SortedRev less l) :
    l.Pairwise (fun later earlier => less later earlier = false) := by
  induction l with
  | nil => exact List.Pairwise.nil
  | cons y t ih => exact List.Pairwise.cons h.1 (ih h.2)

/-- the insertion phase of `sort.Stable` yields a sorted list for every consistent comparator:
no element is `less` than one placed before it. -/
theorem sort_sorted (less : α → α → Bool) (hc : Consistent less) (l : List α) :
    (isort less l).Pairwise (fun earlier later => less later earlier = false) := by
  unfold isort
  rw [List.pairwise_reverse]
  exact sortedRev_pairwise less _ (isortRev_sorted less hc [] l trivial)

private theorem insertRev_filter (less : α → α → Bool) (p : α → Bool)
    (hp : ∀ a b, p a = true → p b = true → less a b = false) (x : α) (l : List α) :
    (insertRev less x l).filter p = if p x then x :: l.filter p else l.filter p := by
  induction l with
  | nil => simp only [insertRev, List.filter]; split <;> simp_all
  | cons y t ih =>
    simp only [insertRev]
    cases hxy : less x y
    · simp only [Bool.false_eq_true, if_false, List.filter_cons]
    · simp only [if_true, List.filter_cons, ih]
      cases hpx : p x
      · simp
      · -- x passes y, so y is not in the class of x
        have hpy : p y = false := by
          cases hpy : p y
          · rfl
          · have := hp x y hpx hpy; rw [this] at hxy; cases hxy
        simp [hpy]

private theorem isortRev_filter (less : α → α → Bool) (p : α → Bool)
    (hp : ∀ a b, p a = true → p b = true → less a b = false) (acc l : List α) :
    (isortRev less acc l).filter p = (l.filter p).reverse ++ acc.filter p := by
  induction l generalizing acc with
  | nil => simp [isortRev]
  | cons x t ih =>
    simp only [isortRev, ih, insertRev_filter less p hp, List.filter_cons]
    cases p x <;> simp

/-- stability for every consistent comparator: the elements of any class of mutually
non-`less` elements (e.g. all elements comparing equal to some `c`) keep their input order. -/
theorem sort_stable (less : α → α → Bool) (p : α → Bool)
    (hp : ∀ a b, p a = true → p b = true → less a b = false) (l : List α) :
    (isort less l).filter p = l.filter p := by
  unfold isort
  rw [List.filter_reverse, isortRev_filter less p hp]
  simp

/-- the classes of a consistent comparator qualify: "equivalent to `c`" is such a `p`. -/
theorem equivClass_ok (less : α → α → Bool) (hc : Consistent less) (c : α) (a b : α)
    (ha : (!less a c && !less c a) = true) (hb : (!less b c && !less c b) = true) : less a b = false := by
  simp only [Bool.and_eq_true, Bool.not_eq_true'] at ha hb
  exact hc.negTrans a c b ha.1 hb.2

/-- the spec's SortCompare (`specLess`) built from a consistent comparator function is consistent
in the above sense on defined values — so `sort_sorted`/`sort_stable` apply to it; goja's `mechLess`
differs from it exactly when the comparator answers −0 (known finding). -/
theorem mechLess_eq_specLess_of_no_negzero (cmp : Val → Val → CmpRes) (h : ∀ a b, cmp a b ≠ .negZero)
    (x y : SortVal) : mechLess cmp x y = specLess cmp x y := by
  cases x with
  | none => rfl
  | some a =>
    cases y with
    | none => rfl
    | some b =>
      cases a with
      | zero => rfl
      | succ a =>
        cases b with
        | zero => rfl
        | succ b =>
          simp only [mechLess, specLess]
          cases hcmp : cmp (a + 1) (b + 1) <;> simp_all

variable {σ : Type}

private theorem insertRevM_perm (cmp : σ → α → α → Bool × σ) (x : α) (l : List α) (s : σ) :
    (insertRevM cmp x l s).1.Perm (x :: l) := by
  induction l generalizing s with
  | nil => exact List.Perm.refl _
  | cons y t ih =>
    simp only [insertRevM]
    split
    · exact (List.Perm.cons y (ih _)).trans (List.Perm.swap x y t)
    · exact List.Perm.refl _

private theorem isortRevM_perm (cmp : σ → α → α → Bool × σ) (acc l : List α) (s : σ) :
    (isortRevM cmp acc l s).1.Perm (l ++ acc) := by
  induction l generalizing acc s with
  | nil => exact List.Perm.refl _
  | cons x t ih =>
    simp only [isortRevM]
    refine (ih _ _).trans ?_
    refine (List.Perm.append_left t (insertRevM_perm cmp x acc s)).trans ?_
    exact List.perm_middle

/-- totality under mutation: whatever the comparator does to the receiver (state `σ`) at every
call, the sort runs to completion on its private copy and returns a permutation of the snapshot —
in particular a list of the same length, so every index used by the write-back loop is in range. -/
theorem sort_total_under_mutation (cmp : σ → α → α → Bool × σ) (l : List α) (s : σ) :
    (isortM cmp l s).1.Perm l ∧ (isortM cmp l s).1.length = l.length := by
  have hp : (isortM cmp l s).1.Perm l := by
    unfold isortM
    refine (List.reverse_perm _).trans ?_
    simpa using isortRevM_perm cmp [] l s
  exact ⟨hp, hp.length_eq⟩

end SortSec

end GojaModel.C07
