/-
  C07 property theorems, part 8: the Go slice wrapper's window is a plain list — growth within
  capacity never exposes stale values of the backing array (the red team's m4 is refuted by a witness).
-/
import GojaModel.C07.GoSlice

namespace GojaModel.C07

private theorem clearRange_length (b : List (Option Val)) (f n : Nat) : (clearRange b f n).length = b.length := by
  induction n generalizing b f with
  | zero => rfl
  | succ n ih => simp only [clearRange]; rw [ih]; simp

private theorem clearRange_get (b : List (Option Val)) (f n : Nat) (hb : f + n ≤ b.length) (i : Nat) :
    (clearRange b f n)[i]? = if f ≤ i ∧ i < f + n then some none else b[i]? := by
  induction n generalizing b f with
  | zero =>
    have : ¬ (f ≤ i ∧ i < f + 0) := by omega
    simp only [clearRange]; rw [if_neg this]
  | succ n ih =>
    simp only [clearRange]
    rw [ih (b.set f none) (f + 1) (by simp; omega)]
    by_cases h1 : f + 1 ≤ i ∧ i < f + 1 + n
    · have h2 : f ≤ i ∧ i < f + (n + 1) := by omega
      simp only [h1, h2, and_self, if_true]
    · simp only [h1, if_false]
      by_cases h3 : i = f
      · subst h3
        have h2 : i ≤ i ∧ i < i + (n + 1) := by omega
        have : i < b.length := by omega
        simp [h2, List.getElem?_set, this]
      · have h2 : ¬ (f ≤ i ∧ i < f + (n + 1)) := by omega
        have hne : ¬ f = i := fun e => h3 e.symm
        simp only [h2, if_false, List.getElem?_set, hne]

/-- `grow`: the window becomes the old window followed by nils — whatever the spare capacity held. -/
theorem grow_view (g : GoSlice) (h : g.WF) (size : Nat) (hs : g.len < size) :
    (g.grow size).view = listGrow g.view size ∧ (g.grow size).WF := by
  have hvl : g.view.length = g.len := by
    have : g.len ≤ g.backing.length := h
    simp [GoSlice.view]; omega
  unfold GoSlice.grow
  by_cases hc : g.backing.length < size
  · simp only [hc, if_true]
    constructor
    · show (g.view ++ List.replicate (max size (growCap size g.len g.backing.length) - g.len) none).take size = listGrow g.view size
      unfold listGrow
      rw [hvl]
      apply List.ext_getElem?
      intro i
      by_cases hi : i < size
      · rw [List.getElem?_take_of_lt hi]
        by_cases hi2 : i < g.len
        · rw [List.getElem?_append_left (by omega), List.getElem?_append_left (by omega)]
        · rw [List.getElem?_append_right (by omega), List.getElem?_append_right (by omega), hvl]
          have : i - g.len < max size (growCap size g.len g.backing.length) - g.len := by omega
          have h2 : i - g.len < size - g.len := by omega
          simp [List.getElem?_replicate, this, h2]
      · rw [List.getElem?_eq_none (by simp; omega), List.getElem?_eq_none (by simp [hvl]; omega)]
    · show size ≤ (g.view ++ List.replicate _ none).length
      simp [hvl]; omega
  · simp only [hc, if_false]
    have hcl := clearRange_length g.backing g.len (size - g.len)
    constructor
    · show (clearRange g.backing g.len (size - g.len)).take size = listGrow g.view size
      unfold listGrow GoSlice.view
      apply List.ext_getElem?
      intro i
      have hvl' : (g.backing.take g.len).length = g.len := hvl
      by_cases hi : i < size
      · rw [List.getElem?_take_of_lt hi, clearRange_get _ _ _ (by omega)]
        by_cases hi2 : i < g.len
        · have : ¬ (g.len ≤ i ∧ i < g.len + (size - g.len)) := by omega
          rw [if_neg this, List.getElem?_append_left (by omega), List.getElem?_take_of_lt hi2]
        · have : g.len ≤ i ∧ i < g.len + (size - g.len) := by omega
          rw [if_pos this, List.getElem?_append_right (by omega), hvl']
          have h2 : i - g.len < size - g.len := by omega
          simp [List.getElem?_replicate, h2]
      · rw [List.getElem?_eq_none (by simp; omega), List.getElem?_eq_none (by simp [hvl']; omega)]
    · show size ≤ (clearRange g.backing g.len (size - g.len)).length
      rw [hcl]; omega

/-- `shrink`: the window is the prefix (and the dropped tail is cleared, which only matters for the GC). -/
theorem shrink_view (g : GoSlice) (h : g.WF) (size : Nat) (hs : size ≤ g.len) :
    (g.shrink size).view = g.view.take size ∧ (g.shrink size).WF := by
  have hcl := clearRange_length g.backing size (g.len - size)
  constructor
  · show (clearRange g.backing size (g.len - size)).take size = (g.backing.take g.len).take size
    apply List.ext_getElem?
    intro i
    by_cases hi : i < size
    · rw [List.getElem?_take_of_lt hi, List.getElem?_take_of_lt hi, List.getElem?_take_of_lt (by omega),
        clearRange_get _ _ _ (by have : g.len ≤ g.backing.length := h; omega)]
      have : ¬ (size ≤ i ∧ i < size + (g.len - size)) := by omega
      rw [if_neg this]
    · rw [List.getElem?_eq_none (by simp; omega), List.getElem?_eq_none (by simp; omega)]
  · show size ≤ (clearRange g.backing size (g.len - size)).length
    rw [hcl]; have : g.len ≤ g.backing.length := h; omega

/-- `s.length = n` from script. -/
theorem putLength_view (g : GoSlice) (h : g.WF) (n : Nat) :
    (g.putLength n).view = listSetLength g.view n ∧ (g.putLength n).WF := by
  have hvl : g.view.length = g.len := by
    have : g.len ≤ g.backing.length := h
    simp [GoSlice.view]; omega
  unfold GoSlice.putLength listSetLength
  rw [hvl]
  by_cases h1 : n > g.len
  · simp only [h1, if_true]; exact grow_view g h n h1
  · simp only [h1, if_false]
    by_cases h2 : n < g.len
    · simp only [h2, if_true]; exact shrink_view g h n (by omega)
    · simp only [h2, if_false]
      have : n = g.len := by omega
      refine ⟨?_, h⟩
      rw [this, ← hvl, List.take_length]

/-- `s[idx] = v` from script (any index: in place, at `len+k` within capacity, beyond capacity). -/
theorem putIdx_view (g : GoSlice) (h : g.WF) (idx : Nat) (v : Option Val) :
    (g.putIdx idx v).view = listPut g.view idx v ∧ (g.putIdx idx v).WF := by
  have hvl : g.view.length = g.len := by
    have : g.len ≤ g.backing.length := h
    simp [GoSlice.view]; omega
  unfold GoSlice.putIdx listPut
  rw [hvl]
  by_cases h1 : idx ≥ g.len
  · simp only [h1, if_true]
    obtain ⟨gv, gw⟩ := grow_view g h (idx + 1) (by omega)
    constructor
    · show ((g.grow (idx + 1)).backing.set idx v).take (g.grow (idx + 1)).len = (listGrow g.view (idx + 1)).set idx v
      rw [← gv]
      unfold GoSlice.view
      rw [List.take_set]
    · show (g.grow (idx + 1)).len ≤ ((g.grow (idx + 1)).backing.set idx v).length
      simp; exact gw
  · simp only [h1, if_false]
    constructor
    · show (g.backing.set idx v).take g.len = (g.backing.take g.len).set idx v
      rw [List.take_set]
    · show g.len ≤ (g.backing.set idx v).length
      simp; exact h

/-- the red team's m4 (reslice before clearing) violates `grow_view`: a stale value of the spare
capacity becomes visible. -/
theorem growM4_exposes_stale_witness :
    let g : GoSlice := { backing := [some 1, some 7, some 8, some 9], len := 1 }
    g.WF ∧ (g.growM4 4).view ≠ listGrow g.view 4 ∧ (g.grow 4).view = listGrow g.view 4 := by
  refine ⟨by show (1 : Nat) ≤ 4; omega, by decide, by decide⟩

end GojaModel.C07
