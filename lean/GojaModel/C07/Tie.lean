/-
  C07 tie: the thresholds regenerated from /repo's current source (extract/c07.go →
  Generated/C07_Thresholds.lean) are the ones the model (`thr`) uses.
-/
import GojaModel.C07.Model
import GojaModel.Generated.C07_Thresholds

namespace GojaModel.C07

theorem thresholds_tie : GojaModel.Generated.C07.thresholds = thr := by decide

/-- the literal lists themselves (positions the extractor relies on). -/
theorem raw_literals_tie : GojaModel.Generated.C07.rawLiterals =
    [("arrayObject.expand", [1, 4096, 0, 10, 1, 32]), ("sparseArrayObject.expand", [1024, 1, 64, 3]),
     ("arrayObject._setLengthInt", [0, 1, 1, 16, 2]), ("growCap", [1024, 0, 4, 0])] := by decide

/-- the guard of `checkStdArrayObj` is the conjunction that `Dense.stdGuard` models. -/
theorem stdGuard_tie : GojaModel.Generated.C07.stdGuardCond =
    "ok && arr.propValueCount == 0 && arr.length == uint32(len(arr.values)) && uint32(arr.objCount) == arr.length" := by decide

/-- per method: the condition under which the no-holes fast path is taken — `checkStdArrayObj`
accepted the receiver and (for the methods that run argument coercions between reading `length` and
choosing the path) `len(values)` still equals the length read before. These are exactly the
hypotheses (`stdGuard`, `hL`) of the `*_fast_eq_generic` theorems in PropsMethods; for splice additionally: extensible,
writable length, and — when the array grows — a prototype chain free of indexed properties (82d13be). -/
theorem fastPathGuards_tie : GojaModel.Generated.C07.fastPathGuards =
    [("arrayproto_indexOf", "arr != nil && int64(len(arr.values)) == length"),
     ("arrayproto_includes", "arr != nil && int64(len(arr.values)) == length"),
     ("arrayproto_lastIndexOf", "arr != nil && int64(len(arr.values)) == length"),
     ("arrayproto_fill", "arr != nil && int64(len(arr.values)) == l"),
     ("arrayproto_copyWithin", "arr != nil && int64(len(arr.values)) == l"),
     ("arrayproto_with", "src != nil && int64(len(src.values)) == length"),
     ("arrayproto_toSpliced", "src != nil && int64(len(src.values)) == length"),
     ("arrayproto_toReversed", "src != nil"),
     ("arrayproto_splice", "src != nil && int64(len(src.values)) == length && src.extensible && src.lengthProp.writable && (itemCount <= actualDeleteCount || r.checkStdArrayObjWithProto(o) != nil)"),
     ("arrayproto_reverse", "a != nil")] := by rfl

end GojaModel.C07
