/-
  C07 tie: the thresholds regenerated from /repo's current source (extract/c07.go →
  Generated/C07_Thresholds.lean) are the ones the model (`thr`) uses.
-/
import GojaModel.C07.Model
import GojaModel.Generated.C07_Thresholds

namespace GojaModel.C07

theorem thresholds_tie : GojaModel.Generated.C07.thresholds = thr := by decide

/-- the literal lists themselves (positions the extractor relies on). -/
theorem raw_literals_tie : GojaModel.Generated.C07.rawLiterals =
    [("arrayObject.expand", [1, 4096, 0, 10, 1, 32]), ("sparseArrayObject.expand", [1024, 1, 64, 3]),
     ("arrayObject._setLengthInt", [0, 1, 1, 16, 2]), ("growCap", [1024, 0, 4, 0])] := by decide

end GojaModel.C07
