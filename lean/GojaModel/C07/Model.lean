/-
  C07 — arrays are spec arrays whatever the storage.   Executable model (core Lean only).

  Two levels:
  * spec level  : the ECMA-262 Array exotic object over an index → property map (`SpecArray`,
                  `ArraySetLength`, `[[DefineOwnProperty]]`, `[[Set]]`, `[[Delete]]`, freeze);
  * mechanism   : goja's two storage strategies, function by function
                  dense  = /repo/array.go        (`arrayObject`:  values, length, objCount, propValueCount, lengthProp.writable)
                  sparse = /repo/array_sparse.go (`sparseArrayObject`: items sorted by idx, length, propValueCount)
                  with the strategy switches `expand` in both directions and the real thresholds.
  Values are opaque identities (`Val = Nat`): the mechanism only moves them around (parametricity).
  `_defineOwnProperty` (object.go:650, property C04) is a *parameter* of the array model
  (`MechDefine`); a transcription of it (`mechDefine`) instantiates the parameter in the driver.
-/
namespace GojaModel.C07

abbrev Val := Nat

/-- goja `valueProperty` (object.go): a descriptor-carrying element. -/
structure VProp where
  value : Val
  writable : Bool
  enumerable : Bool
  configurable : Bool
  accessor : Bool
  getter : Option Val
  setter : Option Val
deriving DecidableEq, Repr, Inhabited

/-- an element slot of an array: a plain value (implicitly writable/enumerable/configurable) or a
`*valueProperty`. -/
inductive Elem where
  | plain (v : Val)
  | prop (p : VProp)
deriving DecidableEq, Repr, Inhabited

/-- spec-level property (ECMA-262 6.1.7.1): data or accessor. -/
inductive SProp where
  | data (v : Val) (w e c : Bool)
  | acc (g s : Option Val) (e c : Bool)
deriving DecidableEq, Repr, Inhabited

def SProp.configurable : SProp → Bool
  | .data _ _ _ c => c
  | .acc _ _ _ c => c

def SProp.enumerable : SProp → Bool
  | .data _ _ e _ => e
  | .acc _ _ e _ => e

def Elem.abs : Elem → SProp
  | .plain v => .data v true true true
  | .prop p => if p.accessor then .acc p.getter p.setter p.enumerable p.configurable
               else .data p.value p.writable p.enumerable p.configurable

def Elem.isProp : Elem → Bool
  | .plain _ => false
  | .prop _ => true

def Elem.configurable : Elem → Bool
  | .plain _ => true
  | .prop p => p.configurable

/-- partial property descriptor (`PropertyDescriptor`, tri-state flags). `getter`/`setter`:
`none` = field absent, `some none` = present and `undefined`, `some (some f)` = function `f`. -/
structure Desc where
  value : Option Val := none
  writable : Option Bool := none
  enumerable : Option Bool := none
  configurable : Option Bool := none
  getter : Option (Option Val) := none
  setter : Option (Option Val) := none
deriving DecidableEq, Repr, Inhabited

/-! ## Thresholds (regenerated from the Go source and compared in `Tie.lean`) -/

structure Thresholds where
  denseMinIdx : Nat      -- array.go expand: `idx > 4096`
  denseRatio : Nat       -- array.go expand: `idx/objCount > 10`
  sparseMinItems : Nat   -- array_sparse.go expand: `len(items) >= 1024`
  sparseShift : Nat      -- array_sparse.go expand: `idx>>3 < len(items)`
  shrinkMinLen : Nat     -- array.go _setLengthInt: `l >= 16`
  shrinkCapShift : Nat   -- array.go _setLengthInt: `l < cap>>2`
  growSmall : Nat        -- runtime.go growCap: `oldSize < 1024`
  growDiv : Nat          -- runtime.go growCap: `cap += cap/4`
  maxIdx : Nat           -- array.go toIdx: indices are `< math.MaxUint32`
deriving DecidableEq, Repr

def thr : Thresholds :=
  { denseMinIdx := 4096, denseRatio := 10, sparseMinItems := 1024, sparseShift := 3,
    shrinkMinLen := 16, shrinkCapShift := 2, growSmall := 1024, growDiv := 4, maxIdx := 4294967295 }

/-! ## Spec level -/

structure SpecArray where
  get : Nat → Option SProp
  length : Nat
  lengthWritable : Bool
  extensible : Bool

/-- ArraySetLength step 17 (ECMA-262 10.4.2.4): "for each own property key P of A that is an array
index ≥ newLen, in descending numeric order: delete; if the delete fails, stop with length P+1".
`cutoff get l d` walks the indices `l+d-1, …, l` downwards and returns the final length. -/
def cutoff (get : Nat → Option SProp) (l : Nat) : Nat → Nat
  | 0 => l
  | d + 1 =>
    match get (l + d) with
    | some p => if p.configurable then cutoff get l d else l + d + 1
    | none => cutoff get l d

/-- the deletion part of ArraySetLength (oldLen ≥ newLen, length writable): returns the array and
whether every delete succeeded. -/
def SpecArray.truncate (a : SpecArray) (newLen : Nat) : SpecArray × Bool :=
  let c := cutoff a.get newLen (a.length - newLen)
  ({ a with get := fun i => if i < c then a.get i else none, length := c }, c == newLen)

/-- `[[Set]]` of "length" with an already converted uint32 (OrdinarySet 10.1.9.2: a non-writable
data property rejects whatever the value; otherwise ArraySetLength with `{[[Value]]: l}`). -/
def SpecArray.setLength (a : SpecArray) (l : Nat) : SpecArray × Bool :=
  if !a.lengthWritable then (a, false)           -- OrdinarySet: non-writable data property
  else if l ≥ a.length then ({ a with length := l }, true)
  else a.truncate l

/-- descriptor for `Object.defineProperty(a, "length", …)` after ToPropertyDescriptor and the
ToUint32/ToNumber RangeError test (C05's concern). -/
structure LenDesc where
  value : Option Nat := none
  writable : Option Bool := none
  enumerable : Option Bool := none
  configurable : Option Bool := none
  hasAccessor : Bool := false
deriving DecidableEq, Repr, Inhabited

/-- ArraySetLength (10.4.2.4) with a full descriptor. "length" is `{value, writable, enumerable:false,
configurable:false}`. -/
def SpecArray.defineLength (a : SpecArray) (d : LenDesc) : SpecArray × Bool :=
  -- generic validation against a non-configurable, non-enumerable data property
  if d.configurable == some true || d.enumerable == some true || d.hasAccessor then (a, false)
  else
    match d.value with
    | none =>
      -- step 1: OrdinaryDefineOwnProperty(A, "length", Desc)
      match d.writable with
      | none => (a, true)
      | some w => if a.lengthWritable then ({ a with lengthWritable := w }, true)
                  else (a, !w)
    | some newLen =>
      if newLen ≥ a.length then
        -- step 11: OrdinaryDefineOwnProperty with the new value
        if a.lengthWritable then
          ({ a with length := newLen, lengthWritable := d.writable.getD true }, true)
        else (a, newLen == a.length && d.writable != some true)
      else if !a.lengthWritable then (a, false)     -- step 12
      else
        let r := a.truncate newLen
        -- steps 13–18: writable:false is applied after the deletions, also when a deletion failed
        ({ r.1 with lengthWritable := d.writable.getD true }, r.2)

/-- OrdinaryDefineOwnProperty on an element = ValidateAndApplyPropertyDescriptor (10.1.6.3):
`none` = rejected. Parameter of the spec array (C04's subject). -/
abbrev SpecDefine := Option SProp → Desc → Bool → Option SProp
/-- goja `_defineOwnProperty(name, existing, descr)` (object.go:650) restricted to what the array
code sees: `none` = rejected, `some e` = the new element slot. -/
abbrev MechDefine := Option Elem → Desc → Bool → Option Elem

/-- Array `[[DefineOwnProperty]]` for an array index (10.4.2.1 step 2). -/
def SpecArray.defineIdx (sd : SpecDefine) (a : SpecArray) (idx : Nat) (d : Desc) : SpecArray × Bool :=
  if idx ≥ a.length && !a.lengthWritable then (a, false)
  else
    match sd (a.get idx) d a.extensible with
    | none => (a, false)
    | some p =>
      ({ a with get := fun i => if i = idx then some p else a.get i,
                length := if idx ≥ a.length then idx + 1 else a.length }, true)

/-- `[[Set]](idx, v, receiver = A)` (OrdinarySet 10.1.9). `protoAns` summarises the prototype chain:
`some r` = an inherited accessor / non-writable data property decided the outcome `r` without
touching A; `none` = nothing inherited or an inherited writable data property (CreateDataProperty
on the receiver). -/
def SpecArray.set (sd : SpecDefine) (a : SpecArray) (idx : Nat) (v : Val) (protoAns : Option Bool) :
    SpecArray × Bool :=
  match a.get idx with
  | none =>
    match protoAns with
    | some r => (a, r)
    | none => a.defineIdx sd idx { value := some v, writable := some true, enumerable := some true, configurable := some true }
  | some (.data _ w e c) =>
    if !w then (a, false)
    else ({ a with get := fun i => if i = idx then some (.data v w e c) else a.get i }, true)
  | some (.acc _ s _ _) => (a, s.isSome)

/-- `[[Delete]]` (OrdinaryDelete 10.1.10). -/
def SpecArray.delete (a : SpecArray) (idx : Nat) : SpecArray × Bool :=
  match a.get idx with
  | none => (a, true)
  | some p =>
    if p.configurable then ({ a with get := fun i => if i = idx then none else a.get i }, true)
    else (a, false)

def SProp.freeze : SProp → SProp
  | .data v _ e _ => .data v false e false
  | .acc g s e _ => .acc g s e false

/-- SetIntegrityLevel(A, frozen) (7.3.15). -/
def SpecArray.freeze (a : SpecArray) : SpecArray :=
  { get := fun i => (a.get i).map SProp.freeze, length := a.length, lengthWritable := false, extensible := false }

def SpecArray.preventExtensions (a : SpecArray) : SpecArray := { a with extensible := false }

/-! ## Mechanism level: shared helpers over the sparse representation

`items` is a list of `(idx, element)` sorted by `idx`.  goja finds positions with a binary search
(`findIdx` = first position whose idx is ≥ the key); on a sorted list this is the linear "first
position with idx ≥ key" used below (sortedness is part of `Inv`). -/

abbrev Items := List (Nat × Elem)

/-- `_getIdx` (array_sparse.go:88): `i := findIdx(idx); i < len && items[i].idx == idx`. -/
def sFind : Items → Nat → Option Elem
  | [], _ => none
  | (k, x) :: t, idx => if k < idx then sFind t idx else if k = idx then some x else none

/-- `add` (array_sparse.go:142): insert at position `findIdx(idx)`. -/
def sIns : Items → Nat → Elem → Items
  | [], idx, e => [(idx, e)]
  | (k, x) :: t, idx, e => if k < idx then (k, x) :: sIns t idx e else (idx, e) :: (k, x) :: t

/-- `items[findIdx(idx)].value = e` (caller has checked that the key is present). -/
def sSetAt : Items → Nat → Elem → Items
  | [], _, _ => []
  | (k, x) :: t, idx, e => if k < idx then (k, x) :: sSetAt t idx e else (k, e) :: t

/-- remove `items[findIdx(idx)]` (array_sparse.go:409). -/
def sDel : Items → Nat → Items
  | [], _ => []
  | (k, x) :: t, idx => if k < idx then (k, x) :: sDel t idx else t

/-- `items[:findIdx(l)]` (array_sparse.go:55–61). -/
def sTake : Items → Nat → Items
  | [], _ => []
  | (k, x) :: t, l => if k < l then (k, x) :: sTake t l else []

/-- result of the "slow path" scan of `_setLengthInt`: final length, success flag, new propValueCount. -/
structure Scan where
  len : Nat
  ok : Bool
  pvc : Nat
deriving DecidableEq, Repr

/-- array_sparse.go:38–51: `for i := len(items)-1; i >= 0; i--` with `break` at `idx < l` and at the
first non-configurable `*valueProperty`.  Written as a right fold: the tail (higher indices) is
processed first; once the loop has stopped (`ok = false`) nothing below is visited. -/
def sScan (l : Nat) : Items → Nat → Scan
  | [], pvc => ⟨l, true, pvc⟩
  | (k, e) :: t, pvc =>
    let r := sScan l t pvc
    if !r.ok then r
    else if k < l then r
    else match e with
      | .prop p => if !p.configurable then ⟨k + 1, false, r.pvc⟩ else ⟨r.len, true, r.pvc - 1⟩
      | .plain _ => r

/-- dense `values` as an index-tagged list of the non-nil slots (`setValues`, array_sparse.go:275). -/
def enumSome : Nat → List (Option Elem) → Items
  | _, [] => []
  | i, none :: t => enumSome (i + 1) t
  | i, some e :: t => (i, e) :: enumSome (i + 1) t

/-- array.go:86–95: `for i := len(values)-1; i >= int(l); i--` (same right-fold reading). -/
def dScan (l : Nat) : Nat → List (Option Elem) → Nat → Scan
  | _, [], pvc => ⟨l, true, pvc⟩
  | i, e :: t, pvc =>
    let r := dScan l (i + 1) t pvc
    if !r.ok then r
    else if i < l then r
    else match e with
      | some (.prop p) => if !p.configurable then ⟨i + 1, false, r.pvc⟩ else ⟨r.len, true, r.pvc - 1⟩
      | _ => r

def countSome (l : List (Option Elem)) : Nat := l.countP Option.isSome

def isPropSlot : Option Elem → Bool
  | some (.prop _) => true
  | _ => false

def countProp (l : List (Option Elem)) : Nat := l.countP isPropSlot

def countPropItems (l : Items) : Nat := l.countP (fun p => p.2.isProp)

/-! ## Dense storage (array.go) -/

structure Dense where
  values : List (Option Elem)
  cap : Nat
  length : Nat
  objCount : Nat
  pvc : Nat
  lenW : Bool
  ext : Bool
deriving DecidableEq, Repr

structure Sparse where
  items : Items
  length : Nat
  pvc : Nat
  lenW : Bool
  ext : Bool
deriving DecidableEq, Repr

inductive Store where
  | dense (d : Dense)
  | sparse (s : Sparse)
deriving DecidableEq, Repr

def Dense.slot (a : Dense) (idx : Nat) : Option Elem := (a.values[idx]?).join

/-- array.go:82–97: the slow-path scan, taken only when shrinking and `propValueCount > 0`. -/
def Dense.scan (a : Dense) (l : Nat) : Scan :=
  if l ≤ a.length ∧ a.pvc > 0 then dScan l 0 a.values a.pvc else ⟨l, true, a.pvc⟩

/-- array.go:98–120: slice `values`, fix `objCount`, store the length. -/
def Dense.applyScan (a : Dense) (r : Scan) : Dense × Bool :=
  if r.len ≤ a.values.length then
    ({ a with values := a.values.take r.len,
              cap := if r.len ≥ thr.shrinkMinLen ∧ r.len < a.cap / 2 ^ thr.shrinkCapShift then r.len else a.cap,
              objCount := a.objCount - countSome (a.values.drop r.len),
              pvc := r.pvc, length := r.len }, r.ok)
  else ({ a with pvc := r.pvc, length := r.len }, r.ok)

/-- array.go:81 `_setLengthInt`. -/
def Dense.setLengthInt_ (a : Dense) (l : Nat) : Dense × Bool := a.applyScan (a.scan l)

/-- array.go:123 `setLengthInt`. -/
def Dense.setLengthInt (a : Dense) (l : Nat) : Dense × Bool :=
  if l = a.length then (a, true)
  else if !a.lenW then (a, false)
  else a.setLengthInt_ l

/-- array.go:134 `setLength`. -/
def Dense.setLength (a : Dense) (l : Nat) : Dense × Bool :=
  if !a.lenW then (a, false) else a.setLengthInt_ l

/-- runtime.go:2906 `growCap`; the `for` loop is bounded by fuel (cap grows by ≥ 25 % per step). -/
def growLoop (newSize : Nat) : Nat → Nat → Nat
  | 0, cap => cap
  | fuel + 1, cap => if 0 < cap ∧ cap < newSize then growLoop newSize fuel (cap + cap / thr.growDiv) else cap

def growCap (newSize oldSize oldCap : Nat) : Nat :=
  let doublecap := oldCap + oldCap
  if newSize > doublecap then newSize
  else if oldSize < thr.growSmall then doublecap
  else growLoop newSize 64 oldCap

def Dense.toSparse (a : Dense) : Sparse :=
  { items := enumSome 0 a.values, length := a.length, pvc := a.pvc, lenW := a.lenW, ext := a.ext }

/-- the strategy decision of array.go:358. -/
def Dense.wantsSparse (a : Dense) (idx : Nat) : Bool :=
  idx > thr.denseMinIdx && (a.objCount == 0 || idx / a.objCount > thr.denseRatio)

/-- array.go:352 `expand`: `none` = switched to sparse storage (the caller continues on
`a.toSparse`), `some a'` = still dense with `len(values) > idx`. -/
def Dense.expand (a : Dense) (idx : Nat) : Option Dense :=
  let targetLen := idx + 1
  if targetLen > a.values.length then
    if targetLen < a.cap then
      some { a with values := a.values ++ List.replicate (targetLen - a.values.length) none }
    else if a.wantsSparse idx then none
    else some { a with values := a.values ++ List.replicate (targetLen - a.values.length) none,
                       cap := growCap targetLen a.values.length a.cap }
  else some a

/-- value.go:509 `isWritable`: `p.writable || p.setterFunc != nil` (NB: for an accessor without a
setter this consults the `writable` flag left over from before the element became an accessor). -/
def VProp.isWritable (p : VProp) : Bool := p.writable || p.setter.isSome
/-- value.go:526 `valueProperty.set`: without a setter the value is stored, otherwise the setter runs. -/
def VProp.setValue (p : VProp) (v : Val) : VProp := if p.setter.isSome then p else { p with value := v }

def Sparse.add (s : Sparse) (idx : Nat) (e : Elem) : Sparse := { s with items := sIns s.items idx e }

/-- array.go:219 `_setOwnIdx`. -/
def Dense.setOwnIdx (a : Dense) (idx : Nat) (v : Val) (protoAns : Option Bool) : Store × Bool :=
  match a.slot idx with
  | none =>
    match protoAns with
    | some r => (.dense a, r)
    | none =>
      if !a.ext then (.dense a, false)
      else
        let r := if idx ≥ a.length then a.setLengthInt (idx + 1) else (a, true)
        if !r.2 then (.dense r.1, false)
        else
          let a1 := r.1
          match (if idx ≥ a1.values.length then a1.expand idx else some a1) with
          | none => (.sparse (a1.toSparse.add idx (.plain v)), true)
          | some a2 => (.dense { a2 with objCount := a2.objCount + 1, values := a2.values.set idx (some (.plain v)) }, true)
  | some (.prop p) =>
    if !p.isWritable then (.dense a, false)
    else (.dense { a with values := a.values.set idx (some (.prop (p.setValue v))) }, true)
  | some (.plain _) => (.dense { a with values := a.values.set idx (some (.plain v)) }, true)

/-- array.go:427 `_defineIdxProperty`. -/
def Dense.defineIdx (md : MechDefine) (a : Dense) (idx : Nat) (d : Desc) : Store × Bool :=
  let existing := a.slot idx
  match md existing d a.ext with
  | none => (.dense a, false)
  | some prop =>
    let r := if idx ≥ a.length then a.setLengthInt (idx + 1) else (a, true)
    if !r.2 then (.dense r.1, false)
    else
      let a1 := r.1
      match a1.expand idx with
      | some a2 =>
        (.dense { a2 with values := a2.values.set idx (some prop),
                          objCount := if existing.isNone then a2.objCount + 1 else a2.objCount,
                          pvc := if prop.isProp then a2.pvc + 1 else a2.pvc }, true)
      | none =>
        let sa := a1.toSparse.add idx prop
        (.sparse { sa with pvc := if prop.isProp then sa.pvc + 1 else sa.pvc }, true)

/-- array.go:475 `_deleteIdxProp`. -/
def Dense.deleteIdx (a : Dense) (idx : Nat) : Dense × Bool :=
  match a.slot idx with
  | none => (a, true)
  | some (.prop p) =>
    if !p.configurable then (a, false)
    else ({ a with pvc := a.pvc - 1, values := a.values.set idx none, objCount := a.objCount - 1 }, true)
  | some (.plain _) => ({ a with values := a.values.set idx none, objCount := a.objCount - 1 }, true)

def VProp.freeze (p : VProp) : VProp :=
  { p with configurable := false, writable := if p.accessor then p.writable else false }

/-- builtin_object.go:281 `object_freeze` on one element slot: a `*valueProperty` is mutated in
place, a plain value goes through `defineOwnProperty {configurable:false, writable:false}`. -/
def Elem.freeze : Elem → Elem
  | .plain v => .prop { value := v, writable := false, enumerable := true, configurable := false,
                        accessor := false, getter := none, setter := none }
  | .prop p => .prop p.freeze

def countPlain (l : List (Option Elem)) : Nat := l.countP (fun o => match o with | some (.plain _) => true | _ => false)

def Dense.freeze (a : Dense) : Dense :=
  { a with values := a.values.map (Option.map Elem.freeze), pvc := a.pvc + countPlain a.values,
           lenW := false, ext := false }

/-! ## Sparse storage (array_sparse.go) -/

/-- array_sparse.go:35–53: the slow-path scan. -/
def Sparse.scan (a : Sparse) (l : Nat) : Scan :=
  if l ≤ a.length ∧ a.pvc > 0 then sScan l a.items a.pvc else ⟨l, true, a.pvc⟩

/-- array_sparse.go:55–66: `items = items[:findIdx(l)]`, store the length. -/
def Sparse.applyScan (a : Sparse) (r : Scan) : Sparse × Bool :=
  ({ a with items := sTake a.items r.len, pvc := r.pvc, length := r.len }, r.ok)

/-- array_sparse.go:33 `_setLengthInt`. -/
def Sparse.setLengthInt_ (a : Sparse) (l : Nat) : Sparse × Bool := a.applyScan (a.scan l)

def Sparse.setLengthInt (a : Sparse) (l : Nat) : Sparse × Bool :=
  if l = a.length then (a, true)
  else if !a.lenW then (a, false)
  else a.setLengthInt_ l

def Sparse.setLength (a : Sparse) (l : Nat) : Sparse × Bool :=
  if !a.lenW then (a, false) else a.setLengthInt_ l

/-- `setValuesFromSparse` (array.go:563): `values = make([]Value, newMaxIdx+1)`, filled from items. -/
def fromItems : Items → Nat → List (Option Elem)
  | items, n => (List.range n).map (fun i => sFind items i)

def Sparse.lastIdx (a : Sparse) : Nat := match a.items.getLast? with | some p => p.1 | none => 0

def Sparse.toDense (a : Sparse) (maxIdx : Nat) : Dense :=
  { values := fromItems a.items (maxIdx + 1), cap := maxIdx + 1, length := a.length,
    objCount := a.items.length, pvc := a.pvc, lenW := a.lenW, ext := a.ext }

/-- array_sparse.go:317 `expand`: `none` = stay sparse, `some d` = switched to dense storage `d`
(64-bit build: the `bits.UintSize == 64` disjunct is true). -/
def Sparse.expand (a : Sparse) (idx : Nat) : Option Dense :=
  let l := a.items.length
  if l ≥ thr.sparseMinItems then
    let idx' := if a.lastIdx > idx then a.lastIdx else idx
    if idx' / 2 ^ thr.sparseShift < l then some (a.toDense idx') else none
  else none

/-- array_sparse.go:152 `_setOwnIdx`. -/
def Sparse.setOwnIdx (a : Sparse) (idx : Nat) (v : Val) (protoAns : Option Bool) : Store × Bool :=
  match sFind a.items idx with
  | none =>
    match protoAns with
    | some r => (.sparse a, r)
    | none =>
      if !a.ext then (.sparse a, false)
      else
        let r := if idx ≥ a.length then a.setLengthInt (idx + 1) else (a, true)
        if !r.2 then (.sparse r.1, false)
        else
          let a1 := r.1
          match a1.expand idx with
          | none => (.sparse (a1.add idx (.plain v)), true)
          | some ar => (.dense { ar with values := ar.values.set idx (some (.plain v)), objCount := ar.objCount + 1 }, true)
  | some (.prop p) =>
    if !p.isWritable then (.sparse a, false)
    else (.sparse { a with items := sSetAt a.items idx (.prop (p.setValue v)) }, true)
  | some (.plain _) => (.sparse { a with items := sSetAt a.items idx (.plain v) }, true)

/-- array_sparse.go:339 `_defineIdxProperty`. -/
def Sparse.defineIdx (md : MechDefine) (a : Sparse) (idx : Nat) (d : Desc) : Store × Bool :=
  let existing := sFind a.items idx
  match md existing d a.ext with
  | none => (.sparse a, false)
  | some prop =>
    let r := if idx ≥ a.length then a.setLengthInt (idx + 1) else (a, true)
    if !r.2 then (.sparse r.1, false)
    else
      let a1 := r.1
      if existing.isNone then
        match a1.expand idx with
        | none =>
          (.sparse { a1 with items := sIns a1.items idx prop,
                             length := if idx ≥ a1.length then idx + 1 else a1.length,
                             pvc := if prop.isProp then a1.pvc + 1 else a1.pvc }, true)
        | some ar =>
          (.dense { ar with values := ar.values.set idx (some prop), objCount := ar.objCount + 1,
                            pvc := if prop.isProp then ar.pvc + 1 else ar.pvc }, true)
      else
        (.sparse { a1 with items := sSetAt a1.items idx prop,
                           pvc := if prop.isProp then a1.pvc + 1 else a1.pvc }, true)

/-- array_sparse.go:399 `_deleteIdxProp`. -/
def Sparse.deleteIdx (a : Sparse) (idx : Nat) : Sparse × Bool :=
  match sFind a.items idx with
  | none => (a, true)
  | some (.prop p) =>
    if !p.configurable then (a, false)
    else ({ a with pvc := a.pvc - 1, items := sDel a.items idx }, true)
  | some (.plain _) => ({ a with items := sDel a.items idx }, true)

def Sparse.freeze (a : Sparse) : Sparse :=
  { a with items := a.items.map (fun p => (p.1, p.2.freeze)),
           pvc := a.pvc + a.items.countP (fun p => !p.2.isProp), lenW := false, ext := false }

/-! ## Storage-independent operations -/

def Store.setLength : Store → Nat → Store × Bool
  | .dense a, l => let r := a.setLength l; (.dense r.1, r.2)
  | .sparse a, l => let r := a.setLength l; (.sparse r.1, r.2)

def Store.setOwnIdx : Store → Nat → Val → Option Bool → Store × Bool
  | .dense a, i, v, p => a.setOwnIdx i v p
  | .sparse a, i, v, p => a.setOwnIdx i v p

def Store.defineIdx (md : MechDefine) : Store → Nat → Desc → Store × Bool
  | .dense a, i, d => a.defineIdx md i d
  | .sparse a, i, d => a.defineIdx md i d

def Store.deleteIdx : Store → Nat → Store × Bool
  | .dense a, i => let r := a.deleteIdx i; (.dense r.1, r.2)
  | .sparse a, i => let r := a.deleteIdx i; (.sparse r.1, r.2)

def Store.freeze : Store → Store
  | .dense a => .dense a.freeze
  | .sparse a => .sparse a.freeze

def Store.preventExtensions : Store → Store
  | .dense a => .dense { a with ext := false }
  | .sparse a => .sparse { a with ext := false }

def Store.lenW : Store → Bool
  | .dense a => a.lenW
  | .sparse a => a.lenW

def Store.length : Store → Nat
  | .dense a => a.length
  | .sparse a => a.length

def Store.setLenW : Store → Bool → Store
  | .dense a, w => .dense { a with lenW := w }
  | .sparse a, w => .sparse { a with lenW := w }

/-- array.go:386 `defineArrayLength` with `setter = a.setLength`. -/
def Store.defineLength (s : Store) (d : LenDesc) : Store × Bool :=
  if d.configurable == some true || d.enumerable == some true || d.hasAccessor then (s, false)
  else
    let r : Store × Bool :=
      match d.value with
      | some newLen => if s.length != newLen then s.setLength newLen else (s, true)
      | none => (s, true)
    match d.writable with
    | none => r
    | some w =>
      if r.1.lenW then (r.1.setLenW w, r.2)
      else if w then (r.1, false) else r

def Store.empty : Store :=
  .dense { values := [], cap := 0, length := 0, objCount := 0, pvc := 0, lenW := true, ext := true }

/-! ## Abstraction -/

/-- association lookup (the meaning of a sorted item list). -/
def aGet : Items → Nat → Option Elem
  | [], _ => none
  | (k, x) :: t, i => if k = i then some x else aGet t i

def Sparse.abs (a : Sparse) : SpecArray :=
  { get := fun i => (aGet a.items i).map Elem.abs, length := a.length,
    lengthWritable := a.lenW, extensible := a.ext }

def Dense.abs (a : Dense) : SpecArray :=
  { get := fun i => (a.slot i).map Elem.abs, length := a.length,
    lengthWritable := a.lenW, extensible := a.ext }

def Store.abs : Store → SpecArray
  | .dense a => a.abs
  | .sparse a => a.abs

/-! ## Invariants -/

/-- strictly ascending keys, all ≥ `lo`. -/
def SortedFrom : Nat → Items → Prop
  | _, [] => True
  | lo, (k, _) :: t => lo ≤ k ∧ SortedFrom (k + 1) t

def AllBelow (hi : Nat) (l : Items) : Prop := ∀ p ∈ l, p.1 < hi

structure Dense.Inv (a : Dense) : Prop where
  lenValues : a.values.length ≤ a.length            -- length > every index
  objCount : a.objCount = countSome a.values         -- exactness: what `checkStdArrayObj` / export need
  pvc : countProp a.values ≤ a.pvc                   -- soundness of the `_setLengthInt` fast path

structure Sparse.Inv (a : Sparse) : Prop where
  sorted : SortedFrom 0 a.items
  below : AllBelow a.length a.items                  -- length > every index
  pvc : countPropItems a.items ≤ a.pvc

def Store.Inv : Store → Prop
  | .dense a => a.Inv
  | .sparse a => a.Inv

/-- executable check of `Inv` from the summary the white-box hook reports
(`VerifC07ArrayInfo`): tag, length, n, objCount, pvc, actualPresent, actualProps, sorted,
maxIdx+1, nilItems. -/
def invSummaryOk (dense : Bool) (length n objCount pvc present props : Nat) (sorted : Bool)
    (maxIdxP1 nilItems : Nat) : Bool :=
  if dense then n ≤ length && objCount == present && props ≤ pvc
  else sorted && maxIdxP1 ≤ length && props ≤ pvc && nilItems == 0 && present == n

/-! ## Fast-path guards (builtin_array.go:1430 `checkStdArrayObj`, array.go:512 export) -/

def Dense.stdGuard (a : Dense) : Bool :=
  a.pvc == 0 && a.length == a.values.length && a.objCount == a.length

/-- the generic read of index `i` as the slow paths do it: own element, else the prototype chain
(`proto i`). `none` = undefined/hole all the way up. -/
def genericGet (own : Option Elem) (proto : Option Val) (getterResult : VProp → Option Val) : Option Val :=
  match own with
  | some (.plain v) => some v
  | some (.prop p) => if p.accessor then getterResult p else some p.value
  | none => proto

/-- array.go:512 fast path of `export`: reads `values[i]` directly, never the prototype. -/
def fastGet (own : Option Elem) : Option Val :=
  match own with
  | some (.plain v) => some v
  | some (.prop p) => some p.value     -- (fast path would export the property object itself)
  | none => none

/-! ## `_defineOwnProperty` (object.go:650) transcription and the spec's ValidateAndApply -/

def flagIs (o : Option Bool) (b : Bool) : Bool := o == some b

def Desc.isData (d : Desc) : Bool := d.value.isSome || d.writable.isSome      -- object.go:74
def Desc.isAccessor (d : Desc) : Bool := d.getter.isSome || d.setter.isSome   -- object.go:70

/-- a plain value seen as the `valueProperty` that object.go:665 builds for it. -/
def Elem.toVProp : Elem → VProp
  | .prop p => p
  | .plain v => { value := v, writable := true, enumerable := true, configurable := true,
                  accessor := false, getter := none, setter := none }

/-- object.go:673–702: the validation of a redefinition against the existing property. `true` = Reject. -/
def mechReject (ex : VProp) (d : Desc) : Bool :=
  (!ex.configurable &&
    (flagIs d.configurable true ||
     (match d.enumerable with | some e => e != ex.enumerable | none => false))) ||
  (if (ex.accessor && d.isData) || (!ex.accessor && d.isAccessor) then
     !ex.configurable
   else if !ex.accessor then
     !ex.configurable && !ex.writable &&
       (flagIs d.writable true || (match d.value with | some v => v != ex.value | none => false))
   else
     !ex.configurable &&
       ((match d.getter with | some g => ex.getter != g | none => false) ||
        (match d.setter with | some s => ex.setter != s | none => false)))

/-- object.go:705–758: applying the descriptor (value 0 encodes `undefined` / Go `nil`). -/
def mechApply (ex : VProp) (d : Desc) : Elem :=
  if flagIs d.writable true && flagIs d.enumerable true && flagIs d.configurable true && d.value.isSome then
    .plain (d.value.getD 0)                                                      -- :705
  else
    let ex := { ex with writable := d.writable.getD ex.writable,               -- :709–717
                        enumerable := d.enumerable.getD ex.enumerable,
                        configurable := d.configurable.getD ex.configurable }
    let ex := match d.value with                                                 -- :719
      | some v => { ex with value := v, getter := none, setter := none }
      | none => ex
    let ex :=                                                                    -- :725–735
      if d.isData then
        if ex.accessor then
          { ex with getter := none, setter := none,
                    writable := if d.writable.isNone then false else ex.writable, accessor := false }
        else { ex with accessor := false }
      else ex
    let ex := if d.isAccessor && !ex.accessor then { ex with writable := false } else ex   -- :737
    let ex := match d.getter with                                                -- :742
      | some g => { ex with getter := g, value := 0, accessor := true }
      | none => ex
    let ex := match d.setter with                                                -- :748
      | some s => { ex with setter := s, value := 0, accessor := true }
      | none => ex
    .prop ex

/-- object.go:650–764 `_defineOwnProperty` for string/index keys, values compared by identity
(`SameAs` on opaque ids). A fresh property starts from the zero `valueProperty` (:662). -/
def mechDefine : MechDefine := fun existingValue d extensible =>
  match existingValue with
  | none =>
    if !extensible then none
    else some (mechApply { value := 0, writable := false, enumerable := false, configurable := false,
                           accessor := false, getter := none, setter := none } d)
  | some ev => if mechReject ev.toVProp d then none else some (mechApply ev.toVProp d)

/-- ValidateAndApplyPropertyDescriptor (ECMA-262 10.1.6.3), `none` = false. Value 0 = undefined. -/
def specDefine : SpecDefine := fun current d extensible =>
  let isAccDesc := d.getter.isSome || d.setter.isSome
  let isDataDesc := d.value.isSome || d.writable.isSome
  match current with
  | none =>
    if !extensible then none
    else if isAccDesc then
      some (.acc (d.getter.getD none) (d.setter.getD none) (d.enumerable.getD false) (d.configurable.getD false))
    else
      some (.data (d.value.getD 0) (d.writable.getD false) (d.enumerable.getD false) (d.configurable.getD false))
  | some cur =>
    let rejC := !cur.configurable &&
      (flagIs d.configurable true ||
       (match d.enumerable with | some e => e != cur.enumerable | none => false))
    if rejC then none
    else
      let e' := d.enumerable.getD cur.enumerable
      let c' := d.configurable.getD cur.configurable
      match cur with
      | .data v w _ _ =>
        if isAccDesc then
          if !cur.configurable then none
          else some (.acc (d.getter.getD none) (d.setter.getD none) e' c')
        else
          if !cur.configurable && !w &&
             (flagIs d.writable true || (match d.value with | some v' => v' != v | none => false)) then none
          else some (.data (d.value.getD v) (d.writable.getD w) e' c')
      | .acc g s _ _ =>
        if isDataDesc then
          if !cur.configurable then none
          else some (.data (d.value.getD 0) (d.writable.getD false) e' c')
        else
          if !cur.configurable &&
             ((match d.getter with | some g' => g != g' | none => false) ||
              (match d.setter with | some s' => s != s' | none => false)) then none
          else some (.acc (d.getter.getD g) (d.setter.getD s) e' c')

/-! ## Sort (builtin_array.go:1758 `arraySortCtx`)

A sort element is `none` (a `nil` slot), `some 0` (`undefined`) or `some v`.  The comparator is an
arbitrary function returning a *class* of float result.  `sortCompare` is goja's, `specCompare` is
ECMA-262 23.1.3.30.2 SortCompare (`v < 0` ⇒ before, `v > 0` ⇒ after, NaN/±0 ⇒ equal). -/

inductive CmpRes where
  | neg | negZero | posZero | pos | nan
deriving DecidableEq, Repr

abbrev SortVal := Option Val

/-- builtin_array.go:1770 `sortCompare` → "less" (`Less(j,k) = sortCompare(..) < 0`). -/
def mechLess (cmp : Val → Val → CmpRes) (x y : SortVal) : Bool :=
  match x, y with
  | none, _ => false                 -- nil,nil → 0 ; nil,_ → 1
  | some _, none => true             -- _,nil → -1
  | some 0, some _ => false          -- undefined,undefined → 0 ; undefined,_ → 1
  | some (_ + 1), some 0 => true     -- _,undefined → -1
  | some (a + 1), some (b + 1) =>
    match cmp (a + 1) (b + 1) with
    | .neg => true
    | .negZero => true               -- `if math.Signbit(f) { return -1 }`  (the known −0 finding)
    | _ => false

/-- the spec's SortCompare as a "less" test. -/
def specLess (cmp : Val → Val → CmpRes) (x y : SortVal) : Bool :=
  match x, y with
  | none, _ => false
  | some _, none => true
  | some 0, some _ => false
  | some (_ + 1), some 0 => true
  | some (a + 1), some (b + 1) =>
    match cmp (a + 1) (b + 1) with
    | .neg => true
    | _ => false

/-- insertion of `x` into an already processed prefix, as `insertionSort` of Go's `sort.Stable`
does it from the right: `x` moves left past every element `y` with `less x y`. The list is the
prefix reversed (nearest neighbour first). -/
def insertRev (less : α → α → Bool) (x : α) : List α → List α
  | [] => [x]
  | y :: t => if less x y then y :: insertRev less x t else x :: y :: t

/-- insertion sort, left to right (prefix kept reversed). -/
def isortRev (less : α → α → Bool) : List α → List α → List α
  | acc, [] => acc
  | acc, x :: t => isortRev less (insertRev less x acc) t

def isort (less : α → α → Bool) (l : List α) : List α := (isortRev less [] l).reverse

/-- stable merge of two runs (`symMerge`'s observable effect for a consistent comparator; for an
arbitrary one still a permutation): take from the right run only when strictly less. -/
def merge (less : α → α → Bool) : List α → List α → List α
  | [], r => r
  | l, [] => l
  | x :: l, y :: r =>
    if less y x then y :: merge less (x :: l) r else x :: merge less l (y :: r)
termination_by l r => l.length + r.length

/-! ### `findIdx` = `sort.Search` (array_sparse.go:27, Go sort/search.go) -/

/-- Go's `sort.Search` loop: `for i < j { h := int(uint(i+j) >> 1); if !f(h) { i = h+1 } else { j = h } }`
(fuel = an upper bound of the number of iterations; `n` suffices). -/
def searchLoop (f : Nat → Bool) : Nat → Nat → Nat → Nat
  | 0, i, _ => i
  | fuel + 1, i, j =>
    if i < j then
      let h := (i + j) / 2
      if !f h then searchLoop f fuel (h + 1) j else searchLoop f fuel i h
    else i

def goSearch (n : Nat) (f : Nat → Bool) : Nat := searchLoop f n 0 n

/-- array_sparse.go:27 `findIdx`: `sort.Search(len(items), func(i) bool { return items[i].idx >= idx })`. -/
def findIdx (items : Items) (idx : Nat) : Nat :=
  goSearch items.length (fun i => match items[i]? with | some p => decide (p.1 ≥ idx) | none => true)

/-- the linear reading used by `sFind`/`sIns`/`sSetAt`/`sDel`/`sTake`: first position whose key is ≥ idx. -/
def sPos : Items → Nat → Nat
  | [], _ => 0
  | (k, _) :: t, idx => if k < idx then sPos t idx + 1 else 0

/-! ### `Array.prototype.pop` (builtin_array.go:117 generic, :130 fast path on `*arrayObject`) -/

/-- builtin_array.go:130–160: the fast path. `none` = "optimisation bail-out" to the generic path
(last slot empty or a `*valueProperty`). `decr = true` is the code as it is (`a.objCount--`, since 4d714fc);
`decr = false` is the code before that repair (kept for the regression lemma `pop_prefix_witness`). -/
def Dense.popFast (a : Dense) (decr : Bool) : Option (Dense × Bool) :=
  if a.length > 0 then
    let l := a.length - 1
    match a.slot l with
    | some (.plain _) =>
      let a1 : Dense := { a with values := a.values.take l, objCount := if decr then a.objCount - 1 else a.objCount }
      if a.lenW then some ({ a1 with length := l }, true)
      else some (a1, false)                      -- `a.setLength(0, true)` throws: length not writable
    | _ => none
  else
    if a.lenW then some (a, true) else some (a, false)

/-- builtin_array.go:117 `arrayproto_pop_generic`, on the mechanism. -/
def Store.popGeneric (s : Store) : Store × Bool :=
  if s.length = 0 then s.setLength 0
  else
    let d := s.deleteIdx (s.length - 1)
    if !d.2 then d else d.1.setLength (s.length - 1)

def Store.pop (s : Store) (decr : Bool) : Store × Bool :=
  match s with
  | .dense a =>
    match a.popFast decr with
    | some r => (.dense r.1, r.2)
    | none => s.popGeneric
  | .sparse _ => s.popGeneric

/-- ECMA-262 23.1.3.22 Array.prototype.pop on the spec array (result value not modelled). -/
def SpecArray.pop (a : SpecArray) : SpecArray × Bool :=
  if a.length = 0 then a.setLength 0
  else
    let d := a.delete (a.length - 1)
    if !d.2 then d else d.1.setLength (a.length - 1)

/-! ### the block structure of Go's `sort.Stable` (sort/sort.go `stable`)

`insertionSort` on blocks (of 20), then passes that merge neighbouring blocks (`symMerge`) with the
block size doubling until one block is left. `symMerge` (Go standard library) is represented by the
stable two-way `merge` above. -/

def mergePass (less : α → α → Bool) : List (List α) → List (List α)
  | a :: b :: rest => merge less a b :: mergePass less rest
  | l => l

/-- iterate the passes (`fuel` ≥ number of blocks suffices) and return the elements in order. -/
def mergeAll (less : α → α → Bool) : Nat → List (List α) → List α
  | 0, cs => cs.flatten
  | fuel + 1, cs => if cs.length ≤ 1 then cs.flatten else mergeAll less fuel (mergePass less cs)

/-- `sort.Stable` on a list already cut into blocks (any block sizes; Go uses 20). -/
def stableSortBlocks (less : α → α → Bool) (blocks : List (List α)) : List α :=
  mergeAll less blocks.length (blocks.map (isort less))

/-! ### sort under an adversarial comparator

After 88d0e7d `arrayproto_sort` sorts a private copy; the comparator is user code that may do
anything to the receiver (shrink it, grow it, switch its storage) — modelled as a state `σ`
threaded through every call.  The sort itself only ever touches the copy. -/

def insertRevM (cmp : σ → α → α → Bool × σ) (x : α) : List α → σ → List α × σ
  | [], s => ([x], s)
  | y :: t, s =>
    let r := cmp s x y
    if r.1 then
      let q := insertRevM cmp x t r.2
      (y :: q.1, q.2)
    else (x :: y :: t, r.2)

def isortRevM (cmp : σ → α → α → Bool × σ) : List α → List α → σ → List α × σ
  | acc, [], s => (acc, s)
  | acc, x :: t, s =>
    let q := insertRevM cmp x acc s
    isortRevM cmp q.1 t q.2

def isortM (cmp : σ → α → α → Bool × σ) (l : List α) (s : σ) : List α × σ :=
  let q := isortRevM cmp [] l s
  (q.1.reverse, q.2)

end GojaModel.C07
