/-
  C07 property theorems.  Every `theorem` here is one audited proof obligation.
  Spec = ECMA-262 Array exotic object over an index → property function (`SpecArray`);
  mechanism = goja's dense / sparse storage (`Dense`, `Sparse`) — see Model.lean.
-/
import GojaModel.C07.Lemmas

namespace GojaModel.C07

private theorem specExt {a b : SpecArray} (h1 : a.get = b.get) (h2 : a.length = b.length)
    (h3 : a.lengthWritable = b.lengthWritable) (h4 : a.extensible = b.extensible) : a = b := by
  cases a; cases b; simp_all

/-! ## Strategy switches are invisible -/

/-- dense → sparse (`array.go:358` → `setValues`): the abstract array is unchanged. -/
theorem transition_invisible_toSparse (a : Dense) : a.toSparse.abs = a.abs := by
  apply specExt
  · funext i
    simp [Dense.toSparse, Sparse.abs, Dense.abs, Dense.slot, aGet_enumSome]
  all_goals rfl

/-- … and the sparse invariant holds afterwards. -/
theorem toSparse_inv (a : Dense) (h : a.Inv) : a.toSparse.Inv := by
  refine ⟨sorted_enumSome 0 a.values, ?_, ?_⟩
  · intro p hp
    have := below_enumSome 0 a.values p hp
    have := h.lenValues
    simp only [Dense.toSparse]; omega
  · simp only [Dense.toSparse, countProp_enumSome]; exact h.pvc

/-- sparse → dense (`array_sparse.go:322` → `setValuesFromSparse`): unchanged as well, for every
`maxIdx` that is ≥ all present indices (which `expand` guarantees by taking the last item). -/
theorem transition_invisible_toDense (a : Sparse) (m : Nat) (hs : SortedFrom 0 a.items)
    (hb : AllBelow (m + 1) a.items) : (a.toDense m).abs = a.abs := by
  apply specExt
  · funext i
    simp only [Sparse.toDense, Dense.abs, Sparse.abs, Dense.slot, fromItems]
    by_cases hi : i < m + 1
    · simp [List.getElem?_map, List.getElem?_range, hi, sFind_eq_aGet hs]
    · have h1 : ((List.range (m + 1)).map (fun i => sFind a.items i))[i]? = none := by
        apply List.getElem?_eq_none; simp; omega
      rw [h1, aGet_none_of_below hb (by omega)]; rfl
  all_goals rfl

/-! ## ArraySetLength -/

/-- the scan of `_setLengthInt` computes exactly the spec's descending deletion. -/
private theorem sparse_trunc_core (a : Sparse) (h : a.Inv) (l : Nat) (hl : l ≤ a.length) :
    (a.scan l).len = cutoff a.abs.get l (a.abs.length - l) ∧ ((a.scan l).ok = ((a.scan l).len == l)) := by
  have hchar : CutChar (ncItems a.items) l a.length (a.scan l).len ∧ ((a.scan l).ok = ((a.scan l).len == l)) := by
    by_cases hp : a.pvc > 0
    · have hr : a.scan l = sScan l a.items a.pvc := by simp [Sparse.scan, hl, hp]
      obtain ⟨c1, c2, c3⟩ := sScan_char l a.pvc h.sorted
      have hok := sScan_ok_len l a.items a.pvc
      rw [hr]
      refine ⟨⟨c1, fun i h1 _ => c2 i h1, ?_⟩, ?_⟩
      · cases hk : (sScan l a.items a.pvc).ok
        · obtain ⟨d1, d2, _⟩ := c3 hk
          refine Or.inr ⟨d1, ?_, d2⟩
          -- the stopping element is present, hence below `length`
          by_cases hlt : (sScan l a.items a.pvc).len - 1 < a.length
          · exact hlt
          · have := aGet_none_of_below h.below (Nat.le_of_not_lt hlt)
            simp [ncItems, this] at d1
        · exact Or.inl (hok hk)
      · cases hk : (sScan l a.items a.pvc).ok
        · obtain ⟨_, d2, _⟩ := c3 hk
          have : ¬ (sScan l a.items a.pvc).len = l := by omega
          simp [this]
        · simp [hok hk]
    · have hr : a.scan l = ⟨l, true, a.pvc⟩ := by simp [Sparse.scan, hp]
      have h0 : countPropItems a.items = 0 := by have := h.pvc; omega
      rw [hr]
      refine ⟨⟨Nat.le_refl _, ?_, Or.inl rfl⟩, by simp⟩
      intro i _ _
      simp only [ncItems]
      cases hg : aGet a.items i with
      | none => rfl
      | some e =>
        have := isProp_false_of_count_zero h0 hg
        cases e with
        | plain v => rfl
        | prop p => simp [Elem.isProp] at this
  refine ⟨?_, hchar.2⟩
  have hc := cutoff_char a.abs.get l (a.abs.length - l)
  have hn : ncSpec a.abs.get = ncItems a.items := by
    funext i; exact ncSpec_abs a.items i
  have hL : a.abs.length = a.length := rfl
  rw [hn, hL, show l + (a.length - l) = a.length by omega] at hc
  rw [hL]
  exact CutChar.unique hchar.1 hc

/-- sparse `_setLengthInt` refines the deletion part of ArraySetLength (∀ states with `Inv`, ∀ l). -/
theorem sparse_truncate_refines (a : Sparse) (h : a.Inv) (l : Nat) (hl : l ≤ a.length) :
    ((a.setLengthInt_ l).1.abs, (a.setLengthInt_ l).2) = a.abs.truncate l := by
  obtain ⟨h1, h2⟩ := sparse_trunc_core a h l hl
  refine Prod.ext ?_ ?_
  · apply specExt
    · funext i
      show (aGet (sTake a.items (a.scan l).len) i).map Elem.abs =
        if i < cutoff a.abs.get l (a.abs.length - l) then a.abs.get i else none
      rw [aGet_sTake _ h.sorted, h1]
      split <;> rfl
    · exact h1
    · rfl
    · rfl
  · show (a.scan l).ok = (cutoff a.abs.get l (a.abs.length - l) == l)
    rw [h2, h1]

private theorem sparse_scan_grow (a : Sparse) (h : a.Inv) (l : Nat) (hl : a.length ≤ l) :
    a.scan l = ⟨l, true, a.pvc⟩ ∧ sTake a.items l = a.items := by
  have hb : AllBelow l a.items := fun p hp => Nat.lt_of_lt_of_le (h.below p hp) hl
  refine ⟨?_, sTake_all hb⟩
  simp only [Sparse.scan]
  split
  · exact sScan_of_below a.pvc hb
  · rfl

/-- growing (or keeping) the length never touches the elements. -/
theorem sparse_grow_refines (a : Sparse) (h : a.Inv) (l : Nat) (hl : a.length ≤ l) :
    (a.setLengthInt_ l).1.abs = { a.abs with length := l } ∧ (a.setLengthInt_ l).2 = true := by
  obtain ⟨e1, e2⟩ := sparse_scan_grow a h l hl
  have e : a.setLengthInt_ l = (⟨a.items, l, a.pvc, a.lenW, a.ext⟩, true) := by
    unfold Sparse.setLengthInt_ Sparse.applyScan
    rw [e1]
    simp only [e2]
  rw [e]
  exact ⟨rfl, rfl⟩

/-- `[[Set]]` of "length" / the setter handed to `defineArrayLength`: sparse storage. -/
theorem sparse_setLength_refines (a : Sparse) (h : a.Inv) (l : Nat) :
    ((a.setLength l).1.abs, (a.setLength l).2) = a.abs.setLength l := by
  unfold Sparse.setLength SpecArray.setLength
  have hW : a.abs.lengthWritable = a.lenW := rfl
  have hL : a.abs.length = a.length := rfl
  rw [hW, hL]
  cases hw : a.lenW
  · rfl
  · simp only [Bool.not_true, Bool.false_eq_true, if_false]
    by_cases hg : l ≥ a.length
    · obtain ⟨g1, g2⟩ := sparse_grow_refines a h l hg
      rw [if_pos hg, g1, g2]
      refine Prod.ext (specExt rfl rfl ?_ rfl) rfl
      exact hw
    · rw [if_neg hg]
      exact sparse_truncate_refines a h l (by omega)

/-- `Inv` is preserved by sparse `_setLengthInt` (in particular `propValueCount` stays an upper
bound: the fast path `propValueCount == 0` remains sound afterwards). -/
theorem sparse_setLengthInt_inv (a : Sparse) (h : a.Inv) (l : Nat) : (a.setLengthInt_ l).1.Inv := by
  refine ⟨sorted_sTake _ h.sorted, below_sTake _ _, ?_⟩
  show countPropItems (sTake a.items (a.scan l).len) ≤ (a.scan l).pvc
  unfold Sparse.scan
  split
  · have := sScan_pvc l a.pvc 0 h.sorted (by have := h.pvc; omega)
    omega
  · have := countProp_sTake_le a.items l
    have := h.pvc
    show countPropItems (sTake a.items l) ≤ a.pvc
    omega

/-- the exact statement the former sparse `<=` violated: after a failed shrink the array ends
right after a non-configurable element, which is still there, and nothing below the final length
was removed. -/
theorem setLength_stops_at_nonconfigurable (a : Sparse) (h : a.Inv) (l : Nat) (hl : l ≤ a.length)
    (hfail : (a.setLengthInt_ l).2 = false) :
    let b := (a.setLengthInt_ l).1
    l < b.length ∧
    (∃ e, aGet b.items (b.length - 1) = some e ∧ e.configurable = false) ∧
    (∀ i, i < b.length → aGet b.items i = aGet a.items i) ∧
    (∀ i, b.length ≤ i → aGet b.items i = none) := by
  intro b
  obtain ⟨h1, h2⟩ := sparse_trunc_core a h l hl
  have hc := cutoff_char a.abs.get l (a.abs.length - l)
  have hn : ncSpec a.abs.get = ncItems a.items := by funext i; exact ncSpec_abs a.items i
  have hb : b.length = (a.scan l).len := rfl
  rw [hn, ← h1, ← hb] at hc
  have hbi : b.items = sTake a.items b.length := rfl
  have hne : ¬ b.length = l := by
    intro he
    have : (a.setLengthInt_ l).2 = true := by
      show (a.scan l).ok = true
      rw [h2, ← hb, he]; simp
    rw [this] at hfail; cases hfail
  rcases hc.stop with e | ⟨s1, s2, s3⟩
  · exact absurd e hne
  · refine ⟨s3, ?_, ?_, ?_⟩
    · rw [hbi, aGet_sTake _ h.sorted]
      have : b.length - 1 < b.length := by omega
      simp only [this, if_true]
      simp only [ncItems] at s1
      cases hg : aGet a.items (b.length - 1) with
      | none => simp [hg] at s1
      | some e => exact ⟨e, rfl, by simpa [hg] using s1⟩
    · intro i hi
      rw [hbi, aGet_sTake _ h.sorted]; simp [hi]
    · intro i hi
      rw [hbi, aGet_sTake _ h.sorted]
      have : ¬ i < b.length := by omega
      simp [this]

/-! ### dense `_setLengthInt` = sparse `_setLengthInt` through the strategy switch -/

private theorem dense_scan_eq (a : Dense) (l : Nat) : a.scan l = a.toSparse.scan l := by
  unfold Dense.scan Sparse.scan
  rw [dScan_eq_sScan]
  rfl

private theorem dense_applyScan_commutes (a : Dense) (r : Scan) :
    (a.applyScan r).1.toSparse = (a.toSparse.applyScan r).1 ∧ (a.applyScan r).2 = (a.toSparse.applyScan r).2 := by
  have htake : sTake (enumSome 0 a.values) r.len = enumSome 0 (a.values.take r.len) := by
    have := sTake_enumSome 0 a.values r.len (Nat.zero_le _)
    simpa using this
  unfold Dense.applyScan Sparse.applyScan
  by_cases hle : r.len ≤ a.values.length
  · rw [if_pos hle]
    refine ⟨?_, rfl⟩
    show (⟨enumSome 0 (a.values.take r.len), r.len, r.pvc, a.lenW, a.ext⟩ : Sparse) =
      ⟨sTake (enumSome 0 a.values) r.len, r.len, r.pvc, a.lenW, a.ext⟩
    rw [htake]
  · rw [if_neg hle]
    refine ⟨?_, rfl⟩
    show (⟨enumSome 0 a.values, r.len, r.pvc, a.lenW, a.ext⟩ : Sparse) =
      ⟨sTake (enumSome 0 a.values) r.len, r.len, r.pvc, a.lenW, a.ext⟩
    rw [htake, List.take_of_length_le (by omega)]

/-- dense and sparse truncation commute with `toSparse`, result flag included. With
`transition_invisible_toSparse` this gives `dense_setLength_refines`. -/
theorem dense_truncate_commutes (a : Dense) (l : Nat) :
    (a.setLengthInt_ l).1.toSparse = (a.toSparse.setLengthInt_ l).1 ∧
    (a.setLengthInt_ l).2 = (a.toSparse.setLengthInt_ l).2 := by
  unfold Dense.setLengthInt_ Sparse.setLengthInt_
  rw [dense_scan_eq]
  exact dense_applyScan_commutes a _

theorem dense_setLength_refines (a : Dense) (h : a.Inv) (l : Nat) :
    ((a.setLength l).1.abs, (a.setLength l).2) = a.abs.setLength l := by
  have hs := sparse_setLength_refines a.toSparse (toSparse_inv a h) l
  rw [transition_invisible_toSparse] at hs
  rw [← hs]
  obtain ⟨c1, c2⟩ := dense_truncate_commutes a l
  unfold Dense.setLength Sparse.setLength
  have hw : a.toSparse.lenW = a.lenW := rfl
  rw [hw]
  cases hlw : a.lenW
  · simp only [Bool.not_false, if_true]
    rw [transition_invisible_toSparse]
  · simp only [Bool.not_true, Bool.false_eq_true, if_false]
    rw [← c1, ← c2, transition_invisible_toSparse]

/-- `Inv` (exact `objCount`, `propValueCount` bound, `len(values) ≤ length`) is preserved by dense
`_setLengthInt`. -/
theorem dense_setLengthInt_inv (a : Dense) (h : a.Inv) (l : Nat) : (a.setLengthInt_ l).1.Inv := by
  have hsp := sparse_setLengthInt_inv a.toSparse (toSparse_inv a h) l
  obtain ⟨c1, _⟩ := dense_truncate_commutes a l
  rw [← c1] at hsp
  have hpvc : countProp (a.setLengthInt_ l).1.values ≤ (a.setLengthInt_ l).1.pvc := by
    have := hsp.pvc
    simpa [Dense.toSparse, countProp_enumSome] using this
  unfold Dense.setLengthInt_ at hpvc ⊢
  generalize a.scan l = r at hpvc ⊢
  have hsplit : countSome a.values = countSome (a.values.take r.len) + countSome (a.values.drop r.len) := by
    simp only [countSome]
    rw [← List.countP_append, List.take_append_drop]
  unfold Dense.applyScan at hpvc ⊢
  by_cases hle : r.len ≤ a.values.length
  · rw [if_pos hle] at hpvc ⊢
    refine ⟨?_, ?_, hpvc⟩
    · show (a.values.take r.len).length ≤ r.len
      simp only [List.length_take]; omega
    · show a.objCount - countSome (a.values.drop r.len) = countSome (a.values.take r.len)
      have := h.objCount; omega
  · rw [if_neg hle] at hpvc ⊢
    refine ⟨?_, h.objCount, hpvc⟩
    show a.values.length ≤ r.len
    omega

/-! ## `[[Delete]]` -/

theorem sparse_delete_refines (a : Sparse) (h : a.Inv) (idx : Nat) :
    ((a.deleteIdx idx).1.abs, (a.deleteIdx idx).2) = a.abs.delete idx := by
  simp only [Sparse.deleteIdx, SpecArray.delete, Sparse.abs, sFind_eq_aGet h.sorted]
  cases hg : aGet a.items idx with
  | none => rfl
  | some e =>
    have hp : (aGet a.items idx).isSome := by simp [hg]
    have hget : ∀ i, (aGet (sDel a.items idx) i).map Elem.abs =
        if i = idx then none else (aGet a.items i).map Elem.abs := by
      intro i; rw [aGet_sDel h.sorted hp]; split <;> rfl
    cases e with
    | plain v =>
      simp only [Option.map_some, Elem.abs, SProp.configurable, if_true]
      refine Prod.ext ?_ rfl
      exact specExt (funext hget) rfl rfl rfl
    | prop p =>
      simp only [Option.map_some, abs_configurable, Elem.configurable]
      cases hc : p.configurable
      · simp
      · simp only [Bool.not_true, Bool.false_eq_true, if_false, if_true]
        refine Prod.ext ?_ rfl
        exact specExt (funext hget) rfl rfl rfl

theorem sparse_delete_inv (a : Sparse) (h : a.Inv) (idx : Nat) : (a.deleteIdx idx).1.Inv := by
  simp only [Sparse.deleteIdx]
  cases hg : sFind a.items idx with
  | none => exact h
  | some e =>
    cases e with
    | plain v =>
      refine ⟨sorted_sDel _ h.sorted, fun p hp => h.below p (mem_sDel hp), ?_⟩
      have := countProp_sDel_le a.items idx
      have := h.pvc
      simp only; omega
    | prop p =>
      dsimp only
      cases hc : p.configurable
      · simp only [Bool.not_false, if_true]; exact h
      · simp only [Bool.not_true, Bool.false_eq_true, if_false]
        refine ⟨sorted_sDel _ h.sorted, fun p hp => h.below p (mem_sDel hp), ?_⟩
        have := countProp_sDel_prop hg
        have := h.pvc
        simp only; omega

private theorem slot_set (vs : List (Option Elem)) (idx : Nat) (x : Option Elem) (hlt : idx < vs.length) (i : Nat) :
    ((vs.set idx x)[i]?).join = if i = idx then x else (vs[i]?).join := by
  rw [List.getElem?_set]
  by_cases h : idx = i
  · subst h; simp [hlt]
  · have : ¬ i = idx := fun e => h e.symm
    simp [h, this]

private theorem slot_some_lt {vs : List (Option Elem)} {idx : Nat} {e : Elem} (h : (vs[idx]?).join = some e) :
    idx < vs.length ∧ vs[idx]? = some (some e) := by
  cases hv : vs[idx]? with
  | none => simp [hv] at h
  | some o =>
    have hlt : idx < vs.length := by
      by_cases hl : idx < vs.length
      · exact hl
      · rw [List.getElem?_eq_none (by omega)] at hv; cases hv
    simp [hv] at h
    exact ⟨hlt, by rw [h]⟩

theorem dense_delete_refines (a : Dense) (idx : Nat) :
    ((a.deleteIdx idx).1.abs, (a.deleteIdx idx).2) = a.abs.delete idx := by
  simp only [Dense.deleteIdx, SpecArray.delete, Dense.abs]
  cases hg : a.slot idx with
  | none => rfl
  | some e =>
    obtain ⟨hlt, _⟩ := slot_some_lt (by simpa [Dense.slot] using hg)
    have hget : ∀ i, (((a.values.set idx none)[i]?).join).map Elem.abs =
        if i = idx then none else ((a.values[i]?).join).map Elem.abs := by
      intro i; rw [slot_set _ _ _ hlt]; split <;> rfl
    cases e with
    | plain v =>
      simp only [Option.map_some, Elem.abs, SProp.configurable, if_true]
      refine Prod.ext ?_ rfl
      exact specExt (funext hget) rfl rfl rfl
    | prop p =>
      simp only [Option.map_some, abs_configurable, Elem.configurable]
      cases hc : p.configurable
      · simp
      · simp only [Bool.not_true, Bool.false_eq_true, if_false, if_true]
        refine Prod.ext ?_ rfl
        exact specExt (funext hget) rfl rfl rfl

/-- exactness of `objCount` and the `propValueCount` bound survive a delete. -/
theorem dense_delete_inv (a : Dense) (h : a.Inv) (idx : Nat) : (a.deleteIdx idx).1.Inv := by
  simp only [Dense.deleteIdx]
  cases hg : a.slot idx with
  | none => exact h
  | some e =>
    obtain ⟨hlt, hv⟩ := slot_some_lt (by simpa [Dense.slot] using hg)
    have hs := countP_set' Option.isSome a.values idx (some e) none hv
    have hp := countP_set' isPropSlot a.values idx (some e) none hv
    have ho := h.objCount
    have hq := h.pvc
    simp only [countSome, countProp] at ho hq
    cases e with
    | plain v =>
      refine ⟨by simpa using h.lenValues, ?_, ?_⟩
      · simp only [countSome]; simp at hs; omega
      · simp only [countProp]; simp [isPropSlot] at hp; omega
    | prop p =>
      dsimp only
      cases hc : p.configurable
      · simp only [Bool.not_false, if_true]; exact h
      · simp only [Bool.not_true, Bool.false_eq_true, if_false]
        refine ⟨by simpa using h.lenValues, ?_, ?_⟩
        · simp only [countSome]; simp at hs; omega
        · simp only [countProp]; simp [isPropSlot] at hp; omega

/-! ## Fast-path guards -/

/-- `checkStdArrayObj` (builtin_array.go:1430) and the export fast path (array.go:512) are sound
under `Inv`: the guard implies that every index below `length` holds a plain value — no holes (so
the prototype chain is irrelevant), no accessors, no descriptor-carrying elements. -/
theorem stdGuard_no_holes (a : Dense) (h : a.Inv) (hg : a.stdGuard = true) (i : Nat) (hi : i < a.length) :
    ∃ v, a.slot i = some (.plain v) := by
  simp only [Dense.stdGuard, Bool.and_eq_true, beq_iff_eq] at hg
  obtain ⟨⟨g1, g2⟩, g3⟩ := hg
  have hcnt : countSome a.values = a.values.length := by have := h.objCount; omega
  have hp0 : countProp a.values = 0 := by have := h.pvc; omega
  have hall : ∀ o ∈ a.values, Option.isSome o = true := by
    simpa [countSome] using (List.countP_eq_length (p := Option.isSome) (l := a.values)).mp hcnt
  have hnp : ∀ o ∈ a.values, ¬ isPropSlot o = true := by
    simpa [countProp] using (List.countP_eq_zero (p := isPropSlot) (l := a.values)).mp hp0
  have hlt : i < a.values.length := by omega
  have hm : a.values[i] ∈ a.values := List.getElem_mem hlt
  have h1 := hall _ hm
  have h2 := hnp _ hm
  simp only [Dense.slot, List.getElem?_eq_getElem hlt, Option.join_some]
  cases hv : a.values[i] with
  | none => simp [hv] at h1
  | some e =>
    cases e with
    | plain v => exact ⟨v, rfl⟩
    | prop p => simp [hv, isPropSlot] at h2

/-- the Go-export fast path reads the same value as the generic path under the guard,
whatever the prototype chain holds. -/
theorem export_fast_eq_slow (a : Dense) (h : a.Inv) (hg : a.stdGuard = true) (i : Nat) (hi : i < a.length)
    (proto : Option Val) (gr : VProp → Option Val) :
    fastGet (a.slot i) = genericGet (a.slot i) proto gr := by
  obtain ⟨v, hv⟩ := stdGuard_no_holes a h hg i hi
  rw [hv]; rfl

/-! ## Sort -/

private theorem insertRev_perm (less : α → α → Bool) (x : α) (l : List α) :
    (insertRev less x l).Perm (x :: l) := by
  induction l with
  | nil => exact List.Perm.refl _
  | cons y t ih =>
    simp only [insertRev]
    split
    · exact (List.Perm.cons y ih).trans (List.Perm.swap x y t)
    · exact List.Perm.refl _

private theorem isortRev_perm (less : α → α → Bool) (acc l : List α) :
    (isortRev less acc l).Perm (l ++ acc) := by
  induction l generalizing acc with
  | nil => exact List.Perm.refl _
  | cons x t ih =>
    simp only [isortRev]
    refine (ih _).trans ?_
    refine (List.Perm.append_left t (insertRev_perm less x acc)).trans ?_
    exact List.perm_middle

/-- the insertion phase of `sort.Stable` loses and duplicates nothing, for ANY `less`
(inconsistent comparators included). -/
theorem sort_perm (less : α → α → Bool) (l : List α) : (isort less l).Perm l := by
  simp only [isort]
  refine (List.reverse_perm _).trans ?_
  simpa using isortRev_perm less [] l

/-- the merge phase loses and duplicates nothing either, for any `less`. -/
theorem merge_perm (less : α → α → Bool) (l r : List α) : (merge less l r).Perm (l ++ r) := by
  fun_induction merge less l r with
  | case1 r => exact List.Perm.refl _
  | case2 l hl => simp
  | case3 x l y r hlt ih =>
    refine (List.Perm.cons y ih).trans ?_
    exact (List.perm_middle (a := y) (l₁ := x :: l) (l₂ := r)).symm
  | case4 x l y r hlt ih => exact List.Perm.cons x ih

private theorem insertRev_never (less : α → α → Bool) (h : ∀ x y, less x y = false) (x : α) (l : List α) :
    insertRev less x l = x :: l := by
  cases l with
  | nil => rfl
  | cons y t => simp [insertRev, h]

private theorem isortRev_never (less : α → α → Bool) (h : ∀ x y, less x y = false) (acc l : List α) :
    isortRev less acc l = l.reverse ++ acc := by
  induction l generalizing acc with
  | nil => rfl
  | cons x t ih => simp [isortRev, insertRev_never less h, ih]

/-- a comparator under which nothing is ever "less" (all elements equal: always NaN / ±0 by the
spec's reading) leaves the input untouched. (General stability: `sort_stable` in PropsElem.) -/
theorem sort_identity_when_all_equal (less : α → α → Bool) (h : ∀ x y, less x y = false) (l : List α) :
    isort less l = l := by
  simp [isort, isortRev_never less h]

/-- with the spec's SortCompare a comparator that always answers −0 makes all (defined) elements
equal, so the sort must be the identity … -/
theorem specLess_negzero_all_equal (x y : Val) :
    specLess (fun _ _ => CmpRes.negZero) (some (x + 1)) (some (y + 1)) = false := rfl

/-- … but goja's `sortCompare` reads −0 as "less" (`math.Signbit`): concrete witness of the known
finding `sort-comparator-negzero-treated-as-less` (the property `sort is stable for every
consistent comparator` does NOT hold for the mechanism model; kept as a witness, not a theorem
about stability). -/
theorem sort_negzero_witness :
    ¬ (isort (mechLess (fun _ _ => CmpRes.negZero)) [some 1, some 2] = [some 1, some 2]) := by
  decide

/-! ## `_defineOwnProperty` (fixed code, d72dab1) refines ValidateAndApplyPropertyDescriptor -/

/-- representation invariant of a `valueProperty`: an accessor carries no value and no
`writable`; a data property carries no accessor functions. Established by `mechDefine` and kept
by every array operation. -/
def VProp.WF (p : VProp) : Prop :=
  (p.accessor = true → p.writable = false ∧ p.value = 0) ∧
  (p.accessor = false → p.getter = none ∧ p.setter = none)

def Elem.WF : Elem → Prop
  | .plain _ => True
  | .prop p => p.WF

/-- ToPropertyDescriptor never yields a descriptor with both data and accessor fields. -/
def Desc.Valid (d : Desc) : Prop := ¬ (d.isData = true ∧ d.isAccessor = true)

theorem mechDefine_refines_fresh (d : Desc) (ext : Bool) (hd : d.Valid) :
    (mechDefine none d ext).map Elem.abs = specDefine none d ext := by
  obtain ⟨v, w, e, c, g, s⟩ := d
  have hd' : (v = none ∧ w = none) ∨ (g = none ∧ s = none) := by
    rcases v with _ | v <;> rcases w with _ | w <;> rcases g with _ | g <;> rcases s with _ | s <;>
      simp_all [Desc.Valid, Desc.isData, Desc.isAccessor]
  cases ext
  · rfl
  · rcases hd' with ⟨rfl, rfl⟩ | ⟨rfl, rfl⟩
    · rcases e with _ | (_|_) <;> rcases c with _ | (_|_) <;> rcases g with _ | g <;> rcases s with _ | s <;>
        first
          | rfl
          | (simp [mechDefine, mechReject, mechApply, specDefine, Elem.abs, Elem.toVProp, flagIs, Desc.isData, Desc.isAccessor, SProp.configurable, SProp.enumerable] <;> (try split) <;> simp_all [Elem.abs])
    · rcases v with _ | v <;> rcases w with _ | (_|_) <;> rcases e with _ | (_|_) <;> rcases c with _ | (_|_) <;>
        first
          | rfl
          | (simp [mechDefine, mechReject, mechApply, specDefine, Elem.abs, Elem.toVProp, flagIs, Desc.isData, Desc.isAccessor, SProp.configurable, SProp.enumerable] <;> (try split) <;> simp_all [Elem.abs])

private theorem md_plain (pv : Val) (d : Desc) (ext : Bool) (hd : d.Valid) :
    (mechDefine (some (.plain pv)) d ext).map Elem.abs = specDefine (some (.plain pv : Elem).abs) d ext := by
  obtain ⟨v, w, e, c, g, s⟩ := d
  have hd' : (v = none ∧ w = none) ∨ (g = none ∧ s = none) := by
    rcases v with _ | v <;> rcases w with _ | w <;> rcases g with _ | g <;> rcases s with _ | s <;>
      simp_all [Desc.Valid, Desc.isData, Desc.isAccessor]
  rcases hd' with ⟨rfl, rfl⟩ | ⟨rfl, rfl⟩
  · rcases e with _ | (_|_) <;> rcases c with _ | (_|_) <;> rcases g with _ | g <;> rcases s with _ | s <;>
      first
        | rfl
        | (simp [mechDefine, mechReject, mechApply, specDefine, Elem.abs, Elem.toVProp, flagIs, Desc.isData, Desc.isAccessor, SProp.configurable, SProp.enumerable] <;> (try split) <;> simp_all [Elem.abs])
  · rcases v with _ | v <;> rcases w with _ | (_|_) <;> rcases e with _ | (_|_) <;> rcases c with _ | (_|_) <;>
      first
        | rfl
        | (simp [mechDefine, mechReject, mechApply, specDefine, Elem.abs, Elem.toVProp, flagIs, Desc.isData, Desc.isAccessor, SProp.configurable, SProp.enumerable] <;> (try split) <;> simp_all [Elem.abs])

private theorem md_data_conf (pv : Val) (bw be : Bool) (d : Desc) (ext : Bool) (hd : d.Valid) :
    (mechDefine (some (.prop ⟨pv, bw, be, true, false, none, none⟩)) d ext).map Elem.abs = specDefine (some (.prop ⟨pv, bw, be, true, false, none, none⟩ : Elem).abs) d ext := by
  obtain ⟨v, w, e, c, g, s⟩ := d
  have hd' : (v = none ∧ w = none) ∨ (g = none ∧ s = none) := by
    rcases v with _ | v <;> rcases w with _ | w <;> rcases g with _ | g <;> rcases s with _ | s <;>
      simp_all [Desc.Valid, Desc.isData, Desc.isAccessor]
  rcases hd' with ⟨rfl, rfl⟩ | ⟨rfl, rfl⟩
  · rcases e with _ | (_|_) <;> rcases c with _ | (_|_) <;> rcases g with _ | g <;> rcases s with _ | s <;>
      first
        | rfl
        | (simp [mechDefine, mechReject, mechApply, specDefine, Elem.abs, Elem.toVProp, flagIs, Desc.isData, Desc.isAccessor, SProp.configurable, SProp.enumerable] <;> (try split) <;> simp_all [Elem.abs])
  · rcases v with _ | v <;> rcases w with _ | (_|_) <;> rcases e with _ | (_|_) <;> rcases c with _ | (_|_) <;>
      first
        | rfl
        | (simp [mechDefine, mechReject, mechApply, specDefine, Elem.abs, Elem.toVProp, flagIs, Desc.isData, Desc.isAccessor, SProp.configurable, SProp.enumerable] <;> (try split) <;> simp_all [Elem.abs])

private theorem md_data_nc_true_true (pv : Val) (d : Desc) (ext : Bool) (hd : d.Valid) :
    (mechDefine (some (.prop ⟨pv, true, true, false, false, none, none⟩)) d ext).map Elem.abs = specDefine (some (.prop ⟨pv, true, true, false, false, none, none⟩ : Elem).abs) d ext := by
  obtain ⟨v, w, e, c, g, s⟩ := d
  have hd' : (v = none ∧ w = none) ∨ (g = none ∧ s = none) := by
    rcases v with _ | v <;> rcases w with _ | w <;> rcases g with _ | g <;> rcases s with _ | s <;>
      simp_all [Desc.Valid, Desc.isData, Desc.isAccessor]
  rcases hd' with ⟨rfl, rfl⟩ | ⟨rfl, rfl⟩
  · rcases e with _ | (_|_) <;> rcases c with _ | (_|_) <;> rcases g with _ | g <;> rcases s with _ | s <;>
      first
        | rfl
        | (simp [mechDefine, mechReject, mechApply, specDefine, Elem.abs, Elem.toVProp, flagIs, Desc.isData, Desc.isAccessor, SProp.configurable, SProp.enumerable] <;> (try split) <;> simp_all [Elem.abs])
  · rcases v with _ | v <;> rcases w with _ | (_|_) <;> rcases e with _ | (_|_) <;> rcases c with _ | (_|_) <;>
      first
        | rfl
        | (simp [mechDefine, mechReject, mechApply, specDefine, Elem.abs, Elem.toVProp, flagIs, Desc.isData, Desc.isAccessor, SProp.configurable, SProp.enumerable] <;> (try split) <;> simp_all [Elem.abs])

private theorem md_data_nc_true_false (pv : Val) (d : Desc) (ext : Bool) (hd : d.Valid) :
    (mechDefine (some (.prop ⟨pv, true, false, false, false, none, none⟩)) d ext).map Elem.abs = specDefine (some (.prop ⟨pv, true, false, false, false, none, none⟩ : Elem).abs) d ext := by
  obtain ⟨v, w, e, c, g, s⟩ := d
  have hd' : (v = none ∧ w = none) ∨ (g = none ∧ s = none) := by
    rcases v with _ | v <;> rcases w with _ | w <;> rcases g with _ | g <;> rcases s with _ | s <;>
      simp_all [Desc.Valid, Desc.isData, Desc.isAccessor]
  rcases hd' with ⟨rfl, rfl⟩ | ⟨rfl, rfl⟩
  · rcases e with _ | (_|_) <;> rcases c with _ | (_|_) <;> rcases g with _ | g <;> rcases s with _ | s <;>
      first
        | rfl
        | (simp [mechDefine, mechReject, mechApply, specDefine, Elem.abs, Elem.toVProp, flagIs, Desc.isData, Desc.isAccessor, SProp.configurable, SProp.enumerable] <;> (try split) <;> simp_all [Elem.abs])
  · rcases v with _ | v <;> rcases w with _ | (_|_) <;> rcases e with _ | (_|_) <;> rcases c with _ | (_|_) <;>
      first
        | rfl
        | (simp [mechDefine, mechReject, mechApply, specDefine, Elem.abs, Elem.toVProp, flagIs, Desc.isData, Desc.isAccessor, SProp.configurable, SProp.enumerable] <;> (try split) <;> simp_all [Elem.abs])

private theorem md_data_nc_false_true (pv : Val) (d : Desc) (ext : Bool) (hd : d.Valid) :
    (mechDefine (some (.prop ⟨pv, false, true, false, false, none, none⟩)) d ext).map Elem.abs = specDefine (some (.prop ⟨pv, false, true, false, false, none, none⟩ : Elem).abs) d ext := by
  obtain ⟨v, w, e, c, g, s⟩ := d
  have hd' : (v = none ∧ w = none) ∨ (g = none ∧ s = none) := by
    rcases v with _ | v <;> rcases w with _ | w <;> rcases g with _ | g <;> rcases s with _ | s <;>
      simp_all [Desc.Valid, Desc.isData, Desc.isAccessor]
  rcases hd' with ⟨rfl, rfl⟩ | ⟨rfl, rfl⟩
  · rcases e with _ | (_|_) <;> rcases c with _ | (_|_) <;> rcases g with _ | g <;> rcases s with _ | s <;>
      first
        | rfl
        | (simp [mechDefine, mechReject, mechApply, specDefine, Elem.abs, Elem.toVProp, flagIs, Desc.isData, Desc.isAccessor, SProp.configurable, SProp.enumerable] <;> (try split) <;> simp_all [Elem.abs])
  · rcases v with _ | v <;> rcases w with _ | (_|_) <;> rcases e with _ | (_|_) <;> rcases c with _ | (_|_) <;>
      first
        | rfl
        | (simp [mechDefine, mechReject, mechApply, specDefine, Elem.abs, Elem.toVProp, flagIs, Desc.isData, Desc.isAccessor, SProp.configurable, SProp.enumerable] <;> (try split) <;> simp_all [Elem.abs])

private theorem md_data_nc_false_false (pv : Val) (d : Desc) (ext : Bool) (hd : d.Valid) :
    (mechDefine (some (.prop ⟨pv, false, false, false, false, none, none⟩)) d ext).map Elem.abs = specDefine (some (.prop ⟨pv, false, false, false, false, none, none⟩ : Elem).abs) d ext := by
  obtain ⟨v, w, e, c, g, s⟩ := d
  have hd' : (v = none ∧ w = none) ∨ (g = none ∧ s = none) := by
    rcases v with _ | v <;> rcases w with _ | w <;> rcases g with _ | g <;> rcases s with _ | s <;>
      simp_all [Desc.Valid, Desc.isData, Desc.isAccessor]
  rcases hd' with ⟨rfl, rfl⟩ | ⟨rfl, rfl⟩
  · rcases e with _ | (_|_) <;> rcases c with _ | (_|_) <;> rcases g with _ | g <;> rcases s with _ | s <;>
      first
        | rfl
        | (simp [mechDefine, mechReject, mechApply, specDefine, Elem.abs, Elem.toVProp, flagIs, Desc.isData, Desc.isAccessor, SProp.configurable, SProp.enumerable] <;> (try split) <;> simp_all [Elem.abs])
  · rcases v with _ | v <;> rcases w with _ | (_|_) <;> rcases e with _ | (_|_) <;> rcases c with _ | (_|_) <;>
      first
        | rfl
        | (simp [mechDefine, mechReject, mechApply, specDefine, Elem.abs, Elem.toVProp, flagIs, Desc.isData, Desc.isAccessor, SProp.configurable, SProp.enumerable] <;> (try split) <;> simp_all [Elem.abs])

private theorem md_acc_conf (pg ps : Option Val) (be : Bool) (d : Desc) (ext : Bool) (hd : d.Valid) :
    (mechDefine (some (.prop ⟨0, false, be, true, true, pg, ps⟩)) d ext).map Elem.abs = specDefine (some (.prop ⟨0, false, be, true, true, pg, ps⟩ : Elem).abs) d ext := by
  obtain ⟨v, w, e, c, g, s⟩ := d
  have hd' : (v = none ∧ w = none) ∨ (g = none ∧ s = none) := by
    rcases v with _ | v <;> rcases w with _ | w <;> rcases g with _ | g <;> rcases s with _ | s <;>
      simp_all [Desc.Valid, Desc.isData, Desc.isAccessor]
  rcases hd' with ⟨rfl, rfl⟩ | ⟨rfl, rfl⟩
  · rcases e with _ | (_|_) <;> rcases c with _ | (_|_) <;> rcases g with _ | g <;> rcases s with _ | s <;>
      first
        | rfl
        | (simp [mechDefine, mechReject, mechApply, specDefine, Elem.abs, Elem.toVProp, flagIs, Desc.isData, Desc.isAccessor, SProp.configurable, SProp.enumerable] <;> (try split) <;> simp_all [Elem.abs])
  · rcases v with _ | v <;> rcases w with _ | (_|_) <;> rcases e with _ | (_|_) <;> rcases c with _ | (_|_) <;>
      first
        | rfl
        | (simp [mechDefine, mechReject, mechApply, specDefine, Elem.abs, Elem.toVProp, flagIs, Desc.isData, Desc.isAccessor, SProp.configurable, SProp.enumerable] <;> (try split) <;> simp_all [Elem.abs])

private theorem md_acc_nc_true (pg ps : Option Val) (d : Desc) (ext : Bool) (hd : d.Valid) :
    (mechDefine (some (.prop ⟨0, false, true, false, true, pg, ps⟩)) d ext).map Elem.abs = specDefine (some (.prop ⟨0, false, true, false, true, pg, ps⟩ : Elem).abs) d ext := by
  obtain ⟨v, w, e, c, g, s⟩ := d
  have hd' : (v = none ∧ w = none) ∨ (g = none ∧ s = none) := by
    rcases v with _ | v <;> rcases w with _ | w <;> rcases g with _ | g <;> rcases s with _ | s <;>
      simp_all [Desc.Valid, Desc.isData, Desc.isAccessor]
  rcases hd' with ⟨rfl, rfl⟩ | ⟨rfl, rfl⟩
  · rcases e with _ | (_|_) <;> rcases c with _ | (_|_) <;> rcases g with _ | g <;> rcases s with _ | s <;>
      first
        | rfl
        | (simp [mechDefine, mechReject, mechApply, specDefine, Elem.abs, Elem.toVProp, flagIs, Desc.isData, Desc.isAccessor, SProp.configurable, SProp.enumerable] <;> (try split) <;> simp_all [Elem.abs])
  · rcases v with _ | v <;> rcases w with _ | (_|_) <;> rcases e with _ | (_|_) <;> rcases c with _ | (_|_) <;>
      first
        | rfl
        | (simp [mechDefine, mechReject, mechApply, specDefine, Elem.abs, Elem.toVProp, flagIs, Desc.isData, Desc.isAccessor, SProp.configurable, SProp.enumerable] <;> (try split) <;> simp_all [Elem.abs])

private theorem md_acc_nc_false (pg ps : Option Val) (d : Desc) (ext : Bool) (hd : d.Valid) :
    (mechDefine (some (.prop ⟨0, false, false, false, true, pg, ps⟩)) d ext).map Elem.abs = specDefine (some (.prop ⟨0, false, false, false, true, pg, ps⟩ : Elem).abs) d ext := by
  obtain ⟨v, w, e, c, g, s⟩ := d
  have hd' : (v = none ∧ w = none) ∨ (g = none ∧ s = none) := by
    rcases v with _ | v <;> rcases w with _ | w <;> rcases g with _ | g <;> rcases s with _ | s <;>
      simp_all [Desc.Valid, Desc.isData, Desc.isAccessor]
  rcases hd' with ⟨rfl, rfl⟩ | ⟨rfl, rfl⟩
  · rcases e with _ | (_|_) <;> rcases c with _ | (_|_) <;> rcases g with _ | g <;> rcases s with _ | s <;>
      first
        | rfl
        | (simp [mechDefine, mechReject, mechApply, specDefine, Elem.abs, Elem.toVProp, flagIs, Desc.isData, Desc.isAccessor, SProp.configurable, SProp.enumerable] <;> (try split) <;> simp_all [Elem.abs])
  · rcases v with _ | v <;> rcases w with _ | (_|_) <;> rcases e with _ | (_|_) <;> rcases c with _ | (_|_) <;>
      first
        | rfl
        | (simp [mechDefine, mechReject, mechApply, specDefine, Elem.abs, Elem.toVProp, flagIs, Desc.isData, Desc.isAccessor, SProp.configurable, SProp.enumerable] <;> (try split) <;> simp_all [Elem.abs])

/-- `_defineOwnProperty` (object.go:650, after d72dab1) refines ValidateAndApplyPropertyDescriptor
for every well-formed existing element, every valid descriptor and both extensibility values. -/
theorem mechDefine_refines (e : Option Elem) (d : Desc) (ext : Bool) (hwf : ∀ x, e = some x → x.WF) (hd : d.Valid) :
    (mechDefine e d ext).map Elem.abs = specDefine (e.map Elem.abs) d ext := by
  cases e with
  | none => exact mechDefine_refines_fresh d ext hd
  | some x =>
    have hx := hwf x rfl
    cases x with
    | plain pv => exact md_plain pv d ext hd
    | prop p =>
      obtain ⟨pv, bw, be, bc, ba, pg, ps⟩ := p
      obtain ⟨h1, h2⟩ := hx
      cases ba
      · obtain ⟨rfl, rfl⟩ := h2 rfl
        cases bc
        · cases bw <;> cases be
          · exact md_data_nc_false_false pv d ext hd
          · exact md_data_nc_false_true pv d ext hd
          · exact md_data_nc_true_false pv d ext hd
          · exact md_data_nc_true_true pv d ext hd
        · exact md_data_conf pv bw be d ext hd
      · obtain ⟨rfl, rfl⟩ := h1 rfl
        cases bc
        · cases be
          · exact md_acc_nc_false pg ps d ext hd
          · exact md_acc_nc_true pg ps d ext hd
        · exact md_acc_conf pg ps be d ext hd

private theorem ma_data (pv : Val) (bw be bc : Bool) (d : Desc) (hd : d.Valid) :
    (mechApply ⟨pv, bw, be, bc, false, none, none⟩ d).WF := by
  obtain ⟨v, w, e, c, g, s⟩ := d
  have hd' : (v = none ∧ w = none) ∨ (g = none ∧ s = none) := by
    rcases v with _ | v <;> rcases w with _ | w <;> rcases g with _ | g <;> rcases s with _ | s <;>
      simp_all [Desc.Valid, Desc.isData, Desc.isAccessor]
  rcases hd' with ⟨rfl, rfl⟩ | ⟨rfl, rfl⟩
  · rcases e with _ | (_|_) <;> rcases c with _ | (_|_) <;> rcases g with _ | g <;> rcases s with _ | s <;>
      first
        | trivial
        | (simp [mechApply, flagIs, Desc.isData, Desc.isAccessor, Elem.WF, VProp.WF])
  · rcases v with _ | v <;> rcases w with _ | (_|_) <;> rcases e with _ | (_|_) <;> rcases c with _ | (_|_) <;>
      first
        | trivial
        | (simp [mechApply, flagIs, Desc.isData, Desc.isAccessor, Elem.WF, VProp.WF])

private theorem ma_acc (pg ps : Option Val) (be bc : Bool) (d : Desc) (hd : d.Valid) :
    (mechApply ⟨0, false, be, bc, true, pg, ps⟩ d).WF := by
  obtain ⟨v, w, e, c, g, s⟩ := d
  have hd' : (v = none ∧ w = none) ∨ (g = none ∧ s = none) := by
    rcases v with _ | v <;> rcases w with _ | w <;> rcases g with _ | g <;> rcases s with _ | s <;>
      simp_all [Desc.Valid, Desc.isData, Desc.isAccessor]
  rcases hd' with ⟨rfl, rfl⟩ | ⟨rfl, rfl⟩
  · rcases e with _ | (_|_) <;> rcases c with _ | (_|_) <;> rcases g with _ | g <;> rcases s with _ | s <;>
      first
        | trivial
        | (simp [mechApply, flagIs, Desc.isData, Desc.isAccessor, Elem.WF, VProp.WF])
  · rcases v with _ | v <;> rcases w with _ | (_|_) <;> rcases e with _ | (_|_) <;> rcases c with _ | (_|_) <;>
      first
        | trivial
        | (simp [mechApply, flagIs, Desc.isData, Desc.isAccessor, Elem.WF, VProp.WF])

private theorem mechApply_wf (ex : VProp) (d : Desc) (hex : ex.WF) (hd : d.Valid) : (mechApply ex d).WF := by
  obtain ⟨pv, bw, be, bc, ba, pg, ps⟩ := ex
  obtain ⟨h1, h2⟩ := hex
  cases ba
  · obtain ⟨rfl, rfl⟩ := h2 rfl
    exact ma_data pv bw be bc d hd
  · obtain ⟨rfl, rfl⟩ := h1 rfl
    exact ma_acc pg ps be bc d hd

/-- `_defineOwnProperty` keeps elements well-formed (so the hypothesis of `mechDefine_refines`
holds along every history that starts from well-formed elements). -/
theorem mechDefine_wf (e : Option Elem) (d : Desc) (ext : Bool) (hwf : ∀ x, e = some x → x.WF) (hd : d.Valid)
    (y : Elem) (hy : mechDefine e d ext = some y) : y.WF := by
  cases e with
  | none =>
    simp only [mechDefine] at hy
    split at hy
    · cases hy
    · cases hy
      exact mechApply_wf _ d ⟨fun h => (by simp at h), fun _ => ⟨rfl, rfl⟩⟩ hd
  | some x =>
    simp only [mechDefine] at hy
    split at hy
    · cases hy
    · cases hy
      refine mechApply_wf _ d ?_ hd
      cases x with
      | plain pv => exact ⟨fun h => Bool.noConfusion h, fun _ => ⟨rfl, rfl⟩⟩
      | prop p => exact hwf _ rfl

/-! ## Non-vacuity (tests on literals, not theorems about all states) -/

example : (Store.empty).Inv := ⟨Nat.le_refl _, rfl, Nat.le_refl _⟩

example : (Sparse.mk [(2, .plain 7), (5000, .prop default)] 5001 1 true true).Inv :=
  ⟨⟨Nat.zero_le _, ⟨by decide, trivial⟩⟩, by intro p hp; simp at hp; rcases hp with h | h <;> simp [h], by decide⟩

end GojaModel.C07
