/-
  C07 property theorems, part 5: the binary search `findIdx` (Go `sort.Search`) that the sparse
  storage uses equals the linear "first position with key ≥ idx" that the model's item operations
  are written with — on every sorted item list (which `Inv` guarantees).
-/
import GojaModel.C07.Lemmas

namespace GojaModel.C07

/-- `sort.Search` on a predicate that is monotone on `[0, n)` returns the boundary: everything
below the result is false, everything from the result up to `n` is true. -/
theorem searchLoop_spec (f : Nat → Bool) (n : Nat) (hmono : ∀ a b, a ≤ b → b < n → f a = true → f b = true) :
    ∀ fuel i j, i ≤ j → j ≤ n → j - i ≤ fuel → (∀ m, m < i → f m = false) → (∀ m, j ≤ m → m < n → f m = true) →
      let r := searchLoop f fuel i j
      r ≤ n ∧ (∀ m, m < r → f m = false) ∧ (∀ m, r ≤ m → m < n → f m = true) := by
  intro fuel
  induction fuel with
  | zero =>
    intro i j hij hjn hf hlo hhi
    have : i = j := by omega
    subst this
    exact ⟨hjn, hlo, hhi⟩
  | succ fuel ih =>
    intro i j hij hjn hf hlo hhi
    simp only [searchLoop]
    by_cases hlt : i < j
    · simp only [hlt, if_true]
      have hh1 : i ≤ (i + j) / 2 := by omega
      have hh2 : (i + j) / 2 < j := by omega
      cases hfh : f ((i + j) / 2)
      · simp only [Bool.not_false, if_true]
        apply ih ((i + j) / 2 + 1) j (by omega) hjn (by omega)
        · intro m hm
          by_cases hm2 : m < i
          · exact hlo m hm2
          · -- i ≤ m ≤ h and f h = false ⇒ f m = false (monotone)
            cases hfm : f m
            · rfl
            · have := hmono m ((i + j) / 2) (by omega) (by omega) hfm
              rw [hfh] at this; cases this
        · exact hhi
      · simp only [Bool.not_true, Bool.false_eq_true, if_false]
        apply ih i ((i + j) / 2) hh1 (by omega) (by omega) hlo
        intro m hm1 hm2
        by_cases hm3 : j ≤ m
        · exact hhi m hm3 hm2
        · exact hmono ((i + j) / 2) m hm1 hm2 hfh
    · have : i = j := by omega
      subst this
      simp only [hlt, if_false]
      exact ⟨hjn, hlo, hhi⟩

private theorem sPos_le (l : Items) (idx : Nat) : sPos l idx ≤ l.length := by
  induction l with
  | nil => exact Nat.le_refl _
  | cons p t ih => obtain ⟨k, x⟩ := p; simp only [sPos]; split <;> simp <;> omega

/-- characterisation of the linear position on a sorted list. -/
private theorem sPos_spec {lo : Nat} {l : Items} (hs : SortedFrom lo l) (idx : Nat) :
    (∀ m (hm : m < sPos l idx), (l[m]'(by have := sPos_le l idx; omega)).1 < idx) ∧
    (∀ m (hm : m < l.length), sPos l idx ≤ m → idx ≤ (l[m]).1) := by
  induction l generalizing lo with
  | nil => exact ⟨fun m hm => by simp [sPos] at hm, fun m hm => by simp at hm⟩
  | cons p t ih =>
    obtain ⟨k, x⟩ := p
    obtain ⟨i1, i2⟩ := ih hs.2
    simp only [sPos]
    by_cases hk : k < idx
    · simp only [hk, if_true]
      constructor
      · intro m hm
        cases m with
        | zero => exact hk
        | succ m => exact i1 m (by omega)
      · intro m hm hle
        cases m with
        | zero => omega
        | succ m => exact i2 m (by simpa using hm) (by omega)
    · simp only [hk, if_false]
      constructor
      · intro m hm; omega
      · intro m hm _
        cases m with
        | zero => simp; omega
        | succ m =>
          -- keys after the head are larger than the head
          have hm' : m < t.length := by simpa using hm
          have hmem : t[m] ∈ t := List.getElem_mem hm'
          have : k + 1 ≤ (t[m]).1 := by
            have hmono : ∀ {lo : Nat} {l : Items}, SortedFrom lo l → ∀ q ∈ l, lo ≤ q.1 := by
              intro lo l hsl
              induction l generalizing lo with
              | nil => intro q hq; cases hq
              | cons r u ihu =>
                obtain ⟨kr, xr⟩ := r
                intro q hq
                rcases List.mem_cons.mp hq with rfl | hq
                · exact hsl.1
                · have := ihu hsl.2 q hq; have := hsl.1; omega
            exact hmono hs.2 _ hmem
          simp only [List.getElem_cons_succ]; omega

/-- **`findIdx` (binary search) = linear first-≥ position** on every sorted item list. -/
theorem findIdx_eq_sPos {lo : Nat} (l : Items) (hs : SortedFrom lo l) (idx : Nat) : findIdx l idx = sPos l idx := by
  obtain ⟨p1, p2⟩ := sPos_spec hs idx
  have hple := sPos_le l idx
  let f : Nat → Bool := fun i => match l[i]? with | some p => decide (p.1 ≥ idx) | none => true
  have hf_lt : ∀ m, m < sPos l idx → f m = false := by
    intro m hm
    have hml : m < l.length := by omega
    simp only [f, List.getElem?_eq_getElem hml]
    have := p1 m hm
    simp; omega
  have hf_ge : ∀ m, sPos l idx ≤ m → m < l.length → f m = true := by
    intro m hm hml
    simp only [f, List.getElem?_eq_getElem hml]
    have := p2 m hml hm
    simp; omega
  have hmono : ∀ a b, a ≤ b → b < l.length → f a = true → f b = true := by
    intro a b hab hb hfa
    by_cases ha : a < sPos l idx
    · rw [hf_lt a ha] at hfa; cases hfa
    · exact hf_ge b (by omega) hb
  obtain ⟨r1, r2, r3⟩ := searchLoop_spec f l.length hmono l.length 0 l.length (Nat.zero_le _) (Nat.le_refl _)
    (by omega) (fun m hm => by omega) (fun m hm1 hm2 => by omega)
  show searchLoop f l.length 0 l.length = sPos l idx
  -- both are the boundary of the same monotone predicate
  rcases Nat.lt_trichotomy (searchLoop f l.length 0 l.length) (sPos l idx) with hlt | heq | hgt
  · have h1 := hf_lt _ hlt
    have h2 := r3 _ (Nat.le_refl _) (by omega)
    rw [h1] at h2; cases h2
  · exact heq
  · have h1 := r2 _ hgt
    have h2 := hf_ge (sPos l idx) (Nat.le_refl _) (by omega)
    rw [h1] at h2; cases h2

/-! the item operations of the model, written with the linear position, are the positional
operations of array_sparse.go at `i = findIdx(idx)` -/

theorem sFind_pos (l : Items) (idx : Nat) :
    sFind l idx = match l[sPos l idx]? with
      | some p => if p.1 = idx then some p.2 else none
      | none => none := by
  induction l with
  | nil => rfl
  | cons p t ih =>
    obtain ⟨k, x⟩ := p
    simp only [sFind, sPos]
    by_cases hk : k < idx
    · simp only [hk, if_true, List.getElem?_cons_succ]; exact ih
    · simp only [hk, if_false, List.getElem?_cons_zero]

theorem sTake_pos (l : Items) (n : Nat) : sTake l n = l.take (sPos l n) := by
  induction l with
  | nil => rfl
  | cons p t ih =>
    obtain ⟨k, x⟩ := p
    simp only [sTake, sPos]
    by_cases hk : k < n
    · simp only [hk, if_true, List.take_succ_cons, ih]
    · simp only [hk, if_false, List.take_zero]

theorem sIns_pos (l : Items) (idx : Nat) (e : Elem) :
    sIns l idx e = l.take (sPos l idx) ++ (idx, e) :: l.drop (sPos l idx) := by
  induction l with
  | nil => rfl
  | cons p t ih =>
    obtain ⟨k, x⟩ := p
    simp only [sIns, sPos]
    by_cases hk : k < idx
    · simp only [hk, if_true, List.take_succ_cons, List.drop_succ_cons, ih, List.cons_append]
    · simp only [hk, if_false, List.take_zero, List.drop_zero, List.nil_append]

theorem sDel_pos (l : Items) (idx : Nat) : sDel l idx = l.eraseIdx (sPos l idx) := by
  induction l with
  | nil => rfl
  | cons p t ih =>
    obtain ⟨k, x⟩ := p
    simp only [sDel, sPos]
    by_cases hk : k < idx
    · simp only [hk, if_true, List.eraseIdx_cons_succ, ih]
    · simp only [hk, if_false, List.eraseIdx_cons_zero]

theorem sSetAt_pos (l : Items) (idx : Nat) (e : Elem) :
    sSetAt l idx e = match l[sPos l idx]? with
      | some p => l.set (sPos l idx) (p.1, e)
      | none => l := by
  induction l with
  | nil => rfl
  | cons p t ih =>
    obtain ⟨k, x⟩ := p
    simp only [sSetAt, sPos]
    by_cases hk : k < idx
    · simp only [hk, if_true, List.getElem?_cons_succ, ih]
      cases t[sPos t idx]? <;> simp
    · simp only [hk, if_false, List.getElem?_cons_zero, List.set_cons_zero]

/-- `_getIdx` (array_sparse.go:88) exactly as written — binary search, then the key test — is the
model's `sFind` on every sorted item list. -/
theorem getIdx_binsearch_eq_sFind {lo : Nat} (l : Items) (hs : SortedFrom lo l) (idx : Nat) :
    (match l[findIdx l idx]? with
      | some p => if p.1 = idx then some p.2 else none
      | none => none) = sFind l idx := by
  rw [findIdx_eq_sPos l hs idx, sFind_pos]

end GojaModel.C07
