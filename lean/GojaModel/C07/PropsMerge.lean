/-
  C07 property theorems, part 7: the merge phase of `sort.Stable`.  For every consistent comparator
  the stable merge of two sorted runs is sorted and keeps every equivalence class in order; hence the
  whole block algorithm (insertion-sorted blocks of any size + merge passes) is a sorted, stable
  permutation of its input.
-/
import GojaModel.C07.PropsElem

namespace GojaModel.C07

section MergeSec
variable {α : Type}

/-- `earlier` never loses against `later`. -/
def SortedBy (less : α → α → Bool) (l : List α) : Prop := l.Pairwise (fun earlier later => less later earlier = false)

private theorem merge_mem (less : α → α → Bool) (l r : List α) (z : α) (h : z ∈ merge less l r) : z ∈ l ∨ z ∈ r := by
  have := (merge_perm less l r).mem_iff (a := z)
  rw [this] at h
  exact List.mem_append.mp h

/-- merging two sorted runs gives a sorted run. -/
theorem merge_sorted (less : α → α → Bool) (hc : Consistent less) (l r : List α)
    (hl : SortedBy less l) (hr : SortedBy less r) : SortedBy less (merge less l r) := by
  fun_induction merge less l r with
  | case1 r => exact hr
  | case2 l hne => exact hl
  | case3 x l y r hlt ih =>
    -- y goes first: it loses against nothing that follows
    have hl' := List.pairwise_cons.mp hl
    have hr' := List.pairwise_cons.mp hr
    refine List.Pairwise.cons ?_ (ih hl hr'.2)
    intro z hz
    rcases merge_mem less (x :: l) r z hz with hz | hz
    · rcases List.mem_cons.mp hz with rfl | hz
      · exact hc.asymm _ _ hlt
      · exact hc.negTrans z x y (hl'.1 z hz) (hc.asymm _ _ hlt)
    · exact hr'.1 z hz
  | case4 x l y r hlt ih =>
    have hl' := List.pairwise_cons.mp hl
    have hr' := List.pairwise_cons.mp hr
    have hyx : less y x = false := by simpa using hlt
    refine List.Pairwise.cons ?_ (ih hl'.2 hr)
    intro z hz
    rcases merge_mem less l (y :: r) z hz with hz | hz
    · exact hl'.1 z hz
    · rcases List.mem_cons.mp hz with rfl | hz
      · exact hyx
      · exact hc.negTrans z y x (hr'.1 z hz) hyx

/-- merging is stable: every class `p` of mutually non-less elements appears as "left run's members,
then right run's members", each in their order. -/
theorem merge_stable (less : α → α → Bool) (hc : Consistent less) (p : α → Bool)
    (hp : ∀ a b, p a = true → p b = true → less a b = false) (l r : List α) (hl : SortedBy less l) :
    (merge less l r).filter p = l.filter p ++ r.filter p := by
  fun_induction merge less l r with
  | case1 r => simp
  | case2 l hne => simp
  | case3 x l y r hlt ih =>
    have hl' := List.pairwise_cons.mp hl
    rw [List.filter_cons, ih hl]
    cases hpy : p y
    · simp [List.filter_cons, hpy]
    · -- nothing of the left run is in y's class: y is less than x, and x never loses against the rest of l
      have hnone : (x :: l).filter p = [] := by
        apply List.filter_eq_nil_iff.mpr
        intro z hz hpz
        rcases List.mem_cons.mp hz with rfl | hz
        · have := hp y z hpy hpz; rw [this] at hlt; cases hlt
        · have h1 := hp y z hpy hpz
          have h2 := hc.negTrans y z x h1 (hl'.1 z hz)
          rw [h2] at hlt; cases hlt
      simp [hnone, List.filter_cons, hpy]
  | case4 x l y r hlt ih =>
    have hl' := List.pairwise_cons.mp hl
    rw [List.filter_cons, ih hl'.2]
    simp only [List.filter_cons]
    split <;> simp

/-! ### merge passes over blocks -/

private theorem mergePass_props (less : α → α → Bool) (hc : Consistent less) (p : α → Bool)
    (hp : ∀ a b, p a = true → p b = true → less a b = false) (cs : List (List α)) (hs : ∀ c ∈ cs, SortedBy less c) :
    (∀ c ∈ mergePass less cs, SortedBy less c) ∧
    (mergePass less cs).flatten.filter p = cs.flatten.filter p ∧
    (mergePass less cs).flatten.Perm cs.flatten ∧
    ((mergePass less cs).length ≤ cs.length ∧ (2 ≤ cs.length → (mergePass less cs).length < cs.length)) := by
  fun_induction mergePass less cs with
  | case1 a b rest ih =>
    obtain ⟨i1, i2, i3, i4⟩ := ih (fun c hc' => hs c (by simp [hc']))
    have ha := hs a (by simp)
    have hb := hs b (by simp)
    refine ⟨?_, ?_, ?_, ?_⟩
    · intro c hc'
      rcases List.mem_cons.mp hc' with rfl | hc'
      · exact merge_sorted less hc a b ha hb
      · exact i1 c hc'
    · simp only [List.flatten_cons, List.filter_append, merge_stable less hc p hp a b ha, i2, List.append_assoc]
    · simp only [List.flatten_cons]
      exact ((merge_perm less a b).append i3).trans (by rw [List.append_assoc])
    · have h1 := i4.1
      constructor
      · show (mergePass less rest).length + 1 ≤ rest.length + 1 + 1; omega
      · intro _; show (mergePass less rest).length + 1 < rest.length + 1 + 1; omega
  | case2 l hne =>
    refine ⟨hs, rfl, List.Perm.refl _, Nat.le_refl _, ?_⟩
    intro h2
    cases l with
    | nil => simp at h2
    | cons a t =>
      cases t with
      | nil => simp at h2
      | cons b t' => exact absurd rfl (hne a b t')

private theorem mergeAll_props (less : α → α → Bool) (hc : Consistent less) (p : α → Bool)
    (hp : ∀ a b, p a = true → p b = true → less a b = false) (fuel : Nat) :
    ∀ (cs : List (List α)), (∀ c ∈ cs, SortedBy less c) → cs.length ≤ fuel + 1 →
      SortedBy less (mergeAll less fuel cs) ∧ (mergeAll less fuel cs).filter p = cs.flatten.filter p ∧
      (mergeAll less fuel cs).Perm cs.flatten := by
  induction fuel with
  | zero =>
    intro cs hs hlen
    unfold mergeAll
    refine ⟨?_, rfl, List.Perm.refl _⟩
    cases cs with
    | nil => exact List.Pairwise.nil
    | cons a t =>
      cases t with
      | nil => simpa using hs a (by simp)
      | cons b t' => simp at hlen
  | succ fuel ih =>
    intro cs hs hlen
    unfold mergeAll
    split
    · next h1 =>
      refine ⟨?_, rfl, List.Perm.refl _⟩
      cases cs with
      | nil => exact List.Pairwise.nil
      | cons a t =>
        cases t with
        | nil => simpa using hs a (by simp)
        | cons b t' => simp at h1
    · next h1 =>
      obtain ⟨m1, m2, m3, m4⟩ := mergePass_props less hc p hp cs hs
      obtain ⟨r1, r2, r3⟩ := ih (mergePass less cs) m1 (by have := m4.2 (by omega); omega)
      exact ⟨r1, r2.trans m2, r3.trans m3⟩

private theorem filter_flatten_map (p : α → Bool) (f : List α → List α) (hf : ∀ c, (f c).filter p = c.filter p)
    (cs : List (List α)) : (cs.map f).flatten.filter p = cs.flatten.filter p := by
  induction cs with
  | nil => rfl
  | cons c t ih => simp only [List.map_cons, List.flatten_cons, List.filter_append, hf, ih]

private theorem perm_flatten_map (f : List α → List α) (hf : ∀ c, (f c).Perm c) (cs : List (List α)) :
    (cs.map f).flatten.Perm cs.flatten := by
  induction cs with
  | nil => exact List.Perm.refl _
  | cons c t ih => simp only [List.map_cons, List.flatten_cons]; exact (hf c).append ih

/-- **`sort.Stable` as a whole** (insertion-sorted blocks of any sizes, then merge passes until one block
is left): for every consistent comparator the result is sorted, a permutation of the input, and every
class of mutually non-less elements keeps its input order. -/
theorem stableSort_sorted_stable_perm (less : α → α → Bool) (hc : Consistent less) (p : α → Bool)
    (hp : ∀ a b, p a = true → p b = true → less a b = false) (blocks : List (List α)) :
    SortedBy less (stableSortBlocks less blocks) ∧
    (stableSortBlocks less blocks).filter p = blocks.flatten.filter p ∧
    (stableSortBlocks less blocks).Perm blocks.flatten := by
  unfold stableSortBlocks
  have hs : ∀ c ∈ blocks.map (isort less), SortedBy less c := by
    intro c hc'
    obtain ⟨b, _, rfl⟩ := List.mem_map.mp hc'
    exact sort_sorted less hc b
  obtain ⟨r1, r2, r3⟩ := mergeAll_props less hc p hp blocks.length (blocks.map (isort less)) hs (by simp)
  refine ⟨r1, ?_, ?_⟩
  · rw [r2]; exact filter_flatten_map p (isort less) (fun c => sort_stable less p hp c) blocks
  · exact r3.trans (perm_flatten_map (isort less) (fun c => sort_perm less c) blocks)

/-- for an arbitrary (inconsistent) comparator the block algorithm still loses and duplicates nothing. -/
theorem stableSort_perm_any (less : α → α → Bool) (blocks : List (List α)) :
    (stableSortBlocks less blocks).Perm blocks.flatten := by
  unfold stableSortBlocks
  have hpass : ∀ cs : List (List α), (mergePass less cs).flatten.Perm cs.flatten := by
    intro cs
    fun_induction mergePass less cs with
    | case1 a b rest ih =>
      simp only [List.flatten_cons]
      exact ((merge_perm less a b).append ih).trans (by rw [List.append_assoc])
    | case2 l hne => exact List.Perm.refl _
  have hall : ∀ fuel (cs : List (List α)), (mergeAll less fuel cs).Perm cs.flatten := by
    intro fuel
    induction fuel with
    | zero => intro cs; exact List.Perm.refl _
    | succ fuel ih =>
      intro cs
      simp only [mergeAll]
      split
      · exact List.Perm.refl _
      · exact (ih _).trans (hpass cs)
  exact (hall _ _).trans (perm_flatten_map (isort less) (fun c => sort_perm less c) blocks)

end MergeSec

end GojaModel.C07
