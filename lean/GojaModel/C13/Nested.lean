/-
  C13 — nested wrappers (object_goreflect.go: objectGoReflect.valueCache, _getFieldValue l.247, setReflectValue l.526
  with the repair a40b0ef; object_goarray_reflect.go setReflectValue for array values).

  A wrapper for a struct value hands out wrappers for its container-typed fields and caches them by field name; those
  do the same, to any depth: the wrappers form a TREE (each nested wrapper is created for exactly one cache entry).
  `fld a n` is the address of field `n` inside the struct value at address `a` (reflect's Field(i) of an addressable
  value).  setReflectValue(v) re-points a wrapper to another value — a private copy (copyReflectValueWrapper: detach),
  another slot (sort swap), the same slot in a re-allocated backing array (grow) — and, since a40b0ef, re-points every
  cached nested wrapper to the corresponding field of the new value, recursively.  Core Lean only.
-/
namespace GojaModel.C13

/-- a wrapper with the nested wrappers it has handed out (valueCache: field name ↦ wrapper) -/
inductive WT where
  | node (loc : Nat) (kids : List (Nat × WT))

def WT.loc : WT → Nat
  | .node l _ => l

def WT.kids : WT → List (Nat × WT)
  | .node _ ks => ks

/-- objectGoReflect.setReflectValue as repaired by a40b0ef:
      o.fieldsValue = v; …; for name, w := range o.valueCache { w.setReflectValue(o._getField(name)) } -/
def WT.setRV (fld : Nat → Nat → Nat) : WT → Nat → WT
  | .node _ kids, a => .node a (kids.attach.map (fun (x : { p : Nat × WT // p ∈ kids }) =>
      have : sizeOf x.1.2 < 1 + sizeOf kids := by
        have h1 := List.sizeOf_lt_of_mem x.2
        have h2 : sizeOf x.1 = 1 + sizeOf x.1.1 + sizeOf x.1.2 := by cases x.1; simp
        omega
      (x.1.1, x.1.2.setRV fld (fld a x.1.1))))
termination_by t => sizeOf t
decreasing_by
  simp only [WT.node.sizeOf_spec]
  omega

/-- setReflectValue before a40b0ef: only the wrapper itself moves -/
def WT.setRVShallow : WT → Nat → WT
  | .node _ kids, a => .node a kids

/-- the address of the field reached by the path of field names σ inside the value at address a -/
def pathAddr (fld : Nat → Nat → Nat) (a : Nat) : List Nat → Nat
  | [] => a
  | n :: σ => pathAddr fld (fld a n) σ

/-- the nested wrapper cached under field name n (first binding) -/
def lookupKid : List (Nat × WT) → Nat → Option WT
  | [], _ => none
  | (m, k) :: rest, n => if m = n then some k else lookupKid rest n

/-- the nested wrapper reached by following the caches along σ (`p.In.Deep…`) -/
def WT.sub : WT → List Nat → Option WT
  | t, [] => some t
  | t, n :: σ => match lookupKid t.kids n with
    | some k => k.sub σ
    | none => none

theorem WT.setRV_node (fld : Nat → Nat → Nat) (l : Nat) (kids : List (Nat × WT)) (a : Nat) :
    WT.setRV fld (.node l kids) a = .node a (kids.map (fun p => (p.1, p.2.setRV fld (fld a p.1)))) := by
  rw [WT.setRV]
  congr 1
  exact List.attach_map_val (l := kids) (f := fun p => (p.1, p.2.setRV fld (fld a p.1)))

theorem lookupKid_map (g : Nat → WT → WT) : ∀ (kids : List (Nat × WT)) (n : Nat),
    lookupKid (kids.map (fun p => (p.1, g p.1 p.2))) n = (lookupKid kids n).map (g n)
  | [], _ => rfl
  | (m, k) :: rest, n => by
    simp only [List.map, lookupKid]
    by_cases h : m = n
    · subst h; simp
    · simp [h, lookupKid_map g rest n]

/-- after setReflectValue(a) EVERY nested wrapper, at any depth, refers to the corresponding field of the new value -/
theorem WT.setRV_sub (fld : Nat → Nat → Nat) : ∀ (σ : List Nat) (t : WT) (a : Nat) (k : WT),
    (t.setRV fld a).sub σ = some k → k.loc = pathAddr fld a σ
  | [], t, a, k, h => by
    cases t with
    | node l kids =>
      rw [WT.setRV_node] at h
      simp only [WT.sub, Option.some.injEq] at h
      subst h; rfl
  | n :: σ, t, a, k, h => by
    cases t with
    | node l kids =>
      rw [WT.setRV_node] at h
      simp only [WT.sub, WT.kids] at h
      rw [lookupKid_map (fun m k => k.setRV fld (fld a m))] at h
      cases hk : lookupKid kids n with
      | none => simp [hk] at h
      | some k0 =>
        simp only [hk, Option.map] at h
        exact WT.setRV_sub fld σ k0 (fld a n) k h

/-- …and the tree of handed-out wrappers keeps its shape (no wrapper is lost or invented) -/
theorem WT.setRV_sub_isSome (fld : Nat → Nat → Nat) : ∀ (σ : List Nat) (t : WT) (a : Nat),
    ((t.setRV fld a).sub σ).isSome = (t.sub σ).isSome
  | [], _, _ => rfl
  | n :: σ, t, a => by
    cases t with
    | node l kids =>
      rw [WT.setRV_node]
      simp only [WT.sub, WT.kids]
      rw [lookupKid_map (fun m k => k.setRV fld (fld a m))]
      cases hk : lookupKid kids n with
      | none => simp
      | some k0 => simpa using WT.setRV_sub_isSome fld σ k0 (fld a n)

end GojaModel.C13

namespace GojaModel.C13

/-! ### histories: handing out nested wrappers and re-pointing, in any order -/

/-- replace the (first) cache entry for field n -/
def setKid : List (Nat × WT) → Nat → WT → List (Nat × WT)
  | [], _, _ => []
  | (m, k) :: rest, n, k' => if m = n then (m, k') :: rest else (m, k) :: setKid rest n k'

/-- `_getFieldValue` on the wrapper at path σ for field n: the cached nested wrapper if there is one, otherwise a new
    wrapper for the field's address, entered into that wrapper's valueCache -/
def WT.addKid (fld : Nat → Nat → Nat) : WT → List Nat → Nat → WT
  | .node l kids, [], n =>
    match lookupKid kids n with
    | some _ => .node l kids
    | none => .node l ((n, .node (fld l n) []) :: kids)
  | .node l kids, m :: σ, n =>
    match lookupKid kids m with
    | some k => .node l (setKid kids m (k.addKid fld σ n))
    | none => .node l kids

/-- every handed-out nested wrapper refers to the corresponding field of what the root wrapper refers to -/
def WT.Pointed (fld : Nat → Nat → Nat) (t : WT) : Prop :=
  ∀ σ k, t.sub σ = some k → k.loc = pathAddr fld t.loc σ

theorem WT.addKid_loc (fld : Nat → Nat → Nat) : ∀ (t : WT) (σ : List Nat) (n : Nat), (t.addKid fld σ n).loc = t.loc
  | .node l kids, [], n => by simp only [WT.addKid]; split <;> rfl
  | .node l kids, m :: σ, n => by simp only [WT.addKid]; split <;> rfl

theorem lookupKid_setKid : ∀ (kids : List (Nat × WT)) (m : Nat) (k' : WT) (m' : Nat),
    lookupKid (setKid kids m k') m' =
      if m' = m then (lookupKid kids m).map (fun _ => k') else lookupKid kids m'
  | [], m, k', m' => by simp [setKid, lookupKid]
  | (a, k) :: rest, m, k', m' => by
    simp only [setKid]
    by_cases ham : a = m
    · subst ham
      by_cases h : m' = a
      · subst h; simp [lookupKid]
      · have h' : ¬ a = m' := fun e => h e.symm
        simp [lookupKid, h, h']
    · simp only [ham, if_false, lookupKid]
      by_cases h : a = m'
      · subst h
        have : ¬ a = m := ham
        simp [this]
      · simp only [h, if_false]
        exact lookupKid_setKid rest m k' m'

theorem WT.Pointed_kid {fld : Nat → Nat → Nat} {t : WT} (h : t.Pointed fld) {m : Nat} {k : WT}
    (hk : lookupKid t.kids m = some k) : k.Pointed fld ∧ k.loc = fld t.loc m := by
  have hloc : k.loc = fld t.loc m := by
    have := h [m] k (by simp [WT.sub, hk])
    simpa [pathAddr] using this
  refine ⟨?_, hloc⟩
  intro σ k2 hs
  have := h (m :: σ) k2 (by simp [WT.sub, hk, hs])
  rw [hloc]; simpa [pathAddr] using this

/-- handing out one more nested wrapper anywhere in the tree keeps every nested wrapper pointed at its field -/
theorem WT.addKid_pointed (fld : Nat → Nat → Nat) : ∀ (σ : List Nat) (t : WT) (n : Nat),
    t.Pointed fld → (t.addKid fld σ n).Pointed fld
  | [], .node l kids, n, h => by
    simp only [WT.addKid]
    cases hl : lookupKid kids n with
    | some _ => exact h
    | none =>
      intro τ k hs
      cases τ with
      | nil => simp only [WT.sub, Option.some.injEq] at hs; subst hs; rfl
      | cons m τ' =>
        simp only [WT.sub, WT.kids, lookupKid] at hs
        by_cases hnm : n = m
        · subst hnm
          simp only [if_true] at hs
          cases τ' with
          | nil => simp only [WT.sub, Option.some.injEq] at hs; subst hs; rfl
          | cons a τ'' => simp [WT.sub, WT.kids, lookupKid] at hs
        · simp only [hnm, if_false] at hs
          exact h (m :: τ') k (by simpa [WT.sub, WT.kids] using hs)
  | m :: σ, .node l kids, n, h => by
    simp only [WT.addKid]
    cases hl : lookupKid kids m with
    | none => exact h
    | some k0 =>
      have hk0 := WT.Pointed_kid h (t := .node l kids) (by simpa [WT.kids] using hl)
      have ih := WT.addKid_pointed fld σ k0 n hk0.1
      intro τ k hs
      cases τ with
      | nil => simp only [WT.sub, Option.some.injEq] at hs; subst hs; rfl
      | cons m' τ' =>
        simp only [WT.sub, WT.kids] at hs
        rw [lookupKid_setKid] at hs
        by_cases hmm : m' = m
        · subst hmm
          simp only [if_true, hl, Option.map] at hs
          have := ih τ' k hs
          rw [this, WT.addKid_loc, hk0.2]
          rfl
        · simp only [hmm, if_false] at hs
          exact h (m' :: τ') k (by simpa [WT.sub, WT.kids] using hs)

/-- re-pointing (setReflectValue, repaired) establishes the property whatever the tree looked like before -/
theorem WT.setRV_pointed (fld : Nat → Nat → Nat) (t : WT) (a : Nat) : (t.setRV fld a).Pointed fld := by
  intro σ k hs
  have hl : (t.setRV fld a).loc = a := by cases t; rw [WT.setRV_node]; rfl
  rw [hl]
  exact WT.setRV_sub fld σ t a k hs

/-- operations on one element wrapper and the nested wrappers below it -/
inductive WOp where
  | hand (σ : List Nat) (n : Nat)    -- script: read field n of the (nested) wrapper at path σ
  | repoint (a : Nat)                -- detach (a = address of the fresh copy) / sort swap / re-allocation
deriving Repr

def WT.stepW (fld : Nat → Nat → Nat) (t : WT) : WOp → WT
  | .hand σ n => t.addKid fld σ n
  | .repoint a => t.setRV fld a

def WT.runW (fld : Nat → Nat → Nat) (t : WT) : List WOp → WT
  | [] => t
  | op :: ops => (t.stepW fld op).runW fld ops

theorem WT.runW_pointed (fld : Nat → Nat → Nat) : ∀ (ops : List WOp) (t : WT), t.Pointed fld → (t.runW fld ops).Pointed fld
  | [], _, h => h
  | .hand σ n :: ops, t, h => WT.runW_pointed fld ops _ (WT.addKid_pointed fld σ t n h)
  | .repoint a :: ops, t, _ => WT.runW_pointed fld ops _ (WT.setRV_pointed fld t a)

end GojaModel.C13
