/-
  C13 — nested wrappers (object_goreflect.go: objectGoReflect.valueCache, _getFieldValue l.247, setReflectValue l.526
  with the repair a40b0ef; object_goarray_reflect.go setReflectValue for array values).

  A wrapper for a struct value hands out wrappers for its container-typed fields and caches them by field name; those
  do the same, to any depth: the wrappers form a TREE (each nested wrapper is created for exactly one cache entry).
  `fld a n` is the address of field `n` inside the struct value at address `a` (reflect's Field(i) of an addressable
  value).  setReflectValue(v) re-points a wrapper to another value — a private copy (copyReflectValueWrapper: detach),
  another slot (sort swap), the same slot in a re-allocated backing array (grow) — and, since a40b0ef, re-points every
  cached nested wrapper to the corresponding field of the new value, recursively.  Core Lean only.
-/
namespace GojaModel.C13

/-- a wrapper with the nested wrappers it has handed out (valueCache: field name ↦ wrapper) -/
inductive WT where
  | node (loc : Nat) (kids : List (Nat × WT))

def WT.loc : WT → Nat
  | .node l _ => l

def WT.kids : WT → List (Nat × WT)
  | .node _ ks => ks

/-- objectGoReflect.setReflectValue as repaired by a40b0ef:
      o.fieldsValue = v; …; for name, w := range o.valueCache { w.setReflectValue(o._getField(name)) } -/
def WT.setRV (fld : Nat → Nat → Nat) : WT → Nat → WT
  | .node _ kids, a => .node a (kids.attach.map (fun (x : { p : Nat × WT // p ∈ kids }) =>
      have : sizeOf x.1.2 < 1 + sizeOf kids := by
        have h1 := List.sizeOf_lt_of_mem x.2
        have h2 : sizeOf x.1 = 1 + sizeOf x.1.1 + sizeOf x.1.2 := by cases x.1; simp
        omega
      (x.1.1, x.1.2.setRV fld (fld a x.1.1))))
termination_by t => sizeOf t
decreasing_by
  simp only [WT.node.sizeOf_spec]
  omega

/-- setReflectValue before a40b0ef: only the wrapper itself moves -/
def WT.setRVShallow : WT → Nat → WT
  | .node _ kids, a => .node a kids

/-- the address of the field reached by the path of field names σ inside the value at address a -/
def pathAddr (fld : Nat → Nat → Nat) (a : Nat) : List Nat → Nat
  | [] => a
  | n :: σ => pathAddr fld (fld a n) σ

/-- the nested wrapper cached under field name n (first binding) -/
def lookupKid : List (Nat × WT) → Nat → Option WT
  | [], _ => none
  | (m, k) :: rest, n => if m = n then some k else lookupKid rest n

/-- the nested wrapper reached by following the caches along σ (`p.In.Deep…`) -/
def WT.sub : WT → List Nat → Option WT
  | t, [] => some t
  | t, n :: σ => match lookupKid t.kids n with
    | some k => k.sub σ
    | none => none

theorem WT.setRV_node (fld : Nat → Nat → Nat) (l : Nat) (kids : List (Nat × WT)) (a : Nat) :
    WT.setRV fld (.node l kids) a = .node a (kids.map (fun p => (p.1, p.2.setRV fld (fld a p.1)))) := by
  rw [WT.setRV]
  congr 1
  exact List.attach_map_val (l := kids) (f := fun p => (p.1, p.2.setRV fld (fld a p.1)))

theorem lookupKid_map (g : Nat → WT → WT) : ∀ (kids : List (Nat × WT)) (n : Nat),
    lookupKid (kids.map (fun p => (p.1, g p.1 p.2))) n = (lookupKid kids n).map (g n)
  | [], _ => rfl
  | (m, k) :: rest, n => by
    simp only [List.map, lookupKid]
    by_cases h : m = n
    · subst h; simp
    · simp [h, lookupKid_map g rest n]

/-- after setReflectValue(a) EVERY nested wrapper, at any depth, refers to the corresponding field of the new value -/
theorem WT.setRV_sub (fld : Nat → Nat → Nat) : ∀ (σ : List Nat) (t : WT) (a : Nat) (k : WT),
    (t.setRV fld a).sub σ = some k → k.loc = pathAddr fld a σ
  | [], t, a, k, h => by
    cases t with
    | node l kids =>
      rw [WT.setRV_node] at h
      simp only [WT.sub, Option.some.injEq] at h
      subst h; rfl
  | n :: σ, t, a, k, h => by
    cases t with
    | node l kids =>
      rw [WT.setRV_node] at h
      simp only [WT.sub, WT.kids] at h
      rw [lookupKid_map (fun m k => k.setRV fld (fld a m))] at h
      cases hk : lookupKid kids n with
      | none => simp [hk] at h
      | some k0 =>
        simp only [hk, Option.map] at h
        exact WT.setRV_sub fld σ k0 (fld a n) k h

/-- …and the tree of handed-out wrappers keeps its shape (no wrapper is lost or invented) -/
theorem WT.setRV_sub_isSome (fld : Nat → Nat → Nat) : ∀ (σ : List Nat) (t : WT) (a : Nat),
    ((t.setRV fld a).sub σ).isSome = (t.sub σ).isSome
  | [], _, _ => rfl
  | n :: σ, t, a => by
    cases t with
    | node l kids =>
      rw [WT.setRV_node]
      simp only [WT.sub, WT.kids]
      rw [lookupKid_map (fun m k => k.setRV fld (fld a m))]
      cases hk : lookupKid kids n with
      | none => simp
      | some k0 => simpa using WT.setRV_sub_isSome fld σ k0 (fld a n)

end GojaModel.C13
