/-
  C13 — invariant of the WrapCache mechanism and its preservation by every tracked, in-bounds operation.
-/
import GojaModel.C13.Model

namespace GojaModel.C13

/-- The coherence invariant between `valueCache`, the wrappers and the Go slice header. -/
structure Inv (s : St) : Prop where
  noPanic : s.panic = false
  clen_le : s.clen ≤ s.len
  fresh : ∀ w, s.nw ≤ w → ∃ v, s.ws w = .own v
  cached_attached : ∀ i w, s.cacheGet i = some w → s.ws w = .cell s.cur i
  attached_cached : ∀ w b i, s.ws w = .cell b i → b = s.cur ∧ s.cacheGet i = some w

theorem cacheGet_lt {s : St} {i w : Nat} (h : s.cacheGet i = some w) : i < s.clen := by
  unfold St.cacheGet at h
  split at h
  · assumption
  · cases h

theorem Inv.cached_lt_nw {s : St} (I : Inv s) {i w : Nat} (h : s.cacheGet i = some w) : w < s.nw := by
  have h1 := I.cached_attached i w h
  apply Classical.byContradiction
  intro hn
  have ⟨v, hv⟩ := I.fresh w (by omega)
  rw [hv] at h1
  cases h1

/-- one wrapper per slot -/
theorem Inv.cached_inj {s : St} (I : Inv s) {i j w : Nat} (hi : s.cacheGet i = some w) (hj : s.cacheGet j = some w) :
    i = j := by
  have h1 := I.cached_attached i w hi
  have h2 := I.cached_attached j w hj
  rw [h1] at h2
  cases h2
  rfl

theorem findCached_some {s : St} {w lo hi i : Nat} (h : s.findCached w lo hi = some i) :
    lo ≤ i ∧ i < hi ∧ s.cacheGet i = some w := by
  unfold St.findCached at h
  have hp := List.find?_some h
  have hm := List.mem_of_find?_eq_some h
  simp at hp
  simp at hm
  exact ⟨hp.1, hm, hp.2⟩

theorem findCached_none {s : St} {w lo hi : Nat} (h : s.findCached w lo hi = none) :
    ∀ i, lo ≤ i → i < hi → s.cacheGet i ≠ some w := by
  unfold St.findCached at h
  intro i hlo hhi hc
  have := List.find?_eq_none.mp h i (by simp; exact hhi)
  simp [hlo, hc] at this

theorem cacheGet_cachePut (s : St) (i w j : Nat) :
    (s.cachePut i w).cacheGet j = if j = i then some w else s.cacheGet j := by
  unfold St.cachePut St.cacheGet
  simp only
  by_cases hji : j = i
  · subst hji
    simp
    omega
  · simp only [hji, if_false]
    by_cases hj : j < s.clen
    · have : j < max s.clen (i + 1) := by omega
      simp [this, hj]
    · simp only [hj, if_false]
      split <;> rfl

theorem cacheGet_cacheClear (s : St) (i j : Nat) :
    (s.cacheClear i).cacheGet j = if j = i then none else s.cacheGet j := by
  unfold St.cacheClear St.cacheGet
  simp only
  by_cases hji : j = i
  · simp [hji]
  · simp [hji]

end GojaModel.C13

namespace GojaModel.C13

/-! ### preservation, operation by operation (the Go heap `mem` never matters for `Inv`) -/

theorem inv_of_same {s t : St} (I : Inv s)
    (hp : t.panic = s.panic) (hc : t.clen = s.clen) (hl : s.clen ≤ t.len) (hcur : t.cur = s.cur)
    (hcache : t.cache = s.cache) (hws : t.ws = s.ws) (hnw : t.nw = s.nw) : Inv t := by
  have hget : ∀ i, t.cacheGet i = s.cacheGet i := by
    intro i; unfold St.cacheGet; rw [hc, hcache]
  refine ⟨by rw [hp]; exact I.noPanic, by omega, ?_, ?_, ?_⟩
  · intro w hw; rw [hws]; exact I.fresh w (by omega)
  · intro i w h; rw [hget] at h; rw [hws, hcur]; exact I.cached_attached i w h
  · intro w b i h; rw [hws] at h; rw [hget, hcur]; exact I.attached_cached w b i h

theorem inv_getIdx {s : St} (I : Inv s) (i : Nat) : Inv (s.getIdx i).1 := by
  unfold St.getIdx
  split
  · exact I
  · rename_i hlen
    split
    · exact I
    · rename_i hc
      refine ⟨I.noPanic, ?_, ?_, ?_, ?_⟩
      · have := I.clen_le; simp only [St.cachePut]; omega
      · intro w hw
        simp only [St.cachePut] at hw ⊢
        have hne : w ≠ s.nw := by omega
        simp only [updN, hne, if_false]
        exact I.fresh w (by omega)
      · intro j w hj
        rw [cacheGet_cachePut] at hj
        simp only [St.cachePut, updN]
        by_cases hji : j = i
        · simp only [hji, if_true] at hj
          cases hj
          simp [hji]
        · simp only [hji, if_false] at hj
          have hj' : s.cacheGet j = some w := hj
          have hlt := I.cached_lt_nw hj'
          have hne : w ≠ s.nw := by omega
          simp only [hne, if_false]
          exact I.cached_attached j w hj'
      · intro w b j h
        simp only [St.cachePut, updN] at h
        rw [cacheGet_cachePut]
        by_cases hw : w = s.nw
        · simp only [hw, if_true] at h
          cases h
          exact ⟨rfl, by simp [hw]⟩
        · simp only [hw, if_false] at h
          have ⟨hb, hcj⟩ := I.attached_cached w b j h
          refine ⟨hb, ?_⟩
          by_cases hji : j = i
          · subst hji; rw [hc] at hcj; cases hcj
          · simp only [hji, if_false]; exact hcj

theorem inv_writeW {s : St} (I : Inv s) (w : Nat) (x : Val) : Inv (s.writeW w x) := by
  unfold St.writeW
  split
  · exact inv_of_same I rfl rfl I.clen_le rfl rfl rfl rfl
  · rename_i v hv
    refine ⟨I.noPanic, I.clen_le, ?_, ?_, ?_⟩
    · intro w' hw'
      simp only [updN]
      split
      · exact ⟨x, rfl⟩
      · exact I.fresh w' hw'
    · intro i w' h
      have h' : s.cacheGet i = some w' := h
      have ha := I.cached_attached i w' h'
      simp only [updN]
      split
      · rename_i heq; subst heq; rw [hv] at ha; cases ha
      · exact ha
    · intro w' b i h
      simp only [updN] at h
      split at h
      · cases h
      · exact I.attached_cached w' b i h

/-- copyReflectValueWrapper on the wrapper cached at `i`, followed by clearing `valueCache[i]`. -/
theorem inv_detach_clear {s : St} (I : Inv s) {i w : Nat} (hc : s.cacheGet i = some w) :
    Inv ((s.detach w).cacheClear i) := by
  refine ⟨I.noPanic, I.clen_le, ?_, ?_, ?_⟩
  · intro w' hw'
    simp only [St.cacheClear, St.detach, updN]
    split
    · exact ⟨_, rfl⟩
    · exact I.fresh w' hw'
  · intro j w' h
    rw [cacheGet_cacheClear] at h
    split at h
    · cases h
    · rename_i hji
      have h' : s.cacheGet j = some w' := h
      simp only [St.cacheClear, St.detach, updN]
      split
      · rename_i heq; subst heq; exact absurd (I.cached_inj h' hc) hji
      · exact I.cached_attached j w' h'
  · intro w' b j h
    simp only [St.cacheClear, St.detach, updN] at h
    split at h
    · cases h
    · rename_i hne
      have ⟨hb, hcj⟩ := I.attached_cached w' b j h
      refine ⟨hb, ?_⟩
      rw [cacheGet_cacheClear]
      split
      · rename_i hji; subst hji; rw [hc] at hcj; cases hcj; exact absurd rfl hne
      · exact hcj

theorem inv_delIdx {s : St} (I : Inv s) (i : Nat) : Inv (s.delIdx i) := by
  unfold St.delIdx
  split
  · exact I
  · split
    · rename_i w hc
      exact inv_of_same (inv_detach_clear I hc) rfl rfl (inv_detach_clear I hc).clen_le rfl rfl rfl rfl
    · exact inv_of_same I rfl rfl I.clen_le rfl rfl rfl rfl

end GojaModel.C13

namespace GojaModel.C13

theorem grow_len (s : St) (size : Nat) : (s.grow size).len = size := by
  unfold St.grow; split <;> rfl

theorem inv_grow {s : St} (I : Inv s) {size : Nat} (h : s.len < size) : Inv (s.grow size) := by
  unfold St.grow
  split
  · have hcl := I.clen_le
    have hl : min s.clen size = s.clen := by omega
    refine ⟨I.noPanic, by simp only; omega, ?_, ?_, ?_⟩
    · intro w hw
      simp only
      split
      · rename_i j hj
        have := I.cached_lt_nw (findCached_some hj).2.2
        simp only at hw
        omega
      · exact I.fresh w hw
    · intro i w hc
      have hc' : s.cacheGet i = some w := hc
      have hi := cacheGet_lt hc'
      simp only
      split
      · rename_i j hj
        have := I.cached_inj (findCached_some hj).2.2 hc'
        rw [this]
      · rename_i hn
        exact absurd hc' (findCached_none hn i (Nat.zero_le _) (by omega))
    · intro w b i hw
      simp only at hw
      split at hw
      · rename_i j hj
        cases hw
        exact ⟨rfl, (findCached_some hj).2.2⟩
      · rename_i hn
        have ⟨_, hc⟩ := I.attached_cached w b i hw
        exact absurd hc (findCached_none hn i (Nat.zero_le _) (by have := cacheGet_lt hc; omega))
  · exact inv_of_same I rfl rfl (by have := I.clen_le; simp only; omega) rfl rfl rfl rfl

theorem inv_shrink {s : St} (I : Inv s) {size : Nat} (_h : size < s.len) : Inv (s.shrink size) := by
  unfold St.shrink
  by_cases hcl : s.clen > size
  · simp only [hcl, if_true]
    refine ⟨I.noPanic, Nat.le_refl _, ?_, ?_, ?_⟩
    · intro w hw
      simp only
      split
      · exact ⟨_, rfl⟩
      · exact I.fresh w hw
    · intro i w hc
      simp only [St.cacheGet] at hc
      split at hc
      · rename_i hi
        have hc' : s.cacheGet i = some w := by simp [St.cacheGet]; exact ⟨by omega, hc⟩
        simp only
        split
        · rename_i j hj
          have := I.cached_inj (findCached_some hj).2.2 hc'
          have := (findCached_some hj).1
          omega
        · exact I.cached_attached i w hc'
      · cases hc
    · intro w b i hw
      simp only at hw
      split at hw
      · cases hw
      · rename_i hn
        have ⟨hb, hc⟩ := I.attached_cached w b i hw
        refine ⟨hb, ?_⟩
        have hi : i < size := by
          apply Classical.byContradiction
          intro hge
          exact absurd hc (findCached_none hn i (by omega) (cacheGet_lt hc))
        simp only [St.cacheGet, hi, if_true]
        simp only [St.cacheGet] at hc
        split at hc
        · exact hc
        · cases hc
  · simp only [hcl, if_false]
    exact inv_of_same I rfl rfl (by simp only; omega) rfl rfl rfl rfl

theorem inv_setLen {s : St} (I : Inv s) (n : Nat) : Inv (s.setLen n) := by
  unfold St.setLen
  split
  · exact I
  · split
    · rename_i h; exact inv_grow I h
    · split
      · rename_i h; exact inv_shrink I h
      · exact I

theorem inv_putIdxArr {s : St} (I : Inv s) (i : Nat) (x : Val) (ok : Bool) :
    Inv (s.putIdxArr i x ok) := by
  unfold St.putIdxArr
  by_cases hi : s.len ≤ i
  · simp only [hi, if_true]; exact I
  simp only [hi, if_false]
  cases hc : s.cacheGet i with
  | none =>
    simp only [St.detachOpt]
    simp only [hi, if_false]
    cases ok
    · simpa using I
    · simp only [if_true]
      exact inv_of_same I rfl rfl I.clen_le rfl rfl rfl rfl
  | some w =>
    simp only [St.detachOpt]
    have : ¬ (s.detach w).len ≤ i := by simp only [St.detach]; omega
    simp only [this, if_false]
    cases ok
    · -- conversion error: wrapper re-attached, nothing changed
      simp only [Bool.false_eq_true, if_false]
      have hws : updN (s.detach w).ws w (Loc.cell (s.detach w).cur i) = s.ws := by
        funext w'
        simp only [updN, St.detach]
        split
        · rename_i heq; subst heq; exact (I.cached_attached i w' hc).symm
        · rfl
      exact inv_of_same I rfl rfl I.clen_le rfl rfl hws rfl
    · simp only [if_true]
      have J := inv_detach_clear I hc
      exact inv_of_same J rfl rfl J.clen_le rfl rfl rfl rfl

theorem inv_putIdx {s : St} (I : Inv s) (i : Nat) (x : Val) (ok : Bool) :
    Inv (s.putIdx i x ok) := by
  unfold St.putIdx
  split
  · exact inv_putIdxArr I i x ok
  · split
    · rename_i hle
      exact inv_putIdxArr (inv_grow I (by omega)) i x ok
    · exact inv_putIdxArr I i x ok

end GojaModel.C13

namespace GojaModel.C13

/-! ### swap: characterisation of the resulting cache and wrappers -/

theorem cacheGet_condClear (u : St) (i k : Nat) :
    (u.condClear i).cacheGet k = if k = i then none else u.cacheGet k := by
  unfold St.condClear
  split
  · exact cacheGet_cacheClear u i k
  · rename_i h
    split
    · rename_i hk; subst hk; simp [St.cacheGet, h]
    · rfl

theorem moveCache_shape (u : St) (c : Option Nat) (i : Nat) :
    (u.moveCache c i).panic = u.panic ∧ (u.moveCache c i).len = u.len ∧ (u.moveCache c i).cur = u.cur ∧
    (u.moveCache c i).nw = u.nw ∧ (u.moveCache c i).clen ≤ max u.clen (i + 1) ∧
    (∀ k, (u.moveCache c i).cacheGet k = if k = i then c else u.cacheGet k) ∧
    (∀ w, (u.moveCache c i).ws w = if c = some w then .cell u.cur i else u.ws w) ∧
    (u.moveCache c i).mem = u.mem := by
  cases c with
  | none =>
    simp only [St.moveCache]
    refine ⟨?_, ?_, ?_, ?_, ?_, cacheGet_condClear u i, ?_, ?_⟩
    · unfold St.condClear; split <;> rfl
    · unfold St.condClear; split <;> rfl
    · unfold St.condClear; split <;> rfl
    · unfold St.condClear; split <;> rfl
    · unfold St.condClear; split
      · simp only [St.cacheClear]; omega
      · omega
    · intro w; simp only [reduceCtorEq, if_false]; unfold St.condClear; split <;> rfl
    · unfold St.condClear; split <;> rfl
  | some w0 =>
    simp only [St.moveCache]
    refine ⟨rfl, rfl, rfl, rfl, Nat.le_refl _, ?_, ?_, rfl⟩
    · intro k; rw [cacheGet_cachePut]; split <;> rfl
    · intro w
      simp only [St.cachePut, updN]
      by_cases hw : w = w0
      · subst hw; simp
      · have : ¬ (some w0 = some w) := by intro h; cases h; exact hw rfl
        simp [hw, this]

theorem swap_shape {s : St} {i j : Nat} (hi : i < s.len) (hj : j < s.len) (hcl : s.clen ≤ s.len) :
    (s.swap i j).panic = s.panic ∧ (s.swap i j).len = s.len ∧ (s.swap i j).cur = s.cur ∧
    (s.swap i j).nw = s.nw ∧ (s.swap i j).clen ≤ s.len ∧
    (∀ k, (s.swap i j).cacheGet k = if k = i then s.cacheGet j else if k = j then s.cacheGet i else s.cacheGet k) ∧
    (∀ w, (s.swap i j).ws w = if s.cacheGet j = some w then .cell s.cur i
                   else if s.cacheGet i = some w then .cell s.cur j else s.ws w) ∧
    (s.swap i j).mem = updMem (updMem s.mem s.cur i (s.slot j)) s.cur j (s.slot i) := by
  have hn : ¬ (s.len ≤ i ∨ s.len ≤ j) := by omega
  simp only [St.swap, hn, if_false]
  generalize hs1 : ({ s with mem := updMem (updMem s.mem s.cur i (s.slot j)) s.cur j (s.slot i) } : St) = s1
  have e1 : s1.panic = s.panic ∧ s1.len = s.len ∧ s1.cur = s.cur ∧ s1.nw = s.nw ∧ s1.clen = s.clen ∧
      (∀ k, s1.cacheGet k = s.cacheGet k) ∧ s1.ws = s.ws ∧
      s1.mem = updMem (updMem s.mem s.cur i (s.slot j)) s.cur j (s.slot i) := by
    subst hs1; exact ⟨rfl, rfl, rfl, rfl, rfl, fun _ => rfl, rfl, rfl⟩
  obtain ⟨p1, l1, c1, n1, cl1, g1, w1, m1⟩ := e1
  obtain ⟨p2, l2, c2, n2, cl2, g2, w2, m2⟩ := moveCache_shape s1 (s.cacheGet i) j
  obtain ⟨p3, l3, c3, n3, cl3, g3, w3, m3⟩ := moveCache_shape (s1.moveCache (s.cacheGet i) j) (s.cacheGet j) i
  refine ⟨by rw [p3, p2, p1], by rw [l3, l2, l1], by rw [c3, c2, c1], by rw [n3, n2, n1], by omega, ?_, ?_, ?_⟩
  · intro k; rw [g3, g2, g1]
  · intro w; rw [w3, w2, w1, c2, c1]
  · rw [m3, m2, m1]

theorem inv_swap {s : St} (I : Inv s) (i j : Nat) : Inv (s.swap i j) := by
  by_cases hoob : s.len ≤ i ∨ s.len ≤ j
  · simp only [St.swap, hoob, if_true]; exact I
  have hi : i < s.len := by omega
  have hj : j < s.len := by omega
  obtain ⟨hp, hl, hc, hn, hcl, hg, hw, _⟩ := swap_shape hi hj I.clen_le
  refine ⟨by rw [hp]; exact I.noPanic, by rw [hl]; exact hcl, ?_, ?_, ?_⟩
  · intro w hge
    rw [hn] at hge
    rw [hw]
    split
    · rename_i h; have := I.cached_lt_nw h; omega
    · split
      · rename_i h; have := I.cached_lt_nw h; omega
      · exact I.fresh w hge
  · intro k w h
    rw [hg] at h
    rw [hw, hc]
    by_cases hki : k = i
    · subst hki; simp only [if_true] at h; simp [h]
    · simp only [hki, if_false] at h
      by_cases hkj : k = j
      · subst hkj
        simp only [if_true] at h
        have : ¬ (s.cacheGet k = some w) := by
          intro h'; exact hki (I.cached_inj h' h)
        simp [this, h]
      · simp only [hkj, if_false] at h
        have h1 : ¬ (s.cacheGet j = some w) := fun h' => hkj (I.cached_inj h h')
        have h2 : ¬ (s.cacheGet i = some w) := fun h' => hki (I.cached_inj h h')
        simp only [h1, h2, if_false]
        exact I.cached_attached k w h
  · intro w b k h
    rw [hw] at h
    rw [hg, hc]
    split at h
    · rename_i hcj; cases h; simp [hcj]
    · rename_i hcj
      split at h
      · rename_i hci
        cases h
        refine ⟨rfl, ?_⟩
        by_cases hji : j = i
        · subst hji; exact absurd hci hcj
        · simp [hji, hci]
      · rename_i hci
        have ⟨hb, hck⟩ := I.attached_cached w b k h
        refine ⟨hb, ?_⟩
        have h1 : k ≠ i := by intro e; subst e; exact hci hck
        have h2 : k ≠ j := by intro e; subst e; exact hcj hck
        simp [h1, h2, hck]

theorem inv_step {s : St} (I : Inv s) (op : Op) (ht : op.tracked = true) :
    Inv (s.step op) := by
  cases op with
  | get i => exact inv_getIdx I i
  | set i x => exact inv_putIdx I i x true
  | setBad i => exact inv_putIdx I i 0 false
  | del i => exact inv_delIdx I i
  | setLen n => exact inv_setLen I n
  | swap i j => exact inv_swap I i j
  | wwrite w x =>
    simp only [St.step]; split
    · exact inv_writeW I w x
    · exact I
  | goWrite i x =>
    simp only [St.step]; split
    · exact inv_of_same I rfl rfl I.clen_le rfl rfl rfl rfl
    · exact I
  | goAppend x =>
    simp only [St.step]; split
    · exact I
    · split
      · exact inv_of_same I rfl rfl (by have := I.clen_le; simp only; omega) rfl rfl rfl rfl
      · exact I
  | goRealloc c => simp [Op.tracked] at ht

/-- Histories all of whose operations are tracked (no Go-side re-allocation). -/
def Admissible : St → List Op → Prop
  | _, [] => True
  | s, op :: ops => op.tracked = true ∧ Admissible (s.step op) ops

instance decAdmissible : (s : St) → (h : List Op) → Decidable (Admissible s h)
  | _, [] => isTrue trivial
  | s, op :: ops =>
    have := decAdmissible (s.step op) ops
    by unfold Admissible; exact inferInstance

theorem getIdx_cached {s : St} {i w : Nat} (hg : (s.getIdx i).2 = some w) :
    (s.getIdx i).1.cacheGet i = some w := by
  unfold St.getIdx at hg ⊢
  by_cases hl : s.len ≤ i
  · simp [hl] at hg
  · simp only [hl, if_false] at hg ⊢
    cases hcs : s.cacheGet i with
    | some w0 => simp only [hcs] at hg ⊢; cases hg; rfl
    | none => simp only [hcs] at hg ⊢; cases hg; rw [cacheGet_cachePut]; simp

theorem inv_run {s : St} (I : Inv s) (h : List Op) (ha : Admissible s h) : Inv (s.run h) := by
  induction h generalizing s with
  | nil => exact I
  | cons op ops ih =>
    obtain ⟨ht, hr⟩ := ha
    exact ih (inv_step I op ht) hr

theorem inv_init (fixed : Bool) (n c : Nat) (f : Nat → Val) : Inv (St.init fixed n c f) := by
  refine ⟨rfl, Nat.zero_le _, fun _ _ => ⟨0, rfl⟩, ?_, ?_⟩
  · intro i w h; simp [St.init, St.cacheGet] at h
  · intro w b i h; simp [St.init] at h

end GojaModel.C13

namespace GojaModel.C13

/-! ### a wrapper that is not in the cache is never touched by an operation on the container -/

theorem grow_ws_notCached {s : St} {w : Nat} (hn : ∀ i, s.cacheGet i ≠ some w) (size : Nat) :
    (s.grow size).ws w = s.ws w := by
  unfold St.grow
  split
  · simp only
    split
    · rename_i j hj; exact absurd (findCached_some hj).2.2 (hn j)
    · rfl
  · rfl

theorem grow_cacheGet (s : St) (size i : Nat) : (s.grow size).cacheGet i = s.cacheGet i := by
  unfold St.grow; split <;> rfl

theorem grow_nw (s : St) (size : Nat) : (s.grow size).nw = s.nw := by
  unfold St.grow; split <;> rfl

theorem shrink_ws_notCached {s : St} {w : Nat} (hn : ∀ i, s.cacheGet i ≠ some w) (size : Nat) :
    (s.shrink size).ws w = s.ws w := by
  unfold St.shrink
  split
  · simp only
    split
    · rename_i j hj; exact absurd (findCached_some hj).2.2 (hn j)
    · rfl
  · rfl

theorem shrink_nw (s : St) (size : Nat) : (s.shrink size).nw = s.nw := by
  unfold St.shrink; split <;> rfl

theorem putIdxArr_ws_notCached {s : St} {w : Nat} (hn : ∀ i, s.cacheGet i ≠ some w) (i : Nat) (x : Val) (ok : Bool) :
    (s.putIdxArr i x ok).ws w = s.ws w := by
  unfold St.putIdxArr
  by_cases h1 : s.len ≤ i
  · simp [h1]
  cases hc : s.cacheGet i with
  | none =>
    simp only [St.detachOpt]
    cases ok <;> simp [h1]
  | some c =>
    have hcw : w ≠ c := by intro e; subst e; exact hn i hc
    simp only [St.detachOpt]
    cases ok <;> simp [h1, St.detach, St.cacheClear, updN, hcw]

theorem putIdxArr_nw (s : St) (i : Nat) (x : Val) (ok : Bool) : (s.putIdxArr i x ok).nw = s.nw := by
  unfold St.putIdxArr
  by_cases h1 : s.len ≤ i
  · simp [h1]
  cases s.cacheGet i <;> simp only [St.detachOpt]
  · cases ok <;> simp [h1]
  · cases ok <;> simp [h1, St.detach, St.cacheClear]

theorem swap_ws_notCached {s : St} {w : Nat} (hn : ∀ i, s.cacheGet i ≠ some w) (i j : Nat) :
    (s.swap i j).ws w = s.ws w := by
  unfold St.swap
  split
  · rfl
  · simp only
    rw [(moveCache_shape _ _ _).2.2.2.2.2.2.1 w, (moveCache_shape _ _ _).2.2.2.2.2.2.1 w]
    simp [hn i, hn j]

theorem swap_nw (s : St) (i j : Nat) : (s.swap i j).nw = s.nw := by
  unfold St.swap
  split
  · rfl
  · simp only
    rw [(moveCache_shape _ _ _).2.2.2.1, (moveCache_shape _ _ _).2.2.2.1]

/-- Any operation other than a write through `w` itself leaves a non-cached, already created wrapper alone
    (no invariant, no admissibility needed: this also covers Go-side re-allocation and out-of-range swaps). -/
theorem step_ws_notCached {s : St} {w : Nat} (hn : ∀ i, s.cacheGet i ≠ some w) (hw : w < s.nw) (op : Op)
    (hop : ∀ x, op ≠ .wwrite w x) : (s.step op).ws w = s.ws w := by
  cases op with
  | get i =>
    simp only [St.step, St.getIdx]
    split
    · rfl
    · split
      · rfl
      · have : w ≠ s.nw := by omega
        simp [St.cachePut, updN, this]
  | set i x =>
    simp only [St.step, St.putIdx]
    split
    · exact putIdxArr_ws_notCached hn i x true
    · split
      · rw [putIdxArr_ws_notCached (by intro k; rw [grow_cacheGet]; exact hn k), grow_ws_notCached hn]
      · exact putIdxArr_ws_notCached hn i x true
  | setBad i =>
    simp only [St.step, St.putIdx]
    split
    · exact putIdxArr_ws_notCached hn i 0 false
    · split
      · rw [putIdxArr_ws_notCached (by intro k; rw [grow_cacheGet]; exact hn k), grow_ws_notCached hn]
      · exact putIdxArr_ws_notCached hn i 0 false
  | del i =>
    simp only [St.step, St.delIdx]
    split
    · rfl
    · cases hc : s.cacheGet i with
      | none => rfl
      | some c =>
        have hcw : w ≠ c := by intro e; subst e; exact hn i hc
        simp [St.detach, St.cacheClear, updN, hcw]
  | setLen n =>
    simp only [St.step, St.setLen]
    split
    · rfl
    · split
      · exact grow_ws_notCached hn n
      · split
        · exact shrink_ws_notCached hn n
        · rfl
  | swap i j => exact swap_ws_notCached hn i j
  | wwrite w' x =>
    have hne : w' ≠ w := by intro e; subst e; exact hop x rfl
    simp only [St.step]
    split
    · unfold St.writeW
      split
      · rfl
      · simp [updN, Ne.symm hne]
    · rfl
  | goWrite i x => simp only [St.step]; split <;> rfl
  | goAppend x => simp only [St.step]; split <;> (try rfl) <;> split <;> rfl
  | goRealloc c => simp only [St.step]; split <;> (try rfl) <;> split <;> rfl

theorem step_nw_mono (s : St) (op : Op) : s.nw ≤ (s.step op).nw := by
  cases op with
  | get i =>
    simp only [St.step, St.getIdx]
    split
    · exact Nat.le_refl _
    · split
      · exact Nat.le_refl _
      · simp [St.cachePut]
  | set i x =>
    simp only [St.step, St.putIdx]
    split
    · rw [putIdxArr_nw]; exact Nat.le_refl _
    · split
      · rw [putIdxArr_nw, grow_nw]; exact Nat.le_refl _
      · rw [putIdxArr_nw]; exact Nat.le_refl _
  | setBad i =>
    simp only [St.step, St.putIdx]
    split
    · rw [putIdxArr_nw]; exact Nat.le_refl _
    · split
      · rw [putIdxArr_nw, grow_nw]; exact Nat.le_refl _
      · rw [putIdxArr_nw]; exact Nat.le_refl _
  | del i =>
    simp only [St.step, St.delIdx]
    split
    · exact Nat.le_refl _
    · cases s.cacheGet i <;> exact Nat.le_refl _
  | setLen n =>
    simp only [St.step, St.setLen]
    split
    · exact Nat.le_refl _
    · split
      · rw [grow_nw]; exact Nat.le_refl _
      · split
        · rw [shrink_nw]; exact Nat.le_refl _
        · exact Nat.le_refl _
  | swap i j => simp only [St.step]; rw [swap_nw]; exact Nat.le_refl _
  | wwrite w x =>
    simp only [St.step]; split
    · unfold St.writeW; split <;> exact Nat.le_refl _
    · exact Nat.le_refl _
  | goWrite i x => simp only [St.step]; split <;> exact Nat.le_refl _
  | goAppend x => simp only [St.step]; split <;> (try exact Nat.le_refl _) <;> split <;> exact Nat.le_refl _
  | goRealloc c => simp only [St.step]; split <;> (try exact Nat.le_refl _) <;> split <;> exact Nat.le_refl _


/-! ### a sort swap moves every wrapper together with its element -/

theorem swap_preserves_readings {s : St} (I : Inv s) (i j w : Nat) : (s.swap i j).readW w = s.readW w := by
  by_cases hoob : s.len ≤ i ∨ s.len ≤ j
  · simp only [St.swap, hoob, if_true]
  have hi : i < s.len := by omega
  have hj : j < s.len := by omega
  obtain ⟨_, _, _, _, _, _, hw, hm⟩ := swap_shape hi hj I.clen_le
  unfold St.readW
  rw [hw]
  by_cases hcj : s.cacheGet j = some w
  · simp only [hcj, if_true]
    have := I.cached_attached j w hcj
    simp only [St.readLoc, this, hm, updMem, St.slot]
    by_cases hij : i = j <;> simp [hij]
  · simp only [hcj, if_false]
    by_cases hci : s.cacheGet i = some w
    · simp only [hci, if_true]
      have := I.cached_attached i w hci
      simp [St.readLoc, this, hm, updMem, St.slot]
    · simp only [hci, if_false]
      cases hws : s.ws w with
      | own v => simp [St.readLoc]
      | cell b k =>
        have ⟨hb, hck⟩ := I.attached_cached w b k hws
        have h1 : k ≠ i := by intro e; subst e; exact hci hck
        have h2 : k ≠ j := by intro e; subst e; exact hcj hck
        simp [St.readLoc, hm, updMem, h1, h2]

/-! ### no operation of the (fixed) mechanism reaches a reflect index-out-of-range -/

theorem putIdxArr_panic (s : St) (i : Nat) (x : Val) (ok : Bool) : (s.putIdxArr i x ok).panic = s.panic := by
  unfold St.putIdxArr
  by_cases h1 : s.len ≤ i
  · simp [h1]
  cases s.cacheGet i <;> simp only [St.detachOpt]
  · cases ok <;> simp [h1]
  · cases ok <;> simp [h1, St.detach, St.cacheClear]

theorem grow_panic (s : St) (n : Nat) : (s.grow n).panic = s.panic := by
  unfold St.grow; split <;> rfl

theorem shrink_panic (s : St) (n : Nat) : (s.shrink n).panic = s.panic := by
  unfold St.shrink; split <;> rfl

theorem swap_panic (s : St) (i j : Nat) : (s.swap i j).panic = s.panic := by
  unfold St.swap
  split
  · rfl
  · simp only
    rw [(moveCache_shape _ _ _).1, (moveCache_shape _ _ _).1]

theorem step_panic (s : St) (op : Op) : (s.step op).panic = s.panic := by
  cases op with
  | get i =>
    simp only [St.step, St.getIdx]
    split
    · rfl
    · split <;> rfl
  | set i x =>
    simp only [St.step, St.putIdx]
    split
    · exact putIdxArr_panic s i x true
    · split
      · rw [putIdxArr_panic, grow_panic]
      · exact putIdxArr_panic s i x true
  | setBad i =>
    simp only [St.step, St.putIdx]
    split
    · exact putIdxArr_panic s i 0 false
    · split
      · rw [putIdxArr_panic, grow_panic]
      · exact putIdxArr_panic s i 0 false
  | del i =>
    simp only [St.step, St.delIdx]
    split
    · rfl
    · cases s.cacheGet i <;> rfl
  | setLen n =>
    simp only [St.step, St.setLen]
    split
    · rfl
    · split
      · exact grow_panic s n
      · split
        · exact shrink_panic s n
        · rfl
  | swap i j => exact swap_panic s i j
  | wwrite w x =>
    simp only [St.step]; split
    · unfold St.writeW; split <;> rfl
    · rfl
  | goWrite i x => simp only [St.step]; split <;> rfl
  | goAppend x => simp only [St.step]; split <;> (try rfl) <;> split <;> rfl
  | goRealloc c => simp only [St.step]; split <;> (try rfl) <;> split <;> rfl

theorem run_panic (s : St) (h : List Op) : (s.run h).panic = s.panic := by
  induction h generalizing s with
  | nil => rfl
  | cons op ops ih => simp only [St.run]; rw [ih, step_panic]

end GojaModel.C13
