/-
  C13 — the DOCUMENTED copy-on-change semantics of wrapped slices / arrays / struct fields (the ToValue doc comment,
  runtime.go "copy-on-change" section), as an executable spec-level model.  No Go heap, no backing arrays, no cache:
  a wrapped container is a list of values; an element wrapper is either a live reference to a slot (`att i`) or a
  reference to a private copy (`det v`):
    * reading `a[i]` gives the wrapper attached to slot i (a new one if there is none)
    * re-assigning / deleting / cutting off slot i turns its wrapper into a reference to a copy of the old value
    * an in-place sort swap moves the wrappers with their values
    * a Go array cannot grow (stores beyond its end are rejected); swaps beyond the length are ignored.
  `cap` is a fact about the Go slice (it only decides whether a Go-side append fits), kept with goja's growth rule.
  Core Lean only.
-/
import GojaModel.C13.Model

namespace GojaModel.C13

inductive HSt where
  | att (i : Nat)
  | det (v : Val)
deriving DecidableEq, Repr

structure Sp where
  fixed : Bool
  len : Nat
  val : Nat → Val          -- slot values; 0 beyond len
  cap : Nat
  h : Nat → HSt            -- wrapper id → what it denotes; `det 0` for ids not handed out yet
  nh : Nat

def Sp.init (fixed : Bool) (n c : Nat) (f : Nat → Val) : Sp :=
  { fixed := fixed, len := n, val := fun i => if i < n then f i else 0, cap := max n c,
    h := fun _ => .det 0, nh := 0 }

/-- the wrapper attached to slot i, if any -/
def Sp.findAtt (s : Sp) (i : Nat) : Option Nat :=
  (List.range s.nh).find? (fun w => s.h w == .att i)

/-- what a wrapper reads -/
def Sp.readH (s : Sp) (w : Nat) : Val :=
  match s.h w with
  | .att i => s.val i
  | .det v => v

/-- slot i is about to be re-assigned: its wrapper keeps a copy of the current value -/
def Sp.detachAt (s : Sp) (i : Nat) : Sp :=
  { s with h := fun w => if s.h w = .att i then .det (s.val i) else s.h w }

/-- the container grows to `size` (> len): new slots are zero values -/
def Sp.extend (s : Sp) (size : Nat) : Sp :=
  { s with len := size, cap := if s.cap < size then growCap size s.len s.cap else s.cap }

/-- the container is cut to `size` (< len): wrappers of cut-off slots keep copies, the slots are cleared -/
def Sp.cut (s : Sp) (size : Nat) : Sp :=
  { s with len := size,
           h := fun w => match s.h w with
                         | .att j => if size ≤ j then .det (s.val j) else .att j
                         | .det v => .det v,
           val := fun i => if i < size then s.val i else 0 }

def Sp.getIdx (s : Sp) (i : Nat) : Sp × Option Nat :=
  if s.len ≤ i then (s, none) else
  match s.findAtt i with
  | some w => (s, some w)
  | none => ({ s with h := updN s.h s.nh (.att i), nh := s.nh + 1 }, some s.nh)

def Sp.store (s : Sp) (i : Nat) (x : Val) (ok : Bool) : Sp :=
  if s.fixed ∧ s.len ≤ i then s else
  let s1 := if s.len ≤ i then s.extend (i + 1) else s
  if ok then { (s1.detachAt i) with val := updN s1.val i x } else s1

def Sp.step (s : Sp) : Op → Sp
  | .get i => (s.getIdx i).1
  | .set i x => s.store i x true
  | .setBad i => s.store i 0 false
  | .del i => if s.len ≤ i then s else { (s.detachAt i) with val := updN s.val i 0 }
  | .setLen n => if s.fixed then s else if s.len < n then s.extend n else if n < s.len then s.cut n else s
  | .swap i j =>
      if s.len ≤ i ∨ s.len ≤ j then s else
      { s with val := updN (updN s.val i (s.val j)) j (s.val i),
               h := fun w => match s.h w with
                             | .att k => if k = j then .att i else if k = i then .att j else .att k
                             | .det v => .det v }
  | .wwrite w x =>
      if w < s.nh then
        match s.h w with
        | .att i => { s with val := updN s.val i x }
        | .det _ => { s with h := updN s.h w (.det x) }
      else s
  | .goWrite i x => if i < s.len then { s with val := updN s.val i x } else s
  | .goAppend x =>
      if s.fixed then s else
      if s.len < s.cap then { s with val := updN s.val s.len x, len := s.len + 1 } else s
  | .goRealloc c =>
      -- a Go-side re-allocation: every handed-out wrapper keeps referring to the OLD backing array (Go reference
      -- semantics), i.e. is detached with its current value; the container itself stays live
      if s.fixed then s else
      if s.len ≤ c then
        { s with cap := c, h := fun w => match s.h w with
                                         | .att j => .det (s.val j)
                                         | .det v => .det v }
      else s

def Sp.run (s : Sp) : List Op → Sp
  | [] => s
  | op :: ops => (s.step op).run ops

/-- the abstraction: forget the heap, the backing arrays and the cache -/
def St.abs (s : St) : Sp :=
  { fixed := s.fixed, len := s.len, val := fun i => if i < s.len then s.slot i else 0, cap := s.cap s.cur,
    h := fun w => if w < s.nw then (match s.ws w with | .cell _ i => .att i | .own v => .det v) else .det 0,
    nh := s.nw }

end GojaModel.C13
