/-
  C13 — which Go container each script object exports into, and with which elements in which order
  (ExportTo into slice / array / map destinations): the per-class `exportToArrayOrSlice` / `exportToMap` methods
  (array.go:538, array_sparse.go:482, builtin_set.go:69 / 94, builtin_map.go:73, typedarrays.go:990 / 1014 / 1297,
  object.go:1037 genericExportToArrayOrSlice / 993 genericExportToMap) as a mechanism model, and the documented
  behaviour (the "Slice types / Array types / Map types" sections of the ExportTo doc comment, runtime.go) as a spec.
  Core Lean only.
-/
namespace GojaModel.C13

/-- an exported element, as far as this model looks: a number, nil (hole / undefined), or a [k, v] pair -/
inductive DV where
  | int (i : Int) | nil | pair (k v : Int)
deriving DecidableEq, Repr

/-- implementation class of the source object = which method runs -/
inductive SrcKind where
  | array        -- arrayObject / sparseArrayObject
  | set | map
  | bytes        -- typed array / DataView / ArrayBuffer
  | other        -- baseObject and everything that delegates to the generic functions
deriving DecidableEq, Repr

structure JSrc where
  kind : SrcKind
  iterDefault : Bool              -- arrays: Symbol.iterator is %Array.prototype.values% (or absent)
  hasIter : Bool                  -- GetMethod(o, Symbol.iterator) is a function
  callable : Bool
  length : Option Nat             -- ToLength(o.length) if there is a `length` property
  values : List DV                -- arrays: the element storage; Sets: elements in insertion order
  iter : List DV                  -- what iterating o yields
  idx : List DV                   -- o[0], o[1], … (as many as `length` says)
  entries : List (Int × Int)      -- Maps: entries in insertion order
  props : List (String × DV)      -- own enumerable string-keyed properties, in key order
  byteLen : Nat                   -- bytes-backed objects: length of the viewed byte range

inductive Dest where
  | slice            -- []interface{}: an Array's / Set's own export type
  | sliceT           -- any other slice type ([]int, …)
  | bytes | arr (n : Nat) | map
deriving DecidableEq, Repr

inductive DErr where
  | lenArray | lenIterable | lenArrayLike | lenSet | notArrayOrIterable
deriving DecidableEq, Repr

inductive Outcome where
  | seq (l : List DV)             -- a slice / array holding these elements in this order
  | bytesView (n : Nat)           -- a []byte backed by the buffer
  | entries (l : List (Int × Int))
  | keysZero (l : List DV)        -- Set into a map: element ↦ zero value
  | props (l : List (String × DV))
  | err (e : DErr)
deriving DecidableEq, Repr

def fits (d : Dest) (n : Nat) : Bool :=
  match d with
  | .arr m => m == n
  | _ => true

/-- genericExportToArrayOrSlice (object.go): iterable first, then array-like (not for callables), else error -/
def genericSeq (s : JSrc) (d : Dest) : Outcome :=
  if s.hasIter then
    if fits d s.iter.length then .seq s.iter else .err .lenIterable
  else
    match (if s.callable then none else s.length) with
    | none => .err .notArrayOrIterable
    | some l => if fits d l then .seq (s.idx.take l) else .err .lenArrayLike

/-- o.self.exportToArrayOrSlice, per implementation class -/
def classSeq (s : JSrc) (d : Dest) : Outcome :=
  match s.kind with
  | .array =>
      if s.iterDefault then
        (if fits d s.values.length then .seq s.values else .err .lenArray)     -- fast path over the storage
      else genericSeq s d
  | .set => if fits d s.values.length then .seq s.values else .err .lenSet
  | .bytes => if d = .bytes then .bytesView s.byteLen else genericSeq s d
  | .map => genericSeq s d
  | .other => genericSeq s d

/-- toReflectValue Slice/Array case; BEFORE the per-class method, the AssignableTo loop (runtime.go:2101): an Array or
    Set exported into []interface{} — its own export type — is its plain Export(), i.e. the element storage / the
    elements, whatever its Symbol.iterator is. -/
def mechSeq (s : JSrc) (d : Dest) : Outcome :=
  if d = .slice ∧ (s.kind = .array ∨ s.kind = .set) then .seq s.values else classSeq s d

/-- toReflectValue Map case → o.self.exportToMap, per class -/
def mechMap (s : JSrc) : Outcome :=
  match s.kind with
  | .map => .entries s.entries
  | .set => .keysZero s.values
  | _ => .props s.props

def mech (s : JSrc) (d : Dest) : Outcome :=
  match d with
  | .map => mechMap s
  | _ => mechSeq s d

/-- Does the per-class method enter the container it builds into the identity cache (`ctx.putTyped`, or `ctx.put` on
    the AssignableTo path) — so that the same object reached again through a destination of the same type is the same
    Go value?  As coded since 6fa4053: every method does. -/
def cachesTyped (_k : SrcKind) (_d : Dest) : Bool := true

/-- the code BEFORE 6fa4053 (regression model): every method did, except setObject.exportToMap. -/
def cachesTypedOld (k : SrcKind) (d : Dest) : Bool :=
  !(k == .set && d == .map)

/-! ### the documentation (ExportTo doc comment), clause by clause -/

/-- "Exporting an ES Set into a slice type results in its elements being exported.  Exporting any Object that
    implements the iterable protocol into a slice type results in the slice being populated with the results of the
    iteration.  Array is treated as iterable (i.e. overwriting Symbol.iterator affects the result).  If an object has a
    'length' property and is not a function it is treated as array-like […] obj[0], ... obj[length-1].  ArrayBuffer
    and ArrayBuffer-backed types can be exported into []byte […] no copy.  For any other Object an error is returned.
    Array types: anything that can be exported to a slice type can also be exported to an array type, as long as the
    lengths match." -/
def docSeqElems (s : JSrc) (d : Dest) : Option (List DV) :=
  -- "Exporting to an interface{} results in a value of the same type as Value.Export() would produce": a destination
  -- of exactly the object's export type takes that path too (Array / Set into []interface{})
  if d = .slice ∧ s.kind = .array then some s.values
  else if s.kind = .set then some s.values
  else if s.kind = .bytes ∧ d = .bytes then none                       -- handled separately (a view, not elements)
  else if s.hasIter then some s.iter
  else if !s.callable ∧ s.length.isSome then some (s.idx.take (s.length.getD 0))
  else none

/-- "An ES Map can be exported into a Go map type.  Exporting an ES Set into a map type results in the map being
    populated with (element) -> (zero value) pairs.  Any other Object populates the map with own enumerable non-symbol
    properties." -/
def docMap (s : JSrc) : Outcome :=
  if s.kind = .map then .entries s.entries
  else if s.kind = .set then .keysZero s.values
  else .props s.props

/-- A well-formed description: an array whose iterator is the default one yields its storage when iterated, it has
    an iterator, and arrays / Sets / Maps / bytes-backed objects are not callable. -/
structure JSrc.WF (s : JSrc) : Prop where
  arrIter : s.kind = .array → s.iterDefault = true → s.hasIter = true ∧ s.iter = s.values
  notCallable : s.kind ≠ .other → s.callable = false
  idxLen : ∀ l, s.length = some l → l ≤ s.idx.length

end GojaModel.C13
