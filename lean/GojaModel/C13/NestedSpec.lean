/-
  C13 — documented semantics for a wrapped *[]Outer{In Inner{X}; Y} with nested wrappers (spec level, executable):
  element wrappers as in Spec.lean (live reference to a slot / reference to a private copy); a nested wrapper `p.In` is
  a reference to the `In` of WHATEVER ITS PARENT WRAPPER DENOTES — the slot's while the parent is attached (and it
  follows the parent through sort swaps), the copy's once the parent is detached.  Core Lean only.
-/
import GojaModel.C13.Model

namespace GojaModel.C13

inductive EH where
  | att (i : Nat)
  | det (x y : Val)
deriving DecidableEq, Repr

structure KSp where
  len : Nat
  x : Nat → Val            -- In.X of element i (0 beyond len)
  y : Nat → Val            -- Y of element i
  h : Nat → EH             -- element handles, in the order script obtained them
  nh : Nat
  par : List Nat           -- nested handles, in the order script obtained them: their parent element handle

def KSp.findAtt (s : KSp) (i : Nat) : Option Nat :=
  (List.range s.nh).find? (fun w => s.h w == .att i)

def KSp.detachAt (s : KSp) (i : Nat) : KSp :=
  { s with h := fun w => if s.h w = .att i then .det (s.x i) (s.y i) else s.h w }

def KSp.extend (s : KSp) (n : Nat) : KSp := if s.len < n then { s with len := n } else s

def KSp.curX (s : KSp) (w : Nat) : Val :=
  match s.h w with
  | .att i => s.x i
  | .det x _ => x

def KSp.curY (s : KSp) (w : Nat) : Val :=
  match s.h w with
  | .att i => s.y i
  | .det _ y => y

/-- write In.X of what handle w denotes -/
def KSp.writeX (s : KSp) (w : Nat) (v : Val) : KSp :=
  if w < s.nh then
    match s.h w with
    | .att i => { s with x := updN s.x i v }
    | .det _ y => { s with h := updN s.h w (.det v y) }
  else s

def KSp.assign (s : KSp) (i : Nat) (vx vy : Val) : KSp :=
  let s1 := s.extend (i + 1)
  let s2 := s1.detachAt i
  { s2 with x := updN s2.x i vx, y := updN s2.y i vy }

def KSp.setLen (s : KSp) (n : Nat) : KSp :=
  if s.len < n then { s with len := n }
  else if n < s.len then
    { s with len := n,
             h := fun w => match s.h w with
               | .att j => if n ≤ j then .det (s.x j) (s.y j) else .att j
               | d => d,
             x := fun i => if i < n then s.x i else 0,
             y := fun i => if i < n then s.y i else 0 }
  else s

/-- stable insertion of index i into a list of indices ordered by key -/
def insertIdx (key : Nat → Val) (i : Nat) : List Nat → List Nat
  | [] => [i]
  | j :: js => if key i < key j then i :: j :: js else j :: insertIdx key i js

def idxOf (l : List Nat) (a : Nat) : Nat :=
  let rec go : List Nat → Nat → Nat
    | [], n => n
    | b :: bs, n => if b = a then n else go bs (n + 1)
  go l 0

/-- documented sort: stable, ascending by In.X; attached wrappers move with their elements -/
def KSp.sort (s : KSp) : KSp :=
  let perm := (List.range s.len).foldl (fun acc i => insertIdx s.x i acc) []     -- perm[newpos] = old index
  { s with x := fun p => if p < s.len then s.x (perm.getD p 0) else 0,
           y := fun p => if p < s.len then s.y (perm.getD p 0) else 0,
           h := fun w => match s.h w with
             | .att old => .att (idxOf perm old)
             | d => d }

end GojaModel.C13
