import GojaModel.C13.Gateway

namespace GojaModel.C13

theorem initIn_len (nargs : Nat) (variadic : Bool) (l : Nat) : (initIn nargs variadic l).len =
    if l < nargs then (if variadic = true then nargs - 1 else nargs)
    else (if nargs < l ∧ variadic = false then nargs else l) := by
  unfold initIn
  split <;> simp

theorem initIn_slot (nargs : Nat) (variadic : Bool) (l j : Nat) : (initIn nargs variadic l).slot j =
    if l < nargs then (if l ≤ j ∧ j < (if variadic = true then nargs - 1 else nargs) then .zero j else .unset)
    else .unset := by
  unfold initIn
  split <;> simp

theorem loopIn_inv (nargs : Nat) (variadic : Bool) (l : Nat) :
    ∀ (todo i : Nat) (g : GIn), i + todo = l → g.len = (initIn nargs variadic l).len → g.oob = false →
      (∀ j, j < i → j < g.len → g.slot j = specSlot nargs variadic l j) →
      (∀ j, i ≤ j → g.slot j = (initIn nargs variadic l).slot j) →
      (loopIn nargs variadic i todo g).len = g.len ∧ (loopIn nargs variadic i todo g).oob = false ∧
      ∀ j, j < g.len → (loopIn nargs variadic i todo g).slot j = specSlot nargs variadic l j := by
  intro todo
  induction todo with
  | zero =>
    intro i g hi hlen hoob hdone hrest
    refine ⟨by simp [loopIn], by simpa [loopIn] using hoob, ?_⟩
    intro j hj
    simp only [loopIn]
    by_cases hji : j < i
    · exact hdone j hji hj
    · rw [hrest j (by omega), initIn_slot]
      rw [hlen, initIn_len] at hj
      have hil : i = l := by omega
      subst hil
      simp only [specSlot]
      by_cases h1 : i < nargs
      · simp only [h1, if_true] at hj ⊢
        have : i ≤ j ∧ j < (if variadic = true then nargs - 1 else nargs) := ⟨by omega, hj⟩
        simp [this, hji]
      · simp only [h1, if_false] at hj
        exfalso
        split at hj <;> omega
  | succ todo ih =>
    intro i g hi hlen hoob hdone hrest
    have hL := initIn_len nargs variadic l
    rw [loopIn]
    -- common: after assigning the right slot at i (in bounds) the invariant holds for i+1
    have step : ∀ s : Slot, i < g.len → s = specSlot nargs variadic l i →
        (loopIn nargs variadic (i + 1) todo (g.assign i s)).len = g.len ∧
        (loopIn nargs variadic (i + 1) todo (g.assign i s)).oob = false ∧
        ∀ j, j < g.len → (loopIn nargs variadic (i + 1) todo (g.assign i s)).slot j = specSlot nargs variadic l j := by
      intro s hin hs
      have ha : g.assign i s = { g with slot := fun j => if j = i then s else g.slot j } := by
        simp [GIn.assign, hin]
      rw [ha]
      have := ih (i + 1) { g with slot := fun j => if j = i then s else g.slot j } (by omega) hlen hoob
        (by
          intro j hj hjl
          simp only
          by_cases hji : j = i
          · simp [hji, hs]
          · simp only [hji, if_false]; exact hdone j (by omega) hjl)
        (by
          intro j hj
          simp only
          have : j ≠ i := by omega
          simp only [this, if_false]; exact hrest j (by omega))
      exact this
    by_cases hv : nargs ≤ i + 1 ∧ variadic = true
    · rw [if_pos hv]
      apply step
      · rw [hlen, hL]
        have : ¬ l < nargs := by omega
        simp [this, hv.2]; omega
      · simp [specSlot, hv]; omega
    · rw [if_neg hv]
      by_cases hb : nargs < i + 1
      · rw [if_pos hb]
        refine ⟨rfl, hoob, ?_⟩
        intro j hj
        have hnv : variadic = false := by
          cases variadic with
          | false => rfl
          | true => exact absurd ⟨by omega, rfl⟩ hv
        have hlen' : g.len = nargs := by
          rw [hlen, hL]
          have : ¬ l < nargs := by omega
          have h2 : nargs < l := by omega
          simp [this, h2, hnv]
        exact hdone j (by omega) hj
      · rw [if_neg hb]
        apply step
        · rw [hlen, hL]
          by_cases h1 : l < nargs
          · simp only [h1, if_true]
            split <;> omega
          · simp only [h1, if_false]
            split <;> omega
        · have : ¬ (nargs ≤ i + 1 ∧ variadic = true) := hv
          simp [specSlot, this]; omega

end GojaModel.C13
