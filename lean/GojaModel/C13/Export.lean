/-
  C13 — Part 3 of the model: Export of a script-built object graph with the identity cache
  (value.go:791 Object.Export, object.go:956 baseObject.export, array.go:506 arrayObject.export,
   object.go:1664 objectExportCtx.get / 1690 put).

  Both export methods have the same shape:
        if v, exists := ctx.get(o.val); exists { return v }
        m := make(...); ctx.put(o.val, m)
        for each own key: m[key] = exportValue(child, ctx)        -- recursion, same ctx
        return m
  The Go object is allocated and entered into the cache BEFORE the children are exported, which is what makes
  cycles terminate and shared children come out shared.

  Model: a script heap `js : Nat → List (Nat × JVal)` (object id ↦ its own data properties in key order; an array
  is an object whose keys are its indices), the cache as the list of object ids in allocation order — the Go
  address of the exported object IS its position in that list — and the finished Go objects `out`.
  Core Lean only.
-/
namespace GojaModel.C13

inductive JVal where
  | prim (p : Int)      -- a primitive, or an opaque leaf object exported without recursion (typed array / ArrayBuffer:
                        -- a slice backed by the buffer; Date; function) — also what a getter returns, if primitive
  | ref (id : Nat)      -- an object / array (own enumerable data property, array element, or the value a getter returns)
  | hole                -- an array hole (arrayObject.export leaves the slot nil)
deriving DecidableEq, Repr

inductive GVal where
  | prim (p : Int)
  | addr (a : Nat)
  | nil
deriving DecidableEq, Repr

abbrev JFields := List (Nat × JVal)
abbrev GFields := List (Nat × GVal)

structure ECtx where
  cache : List Nat                 -- objectExportCtx.cache: object id at position a  <->  Go address a
  out : List (Nat × GFields)       -- completed Go objects (address, contents)
  ok : Bool                        -- false once the recursion fuel ran out (never with fuel > number of objects)
deriving DecidableEq, Repr

/-- objectExportCtx.get: position of `id` in the cache. -/
def findAddr (id : Nat) : List Nat → Option Nat
  | [] => none
  | x :: xs => if x = id then some 0 else (findAddr id xs).map (· + 1)

/-- the `for … keys` loop, parameterised by the exporter for values -/
def expFields (ev : ECtx → JVal → ECtx × GVal) : ECtx → JFields → ECtx × GFields
  | c, [] => (c, [])
  | c, (k, v) :: rest =>
    let (c1, g) := ev c v
    let (c2, gs) := expFields ev c1 rest
    (c2, (k, g) :: gs)

/-- exportValue (value.go:1136) → Object.self.export(ctx). -/
def expVal (js : Nat → JFields) : Nat → ECtx → JVal → ECtx × GVal
  | _, c, .prim p => (c, .prim p)
  | _, c, .hole => (c, .nil)
  | 0, c, .ref _ => ({ c with ok := false }, .prim 0)
  | fuel + 1, c, .ref id =>
    match findAddr id c.cache with
    | some a => (c, .addr a)                                  -- ctx.get hit: the same Go object again
    | none =>
      let a := c.cache.length                                 -- m := make(...)
      let c1 : ECtx := { c with cache := c.cache ++ [id] }    -- ctx.put(o.val, m)
      let (c2, fs) := expFields (expVal js fuel) c1 (js id)
      ({ c2 with out := c2.out ++ [(a, fs)] }, .addr a)

def ECtx.empty : ECtx := { cache := [], out := [], ok := true }

/-- Object.Export(): a fresh ctx per call. -/
def exportRoot (js : Nat → JFields) (fuel : Nat) (root : Nat) : ECtx × GVal :=
  expVal js fuel ECtx.empty (.ref root)

/-! ### what "the exported graph is the image of the script graph" means -/

/-- value correspondence under the object↦address map `cache` -/
def Img (cache : List Nat) : JVal → GVal → Prop
  | .prim p, .prim q => p = q
  | .hole, .nil => True
  | .ref id, .addr a => cache[a]? = some id
  | _, _ => False

def ImgFields (cache : List Nat) : JFields → GFields → Prop
  | [], [] => True
  | (k, v) :: fs, (k', g) :: gs => k = k' ∧ Img cache v g ∧ ImgFields cache fs gs
  | _, _ => False

/-- a finished Go object is the image of the script object cached at its address -/
def OutGood (js : Nat → JFields) (cache : List Nat) (e : Nat × GFields) : Prop :=
  ∃ id, cache[e.1]? = some id ∧ ImgFields cache (js id) e.2

/-! ### Map and Set objects (builtin_map.go:53 mapObject.export, builtin_set.go:52 setObject.export)

  Since fix 29d16ec they start with `if v, exists := ctx.get(…); exists { return v }` like baseObject.export and
  arrayObject.export, so a Map (entries `<key, value>`) or a Set (elements) is an ordinary node of `expVal`.
  BEFORE the fix they did not consult the cache on entry — `m := make(…); ctx.put(mo.val, m)` straight away — and every
  visit of a Map / Set allocated a new Go slice: `expValK` with `isMapSet id` marking such objects (for them the old code
  never looked the id up) is kept as the regression model of that mechanism. -/

def expValK (js : Nat → JFields) (isMapSet : Nat → Bool) : Nat → ECtx → JVal → ECtx × GVal
  | _, c, .prim p => (c, .prim p)
  | _, c, .hole => (c, .nil)
  | 0, c, .ref _ => ({ c with ok := false }, .prim 0)
  | fuel + 1, c, .ref id =>
    match (if isMapSet id then none else findAddr id c.cache) with
    | some a => (c, .addr a)
    | none =>
      let a := c.cache.length
      let c1 : ECtx := { c with cache := c.cache ++ [id] }
      let (c2, fs) := expFields (expValK js isMapSet fuel) c1 (js id)
      ({ c2 with out := c2.out ++ [(a, fs)] }, .addr a)

end GojaModel.C13
