/-
  C13 — refinement: the WrapCache mechanism (Model.lean) implements the documented semantics (Spec.lean).
  For every state satisfying the invariant and every tracked operation, abstracting after the mechanism step is the
  same as taking the spec step on the abstraction; hence for every admissible history.
-/
import GojaModel.C13.Lemmas
import GojaModel.C13.Spec

namespace GojaModel.C13

theorem Sp.eq_of {a b : Sp} (h1 : a.fixed = b.fixed) (h2 : a.len = b.len) (h3 : a.val = b.val) (h4 : a.cap = b.cap)
    (h5 : a.h = b.h) (h6 : a.nh = b.nh) : a = b := by
  cases a; cases b; simp_all

theorem abs_h_att {s : St} (I : Inv s) (w i : Nat) : (s.abs.h w = .att i) ↔ s.cacheGet i = some w := by
  simp only [St.abs]
  constructor
  · intro h
    by_cases hw : w < s.nw
    · simp only [hw, if_true] at h
      cases hws : s.ws w with
      | own v => simp [hws] at h
      | cell b j =>
        simp only [hws] at h
        have hji : j = i := by cases h; rfl
        subst hji
        exact (I.attached_cached w b j hws).2
    · simp [hw] at h
  · intro h
    have hw := I.cached_lt_nw h
    simp [hw, I.cached_attached i w h]

theorem abs_h_det {s : St} (w : Nat) (v : Val) (hw : w < s.nw) (h : s.ws w = .own v) : s.abs.h w = .det v := by
  simp [St.abs, hw, h]

theorem findAtt_abs {s : St} (I : Inv s) (i : Nat) : s.abs.findAtt i = s.cacheGet i := by
  unfold Sp.findAtt
  cases hf : (List.range s.abs.nh).find? (fun w => s.abs.h w == .att i) with
  | some w' =>
    have hp := List.find?_some hf
    simp at hp
    exact ((abs_h_att I w' i).mp hp).symm
  | none =>
    cases hc : s.cacheGet i with
    | none => rfl
    | some w =>
      exfalso
      have hw := I.cached_lt_nw hc
      have := List.find?_eq_none.mp hf w (by simp [St.abs]; exact hw)
      simp [(abs_h_att I w i).mpr hc] at this

/-- the value a wrapper reads is the same in the mechanism and in the abstraction -/
theorem readH_abs {s : St} (I : Inv s) (w : Nat) (hw : w < s.nw) : s.abs.readH w = s.readW w := by
  unfold Sp.readH St.readW
  cases hws : s.ws w with
  | own v => simp [St.abs, hw, hws, St.readLoc]
  | cell b i =>
    have ⟨hb, hc⟩ := I.attached_cached w b i hws
    have hi : i < s.len := Nat.lt_of_lt_of_le (cacheGet_lt hc) I.clen_le
    simp [St.abs, hw, hws, St.readLoc, hi, St.slot, hb]

theorem refine_get {s : St} (I : Inv s) (i : Nat) : (s.getIdx i).1.abs = (s.abs.getIdx i).1 ∧
    (s.getIdx i).2 = (s.abs.getIdx i).2 := by
  unfold St.getIdx Sp.getIdx
  have hlen : s.abs.len = s.len := rfl
  rw [hlen, findAtt_abs I]
  by_cases hl : s.len ≤ i
  · simp [hl]
  · simp only [hl, if_false]
    cases hc : s.cacheGet i with
    | some w => simp
    | none =>
      simp only
      refine ⟨?_, rfl⟩
      apply Sp.eq_of <;> try rfl
      · funext w
        simp only [St.abs, St.cachePut, updN]
        by_cases hw : w = s.nw
        · subst hw; simp
        · simp only [hw, if_false]
          by_cases h2 : w < s.nw
          · have : w < s.nw + 1 := by omega
            simp [h2, this]
          · have : ¬ w < s.nw + 1 := by omega
            simp [h2, this]

theorem refine_wwrite {s : St} (I : Inv s) (w : Nat) (x : Val) :
    (s.step (.wwrite w x)).abs = s.abs.step (.wwrite w x) := by
  simp only [St.step, Sp.step]
  have hnh : s.abs.nh = s.nw := rfl
  rw [hnh]
  by_cases hw : w < s.nw
  · simp only [hw, if_true]
    unfold St.writeW
    cases hws : s.ws w with
    | own v =>
      have hh : s.abs.h w = .det v := abs_h_det w v hw hws
      simp only [hh]
      apply Sp.eq_of <;> try rfl
      funext w'
      simp only [St.abs, updN]
      by_cases e : w' = w
      · subst e; simp [hw]
      · simp [e]
    | cell b i =>
      have ⟨hb, hc⟩ := I.attached_cached w b i hws
      have hi : i < s.len := Nat.lt_of_lt_of_le (cacheGet_lt hc) I.clen_le
      have hh : s.abs.h w = .att i := (abs_h_att I w i).mpr hc
      simp only [hh]
      apply Sp.eq_of <;> try rfl
      funext j
      simp only [St.abs, St.slot, updMem, updN, hb]
      by_cases e : j = i
      · subst e; simp [hi]
      · simp [e]
  · simp [hw]

theorem refine_goWrite {s : St} (i : Nat) (x : Val) :
    (s.step (.goWrite i x)).abs = s.abs.step (.goWrite i x) := by
  simp only [St.step, Sp.step]
  have hlen : s.abs.len = s.len := rfl
  rw [hlen]
  by_cases hi : i < s.len
  · simp only [hi, if_true]
    apply Sp.eq_of <;> try rfl
    funext j
    simp only [St.abs, St.slot, updMem, updN]
    by_cases e : j = i
    · subst e; simp [hi]
    · simp [e]
  · simp [hi]

theorem refine_goAppend {s : St} (x : Val) :
    (s.step (.goAppend x)).abs = s.abs.step (.goAppend x) := by
  simp only [St.step, Sp.step]
  have h1 : s.abs.fixed = s.fixed := rfl
  have h2 : s.abs.len = s.len := rfl
  have h3 : s.abs.cap = s.cap s.cur := rfl
  rw [h1, h2, h3]
  by_cases hf : s.fixed = true
  · simp [hf]
  · simp only [hf, if_false]
    by_cases hc : s.len < s.cap s.cur
    · simp only [hc, if_true]
      apply Sp.eq_of <;> try rfl
      funext j
      by_cases e : j = s.len
      · subst e; simp [St.abs, St.slot, updMem, updN]
      · by_cases hj : j < s.len
        · have : j < s.len + 1 := by omega
          simp [St.abs, St.slot, updMem, updN, e, hj, this]
        · have : ¬ j < s.len + 1 := by omega
          simp [St.abs, St.slot, updMem, updN, e, hj, this]
    · simp [hc]

/-- the wrapper table after "copyReflectValueWrapper on the wrapper cached for slot i" is the spec's detachAt -/
theorem abs_h_detachOpt {s : St} (I : Inv s) (i : Nat) (hi : i < s.len) (w : Nat) :
    (if w < s.nw then (match (s.detachOpt (s.cacheGet i)).ws w with | .cell _ j => HSt.att j | .own v => HSt.det v)
     else HSt.det 0) = (s.abs.detachAt i).h w := by
  simp only [Sp.detachAt]
  have hval : s.abs.val i = s.slot i := by simp [St.abs, hi]
  cases hc : s.cacheGet i with
  | none =>
    have hno : s.abs.h w ≠ .att i := fun h => by rw [(abs_h_att I w i).mp h] at hc; cases hc
    simp only [St.detachOpt, hno, if_false]
    rfl
  | some c =>
    simp only [St.detachOpt, St.detach, updN]
    by_cases hwc : w = c
    · subst hwc
      have hatt : s.abs.h w = .att i := (abs_h_att I w i).mpr hc
      have hw := I.cached_lt_nw hc
      have hrd : s.readW w = s.slot i := by
        simp [St.readW, I.cached_attached i w hc, St.readLoc, St.slot]
      simp [hatt, hw, hval, hrd]
    · have hno : s.abs.h w ≠ .att i := fun h => by
        have := (abs_h_att I w i).mp h; rw [hc] at this; cases this; exact hwc rfl
      simp only [hwc, if_false, hno]
      rfl

theorem refine_del {s : St} (I : Inv s) (i : Nat) : (s.step (.del i)).abs = s.abs.step (.del i) := by
  simp only [St.step, Sp.step, St.delIdx]
  have hlen : s.abs.len = s.len := rfl
  rw [hlen]
  by_cases hl : s.len ≤ i
  · simp [hl]
  · simp only [hl, if_false]
    have hi : i < s.len := by omega
    apply Sp.eq_of
    · cases s.cacheGet i <;> rfl
    · cases s.cacheGet i <;> rfl
    · funext j
      cases hc : s.cacheGet i <;>
        (by_cases e : j = i
         · subst e; simp [St.abs, St.slot, updMem, updN, St.detach, St.cacheClear, Sp.detachAt, hi]
         · simp [St.abs, St.slot, updMem, updN, St.detach, St.cacheClear, Sp.detachAt, e])
    · cases s.cacheGet i <;> rfl
    · funext w
      have := abs_h_detachOpt I i hi w
      rw [← this]
      cases hc : s.cacheGet i <;> first | rfl | simp [St.abs, St.detachOpt, St.detach, St.cacheClear]
    · cases s.cacheGet i <;> rfl

theorem refine_grow {s : St} (I : Inv s) {size : Nat} (h : s.len < size) : (s.grow size).abs = s.abs.extend size := by
  have hcl := I.clen_le
  unfold St.grow Sp.extend
  by_cases hcap : s.cap s.cur < size
  · simp only [hcap, if_true]
    apply Sp.eq_of
    · rfl
    · rfl
    · funext j
      simp only [St.abs, St.slot]
      by_cases hj : j < s.len
      · have : j < size := by omega
        simp [hj, this]
      · by_cases hj2 : j < size <;> simp [hj, hj2]
    · simp [St.abs, hcap]
    · funext w
      simp only [St.abs]
      by_cases hw : w < s.nw
      · simp only [hw, if_true]
        cases hf : s.findCached w 0 (min s.clen size) with
        | some i =>
          have hc := (findCached_some hf).2.2
          simp [I.cached_attached i w hc]
        | none => rfl
      · simp [hw]
    · rfl
  · simp only [hcap, if_false]
    apply Sp.eq_of
    · rfl
    · rfl
    · funext j
      simp only [St.abs, St.slot]
      by_cases hj : j < s.len
      · have h1 : j < size := by omega
        simp [hj, h1]
        intro hh; omega
      · by_cases hj2 : j < size
        · have h2 : s.len ≤ j := by omega
          simp [hj, hj2, h2]
        · simp [hj, hj2]
    · simp [St.abs, hcap]
    · rfl
    · rfl

theorem refine_shrink {s : St} (I : Inv s) {size : Nat} (h : size < s.len) : (s.shrink size).abs = s.abs.cut size := by
  have hcl := I.clen_le
  unfold St.shrink Sp.cut
  by_cases hc : s.clen > size
  · simp only [hc, if_true]
    apply Sp.eq_of
    · rfl
    · rfl
    · funext j
      by_cases hj : j < size
      · have h1 : j < s.len := by omega
        have h2 : ¬ size ≤ j := by omega
        simp [St.abs, St.slot, hj, h1, h2]
      · simp [St.abs, St.slot, hj]
    · rfl
    · funext w
      simp only [St.abs]
      by_cases hw : w < s.nw
      · simp only [hw, if_true]
        cases hws : s.ws w with
        | own v =>
          cases hf : s.findCached w size s.clen with
          | some k =>
            have := I.cached_attached k w (findCached_some hf).2.2
            rw [hws] at this; cases this
          | none => simp [hws]
        | cell b j =>
          have ⟨hb, hcj⟩ := I.attached_cached w b j hws
          have hjc := cacheGet_lt hcj
          have hjl : j < s.len := by omega
          by_cases hsj : size ≤ j
          · cases hf : s.findCached w size s.clen with
            | none => exact absurd hcj (findCached_none hf j hsj hjc)
            | some k =>
              simp [hsj, hjl, St.readW, hws, St.readLoc, St.slot, hb]
          · cases hf : s.findCached w size s.clen with
            | some k =>
              have hk := findCached_some hf
              have := I.cached_inj hk.2.2 hcj
              omega
            | none => simp [hws, hsj]
      · simp [hw]
    · rfl
  · simp only [hc, if_false]
    apply Sp.eq_of
    · rfl
    · rfl
    · funext j
      by_cases hj : j < size
      · have h1 : j < s.len := by omega
        have h2 : ¬ size ≤ j := by omega
        simp [St.abs, St.slot, hj, h1, h2]
      · simp [St.abs, St.slot, hj]
    · rfl
    · funext w
      simp only [St.abs]
      by_cases hw : w < s.nw
      · simp only [hw, if_true]
        cases hws : s.ws w with
        | own v => rfl
        | cell b j =>
          have ⟨_, hcj⟩ := I.attached_cached w b j hws
          have hjc := cacheGet_lt hcj
          have : ¬ size ≤ j := by omega
          simp [this]
      · simp [hw]
    · rfl

theorem refine_putIdxArr {s : St} (I : Inv s) {i : Nat} (hi : i < s.len) (x : Val) (ok : Bool) :
    (s.putIdxArr i x ok).abs =
      (if ok then { (s.abs.detachAt i) with val := updN s.abs.val i x } else s.abs) := by
  have hn : ¬ s.len ≤ i := by omega
  unfold St.putIdxArr
  simp only [hn, if_false]
  cases ok with
  | true =>
    simp only [if_true]
    have hn1 : ∀ o, ¬ (s.detachOpt o).len ≤ i := by intro o; cases o <;> simpa [St.detachOpt, St.detach] using hn
    simp only [hn1, if_false]
    apply Sp.eq_of
    · cases s.cacheGet i <;> rfl
    · cases s.cacheGet i <;> rfl
    · funext j
      cases hc : s.cacheGet i <;>
        (by_cases e : j = i
         · subst e; simp [St.abs, St.slot, updMem, updN, St.detachOpt, St.detach, St.cacheClear, Sp.detachAt, hi]
         · simp [St.abs, St.slot, updMem, updN, St.detachOpt, St.detach, St.cacheClear, Sp.detachAt, e])
    · cases s.cacheGet i <;> rfl
    · funext w
      rw [show (({ (s.abs.detachAt i) with val := updN s.abs.val i x } : Sp).h w) = (s.abs.detachAt i).h w from rfl,
        ← abs_h_detachOpt I i hi w]
      cases hc : s.cacheGet i <;> first | rfl | simp [St.abs, St.detachOpt, St.detach, St.cacheClear]
    · cases s.cacheGet i <;> rfl
  | false =>
    simp only [Bool.false_eq_true, if_false]
    cases hc : s.cacheGet i with
    | none => simp [St.detachOpt, hn]
    | some w =>
      have hn2 : ¬ (s.detach w).len ≤ i := by simpa [St.detach] using hn
      simp only [St.detachOpt, hn2, if_false]
      have hws : updN (s.detach w).ws w (Loc.cell (s.detach w).cur i) = s.ws := by
        funext w'
        simp only [updN, St.detach]
        split
        · rename_i heq; subst heq; exact (I.cached_attached i w' hc).symm
        · rfl
      apply Sp.eq_of <;> try rfl
      funext w'
      simp only [St.abs]
      rw [hws]
      rfl

theorem refine_store {s : St} (I : Inv s) (i : Nat) (x : Val) (ok : Bool) :
    (s.putIdx i x ok).abs = s.abs.store i x ok := by
  unfold St.putIdx Sp.store
  have h1 : s.abs.fixed = s.fixed := rfl
  have h2 : s.abs.len = s.len := rfl
  rw [h1, h2]
  cases hf : s.fixed with
  | true =>
    simp only [if_true, true_and]
    by_cases hl : s.len ≤ i
    · simp [hl, St.putIdxArr]
    · have hi : i < s.len := by omega
      simp only [hl, if_false]
      rw [refine_putIdxArr I hi]
  | false =>
    simp only [Bool.false_eq_true, if_false, false_and]
    by_cases hl : s.len ≤ i
    · simp only [hl, if_true]
      have I1 := inv_grow I (show s.len < i + 1 by omega)
      have hi1 : i < (s.grow (i + 1)).len := by rw [grow_len]; omega
      rw [refine_putIdxArr I1 hi1, refine_grow I (by omega)]
    · have hi : i < s.len := by omega
      simp only [hl, if_false]
      rw [refine_putIdxArr I hi]

theorem refine_setLen {s : St} (I : Inv s) (n : Nat) : (s.step (.setLen n)).abs = s.abs.step (.setLen n) := by
  simp only [St.step, Sp.step, St.setLen]
  have h1 : s.abs.fixed = s.fixed := rfl
  have h2 : s.abs.len = s.len := rfl
  rw [h1, h2]
  by_cases hf : s.fixed = true
  · simp [hf]
  · simp only [hf, if_false]
    by_cases hg : n > s.len
    · have : s.len < n := hg
      simp only [hg, this, if_true]
      exact refine_grow I this
    · have hng : ¬ s.len < n := hg
      simp only [hg, hng, if_false]
      by_cases hs : n < s.len
      · simp only [hs, if_true]; exact refine_shrink I hs
      · simp [hs]

theorem moveCache_cap_fixed (u : St) (c : Option Nat) (i : Nat) :
    (u.moveCache c i).cap = u.cap ∧ (u.moveCache c i).fixed = u.fixed := by
  cases c with
  | none => simp only [St.moveCache, St.condClear]; split <;> exact ⟨rfl, rfl⟩
  | some w => exact ⟨rfl, rfl⟩

theorem refine_swap {s : St} (I : Inv s) (i j : Nat) : (s.step (.swap i j)).abs = s.abs.step (.swap i j) := by
  simp only [St.step, Sp.step]
  have h2 : s.abs.len = s.len := rfl
  rw [h2]
  by_cases hoob : s.len ≤ i ∨ s.len ≤ j
  · simp [St.swap, hoob]
  · simp only [hoob, if_false]
    have hi : i < s.len := by omega
    have hj : j < s.len := by omega
    obtain ⟨_, hl, hc, hn, _, _, hw, hm⟩ := swap_shape hi hj I.clen_le
    have hcf : (s.swap i j).cap = s.cap ∧ (s.swap i j).fixed = s.fixed := by
      simp only [St.swap, hoob, if_false]
      have a := moveCache_cap_fixed
        (({ s with mem := updMem (updMem s.mem s.cur i (s.slot j)) s.cur j (s.slot i) } : St).moveCache (s.cacheGet i) j)
        (s.cacheGet j) i
      have b := moveCache_cap_fixed
        ({ s with mem := updMem (updMem s.mem s.cur i (s.slot j)) s.cur j (s.slot i) } : St) (s.cacheGet i) j
      exact ⟨a.1.trans b.1, a.2.trans b.2⟩
    apply Sp.eq_of
    · exact hcf.2
    · exact hl
    · funext k
      simp only [St.abs, St.slot, hl, hc, hm, updMem, updN]
      by_cases hk : k < s.len
      · by_cases e1 : k = j
        · subst e1; simp [hk, hi]
        · by_cases e2 : k = i
          · subst e2; simp [e1, hk, hj]
          · simp [e1, e2, hk]
      · have e1 : k ≠ j := by omega
        have e2 : k ≠ i := by omega
        simp [hk, e1, e2]
    · simp only [St.abs, hc, hcf.1]
    · funext w
      simp only [St.abs, hn]
      by_cases hwn : w < s.nw
      · simp only [hwn, if_true, hw]
        by_cases hcj : s.cacheGet j = some w
        · have := I.cached_attached j w hcj
          simp [hcj, this]
        · by_cases hci : s.cacheGet i = some w
          · have := I.cached_attached i w hci
            have hij : i ≠ j := by intro e; subst e; exact hcj hci
            simp [hcj, hci, this, hij]
          · simp only [hcj, hci, if_false]
            cases hws : s.ws w with
            | own v => rfl
            | cell b k =>
              have ⟨_, hck⟩ := I.attached_cached w b k hws
              have e1 : k ≠ j := by intro e; subst e; exact hcj hck
              have e2 : k ≠ i := by intro e; subst e; exact hci hck
              simp [e1, e2]
      · simp [hwn]
    · exact hn

/-- REFINEMENT, one step. -/
theorem refine_step {s : St} (I : Inv s) (op : Op) (ht : op.tracked = true) : (s.step op).abs = s.abs.step op := by
  cases op with
  | get i => exact (refine_get I i).1
  | set i x => exact refine_store I i x true
  | setBad i => exact refine_store I i 0 false
  | del i => exact refine_del I i
  | setLen n => exact refine_setLen I n
  | swap i j => exact refine_swap I i j
  | wwrite w x => exact refine_wwrite I w x
  | goWrite i x => exact refine_goWrite i x
  | goAppend x => exact refine_goAppend x
  | goRealloc c => simp [Op.tracked] at ht

/-- REFINEMENT, all admissible histories. -/
theorem refine_run : ∀ (h : List Op) (s : St), Inv s → Admissible s h → (s.run h).abs = s.abs.run h
  | [], _, _, _ => rfl
  | op :: ops, s, I, ha => by
    obtain ⟨ht, hr⟩ := ha
    simp only [St.run, Sp.run]
    rw [refine_run ops (s.step op) (inv_step I op ht) hr, refine_step I op ht]

theorem abs_init (fixed : Bool) (n c : Nat) (f : Nat → Val) : (St.init fixed n c f).abs = Sp.init fixed n c f := by
  apply Sp.eq_of
  · rfl
  · rfl
  · funext i
    simp only [St.abs, St.init, St.slot, Sp.init]
    by_cases hi : i < n
    · have : i < max n c := by omega
      simp [hi, this]
    · simp [hi]
  · simp [St.abs, St.init, Sp.init]
  · funext w; simp [St.abs, St.init, Sp.init]
  · rfl

end GojaModel.C13
