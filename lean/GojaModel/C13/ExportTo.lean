/-
  C13 — ExportTo of a script-built graph into typed Go destinations (Runtime.toReflectValue, runtime.go:2072:
  the Ptr / Struct case l.2209-2240, the Map case l.2201 → genericExportToMap object.go:980, the Slice case l.2193 →
  arrayObject.exportToArrayOrSlice array.go:537 / genericExportToArrayOrSlice object.go:1024, and the interface{}
  destination l.2103 → exportValue → the untyped export of Export.lean) with the identity cache keyed by
  (script object, destination type): ctx.get / ctx.put for the untyped export (type = exportType()),
  ctx.getTyped / ctx.putTyped for typed destinations (Cache2.lean shows that the two-level table behaves as a map on
  such pairs).  In every case the Go value is allocated and cached BEFORE the children are converted.
  The Go address of an exported value is its position in the cache.  Core Lean only.
-/
import GojaModel.C13.Export

namespace GojaModel.C13

inductive Ty where
  | iface                 -- interface{}: the untyped export
  | named (t : Nat)       -- a composite destination type, index into the type table
deriving DecidableEq, Repr

inductive TyDef where
  | structPtr (fields : List (Nat × Ty))   -- *struct{ field k : type }, fields in declaration order
  | mapOf (elem : Ty)                       -- (named) map[string]T
  | sliceOf (elem : Ty)                     -- []T

def Ty.code : Ty → Nat
  | .iface => 0
  | .named t => t + 1

structure TCtx where
  cache : List (Nat × Nat)        -- (object id, type code) at position a  <->  Go address a
  out : List (Nat × GFields)
  ok : Bool
deriving DecidableEq, Repr

def TCtx.empty : TCtx := { cache := [], out := [], ok := true }

def findKey (key : Nat × Nat) : List (Nat × Nat) → Option Nat
  | [] => none
  | x :: xs => if x = key then some 0 else (findKey key xs).map (· + 1)

def lookupField : JFields → Nat → Option JVal
  | [], _ => none
  | (k, v) :: rest, n => if k = n then some v else lookupField rest n

/-- `et.AssignableTo(typ)`: an object whose own export type IS the destination type (an Array into []interface{},
    a plain object into map[string]interface{}) takes the untyped path (runtime.go:2103) -/
def normTy (asU : Nat → Nat → Bool) (id : Nat) : Ty → Ty
  | .iface => .iface
  | .named t => if asU id t then .iface else .named t

/-- the children that get converted, with their destination types:
    untyped: every own property as interface{}; struct: the declared fields the object has (getStr ≠ nil), in
    declaration order; map / slice: every property / element into the element type -/
def kidsOf (js : Nat → JFields) (tys : Nat → TyDef) (id : Nat) : Ty → List (Nat × JVal × Ty)
  | .iface => (js id).map (fun kv => (kv.1, kv.2, Ty.iface))
  | .named t => match tys t with
    | .structPtr fields => fields.filterMap (fun kf => (lookupField (js id) kf.1).map (fun v => (kf.1, v, kf.2)))
    | .mapOf e => (js id).map (fun kv => (kv.1, kv.2, e))
    | .sliceOf e => (js id).map (fun kv => (kv.1, kv.2, e))

def expToFields (ev : TCtx → JVal → Ty → TCtx × GVal) : TCtx → List (Nat × JVal × Ty) → TCtx × GFields
  | c, [] => (c, [])
  | c, (k, v, ty) :: rest =>
    let (c1, g) := ev c v ty
    let (c2, gs) := expToFields ev c1 rest
    (c2, (k, g) :: gs)

def expTo (js : Nat → JFields) (tys : Nat → TyDef) (asU : Nat → Nat → Bool) : Nat → TCtx → JVal → Ty → TCtx × GVal
  | _, c, .prim p, _ => (c, .prim p)
  | _, c, .hole, _ => (c, .nil)
  | 0, c, .ref _, _ => ({ c with ok := false }, .prim 0)
  | fuel + 1, c, .ref id, ty =>
    let ty' := normTy asU id ty
    match findKey (id, ty'.code) c.cache with
    | some a => (c, .addr a)                                        -- ctx.get / ctx.getTyped hit
    | none =>
      let a := c.cache.length                                       -- make / reflect.New / MakeMap / MakeSlice
      let c1 : TCtx := { c with cache := c.cache ++ [(id, ty'.code)] }   -- ctx.put / ctx.putTyped
      let (c2, fs) := expToFields (expTo js tys asU fuel) c1 (kidsOf js tys id ty')
      ({ c2 with out := c2.out ++ [(a, fs)] }, .addr a)

/-- value correspondence: a reference converted for destination type ty is the Go value cached for
    (object, normalised type) -/
def ImgT (asU : Nat → Nat → Bool) (cache : List (Nat × Nat)) : JVal → Ty → GVal → Prop
  | .prim p, _, .prim q => p = q
  | .hole, _, .nil => True
  | .ref id, ty, .addr a => cache[a]? = some (id, (normTy asU id ty).code)
  | _, _, _ => False

def ImgKids (asU : Nat → Nat → Bool) (cache : List (Nat × Nat)) : List (Nat × JVal × Ty) → GFields → Prop
  | [], [] => True
  | (k, v, ty) :: ks, (k', g) :: gs => k = k' ∧ ImgT asU cache v ty g ∧ ImgKids asU cache ks gs
  | _, _ => False

/-- a finished Go value is the image of the script object it was built for, at its destination type -/
def OutGoodT (js : Nat → JFields) (tys : Nat → TyDef) (asU : Nat → Nat → Bool) (cache : List (Nat × Nat))
    (e : Nat × GFields) : Prop :=
  ∃ id ty, cache[e.1]? = some (id, ty.code) ∧ ImgKids asU cache (kidsOf js tys id ty) e.2

end GojaModel.C13
