/-
  C13 — map wrappers (object_gomap_reflect.go).  A wrapped Go map has NO element cache: `_getKey` (l.39) calls
  toValue on `fieldsValue.MapIndex(key)`, which is not addressable, so a container value (struct S) gets wrapped as a
  COPY (objectGoReflect.init, object_goreflect.go:166).  Every read hands out a fresh, detached wrapper; writes go
  through `_put` (l.109) = SetMapIndex.  Core Lean only.
-/
import GojaModel.C13.Model

namespace GojaModel.C13

structure MSt where
  m : Nat → Option Val        -- the Go map: key ↦ element (struct{Field int} abstracted to its field)
  ws : Nat → Val              -- element wrappers handed out: each owns a copy
  nw : Nat

def MSt.init (f : Nat → Option Val) : MSt := { m := f, ws := fun _ => 0, nw := 0 }

inductive MOp where
  | get (k : Nat)               -- script: h = a[k]
  | set (k : Nat) (x : Val)     -- script: a[k] = {Field: x}
  | del (k : Nat)               -- script: delete a[k]
  | wwrite (w : Nat) (x : Val)  -- script: h_w.Field = x
  | goSet (k : Nat) (x : Val)   -- Go: m[k] = S{x}
  | goDel (k : Nat)             -- Go: delete(m, k)
deriving DecidableEq, Repr

/-- `_getKey`: a present key yields a new wrapper holding a copy of the element. -/
def MSt.getKey (s : MSt) (k : Nat) : MSt × Option Nat :=
  match s.m k with
  | some v => ({ s with ws := updN s.ws s.nw v, nw := s.nw + 1 }, some s.nw)
  | none => (s, none)

def MSt.step (s : MSt) : MOp → MSt
  | .get k => (s.getKey k).1
  | .set k x => { s with m := updN s.m k (some x) }
  | .del k => { s with m := updN s.m k none }
  | .wwrite w x => if w < s.nw then { s with ws := updN s.ws w x } else s
  | .goSet k x => { s with m := updN s.m k (some x) }
  | .goDel k => { s with m := updN s.m k none }

def MSt.run (s : MSt) : List MOp → MSt
  | [] => s
  | op :: ops => (s.step op).run ops

def MOp.isWrapperWrite : MOp → Bool
  | .wwrite _ _ => true
  | _ => false

theorem mstep_m_congr {s t : MSt} (h : s.m = t.m) (op : MOp) : (s.step op).m = (t.step op).m := by
  cases op with
  | get k =>
    simp only [MSt.step, MSt.getKey]
    rw [h]; cases t.m k <;> simp [h]
  | wwrite w x => simp only [MSt.step]; split <;> split <;> simp [h]
  | _ => simp [MSt.step, h]

end GojaModel.C13
