/-
  The catalogue of the D stream consists of well-formed source descriptions, so the documented-behaviour theorems of
  ExportDispatchLemmas apply to every catalogued object.
-/
import GojaModel.C13.DispatchDriver
import GojaModel.C13.ExportDispatchLemmas

namespace GojaModel.C13.DispatchDriver
open GojaModel.C13

def catalogueNames : List String :=
  ["arr", "arrHole", "arrEmpty", "arr2", "arrIter", "arrIterGone", "set", "setEmpty", "map", "u8", "i16", "dv", "ab", "alike",
   "alikeHole", "fn", "plain", "gen", "iterObj", "proxyArr"]

/-- boolean form of JSrc.WF -/
def wfB (s : JSrc) : Bool :=
  (!(s.kind == .array && s.iterDefault) || (s.hasIter && s.iter == s.values)) &&
  (s.kind == .other || !s.callable) &&
  (match s.length with | some l => decide (l ≤ s.idx.length) | none => true)

theorem wfB_sound (s : JSrc) (h : wfB s = true) : s.WF := by
  simp only [wfB, Bool.and_eq_true, Bool.or_eq_true, Bool.not_eq_true', beq_iff_eq, Bool.and_eq_false_iff] at h
  obtain ⟨⟨h1, h2⟩, h3⟩ := h
  refine ⟨?_, ?_, ?_⟩
  · intro hk hid
    rcases h1 with h1 | h1
    · rcases h1 with h1 | h1
      · simp [hk] at h1
      · rw [hid] at h1; cases h1
    · exact ⟨h1.1, by simpa using h1.2⟩
  · intro hk
    rcases h2 with h2 | h2
    · exact absurd (by simpa using h2) hk
    · exact h2
  · intro l hl
    rw [hl] at h3
    simpa using h3

theorem catalogue_wf : ∀ n ∈ catalogueNames, ∀ s, catalogue n = some s → s.WF := by
  intro n hn s hs
  apply wfB_sound
  simp only [catalogueNames, List.mem_cons, List.mem_nil_iff, or_false] at hn
  rcases hn with rfl | rfl | rfl | rfl | rfl | rfl | rfl | rfl | rfl | rfl | rfl | rfl | rfl | rfl | rfl | rfl | rfl | rfl | rfl | rfl <;>
    (simp only [catalogue, Option.some.injEq] at hs; subst hs; decide)

end GojaModel.C13.DispatchDriver
