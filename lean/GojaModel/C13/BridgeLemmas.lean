import GojaModel.C13.Bridge

namespace GojaModel.C13

theorem wrapTo_id {k : IntKind} {v : Int} (h : k.InRange v) : wrapTo k v = v := by
  unfold IntKind.InRange at h
  cases k <;> simp only [IntKind.lo, IntKind.hi] at h <;> simp only [wrapTo] <;> omega

theorem safe_in_i64 {v : Int} (h : Safe v) : -9223372036854775808 ≤ v ∧ v ≤ 9223372036854775807 := by
  unfold Safe maxSafe at h; omega

theorem toValueInt_safe {k : IntKind} {v : Int} (hs : Safe v) : toValueInt k v = .int v := by
  have h64 := safe_in_i64 hs
  cases k <;> simp [toValueInt, intToValue, hs, h64.2]

/-- beyond ±2^53 every integer kind goes through floatToValue(float64(v)) -/
theorem toValueInt_unsafe {k : IntKind} {v : Int} (hs : ¬ Safe v) :
    toValueInt k v = floatToValue (.intval (round53 v)) := by
  cases k <;> simp [toValueInt, intToValue, hs]

end GojaModel.C13
