/-
  C13 — the two-level identity cache of one export (object.go:142-146 objectExportCacheItem / objectExportCtx,
  object.go:1664 get, 1676 getTyped, 1690 put, 1701 putTyped).

  cache[key] is either a raw value — what the default, untyped export of the object produced, its Go type is the
  object's exportType() — or an `objectExportCacheItem`: a per-Go-type table (which then holds the untyped value
  under exportType()).  Objects are Nat ids, Go types are Nat codes (`et id` = key.self.exportType()), values are Go
  addresses.  Core Lean only.
-/
namespace GojaModel.C13

inductive CEntry where
  | raw (v : Nat)                          -- cache[key] = value
  | items (tbl : List (Nat × Nat))         -- cache[key] = objectExportCacheItem{typ: value, …}; latest binding first
deriving DecidableEq, Repr

structure C2 where
  et : Nat → Nat                           -- exportType of each object
  cache : Nat → Option CEntry

def tblGet (tbl : List (Nat × Nat)) (ty : Nat) : Option Nat :=
  (tbl.find? (fun e => e.1 = ty)).map (·.2)

/-- objectExportCtx.get (object.go:1664) -/
def C2.get (c : C2) (key : Nat) : Option Nat :=
  match c.cache key with
  | some (.items tbl) => tblGet tbl (c.et key)
  | some (.raw v) => some v
  | none => none

/-- objectExportCtx.getTyped (object.go:1676): a raw value answers only for its own type -/
def C2.getTyped (c : C2) (key ty : Nat) : Option Nat :=
  match c.cache key with
  | some (.items tbl) => tblGet tbl ty
  | some (.raw v) => if c.et key = ty then some v else none
  | none => none

def setCache (c : C2) (key : Nat) (e : CEntry) : C2 :=
  { c with cache := fun k => if k = key then some e else c.cache k }

/-- objectExportCtx.put (object.go:1690) -/
def C2.put (c : C2) (key v : Nat) : C2 :=
  match c.cache key with
  | some (.items tbl) => setCache c key (.items ((c.et key, v) :: tbl))
  | _ => setCache c key (.raw v)

/-- objectExportCtx.putTyped (object.go:1701): an existing raw value is carried over into the new per-type table
    under exportType() — `m[key.self.exportType()] = v; m[typ] = value`. -/
def C2.putTyped (c : C2) (key ty v : Nat) : C2 :=
  match c.cache key with
  | some (.items tbl) => setCache c key (.items ((ty, v) :: tbl))
  | some (.raw old) => setCache c key (.items [(ty, v), (c.et key, old)])
  | none => setCache c key (.items [(ty, v)])

/-- The seeded mutant C13-m2: the "raw value exists" branch merged with the "no entry" branch. -/
def C2.putTypedDropsRaw (c : C2) (key ty v : Nat) : C2 :=
  match c.cache key with
  | some (.items tbl) => setCache c key (.items ((ty, v) :: tbl))
  | _ => setCache c key (.items [(ty, v)])

/-- cache writes during one export -/
inductive COp where
  | put (key v : Nat)
  | putTyped (key ty v : Nat)
deriving DecidableEq, Repr

def C2.step (c : C2) : COp → C2
  | .put k v => c.put k v
  | .putTyped k ty v => c.putTyped k ty v

def C2.run (c : C2) : List COp → C2
  | [] => c
  | op :: ops => (c.step op).run ops

/-- An operation that does not re-bind (key, ty): the export code only writes a binding after the corresponding
    get / getTyped missed, so within one export every (object, type) pair is bound at most once. -/
def COp.leaves (key ty : Nat) (et : Nat → Nat) : COp → Bool
  | .put k _ => !(k == key && et k == ty)
  | .putTyped k t _ => !(k == key && t == ty)

end GojaModel.C13
