import GojaModel.C13.Cache2

namespace GojaModel.C13

theorem tblGet_cons (t v : Nat) (tbl : List (Nat × Nat)) (ty : Nat) :
    tblGet ((t, v) :: tbl) ty = if t = ty then some v else tblGet tbl ty := by
  unfold tblGet
  simp only [List.find?]
  by_cases h : t = ty <;> simp [h]

theorem tblGet_nil (ty : Nat) : tblGet [] ty = none := rfl

theorem C2.get_eq_getTyped (c : C2) (key : Nat) : c.get key = c.getTyped key (c.et key) := by
  unfold C2.get C2.getTyped
  cases c.cache key with
  | none => rfl
  | some e => cases e <;> simp

theorem step_et (c : C2) (op : COp) : (c.step op).et = c.et := by
  cases op with
  | put k v => simp only [C2.step, C2.put]; split <;> rfl
  | putTyped k t v => simp only [C2.step, C2.putTyped]; split <;> rfl

theorem getTyped_setCache (c : C2) (k : Nat) (e : CEntry) (key ty : Nat) :
    (setCache c k e).getTyped key ty =
      if key = k then (match e with
        | .items tbl => tblGet tbl ty
        | .raw v => if c.et key = ty then some v else none)
      else c.getTyped key ty := by
  unfold C2.getTyped setCache
  by_cases h : key = k
  · subst h; cases e <;> simp
  · simp [h]

/-- one cache write that does not re-bind (key, ty) keeps the binding of (key, ty) -/
theorem binding_stable_step (c : C2) (key ty v : Nat) (h : c.getTyped key ty = some v) (op : COp)
    (hl : op.leaves key ty c.et = true) : (c.step op).getTyped key ty = some v := by
  cases op with
  | put k x =>
    simp only [COp.leaves, Bool.not_eq_true', Bool.and_eq_false_iff, beq_eq_false_iff_ne] at hl
    simp only [C2.step, C2.put]
    by_cases hk : key = k
    · subst hk
      have hne : c.et key ≠ ty := by
        rcases hl with hl | hl
        · exact absurd rfl hl
        · exact hl
      cases hc : c.cache key with
      | none => simp [C2.getTyped, hc] at h
      | some e =>
        cases e with
        | raw old => simp [C2.getTyped, hc, hne] at h
        | items tbl =>
          simp only [getTyped_setCache, if_true, tblGet_cons, hne, if_false]
          simpa [C2.getTyped, hc] using h
    · cases hc : c.cache k with
      | none => simp only [getTyped_setCache, hk, if_false]; exact h
      | some e => cases e <;> simp only [getTyped_setCache, hk, if_false] <;> exact h
  | putTyped k t x =>
    simp only [COp.leaves, Bool.not_eq_true', Bool.and_eq_false_iff, beq_eq_false_iff_ne] at hl
    simp only [C2.step, C2.putTyped]
    by_cases hk : key = k
    · subst hk
      have hne : t ≠ ty := by
        rcases hl with hl | hl
        · exact absurd rfl hl
        · exact hl
      cases hc : c.cache key with
      | none => simp [C2.getTyped, hc] at h
      | some e =>
        cases e with
        | raw old =>
          simp only [getTyped_setCache, if_true, tblGet_cons, hne, if_false, tblGet_nil]
          simpa [C2.getTyped, hc] using h
        | items tbl =>
          simp only [getTyped_setCache, if_true, tblGet_cons, hne, if_false]
          simpa [C2.getTyped, hc] using h
    · cases hc : c.cache k with
      | none => simp only [getTyped_setCache, hk, if_false]; exact h
      | some e => cases e <;> simp only [getTyped_setCache, hk, if_false] <;> exact h

theorem binding_stable_run (key ty v : Nat) : ∀ (ops : List COp) (c : C2), c.getTyped key ty = some v →
    (∀ op ∈ ops, op.leaves key ty c.et = true) → (c.run ops).getTyped key ty = some v
  | [], _, h, _ => h
  | op :: ops, c, h, hl => by
    simp only [C2.run]
    apply binding_stable_run key ty v ops (c.step op) (binding_stable_step c key ty v h op (hl op (by simp)))
    intro o ho
    rw [step_et]
    exact hl o (by simp [ho])

end GojaModel.C13
