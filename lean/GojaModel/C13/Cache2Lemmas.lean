import GojaModel.C13.Cache2

namespace GojaModel.C13

theorem tblGet_cons (t v : Nat) (tbl : List (Nat × Nat)) (ty : Nat) :
    tblGet ((t, v) :: tbl) ty = if t = ty then some v else tblGet tbl ty := by
  unfold tblGet
  simp only [List.find?]
  by_cases h : t = ty <;> simp [h]

theorem tblGet_nil (ty : Nat) : tblGet [] ty = none := rfl

theorem C2.get_eq_getTyped (c : C2) (key : Nat) : c.get key = c.getTyped key (c.et key) := by
  unfold C2.get C2.getTyped
  cases c.cache key with
  | none => rfl
  | some e => cases e <;> simp

theorem step_et (c : C2) (op : COp) : (c.step op).et = c.et := by
  cases op with
  | put k v => simp only [C2.step, C2.put]; split <;> rfl
  | putTyped k t v => simp only [C2.step, C2.putTyped]; split <;> rfl

theorem getTyped_setCache (c : C2) (k : Nat) (e : CEntry) (key ty : Nat) :
    (setCache c k e).getTyped key ty =
      if key = k then (match e with
        | .items tbl => tblGet tbl ty
        | .raw v => if c.et key = ty then some v else none)
      else c.getTyped key ty := by
  unfold C2.getTyped setCache
  by_cases h : key = k
  · subst h; cases e <;> simp
  · simp [h]

/-- one cache write that does not re-bind (key, ty) keeps the binding of (key, ty) -/
theorem binding_stable_step (c : C2) (key ty v : Nat) (h : c.getTyped key ty = some v) (op : COp)
    (hl : op.leaves key ty c.et = true) : (c.step op).getTyped key ty = some v := by
  cases op with
  | put k x =>
    simp only [COp.leaves, Bool.not_eq_true', Bool.and_eq_false_iff, beq_eq_false_iff_ne] at hl
    simp only [C2.step, C2.put]
    by_cases hk : key = k
    · subst hk
      have hne : c.et key ≠ ty := by
        rcases hl with hl | hl
        · exact absurd rfl hl
        · exact hl
      cases hc : c.cache key with
      | none => simp [C2.getTyped, hc] at h
      | some e =>
        cases e with
        | raw old => simp [C2.getTyped, hc, hne] at h
        | items tbl =>
          simp only [getTyped_setCache, if_true, tblGet_cons, hne, if_false]
          simpa [C2.getTyped, hc] using h
    · cases hc : c.cache k with
      | none => simp only [getTyped_setCache, hk, if_false]; exact h
      | some e => cases e <;> simp only [getTyped_setCache, hk, if_false] <;> exact h
  | putTyped k t x =>
    simp only [COp.leaves, Bool.not_eq_true', Bool.and_eq_false_iff, beq_eq_false_iff_ne] at hl
    simp only [C2.step, C2.putTyped]
    by_cases hk : key = k
    · subst hk
      have hne : t ≠ ty := by
        rcases hl with hl | hl
        · exact absurd rfl hl
        · exact hl
      cases hc : c.cache key with
      | none => simp [C2.getTyped, hc] at h
      | some e =>
        cases e with
        | raw old =>
          simp only [getTyped_setCache, if_true, tblGet_cons, hne, if_false, tblGet_nil]
          simpa [C2.getTyped, hc] using h
        | items tbl =>
          simp only [getTyped_setCache, if_true, tblGet_cons, hne, if_false]
          simpa [C2.getTyped, hc] using h
    · cases hc : c.cache k with
      | none => simp only [getTyped_setCache, hk, if_false]; exact h
      | some e => cases e <;> simp only [getTyped_setCache, hk, if_false] <;> exact h

theorem binding_stable_run (key ty v : Nat) : ∀ (ops : List COp) (c : C2), c.getTyped key ty = some v →
    (∀ op ∈ ops, op.leaves key ty c.et = true) → (c.run ops).getTyped key ty = some v
  | [], _, h, _ => h
  | op :: ops, c, h, hl => by
    simp only [C2.run]
    apply binding_stable_run key ty v ops (c.step op) (binding_stable_step c key ty v h op (hl op (by simp)))
    intro o ho
    rw [step_et]
    exact hl o (by simp [ho])

end GojaModel.C13

namespace GojaModel.C13

/-- a cache write that does not bind (key, ty) does not change what (key, ty) is bound to — bound or not -/
theorem getTyped_step_other (c : C2) (key ty : Nat) (op : COp) (hl : op.leaves key ty c.et = true) :
    (c.step op).getTyped key ty = c.getTyped key ty := by
  cases op with
  | put k x =>
    simp only [COp.leaves, Bool.not_eq_true', Bool.and_eq_false_iff, beq_eq_false_iff_ne] at hl
    simp only [C2.step, C2.put]
    by_cases hk : key = k
    · subst hk
      have hne : c.et key ≠ ty := by
        rcases hl with hl | hl
        · exact absurd rfl hl
        · exact hl
      cases hc : c.cache key with
      | none => (rw [getTyped_setCache]; simp [C2.getTyped, hc, hne])
      | some e =>
        cases e with
        | raw old => (rw [getTyped_setCache]; simp [C2.getTyped, hc, hne])
        | items tbl => (rw [getTyped_setCache]; simp [C2.getTyped, hc, tblGet_cons, hne])
    · cases hc : c.cache k with
      | none => simp only [getTyped_setCache, hk, if_false]
      | some e => cases e <;> simp only [getTyped_setCache, hk, if_false]
  | putTyped k t x =>
    simp only [COp.leaves, Bool.not_eq_true', Bool.and_eq_false_iff, beq_eq_false_iff_ne] at hl
    simp only [C2.step, C2.putTyped]
    by_cases hk : key = k
    · subst hk
      have hne : t ≠ ty := by
        rcases hl with hl | hl
        · exact absurd rfl hl
        · exact hl
      cases hc : c.cache key with
      | none => (rw [getTyped_setCache]; simp [C2.getTyped, hc, tblGet_cons, hne, tblGet_nil])
      | some e =>
        cases e with
        | raw old =>
          (rw [getTyped_setCache]; simp [tblGet_cons, hne, tblGet_nil, C2.getTyped, hc])
        | items tbl => (rw [getTyped_setCache]; simp [C2.getTyped, hc, tblGet_cons, hne])
    · cases hc : c.cache k with
      | none => simp only [getTyped_setCache, hk, if_false]
      | some e => cases e <;> simp only [getTyped_setCache, hk, if_false]

theorem put_getTyped_self (c : C2) (key v : Nat) : (c.put key v).getTyped key (c.et key) = some v := by
  unfold C2.put
  cases hc : c.cache key with
  | none => simp [getTyped_setCache]
  | some e => cases e <;> simp [getTyped_setCache, tblGet_cons]

theorem putTyped_getTyped_self (c : C2) (key ty v : Nat) : (c.putTyped key ty v).getTyped key ty = some v := by
  unfold C2.putTyped
  cases hc : c.cache key with
  | none => simp [getTyped_setCache, tblGet_cons]
  | some e => cases e <;> simp [getTyped_setCache, tblGet_cons]

/-! ### the two-level table implements a finite map keyed by (object, type code)

  code 0 = the untyped export (ctx.get / ctx.put, bound under the object's exportType), code t+1 = destination type
  `tyOf t` (ctx.getTyped / ctx.putTyped).  A typed destination whose type IS the object's exportType never occurs as a
  typed code: toReflectValue takes the AssignableTo path for it (ExportTo.lean `normTy`). -/

def C2.lookupK (c : C2) (tyOf : Nat → Nat) (k : Nat × Nat) : Option Nat :=
  if k.2 = 0 then c.get k.1 else c.getTyped k.1 (tyOf (k.2 - 1))

def C2.writeK (c : C2) (tyOf : Nat → Nat) (k : Nat × Nat) (a : Nat) : C2 :=
  if k.2 = 0 then c.put k.1 a else c.putTyped k.1 (tyOf (k.2 - 1)) a

def assocLookup (k : Nat × Nat) : List ((Nat × Nat) × Nat) → Option Nat
  | [] => none
  | (k', a) :: rest => if k' = k then some a else assocLookup k rest

theorem writeK_et (c : C2) (tyOf : Nat → Nat) (k : Nat × Nat) (a : Nat) : (c.writeK tyOf k a).et = c.et := by
  unfold C2.writeK
  split
  · exact step_et c (.put k.1 a)
  · exact step_et c (.putTyped k.1 (tyOf (k.2 - 1)) a)

theorem lookupK_writeK (c : C2) (tyOf : Nat → Nat) (hinj : ∀ s t, tyOf s = tyOf t → s = t)
    (hty : ∀ id t, tyOf t ≠ c.et id) (k : Nat × Nat) (a : Nat) (k' : Nat × Nat) :
    (c.writeK tyOf k a).lookupK tyOf k' = if k = k' then some a else c.lookupK tyOf k' := by
  have het := writeK_et c tyOf k a
  obtain ⟨id, cd⟩ := k
  obtain ⟨id', cd'⟩ := k'
  by_cases hkk : (id, cd) = (id', cd')
  · cases hkk
    simp only [if_true]
    unfold C2.lookupK C2.writeK
    by_cases h0 : cd = 0
    · simp only [h0, if_true]
      rw [C2.get_eq_getTyped]
      have : (c.put id a).et = c.et := step_et c (.put id a)
      rw [this]
      exact put_getTyped_self c id a
    · simp only [h0, if_false]
      exact putTyped_getTyped_self c id (tyOf (cd - 1)) a
  · simp only [hkk, if_false]
    -- the type under which k' is bound, and the operation that was executed
    unfold C2.lookupK
    have hop : c.writeK tyOf (id, cd) a = c.step (if cd = 0 then COp.put id a else COp.putTyped id (tyOf (cd - 1)) a) := by
      unfold C2.writeK; by_cases h0 : cd = 0 <;> simp [h0, C2.step]
    by_cases h0' : cd' = 0
    · simp only [h0', if_true]
      rw [C2.get_eq_getTyped, C2.get_eq_getTyped, het, hop]
      apply getTyped_step_other
      by_cases h0 : cd = 0
      · simp only [h0, if_true, COp.leaves, Bool.not_eq_true', Bool.and_eq_false_iff, beq_eq_false_iff_ne]
        left; intro e; subst e; exact hkk (by rw [h0, h0'])
      · simp only [h0, if_false, COp.leaves, Bool.not_eq_true', Bool.and_eq_false_iff, beq_eq_false_iff_ne]
        right; exact hty id' (cd - 1)
    · simp only [h0', if_false]
      rw [hop]
      apply getTyped_step_other
      by_cases h0 : cd = 0
      · simp only [h0, if_true, COp.leaves, Bool.not_eq_true', Bool.and_eq_false_iff, beq_eq_false_iff_ne]
        by_cases hid : id = id'
        · right; subst hid; exact fun e => hty id (cd' - 1) e.symm
        · left; exact hid
      · simp only [h0, if_false, COp.leaves, Bool.not_eq_true', Bool.and_eq_false_iff, beq_eq_false_iff_ne]
        by_cases hid : id = id'
        · right
          intro e
          have := hinj _ _ e
          apply hkk
          subst hid
          have : cd = cd' := by omega
          rw [this]
        · left; exact hid

/-- after any sequence of writes the two-level table answers every (object, type code) lookup exactly like the
    association list of the writes (latest first) -/
theorem c2_implements_keyed_map (tyOf : Nat → Nat) (hinj : ∀ s t, tyOf s = tyOf t → s = t) :
    ∀ (ws : List ((Nat × Nat) × Nat)) (c : C2), (∀ id t, tyOf t ≠ c.et id) →
      ∀ (A : List ((Nat × Nat) × Nat)), (∀ k, c.lookupK tyOf k = assocLookup k A) →
      ∀ k, (ws.foldl (fun c w => c.writeK tyOf w.1 w.2) c).lookupK tyOf k =
           assocLookup k (ws.foldl (fun A w => w :: A) A)
  | [], _, _, _, hR, k => hR k
  | (key, a) :: ws, c, hty, A, hR, k => by
    simp only [List.foldl]
    apply c2_implements_keyed_map tyOf hinj ws (c.writeK tyOf key a)
      (by intro id t; rw [writeK_et]; exact hty id t) ((key, a) :: A)
    intro k'
    rw [lookupK_writeK c tyOf hinj hty key a k']
    simp only [assocLookup]
    split
    · rfl
    · exact hR k'

end GojaModel.C13
