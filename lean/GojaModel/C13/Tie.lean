/-
  C13 — regenerated facts: the case order of Runtime.toValue in /repo's current runtime.go must be the one the
  model's `toValueCase` (Bridge.lean) transcribes.  A reordered / added / removed case breaks these equalities.
-/
import GojaModel.Generated.C13_ToValue

namespace GojaModel.C13.Tie
open GojaModel.Generated.C13

def expectedTypeCases : List String :=
  ["nil", "*Object", "valueContainer", "Value", "string", "bool", "func(FunctionCall) Value",
   "func(FunctionCall, *Runtime) Value", "func(ConstructorCall) *Object", "func(ConstructorCall, *Runtime) *Object",
   "int", "int8", "int16", "int32", "int64", "uint", "uint8", "uint16", "uint32", "uint64", "float32", "float64",
   "*big.Int", "map[string]interface{}", "[]interface{}", "*[]interface{}"]

def expectedKindCases : List String := ["reflect.Map", "reflect.Array", "reflect.Slice", "reflect.Func"]

def expectedMapKeyKinds : List String :=
  ["reflect.String", "reflect.Int", "reflect.Int8", "reflect.Int16", "reflect.Int32", "reflect.Int64", "reflect.Uint",
   "reflect.Uint8", "reflect.Uint16", "reflect.Uint32", "reflect.Uint64", "reflect.Float64", "reflect.Float32"]

/-- The guards the mechanism model transcribes (Model.lean `putIdxArr`, `swap`; Gateway/Bridge notes): the leading `if`
    of each function as it stands in the current source.  Dropping or changing one of them (e.g. reverting fix
    1c31366 / 60ad8ae / ab07c10 / e4f4687) breaks this equality. -/
def expectedGuards : List String :=
  ["objectGoArrayReflect._putIdx: idx >= o.fieldsValue.Len()",
   "objectGoArrayReflect.swap: n := o.fieldsValue.Len(); i >= n || j >= n",
   "objectGoSlice.swap: n := len(*o.data); i >= n || j >= n",
   "Runtime.wrapReflectFunc.closure: value.IsNil()",
   "argumentsObject.exportType: present"]

theorem guards_ok : guards = expectedGuards := by decide

theorem toValue_type_cases_ok : toValueTypeCases = expectedTypeCases := by decide
theorem toValue_kind_cases_ok : toValueKindCases = expectedKindCases := by decide
theorem toValue_map_key_kinds_ok : toValueMapKeyKinds = expectedMapKeyKinds := by decide

end GojaModel.C13.Tie
