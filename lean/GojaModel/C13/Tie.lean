/-
  C13 — regenerated facts: the case order of Runtime.toValue in /repo's current runtime.go must be the one the
  model's `toValueCase` (Bridge.lean) transcribes.  A reordered / added / removed case breaks these equalities.
-/
import GojaModel.Generated.C13_ToValue

namespace GojaModel.C13.Tie
open GojaModel.Generated.C13

def expectedTypeCases : List String :=
  ["nil", "*Object", "valueContainer", "Value", "string", "bool", "func(FunctionCall) Value",
   "func(FunctionCall, *Runtime) Value", "func(ConstructorCall) *Object", "func(ConstructorCall, *Runtime) *Object",
   "int", "int8", "int16", "int32", "int64", "uint", "uint8", "uint16", "uint32", "uint64", "float32", "float64",
   "*big.Int", "map[string]interface{}", "[]interface{}", "*[]interface{}"]

def expectedKindCases : List String := ["reflect.Map", "reflect.Array", "reflect.Slice", "reflect.Func"]

def expectedMapKeyKinds : List String :=
  ["reflect.String", "reflect.Int", "reflect.Int8", "reflect.Int16", "reflect.Int32", "reflect.Int64", "reflect.Uint",
   "reflect.Uint8", "reflect.Uint16", "reflect.Uint32", "reflect.Uint64", "reflect.Float64", "reflect.Float32"]

/-- The guards the mechanism model transcribes (Model.lean `putIdxArr`, `swap`; Gateway/Bridge notes): the leading `if`
    of each function as it stands in the current source.  Dropping or changing one of them (e.g. reverting fix
    1c31366 / 60ad8ae / ab07c10 / e4f4687) breaks this equality. -/
def expectedGuards : List String :=
  ["objectGoArrayReflect._putIdx: idx >= o.fieldsValue.Len()",
   "objectGoArrayReflect.swap: n := o.fieldsValue.Len(); i >= n || j >= n",
   "objectGoSlice.swap: n := len(*o.data); i >= n || j >= n",
   "Runtime.wrapReflectFunc.closure: value.IsNil()",
   "argumentsObject.exportType: present",
   "objectGoReflect.setReflectValue: re-points the cached field wrappers",
   "objectGoArrayReflect.setReflectValue: re-points the cached element wrappers",
   "valueArrayCache.shrink: detaches the cut-off wrappers",
   "valueArrayCache.shrink: clears the cut-off slots",
   "objectGoArrayReflect._putIdx: detaches the cached wrapper",
   "objectGoArrayReflect._deleteIdx: detaches the cached wrapper",
   "objectGoSliceReflect.grow: re-points the cached wrappers after re-allocation",
   "objectGoSlice.grow: clears the re-exposed tail",
   "objectGoSlice.shrink: clears the cut-off tail",
   "objectExportCtx.putTyped: carries an earlier untyped entry into the per-type table",
   "objectGoArrayReflect._putIdx: re-attaches the wrapper when the conversion fails",
   "objectGoArrayReflect._putIdx: drops the cache entry after a successful store",
   "objectGoReflect._put: detaches the cached field wrapper",
   "objectGoReflect._put: re-attaches the wrapper when the conversion fails",
   "objectGoReflect._put: drops the cache entry after a successful store",
   "copyReflectValueWrapper: re-points the wrapper through setReflectValue",
   "objectGoArrayReflect.swap: moves the cached wrappers with the elements",
   "mapObject.export: consults the identity cache on entry",
   "setObject.export: consults the identity cache on entry",
   "baseObject.export: caches before exporting the children",
   "arrayObject.export: caches before exporting the children"]

theorem guards_ok : guards = expectedGuards := by rfl

/-- decision order of Runtime.toReflectValue that `toReflectOwn` (Bridge.lean) and `expTo` (ExportTo.lean) transcribe -/
def expectedToReflectOrder : List String :=
  ["if typ == typeValue", "if typ == typeObject", "if typ == typeCallable", "if et == nil || et == reflectTypeNil",
   "for: AssignableTo / ConvertibleTo / pointer-stripping loop", "if typ == typeTime",
   "case reflect.String", "case reflect.Bool", "case reflect.Int", "case reflect.Int64", "case reflect.Int32",
   "case reflect.Int16", "case reflect.Int8", "case reflect.Uint", "case reflect.Uint64", "case reflect.Uint32",
   "case reflect.Uint16", "case reflect.Uint8", "case reflect.Float64", "case reflect.Float32",
   "case reflect.Slice|reflect.Array", "case reflect.Map", "case reflect.Struct", "case reflect.Func", "case reflect.Ptr"]

/-- the conditions of wrapReflectFunc's allocation and argument loop that `initIn` / `loopIn` (Gateway.lean) transcribe -/
def expectedArgLoopConds : List String :=
  ["alloc: l < nargs", "n >= nargs - 1 && typ.IsVariadic()", "n > nargs - 1", "n > nargs - 1"]

/-- typed export dispatch (ExportDispatch.lean): the implementation classes with their own exportToArrayOrSlice /
    exportToMap (every other class inherits baseObject's, i.e. the generic functions), which methods enter their
    container into the identity cache (`cachesTyped`: all of them since 6fa4053; before, setObject.exportToMap did not — finding
    set-exportToMap-not-cached, now fixed), and the order of the generic tests
    (iterable first, array-like only for non-callables). -/
def expectedExportDispatch : List String :=
  ["exportToArrayOrSlice@arrayBufferObject", "exportToArrayOrSlice@arrayObject", "exportToArrayOrSlice@baseDynamicObject",
   "exportToArrayOrSlice@baseObject", "exportToArrayOrSlice@dataViewObject", "exportToArrayOrSlice@destructKeyedSource",
   "exportToArrayOrSlice@setObject", "exportToArrayOrSlice@sparseArrayObject", "exportToArrayOrSlice@typedArrayObject",
   "exportToMap@baseDynamicObject", "exportToMap@baseObject", "exportToMap@destructKeyedSource", "exportToMap@mapObject",
   "exportToMap@setObject",
   "arrayObject.exportToArrayOrSlice: caches",
   "sparseArrayObject.exportToArrayOrSlice: caches",
   "setObject.exportToArrayOrSlice: caches",
   "mapObject.exportToMap: caches",
   "setObject.exportToMap: caches",
   "genericExportToArrayOrSlice: caches",
   "genericExportToMap: caches",
   "genericExportToArrayOrSlice: array-like only for non-callables",
   "arrayObject.exportToArrayOrSlice: generic path when Symbol.iterator is overridden",
   "genericExportToArrayOrSlice: iterable test first"]

theorem export_dispatch_ok : exportDispatch = expectedExportDispatch := by rfl

theorem toReflect_order_ok : toReflectOrder = expectedToReflectOrder := by decide
theorem arg_loop_conds_ok : argLoopConds = expectedArgLoopConds := by decide

theorem toValue_type_cases_ok : toValueTypeCases = expectedTypeCases := by decide
theorem toValue_kind_cases_ok : toValueKindCases = expectedKindCases := by decide
theorem toValue_map_key_kinds_ok : toValueMapKeyKinds = expectedMapKeyKinds := by decide

end GojaModel.C13.Tie
