/-
  C13 — property theorems (WrapCache part).  Every `theorem` here is one audited proof obligation.
  Statements quantify over ALL admissible histories (induction over the history, no length bound).
  "Admissible" = every operation is tracked (not a Go-side re-allocation, which goja cannot see) and in bounds
  (not a sort swap beyond the current length / a store beyond the end of a Go array) — the three excluded
  situations are exactly the ones for which the `_witness` theorems below show that the current code fails.
-/
import GojaModel.C13.Lemmas
import GojaModel.C13.BridgeLemmas

namespace GojaModel.C13

/-- The invariant holds after every admissible history from every initial wrapped slice/array. -/
theorem wrapcache_inv_all_histories (fixed : Bool) (n c : Nat) (f : Nat → Val) (h : List Op)
    (ha : Admissible (St.init fixed n c f) h) : Inv ((St.init fixed n c f).run h) :=
  inv_run (inv_init fixed n c f) h ha

/-- No script operation on a wrapper panics the host (within the admissible histories). -/
theorem script_ops_no_panic (fixed : Bool) (n c : Nat) (f : Nat → Val) (h : List Op)
    (ha : Admissible (St.init fixed n c f) h) : ((St.init fixed n c f).run h).panic = false :=
  (wrapcache_inv_all_histories fixed n c f h ha).noPanic

/-- LIVE VIEW.  After any admissible history, if `w` is the wrapper script obtains for `a[i]`
    (it is the cached one), then (1) reading through `w` gives the current Go slot value, (2) a write through
    `w` lands in the Go slot, (3) a Go-side write to the slot is what a read through `w` returns. -/
theorem wrapper_live_view (fixed : Bool) (n c : Nat) (f : Nat → Val) (h : List Op)
    (ha : Admissible (St.init fixed n c f) h) (i w : Nat)
    (hc : ((St.init fixed n c f).run h).cacheGet i = some w) :
    let s := (St.init fixed n c f).run h
    i < s.len ∧ s.readW w = s.slot i ∧
    (∀ x, (s.step (.wwrite w x)).slot i = x) ∧
    (∀ x, (s.step (.goWrite i x)).readW w = x) := by
  intro s
  have I : Inv s := wrapcache_inv_all_histories fixed n c f h ha
  have hat := I.cached_attached i w hc
  have hlt : i < s.len := Nat.lt_of_lt_of_le (cacheGet_lt hc) I.clen_le
  have hnw := I.cached_lt_nw hc
  refine ⟨hlt, ?_, ?_, ?_⟩
  · simp [St.readW, hat, St.readLoc, St.slot]
  · intro x
    simp [St.step, hnw, St.writeW, hat, St.slot, updMem]
  · intro x
    simp [St.step, hlt, St.readW, hat, St.readLoc, updMem]

/-- LIVE VIEW, as script sees it: `a[i]` (getIdx) always yields a wrapper whose reading is the Go slot. -/
theorem getIdx_reads_slot (fixed : Bool) (n c : Nat) (f : Nat → Val) (h : List Op)
    (ha : Admissible (St.init fixed n c f) h) (i w : Nat)
    (hg : (((St.init fixed n c f).run h).getIdx i).2 = some w) :
    let s := (St.init fixed n c f).run h
    (s.getIdx i).1.readW w = (s.getIdx i).1.slot i := by
  intro s
  have I : Inv s := wrapcache_inv_all_histories fixed n c f h ha
  have I' := inv_getIdx I i
  have hc : (s.getIdx i).1.cacheGet i = some w := getIdx_cached hg
  have hat := I'.cached_attached i w hc
  simp [St.readW, hat, St.readLoc, St.slot]

/-- DETACH: when slot `i` is overwritten (assignment or delete) through script, the wrapper `w` that was
    handed out for it becomes a reference to a copy holding the slot value at that moment. -/
theorem wrapper_detach_on_overwrite {s : St} (I : Inv s) {i w : Nat} (hc : s.cacheGet i = some w) (x : Val) :
    (s.step (.set i x)).ws w = .own (s.slot i) ∧ (s.step (.del i)).ws w = .own (s.slot i) ∧
    (s.step (.set i x)).slot i = x ∧ (s.step (.set i x)).cacheGet i = none := by
  have hat := I.cached_attached i w hc
  have hlt : i < s.len := Nat.lt_of_lt_of_le (cacheGet_lt hc) I.clen_le
  have hn : ¬ s.len ≤ i := by omega
  have hrd : s.readW w = s.slot i := by simp [St.readW, hat, St.readLoc, St.slot]
  refine ⟨?_, ?_, ?_, ?_⟩
  · cases hf : s.fixed <;>
      simp [St.step, St.putIdx, hf, hn, St.putIdxArr, hc, St.detachOpt, St.detach, St.cacheClear, updN, hrd]
  · simp [St.step, St.delIdx, hn, hc, St.detach, St.cacheClear, updN, hrd]
  · cases hf : s.fixed <;>
      simp [St.step, St.putIdx, hf, hn, St.putIdxArr, hc, St.detachOpt, St.detach, St.cacheClear, St.slot, updMem]
  · cases hf : s.fixed <;>
      simp [St.step, St.putIdx, hf, hn, St.putIdxArr, hc, St.detachOpt, St.detach, cacheGet_cacheClear]

/-- DETACH by shrinking: `a.length = n` with n ≤ i detaches the wrapper of slot i with the slot's value. -/
theorem wrapper_detach_on_shrink {s : St} (I : Inv s) (hs : s.fixed = false) {i w n : Nat}
    (hc : s.cacheGet i = some w) (hn : n ≤ i) :
    (s.step (.setLen n)).ws w = .own (s.slot i) := by
  have hat := I.cached_attached i w hc
  have hcl := cacheGet_lt hc
  have hlt : i < s.len := Nat.lt_of_lt_of_le hcl I.clen_le
  have hrd : s.readW w = s.slot i := by simp [St.readW, hat, St.readLoc, St.slot]
  have h1 : ¬ n > s.len := by omega
  have h2 : n < s.len := by omega
  have h3 : s.clen > n := by omega
  simp only [St.step, St.setLen, hs, h1, h2, if_true, if_false, St.shrink, h3, Bool.false_eq_true]
  cases hf : s.findCached w n s.clen with
  | some j => simp [hrd]
  | none => exact absurd hc (findCached_none hf i hn hcl)

/-- The value a detached wrapper holds after a history: the last value written through the wrapper itself. -/
def lastOwn (w : Nat) : Val → List Op → Val
  | v, [] => v
  | v, .wwrite w' x :: ops => lastOwn w (if w' = w then x else v) ops
  | v, _ :: ops => lastOwn w v ops

/-- DETACH SNAPSHOT, all later histories.  Once a handed-out wrapper `w` is detached with value `v` (by
    overwrite / delete / shrink, see the two theorems above), then after ANY later history `h` of script and Go-side
    operations (admissible, so that the invariant keeps holding) it is still detached, it denotes the value at
    detach time unless written through `w` itself (then the last such value), and a write through it changes
    nothing in Go memory, the slice header or the cache: it does not reach the slot. -/
theorem wrapper_detach_snapshot {s : St} (I : Inv s) {w : Nat} {v : Val} (hw : s.ws w = .own v) (hlt : w < s.nw)
    (h : List Op) (ha : Admissible s h) :
    (s.run h).ws w = .own (lastOwn w v h) ∧
    (s.run h).readW w = lastOwn w v h ∧
    (∀ x, ((s.run h).step (.wwrite w x)).mem = (s.run h).mem ∧
          ((s.run h).step (.wwrite w x)).len = (s.run h).len ∧
          ((s.run h).step (.wwrite w x)).cur = (s.run h).cur ∧
          ((s.run h).step (.wwrite w x)).cache = (s.run h).cache) := by
  induction h generalizing s v with
  | nil =>
    refine ⟨hw, by simp [St.run, St.readW, hw, St.readLoc, lastOwn], ?_⟩
    intro x
    simp [St.run, St.step, hlt, St.writeW, hw]
  | cons op ops ih =>
    obtain ⟨ht, hb, hr⟩ := ha
    have notCached : ∀ i, s.cacheGet i ≠ some w := by
      intro i hc; have := I.cached_attached i w hc; rw [hw] at this; cases this
    have J := inv_step I op ht hb
    have hlt' : w < (s.step op).nw := Nat.lt_of_lt_of_le hlt (step_nw_mono s op)
    by_cases hop : ∃ x, op = .wwrite w x
    · obtain ⟨x, rfl⟩ := hop
      have hw' : (s.step (.wwrite w x)).ws w = .own x := by
        simp [St.step, hlt, St.writeW, hw, updN]
      have := ih J hw' hlt' hr
      simpa [St.run, lastOwn] using this
    · have hop' : ∀ x, op ≠ .wwrite w x := fun x e => hop ⟨x, e⟩
      have hw' : (s.step op).ws w = .own v := by rw [step_ws_notCached notCached hlt op hop']; exact hw
      have := ih J hw' hlt' hr
      have hl : lastOwn w v (op :: ops) = lastOwn w v ops := by
        cases op with
        | wwrite w' x =>
          have : w' ≠ w := by intro e; subst e; exact hop' x rfl
          simp [lastOwn, this]
        | _ => rfl
      rw [hl]
      simpa [St.run] using this

/-! ### the three situations the current code gets wrong (concrete witnesses; see design/C13.md) -/

/-- Array.prototype.sort on a Go-slice wrapper sorts in place; if the comparator shrinks the slice, the next
    Swap indexes out of range and the reflect panic escapes to the host
    (`a := []S{..}; a.sort((x,y)=>{a.length=0; return 0})`). -/
theorem sort_shrinking_comparator_panics_witness :
    ((St.init false 2 2 (fun i => Int.ofNat i)).run [.setLen 0, .swap 0 1]).panic = true := by
  decide

/-- Storing beyond the end of a wrapped Go array (`a := [2]S{}; a[5] = x`, also defineProperty / push) reaches
    reflect.Value.Index out of range. -/
theorem goarray_store_out_of_range_panics_witness :
    ((St.init true 2 2 (fun i => Int.ofNat i)).run [.set 5 1]).panic = true := by
  decide

/-- After a Go-side re-allocation (append beyond capacity) a previously handed out element wrapper is still
    cached but refers to the old backing array: the live view is broken (a read through `a[0]` misses a Go
    write, and a script write through it misses the Go slot). -/
theorem go_realloc_breaks_live_view_witness :
    let s := (St.init false 2 2 (fun i => Int.ofNat i)).run [.get 0, .goRealloc 4, .goWrite 0 42]
    s.cacheGet 0 = some 0 ∧ s.readW 0 ≠ s.slot 0 ∧ (s.step (.wwrite 0 7)).slot 0 ≠ 7 := by
  decide

/-! ### Bridge: numeric kinds and the shape table -/

/-- Numeric round trip, exact part: every integer kind, every value of the kind within ±2^53 comes back from
    Export(ToValue(v)) as int64 with the same value. -/
theorem export_toValue_int_exact (k : IntKind) (v : Int) (_hr : k.InRange v) (hs : Safe v) :
    exportNum (toValueInt k v) = .i64 v := by
  rw [toValueInt_safe hs]; rfl

/-- Numeric round trip, the exact exception: beyond ±2^53 the value comes back as float64(v)
    (documented: Export of a number is int64 for integers in JS's sense and float64 otherwise). -/
theorem export_toValue_int_lossy (k : IntKind) (v : Int) (hs : ¬ Safe v) (h64 : v ≤ 9223372036854775807) :
    exportNum (toValueInt k v) = .f64 (.intval (round53 v)) := by
  rw [toValueInt_unsafe hs h64]; rfl

/-- ExportTo into the value's own integer kind gives the value back (within ±2^53), for all kinds and values. -/
theorem exportTo_own_kind_int (k : IntKind) (v : Int) (hr : k.InRange v) (hs : Safe v) :
    exportToInt k (toValueInt k v) = some v := by
  rw [toValueInt_safe hs]; simp [exportToInt, wrapTo_id hr]

/-- ExportTo into float64 gives every float64 back (NaN as the canonical NaN). -/
theorem exportTo_own_kind_f64 (f : Flt) : exportToF64 (floatToValue f) = f := by
  cases f with
  | intval i => by_cases hs : Safe i <;> simp [floatToValue, exportToF64, hs]
  | _ => simp [floatToValue, exportToF64]

/-- Export(ToValue(f)) for a float64: integral values within ±2^53 (except −0) come back as int64, everything
    else as the same float64. -/
theorem export_toValue_float (f : Flt) :
    exportNum (floatToValue f) = (match f with
      | .intval i => if Safe i then GoNum.i64 i else GoNum.f64 (.intval i)
      | f => GoNum.f64 f) := by
  cases f with
  | intval i => by_cases hs : Safe i <;> simp [floatToValue, exportNum, hs]
  | _ => simp [floatToValue, exportNum]

/-- Export(ToValue(g)) = g — same dynamic type and, for pointer / map / slice / func kinds, the same reference —
    for every shape outside the explicit `Exception` predicate; i.e. the listed exceptions are all there are. -/
theorem export_toValue_id (sh : Shape) (h : Exception sh = false) : roundTrip sh = .identical := by
  cases sh with
  | intKind k => cases k <;> simp_all [Exception, roundTrip, toValueCase]
  | mapStrIface n => cases n <;> simp_all [Exception, roundTrip, toValueCase]
  | ptrSliceIface n => cases n <;> simp_all [Exception, roundTrip, toValueCase]
  | rMap d n k m =>
    cases n <;> cases k <;> cases m <;> cases d <;> simp_all [Exception, roundTrip, toValueCase]
  | rArray d n => cases n <;> cases d <;> simp_all [Exception, roundTrip, toValueCase]
  | rSlice d n => cases n <;> simp_all [Exception, roundTrip, toValueCase]
  | rFunc d n => cases n <;> simp_all [Exception, roundTrip, toValueCase]
  | rOther d n => cases n <;> cases d <;> simp_all [Exception, roundTrip, toValueCase]
  | _ => simp_all [Exception, roundTrip, toValueCase]

/-- …and each exception is a real one: no shape in `Exception` round-trips identically, except that typed-nil
    and by-value cases are classified by what they become. -/
theorem exception_is_exact (sh : Shape) (h : Exception sh = true) : roundTrip sh ≠ .identical := by
  cases sh with
  | intKind k => cases k <;> simp_all [Exception, roundTrip, toValueCase]
  | mapStrIface n => cases n <;> simp_all [Exception, roundTrip, toValueCase]
  | ptrSliceIface n => cases n <;> simp_all [Exception, roundTrip, toValueCase]
  | objectPtr n => cases n <;> simp_all [Exception, roundTrip, toValueCase]
  | bigInt n => cases n <;> simp_all [Exception, roundTrip, toValueCase]
  | rMap d n k m =>
    cases n <;> cases k <;> cases m <;> cases d <;> simp_all [Exception, roundTrip, toValueCase]
  | rArray d n => cases n <;> cases d <;> simp_all [Exception, roundTrip, toValueCase]
  | rSlice d n => cases n <;> simp_all [Exception, roundTrip, toValueCase]
  | rFunc d n => cases n <;> simp_all [Exception, roundTrip, toValueCase]
  | rOther d n => cases n <;> cases d <;> simp_all [Exception, roundTrip, toValueCase]
  | _ => simp_all [Exception, roundTrip, toValueCase]

/-! ### non-vacuity (tests on literals, not proofs of the property) -/

example : Admissible (St.init false 3 4 (fun i => Int.ofNat i))
    [.get 0, .get 1, .wwrite 0 9, .set 0 5, .wwrite 0 8, .setLen 6, .swap 1 2, .del 1, .goWrite 2 7, .goAppend 3] := by
  decide

example : ((St.init false 3 4 (fun i => Int.ofNat i)).run [.get 0, .wwrite 0 9, .set 0 5, .wwrite 0 8]).slot 0 = 5 := by
  decide

end GojaModel.C13
