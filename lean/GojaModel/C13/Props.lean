/-
  C13 — property theorems (WrapCache part).  Every `theorem` here is one audited proof obligation.
  Statements quantify over ALL admissible histories (induction over the history, no length bound).
  "Admissible" = every operation is tracked (not a Go-side re-allocation, which goja cannot see: after it the cached
  element wrappers point into the old backing array — `go_realloc_breaks_live_view_witness`, still a known finding).
  Sort swaps beyond the current length (comparator shrank the slice, fix 60ad8ae) and stores beyond the end of a Go
  array (fix 1c31366) are defined behaviour now and inside the admissible region; the `_prefix_witness` lemmas keep
  the old mechanism's failure as a regression record.
-/
import GojaModel.C13.Lemmas
import GojaModel.C13.BridgeLemmas
import GojaModel.C13.ExportLemmas
import GojaModel.C13.MapModel
import GojaModel.C13.GatewayLemmas
import GojaModel.C13.Cache2Lemmas
import GojaModel.C13.GoSlice
import GojaModel.C13.Refine
import GojaModel.C13.Nested
import GojaModel.C13.NestedHist
import GojaModel.C13.ExportDispatchLemmas
import GojaModel.C13.DispatchCatalogue
import GojaModel.C13.GatewayComposite
import GojaModel.C13.ExportToLemmas

namespace GojaModel.C13

/-- The invariant holds after every admissible history from every initial wrapped slice/array. -/
theorem wrapcache_inv_all_histories (fixed : Bool) (n c : Nat) (f : Nat → Val) (h : List Op)
    (ha : Admissible (St.init fixed n c f) h) : Inv ((St.init fixed n c f).run h) :=
  inv_run (inv_init fixed n c f) h ha

/-- No operation on a wrapper reaches a reflect index-out-of-range (host panic) — for ALL histories, including
    sort swaps at arbitrary indices, stores beyond the end of a Go array and Go-side re-allocations. -/
theorem script_ops_no_panic (fixed : Bool) (n c : Nat) (f : Nat → Val) (h : List Op) :
    ((St.init fixed n c f).run h).panic = false := by
  rw [run_panic]; rfl

/-- Fix 60ad8ae: a sort swap that no longer addresses elements (the comparator shrank the slice) is ignored;
    fix 1c31366: a store beyond the end of a Go array fails without touching anything. -/
theorem out_of_range_swap_and_array_store_are_noops (s : St) (i j : Nat) (x : Val) (ok : Bool) :
    (s.len ≤ i ∨ s.len ≤ j → s.swap i j = s) ∧
    (s.fixed = true → s.len ≤ i → s.putIdx i x ok = s) := by
  refine ⟨fun h => by simp [St.swap, h], fun hf hi => by simp [St.putIdx, hf, St.putIdxArr, hi]⟩

/-- In-place sort: every swap (at any indices, after any admissible history) moves each wrapper together with its
    element — no wrapper's denotation changes, the invariant is kept. -/
theorem sort_swap_keeps_wrappers (fixed : Bool) (n c : Nat) (f : Nat → Val) (h : List Op)
    (ha : Admissible (St.init fixed n c f) h) (i j w : Nat) :
    let s := (St.init fixed n c f).run h
    (s.swap i j).readW w = s.readW w ∧ Inv (s.swap i j) := by
  intro s
  have I : Inv s := wrapcache_inv_all_histories fixed n c f h ha
  exact ⟨swap_preserves_readings I i j w, inv_swap I i j⟩

/-- REFINEMENT.  The WrapCache mechanism (backing arrays, valueCache, attach / detach / re-point) implements the
    documented copy-on-change semantics (Spec.lean: a list of values and wrappers that are either live references to
    a slot or references to a private copy): for every initial slice / array / struct and EVERY admissible history,
    forgetting heap, backing arrays and cache after running the mechanism gives exactly the state the spec model
    reaches on the same history. -/
theorem wrapcache_refines_documented_semantics (fixed : Bool) (n c : Nat) (f : Nat → Val) (h : List Op)
    (ha : Admissible (St.init fixed n c f) h) :
    ((St.init fixed n c f).run h).abs = (Sp.init fixed n c f).run h := by
  rw [refine_run h _ (inv_init fixed n c f) ha, abs_init]

/-- …in observable terms: after every admissible history the Go-visible length and elements, and what every
    handed-out wrapper reads, are what the documented semantics says. -/
theorem wrapcache_observations_as_documented (fixed : Bool) (n c : Nat) (f : Nat → Val) (h : List Op)
    (ha : Admissible (St.init fixed n c f) h) :
    let s := (St.init fixed n c f).run h
    let sp := (Sp.init fixed n c f).run h
    s.len = sp.len ∧ (∀ i, i < s.len → s.slot i = sp.val i) ∧ (∀ w, w < s.nw → s.readW w = sp.readH w) ∧ s.nw = sp.nh := by
  intro s sp
  have hr : s.abs = sp := wrapcache_refines_documented_semantics fixed n c f h ha
  have I : Inv s := inv_run (inv_init fixed n c f) h ha
  refine ⟨by rw [← hr]; rfl, ?_, ?_, by rw [← hr]; rfl⟩
  · intro i hi
    rw [← hr]; simp [St.abs, hi]
  · intro w hw
    rw [← hr]; exact (readH_abs I w hw).symm

/-- LIVE VIEW.  After any admissible history, if `w` is the wrapper script obtains for `a[i]`
    (it is the cached one), then (1) reading through `w` gives the current Go slot value, (2) a write through
    `w` lands in the Go slot, (3) a Go-side write to the slot is what a read through `w` returns. -/
theorem wrapper_live_view (fixed : Bool) (n c : Nat) (f : Nat → Val) (h : List Op)
    (ha : Admissible (St.init fixed n c f) h) (i w : Nat)
    (hc : ((St.init fixed n c f).run h).cacheGet i = some w) :
    let s := (St.init fixed n c f).run h
    i < s.len ∧ s.readW w = s.slot i ∧
    (∀ x, (s.step (.wwrite w x)).slot i = x) ∧
    (∀ x, (s.step (.goWrite i x)).readW w = x) := by
  intro s
  have I : Inv s := wrapcache_inv_all_histories fixed n c f h ha
  have hat := I.cached_attached i w hc
  have hlt : i < s.len := Nat.lt_of_lt_of_le (cacheGet_lt hc) I.clen_le
  have hnw := I.cached_lt_nw hc
  refine ⟨hlt, ?_, ?_, ?_⟩
  · simp [St.readW, hat, St.readLoc, St.slot]
  · intro x
    simp [St.step, hnw, St.writeW, hat, St.slot, updMem]
  · intro x
    simp [St.step, hlt, St.readW, hat, St.readLoc, updMem]

/-- LIVE VIEW, as script sees it: `a[i]` (getIdx) always yields a wrapper whose reading is the Go slot. -/
theorem getIdx_reads_slot (fixed : Bool) (n c : Nat) (f : Nat → Val) (h : List Op)
    (ha : Admissible (St.init fixed n c f) h) (i w : Nat)
    (hg : (((St.init fixed n c f).run h).getIdx i).2 = some w) :
    let s := (St.init fixed n c f).run h
    (s.getIdx i).1.readW w = (s.getIdx i).1.slot i := by
  intro s
  have I : Inv s := wrapcache_inv_all_histories fixed n c f h ha
  have I' := inv_getIdx I i
  have hc : (s.getIdx i).1.cacheGet i = some w := getIdx_cached hg
  have hat := I'.cached_attached i w hc
  simp [St.readW, hat, St.readLoc, St.slot]

/-- DETACH: when slot `i` is overwritten (assignment or delete) through script, the wrapper `w` that was
    handed out for it becomes a reference to a copy holding the slot value at that moment. -/
theorem wrapper_detach_on_overwrite {s : St} (I : Inv s) {i w : Nat} (hc : s.cacheGet i = some w) (x : Val) :
    (s.step (.set i x)).ws w = .own (s.slot i) ∧ (s.step (.del i)).ws w = .own (s.slot i) ∧
    (s.step (.set i x)).slot i = x ∧ (s.step (.set i x)).cacheGet i = none := by
  have hat := I.cached_attached i w hc
  have hlt : i < s.len := Nat.lt_of_lt_of_le (cacheGet_lt hc) I.clen_le
  have hn : ¬ s.len ≤ i := by omega
  have hrd : s.readW w = s.slot i := by simp [St.readW, hat, St.readLoc, St.slot]
  refine ⟨?_, ?_, ?_, ?_⟩
  · cases hf : s.fixed <;>
      simp [St.step, St.putIdx, hf, hn, St.putIdxArr, hc, St.detachOpt, St.detach, St.cacheClear, updN, hrd]
  · simp [St.step, St.delIdx, hn, hc, St.detach, St.cacheClear, updN, hrd]
  · cases hf : s.fixed <;>
      simp [St.step, St.putIdx, hf, hn, St.putIdxArr, hc, St.detachOpt, St.detach, St.cacheClear, St.slot, updMem]
  · cases hf : s.fixed <;>
      simp [St.step, St.putIdx, hf, hn, St.putIdxArr, hc, St.detachOpt, St.detach, cacheGet_cacheClear]

/-- DETACH by shrinking: `a.length = n` with n ≤ i detaches the wrapper of slot i with the slot's value. -/
theorem wrapper_detach_on_shrink {s : St} (I : Inv s) (hs : s.fixed = false) {i w n : Nat}
    (hc : s.cacheGet i = some w) (hn : n ≤ i) :
    (s.step (.setLen n)).ws w = .own (s.slot i) := by
  have hat := I.cached_attached i w hc
  have hcl := cacheGet_lt hc
  have hlt : i < s.len := Nat.lt_of_lt_of_le hcl I.clen_le
  have hrd : s.readW w = s.slot i := by simp [St.readW, hat, St.readLoc, St.slot]
  have h1 : ¬ n > s.len := by omega
  have h2 : n < s.len := by omega
  have h3 : s.clen > n := by omega
  simp only [St.step, St.setLen, hs, h1, h2, if_true, if_false, St.shrink, h3, Bool.false_eq_true]
  cases hf : s.findCached w n s.clen with
  | some j => simp [hrd]
  | none => exact absurd hc (findCached_none hf i hn hcl)

/-- The value a detached wrapper holds after a history: the last value written through the wrapper itself. -/
def lastOwn (w : Nat) : Val → List Op → Val
  | v, [] => v
  | v, .wwrite w' x :: ops => lastOwn w (if w' = w then x else v) ops
  | v, _ :: ops => lastOwn w v ops

/-- DETACH SNAPSHOT, all later histories.  Once a handed-out wrapper `w` is detached with value `v` (by
    overwrite / delete / shrink, see the two theorems above), then after ANY later history `h` of script and Go-side
    operations (admissible, so that the invariant keeps holding) it is still detached, it denotes the value at
    detach time unless written through `w` itself (then the last such value), and a write through it changes
    nothing in Go memory, the slice header or the cache: it does not reach the slot. -/
theorem wrapper_detach_snapshot {s : St} (I : Inv s) {w : Nat} {v : Val} (hw : s.ws w = .own v) (hlt : w < s.nw)
    (h : List Op) (ha : Admissible s h) :
    (s.run h).ws w = .own (lastOwn w v h) ∧
    (s.run h).readW w = lastOwn w v h ∧
    (∀ x, ((s.run h).step (.wwrite w x)).mem = (s.run h).mem ∧
          ((s.run h).step (.wwrite w x)).len = (s.run h).len ∧
          ((s.run h).step (.wwrite w x)).cur = (s.run h).cur ∧
          ((s.run h).step (.wwrite w x)).cache = (s.run h).cache) := by
  induction h generalizing s v with
  | nil =>
    refine ⟨hw, by simp [St.run, St.readW, hw, St.readLoc, lastOwn], ?_⟩
    intro x
    simp [St.run, St.step, hlt, St.writeW, hw]
  | cons op ops ih =>
    obtain ⟨ht, hr⟩ := ha
    have notCached : ∀ i, s.cacheGet i ≠ some w := by
      intro i hc; have := I.cached_attached i w hc; rw [hw] at this; cases this
    have J := inv_step I op ht
    have hlt' : w < (s.step op).nw := Nat.lt_of_lt_of_le hlt (step_nw_mono s op)
    by_cases hop : ∃ x, op = .wwrite w x
    · obtain ⟨x, rfl⟩ := hop
      have hw' : (s.step (.wwrite w x)).ws w = .own x := by
        simp [St.step, hlt, St.writeW, hw, updN]
      have := ih J hw' hlt' hr
      simpa [St.run, lastOwn] using this
    · have hop' : ∀ x, op ≠ .wwrite w x := fun x e => hop ⟨x, e⟩
      have hw' : (s.step op).ws w = .own v := by rw [step_ws_notCached notCached hlt op hop']; exact hw
      have := ih J hw' hlt' hr
      have hl : lastOwn w v (op :: ops) = lastOwn w v ops := by
        cases op with
        | wwrite w' x =>
          have : w' ≠ w := by intro e; subst e; exact hop' x rfl
          simp [lastOwn, this]
        | _ => rfl
      rw [hl]
      simpa [St.run] using this

/-! ### regression records of the repaired mechanism, and the one situation the current code still gets wrong -/

/-- The swap of the mechanism before fix 60ad8ae (no bounds guard). -/
def St.swapPre (s : St) (i j : Nat) : St :=
  if s.len ≤ i ∨ s.len ≤ j then { s with panic := true } else s.swap i j

/-- _putIdx of the mechanism before fix 1c31366 (reflect.Index after the detach, no bounds test). -/
def St.putIdxArrPre (s : St) (i : Nat) (x : Val) (ok : Bool) : St :=
  if s.len ≤ i then { (s.detachOpt (s.cacheGet i)) with panic := true } else s.putIdxArr i x ok

/-- Before 60ad8ae: sorting in place with a comparator that shrinks the slice indexed out of range
    (`a := []S{..}; a.sort((x,y)=>{a.length=0; return -1})`). -/
theorem sort_shrinking_comparator_prefix_witness :
    (((St.init false 2 2 (fun i => Int.ofNat i)).run [.setLen 0]).swapPre 0 1).panic = true ∧
    (((St.init false 2 2 (fun i => Int.ofNat i)).run [.setLen 0]).swap 0 1).panic = false := by
  decide

/-- Before 1c31366: storing beyond the end of a wrapped Go array (`a := [2]S{}; a[5] = x`) reached
    reflect.Value.Index out of range. -/
theorem goarray_store_out_of_range_prefix_witness :
    ((St.init true 2 2 (fun i => Int.ofNat i)).putIdxArrPre 5 1 true).panic = true ∧
    ((St.init true 2 2 (fun i => Int.ofNat i)).putIdxArr 5 1 true).panic = false := by
  decide

/-- After a Go-side re-allocation (append beyond capacity) a previously handed out element wrapper is still
    cached but refers to the old backing array: the live view is broken (a read through `a[0]` misses a Go
    write, and a script write through it misses the Go slot). -/
theorem go_realloc_breaks_live_view_witness :
    let s := (St.init false 2 2 (fun i => Int.ofNat i)).run [.get 0, .goRealloc 4, .goWrite 0 42]
    s.cacheGet 0 = some 0 ∧ s.readW 0 ≠ s.slot 0 ∧ (s.step (.wwrite 0 7)).slot 0 ≠ 7 := by
  decide

/-! ### Bridge: numeric kinds and the shape table -/

/-- Numeric round trip, exact part: every integer kind, every value of the kind within ±2^53 comes back from
    Export(ToValue(v)) as int64 with the same value. -/
theorem export_toValue_int_exact (k : IntKind) (v : Int) (_hr : k.InRange v) (hs : Safe v) :
    exportNum (toValueInt k v) = .i64 v := by
  rw [toValueInt_safe hs]; rfl

/-- Numeric round trip, the exact exception: beyond ±2^53 every integer kind (signed, unsigned, also uint64 beyond
    MaxInt64) comes back as the nearest double float64(v) — as int64 again in the one case where that double is
    ±2^53 (documented: Export of a number is int64 for integer Numbers and float64 otherwise). -/
theorem export_toValue_int_lossy (k : IntKind) (v : Int) (hs : ¬ Safe v) :
    exportNum (toValueInt k v) =
      (if Safe (round53 v) then GoNum.i64 (round53 v) else GoNum.f64 (.intval (round53 v))) := by
  rw [toValueInt_unsafe hs]
  by_cases h : Safe (round53 v) <;> simp [floatToValue, exportNum, h]

/-- ExportTo into the value's own integer kind gives the value back (within ±2^53), for all kinds and values. -/
theorem exportTo_own_kind_int (k : IntKind) (v : Int) (hr : k.InRange v) (hs : Safe v) :
    exportToInt k (toValueInt k v) = some v := by
  rw [toValueInt_safe hs]; simp [exportToInt, wrapTo_id hr]

/-- ExportTo into float64 gives every float64 back (NaN as the canonical NaN). -/
theorem exportTo_own_kind_f64 (f : Flt) : exportToF64 (floatToValue f) = f := by
  cases f with
  | intval i => by_cases hs : Safe i <;> simp [floatToValue, exportToF64, hs]
  | _ => simp [floatToValue, exportToF64]

/-- Export(ToValue(f)) for a float64: integral values within ±2^53 (except −0) come back as int64, everything
    else as the same float64. -/
theorem export_toValue_float (f : Flt) :
    exportNum (floatToValue f) = (match f with
      | .intval i => if Safe i then GoNum.i64 i else GoNum.f64 (.intval i)
      | f => GoNum.f64 f) := by
  cases f with
  | intval i => by_cases hs : Safe i <;> simp [floatToValue, exportNum, hs]
  | _ => simp [floatToValue, exportNum]

/-- Export(ToValue(g)) = g — same dynamic type and, for pointer / map / slice / func kinds, the same reference —
    for every shape outside the explicit `Exception` predicate; i.e. the listed exceptions are all there are. -/
theorem export_toValue_id (sh : Shape) (h : Exception sh = false) : roundTrip sh = .identical := by
  cases sh with
  | intKind k => cases k <;> simp_all [Exception, roundTrip, toValueCase]
  | mapStrIface n => cases n <;> simp_all [Exception, roundTrip, toValueCase]
  | ptrSliceIface n => cases n <;> simp_all [Exception, roundTrip, toValueCase]
  | rMap d n k m =>
    cases n <;> cases k <;> cases m <;> cases d <;> simp_all [Exception, roundTrip, toValueCase]
  | rArray d n => cases n <;> cases d <;> simp_all [Exception, roundTrip, toValueCase]
  | rSlice d n => cases n <;> simp_all [Exception, roundTrip, toValueCase]
  | rFunc d n => cases n <;> simp_all [Exception, roundTrip, toValueCase]
  | rOther d n => cases n <;> cases d <;> simp_all [Exception, roundTrip, toValueCase]
  | _ => simp_all [Exception, roundTrip, toValueCase]

/-- …and each exception is a real one: no shape in `Exception` round-trips identically, except that typed-nil
    and by-value cases are classified by what they become. -/
theorem exception_is_exact (sh : Shape) (h : Exception sh = true) : roundTrip sh ≠ .identical := by
  cases sh with
  | intKind k => cases k <;> simp_all [Exception, roundTrip, toValueCase]
  | mapStrIface n => cases n <;> simp_all [Exception, roundTrip, toValueCase]
  | ptrSliceIface n => cases n <;> simp_all [Exception, roundTrip, toValueCase]
  | objectPtr n => cases n <;> simp_all [Exception, roundTrip, toValueCase]
  | bigInt n => cases n <;> simp_all [Exception, roundTrip, toValueCase]
  | rMap d n k m =>
    cases n <;> cases k <;> cases m <;> cases d <;> simp_all [Exception, roundTrip, toValueCase]
  | rArray d n => cases n <;> cases d <;> simp_all [Exception, roundTrip, toValueCase]
  | rSlice d n => cases n <;> simp_all [Exception, roundTrip, toValueCase]
  | rFunc d n => cases n <;> simp_all [Exception, roundTrip, toValueCase]
  | rOther d n => cases n <;> cases d <;> simp_all [Exception, roundTrip, toValueCase]
  | _ => simp_all [Exception, roundTrip, toValueCase]

/-! ### nested wrappers (wrappers handed out by a wrapper, to any depth) follow / detach with their parent -/

/-- NESTED WRAPPERS FOLLOW THEIR PARENT.  For every tree of handed-out wrappers (any width, any depth) and every new
    location `a` — a private copy (detach), another slot (sort swap), the same slot of a re-allocated backing array —
    after setReflectValue(a) every nested wrapper refers to the corresponding field of the NEW value
    (`p.In.Deep…` at path σ ↦ address of field path σ inside `a`), and no wrapper is lost or invented. -/
theorem nested_wrappers_follow_parent (fld : Nat → Nat → Nat) (t : WT) (a : Nat) (σ : List Nat) :
    ((t.setRV fld a).sub σ).isSome = (t.sub σ).isSome ∧
    (∀ k, (t.setRV fld a).sub σ = some k → k.loc = pathAddr fld a σ) :=
  ⟨WT.setRV_sub_isSome fld σ t a, fun k h => WT.setRV_sub fld σ t a k h⟩

/-- NESTED WRAPPERS DETACH WITH THEIR PARENT.  copyReflectValueWrapper copies the value to a fresh location `c`
    (`mem'` holds at every field path of `c` what `mem` held at the same path of the old location) and re-points the
    wrapper: every nested wrapper then reads exactly what the corresponding field of the OLD value held at detach
    time — it is a reference into the copy, and stays one whatever is later written to the old slot. -/
theorem nested_wrappers_detach_with_parent (fld : Nat → Nat → Nat) (t : WT) (c : Nat) (mem mem' : Nat → Int)
    (hcopy : ∀ σ, mem' (pathAddr fld c σ) = mem (pathAddr fld t.loc σ)) (σ : List Nat) (k : WT)
    (h : (t.setRV fld c).sub σ = some k) : mem' k.loc = mem (pathAddr fld t.loc σ) := by
  rw [WT.setRV_sub fld σ t c k h]; exact hcopy σ

/-- NESTED WRAPPERS, ALL HISTORIES.  Starting from a freshly created element wrapper, after ANY sequence of handing out
    nested wrappers (at any depth, for any fields, in any order) and re-pointing the element wrapper (detach to a
    copy, sort swaps, re-allocations), every nested wrapper that exists refers to the corresponding field of the
    value the element wrapper refers to NOW: it follows its parent on every swap / re-allocation and detaches with
    it into the same copy. -/
theorem nested_wrappers_pointed_all_histories (fld : Nat → Nat → Nat) (a0 : Nat) (ops : List WOp) (σ : List Nat) (k : WT)
    (h : ((WT.node a0 []).runW fld ops).sub σ = some k) :
    k.loc = pathAddr fld ((WT.node a0 []).runW fld ops).loc σ := by
  have h0 : (WT.node a0 []).Pointed fld := by
    intro τ k' hs
    cases τ with
    | nil => simp only [WT.sub, Option.some.injEq] at hs; subst hs; rfl
    | cons m τ' => simp [WT.sub, WT.kids, lookupKid] at hs
  exact WT.runW_pointed fld ops _ h0 σ k h

/-- NESTED WRAPPERS INSIDE SLICE / ARRAY / STRUCT HISTORIES.  Run ANY history of the WrapCache model (script operations,
    Go-side operations, re-allocations, out-of-range operations — no admissibility needed) interleaved with script
    handing out nested wrappers below any element handle: at every moment, for every element handle `w`, the tree of
    nested wrappers hangs on the address `w` currently refers to (its slot, or its private copy once detached) and every
    nested wrapper refers to the corresponding field of THAT value — nested wrappers follow their parent through
    detach, sort swaps and re-allocations. -/
theorem nested_wrappers_in_histories (fld : Nat → Nat → Nat) (fixed : Bool) (n c : Nat) (f : Nat → Val) (ops : List NOp)
    (w : Nat) (σ : List Nat) (k : WT) :
    let t := (NSt.init (St.init fixed n c f)).run fld ops
    w < t.s.nw → (t.trees w).sub σ = some k → k.loc = pathAddr fld (addrOf w (t.s.ws w)) σ := by
  intro t hw hs
  have h0 : NInv fld (NSt.init (St.init fixed n c f)) := by
    intro w' hw'; simp [NSt.init, St.init] at hw'
  have h := NInv_run fld ops _ h0 w hw
  rw [← h.2]
  exact h.1 σ k hs

/-- Regression record of the mechanism before a40b0ef (setReflectValue moved only the wrapper itself): the nested
    wrapper keeps pointing into the old location. -/
theorem nested_wrapper_shallow_prefix_witness :
    let fld : Nat → Nat → Nat := fun a n => 100 * a + n + 1
    let t : WT := .node 10 [(0, .node (fld 10 0) [])]
    ((t.setRVShallow 20).sub [0]).map WT.loc = some (fld 10 0) ∧
    ((t.setRV fld 20).sub [0]).map WT.loc = some (fld 20 0) := by
  refine ⟨by decide, ?_⟩
  simp [WT.setRV_node, WT.sub, WT.kids, lookupKid, WT.loc]

/-! ### the call gateways -/

/-- wrapReflectFunc, ALL arities / argument counts: the `in` slice handed to reflect.Value.Call is written only inside
    its bounds, every position holds exactly what the documentation promises (script argument j converted to the type
    of parameter j, or to the element type of the variadic parameter; missing arguments are zero values of their
    parameter type; extra arguments are dropped), no position is left invalid, and its length is one reflect.Call
    accepts (= NumIn, or ≥ NumIn-1 for a variadic func). -/
theorem gateway_call_args_total (nargs : Nat) (variadic : Bool) (l : Nat) :
    let r := gatewayIn nargs variadic l
    r.oob = false ∧
    (∀ j, j < r.len → r.slot j = specSlot nargs variadic l j ∧ r.slot j ≠ .unset) ∧
    (variadic = false → r.len = nargs) ∧ (variadic = true → nargs ≤ r.len + 1 ∧ (nargs ≤ l → r.len = l)) := by
  intro r
  have h := loopIn_inv nargs variadic l l 0 (initIn nargs variadic l) (by omega) rfl (by simp [initIn]; split <;> rfl)
    (fun j hj => by omega) (fun j _ => rfl)
  obtain ⟨hlen, hoob, hslots⟩ := h
  have hL := initIn_len nargs variadic l
  have hrl : r.len = (initIn nargs variadic l).len := hlen
  refine ⟨hoob, ?_, ?_, ?_⟩
  · intro j hj
    have hsj : r.slot j = specSlot nargs variadic l j := hslots j (by rw [← hrl]; exact hj)
    refine ⟨hsj, ?_⟩
    rw [hsj]; unfold specSlot
    split
    · split <;> simp
    · simp
  · intro hv
    rw [hrl, hL]
    by_cases h1 : l < nargs
    · simp [h1, hv]
    · simp only [h1, if_false]
      split
      · rfl
      · rename_i h2; simp [hv] at h2; omega
  · intro hv
    rw [hrl, hL]
    by_cases h1 : l < nargs
    · simp only [h1, hv, if_true]; omega
    · simp only [h1, hv, if_false]
      simp; omega

/-- ARGUMENT CONVERSION inside the gateway: converting a script primitive into an integer parameter is total (never
    an error), `undefined` / `null` give the zero value, booleans 0 / 1, an integer Number the Go conversion of its
    int64 value (so every value of the parameter's own kind within ±2^53 arrives unchanged), NaN / ±Infinity / −0
    give 0, a non-integral Number is truncated toward zero first. -/
theorem gateway_arg_conversion (k : IntKind) :
    (∀ v, (exportToInt k v).isSome) ∧
    convArgInt k .undef = 0 ∧ convArgInt k .null = 0 ∧ convArgInt k (.bool true) = 1 ∧ convArgInt k (.bool false) = 0 ∧
    (∀ i, convArgInt k (.num (.int i)) = wrapTo k i) ∧
    (∀ i, k.InRange i → convArgInt k (.num (.int i)) = i) ∧
    (∀ b, convArgInt k (.num (.flt (.frac b))) = wrapTo k (f64ToI64 (truncFrac b))) ∧
    convArgInt k (.num (.flt .nan)) = 0 ∧ convArgInt k (.num (.flt .posInf)) = 0 ∧
    convArgInt k (.num (.flt .negInf)) = 0 ∧ convArgInt k (.num (.flt .negZero)) = 0 := by
  refine ⟨?_, rfl, rfl, rfl, rfl, fun i => rfl, fun i h => by simp [convArgInt, exportToInt, wrapTo_id h],
    fun b => rfl, rfl, rfl, rfl, rfl⟩
  intro v
  cases v with
  | int i => rfl
  | flt f => cases f <;> rfl

/-- …into `bool` and `float64` parameters: total, undefined / null give the zero value, ToBoolean / ToFloat otherwise;
    a missing argument is the zero value of its parameter's kind, and undefined converts to exactly that. -/
theorem gateway_arg_conversion_bool_float (a : JArg) :
    convArgBool .undef = false ∧ convArgBool .null = false ∧ (∀ b, convArgBool (.bool b) = b) ∧
    (∀ i, convArgBool (.num (.int i)) = decide (i ≠ 0)) ∧ convArgBool (.num (.flt .nan)) = false ∧
    convArgBool (.num (.flt .negZero)) = false ∧
    convArgF64 .undef = .intval 0 ∧ convArgF64 .null = .intval 0 ∧
    (∀ f, convArgF64 (.num (floatToValue f)) = f) ∧ (∀ i, convArgF64 (.num (.int i)) = .intval i) ∧
    (∀ k, convArg k .undef = zeroArg k) := by
  refine ⟨rfl, rfl, fun b => rfl, fun i => by simp [convArgBool], rfl, rfl, rfl, rfl, ?_, fun i => rfl, ?_⟩
  · intro f; exact exportTo_own_kind_f64 f
  · intro k; cases k <;> rfl

/-- …and the whole call: what the Go func receives at position i is the conversion, for the kind of the parameter that
    position belongs to, of the script argument the documentation assigns to it (or 0 where it is missing). -/
theorem gateway_call_values (kinds : List IntKind) (variadic : Bool) (args : List JArg) (i : Nat)
    (hi : i < (gatewayIn kinds.length variadic args.length).len) :
    (gatewayCall kinds variadic args)[i]? =
      some (match specSlot kinds.length variadic args.length i with
            | .arg j p _ => convArgInt (kinds.getD p .int) (args.getD j .undef)
            | _ => 0) := by
  have h := (gateway_call_args_total kinds.length variadic args.length).2.1 i hi
  simp only [gatewayCall, List.getElem?_map, List.getElem?_range hi, Option.map]
  rw [h.1]
  cases specSlot kinds.length variadic args.length i <;> rfl

/-- Results of a Go call as documented: nothing → undefined; a trailing non-nil `error` → exception; otherwise the
    error is dropped and one remaining value is returned as is, several as an Array ("if there are exactly two
    return values and the last is an error, the function returns the first value as is, not an Array"). -/
theorem gateway_results_as_documented (nout : Nat) (lastIsErr errNonNil : Bool) :
    gatewayOut nout lastIsErr errNonNil =
      (if 0 < nout ∧ lastIsErr = true ∧ errNonNil = true then CallResult.throw
       else match (if lastIsErr = true then nout - 1 else nout) with
         | 0 => .undefined
         | 1 => .value 0
         | n => .array n) := by
  unfold gatewayOut
  cases lastIsErr <;> cases errNonNil <;> rcases nout with _ | _ | _ | n <;> simp

/-- wrapJSFunc: the script function receives exactly the Go arguments, the variadic tail flattened, in order; an
    exception or conversion failure is returned through a trailing `error` result if there is one and is a Go panic
    otherwise (as documented for ExportTo into a func). -/
theorem jsfunc_gateway (nfixed tail j : Nat) (variadic : Bool) (hj : j < jsArgCount nfixed variadic tail) :
    (j < nfixed → jsArg nfixed j = .fixed j) ∧
    (nfixed ≤ j → variadic = true ∧ ∃ k, k < tail ∧ jsArg nfixed j = .tailElem k ∧ j = nfixed + k) ∧
    (∀ nout lastIsErr, jsFuncOutcome nout lastIsErr false false = .results (decide (0 < nout)) false) ∧
    (∀ nout, jsFuncOutcome nout false true false = .goPanic) ∧
    (∀ nout, 0 < nout → jsFuncOutcome nout true true false = .results false true) := by
  refine ⟨fun h => by simp [jsArg, h], ?_, by intro n e; simp [jsFuncOutcome], by intro n; simp [jsFuncOutcome], ?_⟩
  · intro h
    cases variadic with
    | false => simp [jsArgCount] at hj; omega
    | true =>
      simp [jsArgCount] at hj
      exact ⟨rfl, j - nfixed, by omega, by simp [jsArg]; omega, by omega⟩
  · intro n hn; simp [jsFuncOutcome, hn]

/-! ### map wrappers: live entries, element wrappers are copies -/

/-- MAP LIVE VIEW.  A script write to an entry is what Go sees, a Go write is what the next script read returns
    (the new wrapper holds the current element), a delete from either side removes the entry. -/
theorem map_entries_live (s : MSt) (k : Nat) (x : Val) :
    (s.step (.set k x)).m k = some x ∧
    (∃ w, ((s.step (.goSet k x)).getKey k).2 = some w ∧ ((s.step (.goSet k x)).getKey k).1.ws w = x) ∧
    (s.step (.del k)).m k = none ∧ (s.step (.goDel k)).m k = none := by
  refine ⟨by simp [MSt.step, updN], ⟨s.nw, ?_, ?_⟩, by simp [MSt.step, updN], by simp [MSt.step, updN]⟩ <;>
    simp [MSt.step, MSt.getKey, updN]

/-- MAP ELEMENT WRAPPERS ARE COPIES (documented caveat 3 of ToValue: non-addressable values get copied): for ALL
    histories, the Go map after the history equals the Go map after the same history with every write through an
    element wrapper removed — such writes never reach the map. -/
theorem map_wrapper_writes_never_reach_map (s : MSt) (h : List MOp) :
    (s.run h).m = (s.run (h.filter (fun op => !op.isWrapperWrite))).m := by
  suffices H : ∀ (h : List MOp) (s t : MSt), s.m = t.m →
      (s.run h).m = (t.run (h.filter (fun op => !op.isWrapperWrite))).m from H h s s rfl
  intro h
  induction h with
  | nil => intro s t e; exact e
  | cons op ops ih =>
    intro s t e
    cases op with
    | wwrite w x =>
      simp only [List.filter, MOp.isWrapperWrite, Bool.not_true, MSt.run]
      apply ih
      rw [← e]; simp only [MSt.step]; split <;> rfl
    | get k => simp only [List.filter, MOp.isWrapperWrite, Bool.not_false, MSt.run]; exact ih _ _ (mstep_m_congr e _)
    | set k x => simp only [List.filter, MOp.isWrapperWrite, Bool.not_false, MSt.run]; exact ih _ _ (mstep_m_congr e _)
    | del k => simp only [List.filter, MOp.isWrapperWrite, Bool.not_false, MSt.run]; exact ih _ _ (mstep_m_congr e _)
    | goSet k x => simp only [List.filter, MOp.isWrapperWrite, Bool.not_false, MSt.run]; exact ih _ _ (mstep_m_congr e _)
    | goDel k => simp only [List.filter, MOp.isWrapperWrite, Bool.not_false, MSt.run]; exact ih _ _ (mstep_m_congr e _)

/-- EXPORTTO OWN TYPE.  ExportTo(ToValue(g), &x) with x of g's own Go type yields a value deep-equal to g, for every
    shape (scalar, composite, pointer chains, typed nils, maps, slices, arrays, structs) outside the explicit
    `ExceptionTo` predicate (funcs — not comparable —, goja Values, nil *big.Int, a nil pointer below an outer
    pointer).  For the numeric kinds "deep-equal" is the value statement of `exportTo_own_kind_int/_f64`. -/
theorem exportTo_own_type_deepEq (sh : Shape) (h : ExceptionTo sh = false) : relTo sh = .deepEqual := by
  cases sh with
  | intKind k => cases k <;> simp_all [ExceptionTo, relTo, toReflectOwn, toValueCase]
  | mapStrIface n => cases n <;> simp_all [ExceptionTo, relTo, toReflectOwn, toValueCase]
  | ptrSliceIface n => cases n <;> simp_all [ExceptionTo, relTo, toReflectOwn, toValueCase]
  | objectPtr n => cases n <;> simp_all [ExceptionTo, relTo, toReflectOwn, toValueCase]
  | bigInt n => cases n <;> simp_all [ExceptionTo, relTo, toReflectOwn, toValueCase]
  | rMap d n k m =>
    rcases d with _ | _ | d <;> cases n <;> cases k <;> cases m <;>
      simp_all [ExceptionTo, relTo, toReflectOwn, toValueCase]
  | rArray d n => rcases d with _ | _ | d <;> cases n <;> simp_all [ExceptionTo, relTo, toReflectOwn, toValueCase]
  | rSlice d n => rcases d with _ | _ | d <;> cases n <;> simp_all [ExceptionTo, relTo, toReflectOwn, toValueCase]
  | rFunc d n => simp_all [ExceptionTo]
  | rOther d n => rcases d with _ | _ | d <;> cases n <;> simp_all [ExceptionTo, relTo, toReflectOwn, toValueCase]
  | _ => simp_all [ExceptionTo, relTo, toReflectOwn, toValueCase]

/-- …and the exceptions are exact: no shape in `ExceptionTo` comes back deep-equal. -/
theorem exceptionTo_is_exact (sh : Shape) (h : ExceptionTo sh = true) : relTo sh ≠ .deepEqual := by
  cases sh with
  | bigInt n => cases n <;> simp_all [ExceptionTo, relTo, toReflectOwn, toValueCase]
  | rMap d n k m =>
    rcases d with _ | _ | d <;> cases n <;> cases k <;> cases m <;>
      simp_all [ExceptionTo, relTo, toReflectOwn, toValueCase]
  | rArray d n => rcases d with _ | _ | d <;> cases n <;> simp_all [ExceptionTo, relTo, toReflectOwn, toValueCase]
  | rSlice d n => rcases d with _ | _ | d <;> cases n <;> simp_all [ExceptionTo, relTo, toReflectOwn, toValueCase]
  | rFunc d n => rcases d with _ | d <;> cases n <;> simp_all [ExceptionTo, relTo, toReflectOwn, toValueCase]
  | rOther d n => rcases d with _ | _ | d <;> cases n <;> simp_all [ExceptionTo, relTo, toReflectOwn, toValueCase]
  | _ => simp_all [ExceptionTo, relTo, toReflectOwn, toValueCase]

/-! ### Export of a script-built graph: sharing and cycles -/

/-- EXPORT PRESERVES SHARING AND CYCLES.  For every script heap `js` (any shape: shared children, cycles,
    self-references) and every root, `Object.Export()` (one fresh identity cache per call; enough recursion fuel,
    i.e. `ok`) produces Go objects such that
    (1) the cache — script object ↦ Go address — is injective: one Go object per script object, so a child reachable
        along two paths (or along a cycle) is the SAME Go map/slice, and distinct script objects stay distinct;
    (2) every exported Go object is the image of the script object cached at its address: same keys in the same
        order, primitives equal, every reference field pointing at the Go object of the referenced script object
        (edges preserved ⇒ the exported graph is isomorphic to the reachable script graph);
    (3) every object that was allocated has been completed (as many finished objects as cache entries);
    (4) the result is the Go object of the root. -/
theorem export_preserves_sharing_and_cycles_of_ok (js : Nat → JFields) (fuel root : Nat)
    (hok : (exportRoot js fuel root).1.ok = true) :
    let r := exportRoot js fuel root
    (∀ a b id : Nat, r.1.cache[a]? = some id → r.1.cache[b]? = some id → a = b) ∧
    (∀ e ∈ r.1.out, OutGood js r.1.cache e) ∧
    r.1.out.length = r.1.cache.length ∧
    Img r.1.cache (.ref root) r.2 := by
  intro r
  have hs := expVal_spec js fuel ECtx.empty (.ref root)
  obtain ⟨hext, himg⟩ := hs
  obtain ⟨osuf, hout, hgood⟩ := hext.outPre
  have hnd : r.1.cache.Nodup := hext.nodup (by simp [ECtx.empty])
  refine ⟨?_, ?_, ?_, himg hok⟩
  · intro a b id ha hb
    have hlt : a < r.1.cache.length := by
      apply Classical.byContradiction
      intro hn
      have : r.1.cache[a]? = none := List.getElem?_eq_none (by omega)
      rw [this] at ha; cases ha
    exact (List.getElem?_inj hlt hnd).mp (ha.trans hb.symm)
  · intro e he
    have : e ∈ osuf := by
      have h2 : r.1.out = osuf := by
        have : r.1.out = ECtx.empty.out ++ osuf := hout
        simpa [ECtx.empty] using this
      rw [h2] at he; exact he
    exact hgood hok e this
  · have : r.1.out.length + ECtx.empty.cache.length = ECtx.empty.out.length + r.1.cache.length := hext.count
    simpa [ECtx.empty] using this

/-- The same without any hypothesis about the recursion: on a heap of `N` objects (all references inside the heap)
    `N + 1` units of fuel always suffice — the nesting depth of the export is bounded by the number of distinct
    objects because every nested call has put a new object into the cache. -/
theorem export_preserves_sharing_and_cycles (js : Nat → JFields) (N root fuel : Nat)
    (hcl : Closed js N) (hr : root < N) (hf : N + 1 ≤ fuel) :
    let r := exportRoot js fuel root
    r.1.ok = true ∧
    (∀ a b id : Nat, r.1.cache[a]? = some id → r.1.cache[b]? = some id → a = b) ∧
    (∀ e ∈ r.1.out, OutGood js r.1.cache e) ∧
    r.1.out.length = r.1.cache.length ∧
    Img r.1.cache (.ref root) r.2 := by
  have hok := exportRoot_ok js N root fuel hcl hr hf
  exact ⟨hok, export_preserves_sharing_and_cycles_of_ok js fuel root hok⟩

/-- The export code of plain objects and arrays is the instance "no Map / Set" of the general model. -/
theorem expValK_plain (js : Nat → JFields) : ∀ (fuel : Nat) (c : ECtx) (v : JVal),
    expValK js (fun _ => false) fuel c v = expVal js fuel c v
  | 0, c, v => by cases v <;> rfl
  | fuel + 1, c, v => by
    cases v with
    | prim p => rfl
    | hole => rfl
    | ref id =>
      have ih : expValK js (fun _ => false) fuel = expVal js fuel :=
        funext fun c => funext fun v => expValK_plain js fuel c v
      simp only [expValK, expVal, Bool.false_eq_true, if_false, ih]

/-- Regression record of the mechanism before 29d16ec: Map and Set objects were exported without consulting the identity
    cache (mapObject.export / setObject.export started with `make` + `ctx.put`), so a Map reached twice within one
    export came out as two different Go slices: `var m = new Map(); [m, m]`.  Since the fix Map / Set objects are
    ordinary nodes of `expVal` and `export_preserves_sharing_and_cycles` covers them. -/
theorem mapset_export_loses_sharing_prefix_witness :
    let js : Nat → JFields := fun id => if id = 0 then [(0, .ref 1), (1, .ref 1)] else []
    (expValK js (fun id => id == 1) 5 ECtx.empty (.ref 0)).1.out =
      [(1, []), (2, []), (0, [(0, .addr 1), (1, .addr 2)])] := by
  decide

/-- Regression record of the mechanism before 29d16ec: a Map that contains itself (`m.set('self', m)`) made the export
    recurse without end — whatever the fuel, the old model runs out of it (in Go: a fatal, unrecoverable stack overflow
    of the host). -/
theorem cyclic_map_export_never_terminates_prefix_witness (fuel : Nat) (c : ECtx) :
    (expValK (fun _ => [(0, .ref 0)]) (fun _ => true) fuel c (.ref 0)).1.ok = false := by
  induction fuel generalizing c with
  | zero => simp [expValK]
  | succ f ih =>
    simp only [expValK, if_true, expFields]
    exact ih _

/-- the cache is monotone during an export (a partial injective map that only grows): exporting a further value with
    the same ctx keeps every earlier object ↦ address binding. -/
theorem export_cache_monotone (js : Nat → JFields) (fuel : Nat) (c : ECtx) (v : JVal) (a id : Nat)
    (h : c.cache[a]? = some id) : (expVal js fuel c v).1.cache[a]? = some id := by
  obtain ⟨suf, hsuf⟩ := (expVal_spec js fuel c v).1.cachePre
  have hlt : a < c.cache.length := by
    apply Classical.byContradiction
    intro hn
    have : c.cache[a]? = none := List.getElem?_eq_none (by omega)
    rw [this] at h; cases h
  rw [hsuf, List.getElem?_append_left hlt]; exact h

/-! ### the plain []interface{} wrapper: a script-side grow exposes only nil, whatever Go left in the spare capacity -/

/-- For EVERY state of the backing array (arbitrary stale items beyond len: Go-side truncation, a slice built as
    buf[:n], earlier script shrinks) growing through script (`a.length = n`) keeps the old elements and makes every
    new slot nil — within capacity and with re-allocation alike. -/
theorem goslice_grow_exposes_only_nil (s : GS) (size : Nat) (h : s.len < size) :
    (s.grow size).len = size ∧ (∀ i, i < s.len → (s.grow size).mem i = s.mem i) ∧
    (∀ i, s.len ≤ i → i < size → (s.grow size).mem i = none) := by
  unfold GS.grow
  split
  · refine ⟨rfl, ?_, ?_⟩
    · intro i hi; simp [hi]
    · intro i hi _; have : ¬ i < s.len := by omega
      simp [this]
  · refine ⟨rfl, ?_, ?_⟩
    · intro i hi; have : ¬ (s.len ≤ i ∧ i < size) := by omega
      simp [this]
    · intro i h1 h2; simp [h1, h2]

/-- the same for an assignment beyond the end (`a[len+k] = v`): the gap is nil, the element is v -/
theorem goslice_put_beyond_end_gap_is_nil (s : GS) (i : Nat) (x : Option Val) (h : s.len ≤ i) :
    (s.putIdx i x).len = i + 1 ∧ (s.putIdx i x).mem i = x ∧
    (∀ j, s.len ≤ j → j < i → (s.putIdx i x).mem j = none) ∧
    (∀ j, j < s.len → (s.putIdx i x).mem j = s.mem j) := by
  have hg := goslice_grow_exposes_only_nil s (i + 1) (by omega)
  simp only [GS.putIdx, h, if_true]
  refine ⟨hg.1, by simp [updN], ?_, ?_⟩
  · intro j h1 h2
    have : j ≠ i := by omega
    simp only [updN, this, if_false]
    exact hg.2.2 j h1 (by omega)
  · intro j hj
    have : j ≠ i := by omega
    simp only [updN, this, if_false]
    exact hg.2.1 j hj

/-- a script-side shrink clears what it cuts off (so the wrapper itself never leaves stale items behind) -/
theorem goslice_shrink_clears (s : GS) (n i : Nat) (h1 : n ≤ i) (h2 : i < s.len) : (s.shrink n).mem i = none := by
  simp [GS.shrink, h1, h2]

/-- Regression record of the seeded mutant C13-m4 (grow within capacity without clearing): after a Go-side
    truncation the stale item reappears; the coded grow shows nil. -/
theorem goslice_grow_no_clear_prefix_witness :
    let s : GS := { mem := fun i => if i < 3 then some (Int.ofNat i + 5) else none, cap := 3, len := 3 }
    (((s.step (.goTrunc 1)).growNoClear 3).mem 2 = some 7) ∧ (((s.step (.goTrunc 1)).grow 3).mem 2 = none) := by
  decide

/-! ### ExportTo into typed destinations: one Go value per (script object, destination type) -/

/-- EXPORTTO PRESERVES SHARING AND CYCLES PER DESTINATION TYPE.  For every script heap, every table of destination
    types (struct pointers with interface{} and typed fields in any order, named maps, typed slices, recursive types),
    every root and root type: within one ExportTo
    (1) the cache (object, destination type) ↦ Go address is injective — the same object reached again through a
        destination of the same type, in ANY order of untyped and typed visits, is the same Go value, different
        objects or different destination types give different values;
    (2) every Go value built is the image of its script object at its type: the declared fields the object has /
        all properties / all elements, each converted for its own destination type and pointing at the cached value
        of (child, that type);
    (3) every allocated value is completed; (4) the result is the value cached for (root, root type). -/
theorem exportTo_one_identity_per_object_and_type_of_ok (js : Nat → JFields) (tys : Nat → TyDef) (asU : Nat → Nat → Bool)
    (fuel root : Nat) (ty : Ty)
    (hok : (expTo js tys asU fuel TCtx.empty (.ref root) ty).1.ok = true) :
    let r := expTo js tys asU fuel TCtx.empty (.ref root) ty
    (∀ (a b : Nat) (key : Nat × Nat), r.1.cache[a]? = some key → r.1.cache[b]? = some key → a = b) ∧
    (∀ e ∈ r.1.out, OutGoodT js tys asU r.1.cache e) ∧
    r.1.out.length = r.1.cache.length ∧
    ImgT asU r.1.cache (.ref root) ty r.2 := by
  intro r
  obtain ⟨hext, himg⟩ := expTo_spec js tys asU fuel TCtx.empty (.ref root) ty
  obtain ⟨osuf, hout, hgood⟩ := hext.outPre
  have hnd : r.1.cache.Nodup := hext.nodup (by simp [TCtx.empty])
  refine ⟨?_, ?_, ?_, himg hok⟩
  · intro a b key ha hb
    have hlt : a < r.1.cache.length := by
      apply Classical.byContradiction
      intro hn
      have : r.1.cache[a]? = none := List.getElem?_eq_none (by omega)
      rw [this] at ha; cases ha
    exact (List.getElem?_inj hlt hnd).mp (ha.trans hb.symm)
  · intro e he
    have : e ∈ osuf := by
      have h2 : r.1.out = osuf := by
        have : r.1.out = TCtx.empty.out ++ osuf := hout
        simpa [TCtx.empty] using this
      rw [h2] at he; exact he
    exact hgood hok e this
  · have : r.1.out.length + TCtx.empty.cache.length = TCtx.empty.out.length + r.1.cache.length := hext.count
    simpa [TCtx.empty] using this

/-- The same with no hypothesis about the recursion: on a heap of N objects and a closed table of T destination types,
    N·(T+1) + 1 units of fuel always suffice (every nested call has put a new (object, type) pair into the cache). -/
theorem exportTo_one_identity_per_object_and_type (js : Nat → JFields) (tys : Nat → TyDef) (asU : Nat → Nat → Bool)
    (N T root fuel : Nat) (ty : Ty) (hcl : ClosedJ js N) (htc : TyClosed tys T) (hr : root < N) (hty : TyIn T ty)
    (hf : N * (T + 1) + 1 ≤ fuel) :
    let r := expTo js tys asU fuel TCtx.empty (.ref root) ty
    r.1.ok = true ∧
    (∀ (a b : Nat) (key : Nat × Nat), r.1.cache[a]? = some key → r.1.cache[b]? = some key → a = b) ∧
    (∀ e ∈ r.1.out, OutGoodT js tys asU r.1.cache e) ∧
    r.1.out.length = r.1.cache.length ∧
    ImgT asU r.1.cache (.ref root) ty r.2 := by
  have hok := expTo_root_ok js tys asU N T root fuel ty hcl htc hr hty hf
  exact ⟨hok, exportTo_one_identity_per_object_and_type_of_ok js tys asU fuel root ty hok⟩

/-! ### typed export dispatch: which Go container each script object exports into, with which elements -/

/-- EXPORTTO INTO SLICES / ARRAYS / []byte = THE DOCUMENTATION, for every well-formed source object (any implementation
    class, with or without / with an overridden Symbol.iterator, callable or not, with or without `length`) and every
    such destination: the documented elements in the documented order (an Array or Set into []interface{}: its plain
    Export(); a Set: its elements; an iterable — Arrays included, their iterator may be overridden —: the iteration
    results; an array-like non-function: obj[0..length-1]); a Go array destination succeeds iff the lengths match;
    a bytes-backed object into []byte is a view of its buffer; anything else is "not an array or iterable". -/
theorem exportTo_containers_as_documented (s : JSrc) (d : Dest) (hwf : s.WF) (hd : d ≠ .map) :
    (∀ l, docSeqElems s d = some l →
        (fits d l.length = true → mech s d = .seq l) ∧
        (fits d l.length = false → ∃ e, mech s d = .err e ∧ e ≠ .notArrayOrIterable)) ∧
    (docSeqElems s d = none →
        (s.kind = .bytes ∧ d = .bytes → mech s d = .bytesView s.byteLen) ∧
        (¬ (s.kind = .bytes ∧ d = .bytes) → mech s d = .err .notArrayOrIterable)) :=
  typed_export_seq_as_documented s d hwf hd

/-- EXPORTTO INTO MAPS = THE DOCUMENTATION: a Map its entries, a Set its elements with zero values, every other object
    its own enumerable string-keyed properties. -/
theorem exportTo_maps_as_documented (s : JSrc) : mech s .map = docMap s :=
  typed_export_map_as_documented s

/-- identity cache of the typed export methods, now without exception (6fa4053): every implementation class, into
    every destination type, enters the container it builds into the identity cache.  (The content is carried by the
    regenerated facts of `Tie.export_dispatch_ok` — every per-class body calls putTyped — and by the exhaustive DS
    stream; the old mechanism differed exactly at Set-into-map.) -/
theorem exportTo_containers_cached (k : SrcKind) (d : Dest) :
    cachesTyped k d = true ∧ (¬ (k = .set ∧ d = .map) → cachesTypedOld k d = cachesTyped k d) :=
  ⟨typed_export_identity_cached k d, cachesTypedOld_agrees k d⟩

/-- REGRESSION RECORD (before 6fa4053): setObject.exportToMap never entered its map into the identity cache:
    `var s = new Set([1]); [s, s]` into `[]map[interface{}]interface{}` gave two different Go maps. -/
theorem set_exportToMap_not_cached_prefix_witness : cachesTypedOld .set .map = false :=
  set_into_map_not_cached_prefix_witness

/-- every source object of the exhaustive D / DS correspondence catalogue (20 named sources × 7 destinations) satisfies the
    well-formedness hypothesis of `exportTo_containers_as_documented`: the theorem applies to every compared line. -/
theorem dispatch_catalogue_wellformed :
    ∀ n ∈ DispatchDriver.catalogueNames, ∀ s, DispatchDriver.catalogue n = some s → s.WF :=
  DispatchDriver.catalogue_wf

/-! ### composite and string parameters of a Go function called from script -/

/-- EVERY STRUCT / MAP / SLICE ARGUMENT OF A GO FUNCTION IS ONE COMPLETE TYPED EXPORT OF ITS OWN: the i-th converted
    argument is exactly the typed traversal of that script value started with an empty identity cache, hence (closed
    heap, enough fuel) has all the guarantees of `exportTo_one_identity_per_object_and_type` — sharing and cycles inside
    one argument are preserved; nothing is shared between two arguments (`wrapReflectFunc` makes a new context each). -/
theorem gateway_composite_arg_is_own_export (js : Nat → JFields) (tys : Nat → TyDef) (asU : Nat → Nat → Bool)
    (N T fuel : Nat) (args : List (JVal × Ty)) (i root : Nat) (ty : Ty)
    (hcl : ClosedJ js N) (htc : TyClosed tys T) (hr : root < N) (hty : TyIn T ty) (hf : N * (T + 1) + 1 ≤ fuel)
    (hi : args[i]? = some (.ref root, ty)) :
    ∃ r, (gatewayArgsT js tys asU fuel args)[i]? = some r ∧
      r = expTo js tys asU fuel TCtx.empty (.ref root) ty ∧
      r.1.ok = true ∧
      (∀ (a b : Nat) (key : Nat × Nat), r.1.cache[a]? = some key → r.1.cache[b]? = some key → a = b) ∧
      (∀ e ∈ r.1.out, OutGoodT js tys asU r.1.cache e) ∧
      r.1.out.length = r.1.cache.length ∧
      ImgT asU r.1.cache (.ref root) ty r.2 :=
  ⟨_, gatewayArgsT_get js tys asU fuel args i (.ref root) ty hi, rfl,
    exportTo_one_identity_per_object_and_type js tys asU N T root fuel ty hcl htc hr hty hf⟩

/-! ### the two-level identity cache (untyped entry + per-type items) of one ExportTo -/

/-- ONE IDENTITY PER (OBJECT, DESTINATION TYPE), whatever the visit order.  Once an object has been exported through
    some path — untyped (`put`: get afterwards answers it) or to a Go type `ty` (`putTyped`) — that binding survives
    ANY later sequence of cache writes of the same export (untyped and typed visits of this and of other objects, for
    any other types, in any order and number): every later visit through the same kind of destination gets the same
    Go value.  The hypothesis `leaves` is what the export code guarantees: a binding is written only after the
    corresponding get / getTyped missed, so (key, ty) is never bound twice. -/
theorem cache_binding_survives_all_visits (c : C2) (key ty v : Nat) (ops : List COp)
    (h : c.getTyped key ty = some v) (hl : ∀ op ∈ ops, op.leaves key ty c.et = true) :
    (c.run ops).getTyped key ty = some v :=
  binding_stable_run key ty v ops c h hl

/-- the untyped path: after `put key v`, `get key` is `v`, and stays `v` however many typed visits (putTyped of any
    other type, on any object) and untyped visits of other objects intervene — untyped → typed → … → untyped reaches
    the SAME Go map/slice. -/
theorem untyped_identity_survives_typed_visits (c : C2) (key v : Nat) (ops : List COp)
    (hfresh : c.get key = none)
    (hl : ∀ op ∈ ops, op.leaves key (c.et key) c.et = true) :
    ((c.put key v).run ops).get key = some v := by
  have het : (c.put key v).et = c.et := step_et c (.put key v)
  have h0 : (c.put key v).getTyped key (c.et key) = some v := by
    rw [C2.get_eq_getTyped] at hfresh
    unfold C2.put
    cases hc : c.cache key with
    | none => simp [getTyped_setCache]
    | some e =>
      cases e with
      | raw old => simp [C2.getTyped, hc] at hfresh
      | items tbl => simp [getTyped_setCache, tblGet_cons]
  rw [C2.get_eq_getTyped]
  have hrun : ((c.put key v).run ops).et = c.et := by
    have : ∀ (ops : List COp) (d : C2), (d.run ops).et = d.et := by
      intro ops; induction ops with
      | nil => intro d; rfl
      | cons op ops ih => intro d; simp only [C2.run]; rw [ih, step_et]
    rw [this, het]
  rw [hrun]
  exact binding_stable_run key (c.et key) v ops (c.put key v) h0 (by rw [het]; exact hl)

/-- and the typed path symmetrically: typed → untyped → typed -/
theorem typed_identity_survives_untyped_visits (c : C2) (key ty v : Nat) (ops : List COp)
    (hl : ∀ op ∈ ops, op.leaves key ty c.et = true) :
    ((c.putTyped key ty v).run ops).getTyped key ty = some v := by
  have het : (c.putTyped key ty v).et = c.et := step_et c (.putTyped key ty v)
  have h0 : (c.putTyped key ty v).getTyped key ty = some v := by
    unfold C2.putTyped
    cases hc : c.cache key with
    | none => simp [getTyped_setCache, tblGet_cons]
    | some e => cases e <;> simp [getTyped_setCache, tblGet_cons]
  exact binding_stable_run key ty v ops (c.putTyped key ty v) h0 (by rw [het]; exact hl)

/-- THE TWO-LEVEL TABLE IS A MAP KEYED BY (OBJECT, TYPE CODE).  Whatever sequence of cache writes one export performs
    (code 0 = ctx.put of the untyped export, code t+1 = ctx.putTyped for destination type `tyOf t`; typed destinations
    equal to the object's own export type never occur as typed codes, they take the AssignableTo path), every lookup
    ctx.get / ctx.getTyped answers exactly what an association list of those writes would: this is the abstract cache
    `ExportTo.lean` and `Export.lean` compute with. -/
theorem two_level_cache_is_keyed_map (tyOf : Nat → Nat) (hinj : ∀ s t, tyOf s = tyOf t → s = t)
    (et : Nat → Nat) (hty : ∀ id t, tyOf t ≠ et id) (ws : List ((Nat × Nat) × Nat)) (k : Nat × Nat) :
    (ws.foldl (fun c w => c.writeK tyOf w.1 w.2) ({ et := et, cache := fun _ => none } : C2)).lookupK tyOf k =
      assocLookup k ws.reverse := by
  have h := c2_implements_keyed_map tyOf hinj ws ({ et := et, cache := fun _ => none } : C2) hty []
    (by intro k'; simp [C2.lookupK, C2.get, C2.getTyped, assocLookup]) k
  rw [h]
  congr 1
  have : ∀ (l A : List ((Nat × Nat) × Nat)), l.foldl (fun A w => w :: A) A = l.reverse ++ A := by
    intro l; induction l with
    | nil => intro A; rfl
    | cons x xs ih => intro A; simp [List.foldl, ih]
  simpa using this ws []

/-- Regression record of the seeded mutant C13-m2 (putTyped drops an earlier untyped entry when upgrading it to a
    per-type table): untyped → typed → untyped loses the identity, the coded putTyped keeps it. -/
theorem putTyped_dropping_raw_prefix_witness :
    let c0 : C2 := { et := fun _ => 0, cache := fun _ => none }
    ((c0.put 7 5).putTypedDropsRaw 7 1 6).get 7 = none ∧ ((c0.put 7 5).putTyped 7 1 6).get 7 = some 5 := by
  decide

/-! ### non-vacuity (tests on literals, not proofs of the property) -/

/-- a cycle with a shared child: o0 = {k0: o1, k1: o1, k2: o0}, o1 = [7, o0] -/
example : (exportRoot (fun id => if id = 0 then [(0, .ref 1), (1, .ref 1), (2, .ref 0)] else if id = 1 then [(0, .prim 7), (1, .ref 0)] else []) 5 0)
    = ({ cache := [0, 1], out := [(1, [(0, .prim 7), (1, .addr 0)]), (0, [(0, .addr 1), (1, .addr 1), (2, .addr 0)])], ok := true }, .addr 0) := by
  decide


example : Admissible (St.init false 3 4 (fun i => Int.ofNat i))
    [.get 0, .get 1, .wwrite 0 9, .set 0 5, .wwrite 0 8, .setLen 6, .swap 1 2, .del 1, .goWrite 2 7, .goAppend 3] := by
  decide

example : ((St.init false 3 4 (fun i => Int.ofNat i)).run [.get 0, .wwrite 0 9, .set 0 5, .wwrite 0 8]).slot 0 = 5 := by
  decide

end GojaModel.C13
