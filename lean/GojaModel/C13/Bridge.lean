/-
  C13 — Part 2 of the model: `Bridge`.  Runtime.toValue (runtime.go:1794) case order, what Export returns for
  each wrapper class, and the numeric-kind table (intToValue vm.go:392, floatToValue vm.go:409, the numeric
  switch of toReflectValue runtime.go:2145-2180 via toInt8..toUint64 runtime.go:1009-1196).
  Core Lean only.
-/
namespace GojaModel.C13

/-! ### numeric kinds -/

inductive IntKind where
  | int | int8 | int16 | int32 | int64 | uint | uint8 | uint16 | uint32 | uint64
deriving DecidableEq, Repr

def IntKind.lo : IntKind → Int
  | .int => -9223372036854775808 | .int8 => -128 | .int16 => -32768 | .int32 => -2147483648
  | .int64 => -9223372036854775808 | _ => 0

def IntKind.hi : IntKind → Int
  | .int => 9223372036854775807 | .int8 => 127 | .int16 => 32767 | .int32 => 2147483647
  | .int64 => 9223372036854775807 | .uint => 18446744073709551615 | .uint8 => 255 | .uint16 => 65535
  | .uint32 => 4294967295 | .uint64 => 18446744073709551615

def IntKind.InRange (k : IntKind) (v : Int) : Prop := k.lo ≤ v ∧ v ≤ k.hi

/-- maxInt = 1 << 53 (vm.go:17). -/
def maxSafe : Int := 9007199254740992

def Safe (v : Int) : Prop := -maxSafe ≤ v ∧ v ≤ maxSafe

instance (v : Int) : Decidable (Safe v) := by unfold Safe; infer_instance

/-- A float64, classified.  `intval i`: finite with integral value i (i exactly representable; +0 is intval 0);
    `frac bits`: finite non-integral, carried by its bit pattern. -/
inductive Flt where
  | intval (i : Int) | negZero | nan | posInf | negInf | frac (bits : Nat)
deriving DecidableEq, Repr

inductive JsNum where
  | int (i : Int)     -- valueInt
  | flt (f : Flt)     -- valueFloat
deriving DecidableEq, Repr

inductive GoNum where
  | i64 (v : Int) | f64 (f : Flt)
deriving DecidableEq, Repr

/-- float64(n) for a natural number: round to 53 significant bits, ties to even. -/
def round53Nat (n : Nat) : Nat :=
  let bits := if n = 0 then 0 else Nat.log2 n + 1
  if bits ≤ 53 then n else
  let sh := bits - 53
  let q := n / 2 ^ sh
  let r := n % 2 ^ sh
  let half := 2 ^ (sh - 1)
  let q' := if r > half ∨ (r = half ∧ q % 2 = 1) then q + 1 else q
  q' * 2 ^ sh

def round53 (v : Int) : Int :=
  if v < 0 then - Int.ofNat (round53Nat v.natAbs) else Int.ofNat (round53Nat v.natAbs)

/-- floatToValue (vm.go:410) with floatToInt (vm.go:403). -/
def floatToValue : Flt → JsNum
  | .intval i => if Safe i then .int i else .flt (.intval i)
  | f => .flt f

/-- intToValue (vm.go:392): valueInt inside ±2^53, else floatToValue(float64(i)) — the nearest double may again be
    a safe integer (2^53+1 rounds to 2^53). -/
def intToValue (i : Int) : JsNum :=
  if Safe i then .int i else floatToValue (.intval (round53 i))

/-- the numeric cases of the type switch of Runtime.toValue (runtime.go:1840-1866). -/
def toValueInt (k : IntKind) (v : Int) : JsNum :=
  match k with
  | .uint | .uint64 =>
      if v ≤ 9223372036854775807 then intToValue v else floatToValue (.intval (round53 v))
  | _ => intToValue v

/-- valueInt.Export / valueFloat.Export (value.go:253, 683). -/
def exportNum : JsNum → GoNum
  | .int i => .i64 i
  | .flt f => .f64 f

/-- Go's conversion of an int64 to kind k (two's complement truncation). -/
def wrapTo (k : IntKind) (i : Int) : Int :=
  match k with
  | .int | .int64 => (i + 9223372036854775808) % 18446744073709551616 - 9223372036854775808
  | .int8 => (i + 128) % 256 - 128
  | .int16 => (i + 32768) % 65536 - 32768
  | .int32 => (i + 2147483648) % 4294967296 - 2147483648
  | .uint | .uint64 => i % 18446744073709551616
  | .uint8 => i % 256
  | .uint16 => i % 65536
  | .uint32 => i % 4294967296

/-- int64(f) for an integral double (amd64: out of range gives MinInt64). -/
def f64ToI64 (i : Int) : Int :=
  if -9223372036854775808 ≤ i ∧ i ≤ 9223372036854775807 then i else -9223372036854775808

/-- int64(f) for a finite NON-integral double given by its bit pattern: truncation toward zero
    (sign, 11-bit exponent, 52-bit fraction; value = sig · 2^(e-1075)). -/
def truncFrac (bits : Nat) : Int :=
  let neg := bits / 2 ^ 63 % 2 = 1
  let e := bits / 2 ^ 52 % 2048
  let m := bits % 2 ^ 52
  let sig : Nat := if e = 0 then m else m + 2 ^ 52
  let mag : Nat := if e < 1023 then 0 else if e ≤ 1075 then sig / 2 ^ (1075 - e) else sig * 2 ^ (e - 1075)
  if neg then - Int.ofNat mag else Int.ofNat mag

/-- toReflectValue's numeric switch for an integer target kind: toInt8 … toUint64 (runtime.go:1009-1196):
    valueInt → Go conversion (two's complement truncation); valueFloat → int64(f) first (NaN / ±Inf → 0). -/
def exportToInt (k : IntKind) : JsNum → Option Int
  | .int i => some (wrapTo k i)
  | .flt (.intval i) => some (wrapTo k (f64ToI64 i))
  | .flt .negZero => some 0
  | .flt .nan => some 0
  | .flt .posInf => some 0
  | .flt .negInf => some 0
  | .flt (.frac b) => some (wrapTo k (f64ToI64 (truncFrac b)))

/-- v.ToFloat() (target kind float64). -/
def exportToF64 : JsNum → Flt
  | .int i => .intval i
  | .flt f => f

/-! ### shapes: the case order of Runtime.toValue (runtime.go:1794) -/

/-- Dynamic-type classes of the argument of ToValue (one constructor per class the code distinguishes). -/
inductive Shape where
  | nilIface                      -- interface{}(nil)
  | objectPtr (nil : Bool)        -- *goja.Object (nil pointer / nil self)
  | jsValue                       -- any other goja.Value
  | str | bool
  | nativeFunc                    -- func(FunctionCall) Value, func(FunctionCall,*Runtime) Value
  | nativeCtor                    -- func(ConstructorCall) *Object, (…,*Runtime)
  | intKind (k : IntKind)
  | float32 | float64
  | bigInt (nil : Bool)           -- *big.Int
  | mapStrIface (nil : Bool)      -- map[string]interface{}
  | sliceIface                    -- []interface{}   (nil or not)
  | ptrSliceIface (nil : Bool)    -- *[]interface{}
  -- reflect path: `depth` pointer indirections around a base; `nilPtr`: some pointer in the chain is nil
  | rMap (depth : Nat) (nilPtr : Bool) (keyOk : Bool) (hasMethods : Bool)
  | rArray (depth : Nat) (nilPtr : Bool)
  | rSlice (depth : Nat) (nilPtr : Bool)
  | rFunc (depth : Nat) (nilPtr : Bool)
  | rOther (depth : Nat) (nilPtr : Bool)    -- struct, named scalar, chan, interface-typed, …
deriving DecidableEq, Repr

/-- The implementation class of the resulting value (`%T` of Object.self, or the primitive). -/
inductive Wrap where
  | null | passthrough | string | bool | nativeFunc | nativeCtor | number | bigint
  | goMapSimple | goSlice (origIsPtr : Bool)
  | goMapReflect | goArrayReflect | goSliceReflect | wrappedFunc | goReflect
deriving DecidableEq, Repr

/-- Runtime.toValue: the type switch in source order, then the pointer-stripping loop, the IsValid test and
    the reflect.Kind switch (runtime.go:1795-1982). -/
def toValueCase : Shape → Wrap
  | .nilIface => .null                                   -- case nil
  | .objectPtr true => .null                             -- case *Object: nil / self == nil
  | .objectPtr false => .passthrough
  | .jsValue => .passthrough                             -- case valueContainer / Value
  | .str => .string
  | .bool => .bool
  | .nativeFunc => .nativeFunc
  | .nativeCtor => .nativeCtor
  | .intKind _ => .number
  | .float32 => .number
  | .float64 => .number
  | .bigInt _ => .bigint                                 -- copies, nil -> 0n
  | .mapStrIface true => .null
  | .mapStrIface false => .goMapSimple
  | .sliceIface => .goSlice false
  | .ptrSliceIface true => .null
  | .ptrSliceIface false => .goSlice true
  | .rMap _ true _ _ => .null                            -- !value.IsValid()
  | .rMap _ false keyOk hasMethods => if !hasMethods && keyOk then .goMapReflect else .goReflect
  | .rArray _ true => .null
  | .rArray _ false => .goArrayReflect
  | .rSlice _ true => .null
  | .rSlice _ false => .goSliceReflect
  | .rFunc _ true => .null
  | .rFunc _ false => .wrappedFunc
  | .rOther _ true => .null
  | .rOther _ false => .goReflect

/-- How Export() of the result relates to the Go value that was passed in. -/
inductive Rel where
  | identical      -- same dynamic type and ==-equal; the same pointer / map / slice header for reference kinds
  | valueCopy      -- same dynamic type, deep-equal copy (non-addressable struct / array / slice header passed by value)
  | widened        -- numeric kind collapses to int64 / float64 (numeric table below)
  | bigCopy        -- *big.Int: a fresh *big.Int with the same value (nil -> 0)
  | untypedNil     -- a typed nil comes back as interface{}(nil)
  | jsExport       -- a goja.Value passes through; Export is that value's own Export
  | nativeWrapped  -- native func signatures: Export returns a func(FunctionCall) Value (wrapped for the *Runtime forms)
  | ptrStripped    -- pointer(s) to a func: Export returns the func value itself (wrappedFuncObject keeps only the func)
deriving DecidableEq, Repr

/-- Export of each wrapper class (objectGoReflect.export object_goreflect.go:501, objectGoSlice.export
    object_goslice.go:300, objectGoMapSimple.export object_gomap.go:145, wrappedFuncObject.export func.go:169,
    valueNull.Export value.go:461, …), relative to the input. -/
def roundTrip (sh : Shape) : Rel :=
  match toValueCase sh, sh with
  | .null, .nilIface => .identical
  | .null, _ => .untypedNil
  | .passthrough, _ => .jsExport
  | .string, _ => .identical
  | .bool, _ => .identical
  | .nativeFunc, _ => .nativeWrapped
  | .nativeCtor, _ => .nativeWrapped
  | .number, .intKind .int64 => .identical        -- within ±2^53, see numeric table
  | .number, .float64 => .identical               -- non-integral or beyond ±2^53; integral doubles come back as int64
  | .number, _ => .widened
  | .bigint, _ => .bigCopy
  | .goMapSimple, _ => .identical
  | .goSlice _, _ => .identical
  | .goMapReflect, _ => .identical                -- a map header is a reference: origValue.Interface()
  | .goReflect, .rOther 0 _ => .valueCopy         -- non-pointer: the wrapper owns an addressable copy when it needs one
  | .goReflect, _ => .identical
  | .goArrayReflect, .rArray 0 _ => .valueCopy
  | .goArrayReflect, _ => .identical
  | .goSliceReflect, _ => .identical              -- the slice header shares the backing array
  | .wrappedFunc, .rFunc 0 _ => .identical
  | .wrappedFunc, _ => .ptrStripped

/-- The exact exceptions to "Export(ToValue(g)) is g itself". -/
def Exception : Shape → Bool
  | .objectPtr _ | .jsValue => true                          -- not Go data
  | .nativeFunc | .nativeCtor => true
  | .intKind k => k != .int64                                -- widened to int64
  | .float32 => true                                         -- widened to float64
  | .bigInt _ => true                                        -- copied (documented)
  | .mapStrIface nil => nil                                  -- typed nil -> untyped nil
  | .ptrSliceIface nil => nil
  | .rMap _ nilPtr _ _ => nilPtr
  | .rArray d nilPtr => nilPtr || d == 0                     -- array by value: copy
  | .rSlice _ nilPtr => nilPtr
  | .rFunc d nilPtr => nilPtr || d != 0                      -- *func: the pointer is dropped
  | .rOther d nilPtr => nilPtr || d == 0                     -- struct / named scalar by value: copy (==-equal)
  | _ => false

/-! ### ExportTo into a variable of the value's own Go type (Runtime.toReflectValue, runtime.go:2072) -/

/-- The branch of toReflectValue that decides, in source order: `typ == typeObject` with an Object (l.2080),
    ExportType nil → zero value (l.2094), the AssignableTo / ConvertibleTo / pointer-stripping loop (l.2101-2124),
    then the Kind switch (numeric cases l.2150-2185, Ptr l.2240 which allocates and recurses, Func l.2235). -/
inductive ToPath where
  | objectDirect | zeroOfType | assignable | numericSwitch | ptrRecurse | funcGateway | passthroughValue
deriving DecidableEq, Repr

/-- `hasStarRuntime`-style distinctions are not needed: the native signatures either are assignable or go through the
    Func gateway; both are functions. -/
def toReflectOwn (sh : Shape) : ToPath :=
  match toValueCase sh, sh with
  | .passthrough, .objectPtr false => .objectDirect          -- typ == typeObject, v is an *Object
  | .passthrough, _ => .passthroughValue                      -- a goja.Value: not Go data
  | .null, _ => .zeroOfType                                   -- et == reflectTypeNil: dst.Set(reflect.Zero(typ))
  | .number, .intKind .int64 => .assignable                   -- et int64 == typ
  | .number, .float64 => .assignable                          -- (or the Float64 case when the value became a valueInt)
  | .number, _ => .numericSwitch
  | .nativeFunc, _ => .funcGateway                            -- assignable for func(FunctionCall) Value, MakeFunc otherwise
  | .nativeCtor, _ => .funcGateway
  | .wrappedFunc, .rFunc 0 _ => .assignable
  | .wrappedFunc, _ => .ptrRecurse                            -- *func: not assignable, Kind Ptr: reflect.New + recurse
  | _, _ => .assignable                                       -- every wrapper: ExportType() is the Go type itself

/-- How the result of ExportTo(ToValue(g), &x) with x of g's own type relates to g. -/
inductive RelTo where
  | deepEqual          -- reflect.DeepEqual(x, g) (for numeric kinds: values within ±2^53, see the numeric theorems)
  | func               -- a func value (never DeepEqual unless nil): the same func, or a gateway for it
  | bigNilZero         -- nil *big.Int comes back as 0
  | nilChainCollapsed  -- **T… with a nil inner pointer: the whole chain comes back as a nil outer pointer
  | notGoData
deriving DecidableEq, Repr

def relTo (sh : Shape) : RelTo :=
  match toReflectOwn sh, sh with
  | .passthroughValue, _ => .notGoData
  | .objectDirect, _ => .deepEqual
  | .funcGateway, _ => .func
  | .ptrRecurse, _ => .func
  | .assignable, .rFunc _ _ => .func
  | .assignable, .bigInt true => .bigNilZero
  | .zeroOfType, .bigInt true => .bigNilZero
  | .zeroOfType, .rMap (_ + 2) _ _ _ => .nilChainCollapsed
  | .zeroOfType, .rArray (_ + 2) _ => .nilChainCollapsed
  | .zeroOfType, .rSlice (_ + 2) _ => .nilChainCollapsed
  | .zeroOfType, .rFunc _ _ => .func
  | .zeroOfType, .rOther (_ + 2) _ => .nilChainCollapsed
  | _, _ => .deepEqual

/-- The exact exceptions to "ExportTo into the value's own type yields a deep-equal value". -/
def ExceptionTo : Shape → Bool
  | .jsValue => true
  | .nativeFunc | .nativeCtor => true
  | .rFunc _ _ => true
  | .bigInt nil => nil
  | .rMap d nilPtr _ _ => nilPtr && decide (2 ≤ d)
  | .rArray d nilPtr => nilPtr && decide (2 ≤ d)
  | .rSlice d nilPtr => nilPtr && decide (2 ≤ d)
  | .rOther d nilPtr => nilPtr && decide (2 ≤ d)
  | _ => false

end GojaModel.C13
