/-
  C13 — the call gateways.
  wrapReflectFunc (runtime.go:2002): a Go func called from script — how the script arguments are laid out into the
  `in []reflect.Value` handed to reflect.Value.Call (missing ones zero-filled, extra ones dropped, variadic tail),
  and how the results become a script value (runtime.go:2052-2083).
  wrapJSFunc (runtime.go:2271): a script function exported to a Go func type — how the Go arguments become the
  script argument list (variadic tail flattened) and how results / exceptions map back.
  Core Lean only.
-/
import GojaModel.C13.Bridge

namespace GojaModel.C13

inductive Slot where
  | unset                                   -- invalid reflect.Value: reflect.Call would panic
  | zero (param : Nat)                      -- reflect.Zero(typ.In(param))
  | arg (j : Nat) (param : Nat) (elem : Bool)   -- script argument j converted to In(param) (or In(param).Elem())
deriving DecidableEq, Repr

structure GIn where
  len : Nat
  slot : Nat → Slot
  oob : Bool            -- an `in[i] = v` beyond len(in) (would be a Go index-out-of-range panic)

/-- the allocation of `in` and the zero filling (runtime.go:2009-2025) -/
def initIn (nargs : Nat) (variadic : Bool) (l : Nat) : GIn :=
  if l < nargs then
    let n := if variadic then nargs - 1 else nargs
    { len := n, slot := fun i => if l ≤ i ∧ i < n then .zero i else .unset, oob := false }
  else
    { len := if nargs < l ∧ variadic = false then nargs else l, slot := fun _ => .unset, oob := false }

def GIn.assign (g : GIn) (i : Nat) (s : Slot) : GIn :=
  if i < g.len then { g with slot := fun j => if j = i then s else g.slot j } else { g with oob := true }

/-- `for i, a := range call.Arguments` (runtime.go:2027-2049); `todo` arguments left, next index `i`.
    Go's `n >= nargs-1` / `n > nargs-1` on ints are written without subtraction. -/
def loopIn (nargs : Nat) (variadic : Bool) : Nat → Nat → GIn → GIn
  | _, 0, g => g
  | i, todo + 1, g =>
    if nargs ≤ i + 1 ∧ variadic = true then
      loopIn nargs variadic (i + 1) todo (g.assign i (.arg i (nargs - 1) true))
    else if nargs < i + 1 then g                      -- break: ignore extra arguments
    else loopIn nargs variadic (i + 1) todo (g.assign i (.arg i i false))

def gatewayIn (nargs : Nat) (variadic : Bool) (l : Nat) : GIn :=
  loopIn nargs variadic 0 l (initIn nargs variadic l)

/-- what the documentation promises for position i of the call -/
def specSlot (nargs : Nat) (variadic : Bool) (l i : Nat) : Slot :=
  if i < l then (if nargs ≤ i + 1 ∧ variadic = true then .arg i (nargs - 1) true else .arg i i false)
  else .zero i

/-! conversion of the script arguments (toReflectValue into the parameter type, runtime.go:2072): primitives into
    integer parameters -/

inductive JArg where
  | num (v : JsNum) | bool (b : Bool) | undef | null
deriving DecidableEq, Repr

/-- toReflectValue(a, v) for an integer parameter of kind k: undefined / null have no export type → reflect.Zero;
    a boolean goes through ToNumber; a number through toInt8 … toUint64. -/
def convArgInt (k : IntKind) : JArg → Int
  | .num v => (exportToInt k v).getD 0
  | .bool b => if b then 1 else 0
  | .undef => 0
  | .null => 0

/-- toReflectValue into a `bool` parameter: undefined / null → zero value; otherwise ToBoolean -/
def convArgBool : JArg → Bool
  | .num (.int i) => i ≠ 0
  | .num (.flt .nan) => false
  | .num (.flt .negZero) => false
  | .num (.flt _) => true          -- non-zero finite (an integral 0 is a valueInt) or ±Infinity
  | .bool b => b
  | .undef => false
  | .null => false

/-- toReflectValue into a `float64` parameter: undefined / null → zero value; otherwise ToFloat -/
def convArgF64 : JArg → Flt
  | .num v => exportToF64 v
  | .bool b => .intval (if b then 1 else 0)
  | .undef => .intval 0
  | .null => .intval 0

/-- parameter kinds the model converts into -/
inductive PKind where
  | int (k : IntKind) | bool | f64
deriving DecidableEq, Repr

inductive GoArg where
  | int (v : Int) | bool (b : Bool) | f64 (f : Flt)
deriving DecidableEq, Repr

def convArg : PKind → JArg → GoArg
  | .int k, a => .int (convArgInt k a)
  | .bool, a => .bool (convArgBool a)
  | .f64, a => .f64 (convArgF64 a)

def zeroArg : PKind → GoArg
  | .int _ => .int 0
  | .bool => .bool false
  | .f64 => .f64 (.intval 0)

/-- what a Go func with parameters of mixed kinds receives -/
def gatewayCallP (kinds : List PKind) (variadic : Bool) (args : List JArg) : List GoArg :=
  let g := gatewayIn kinds.length variadic args.length
  (List.range g.len).map (fun i => match g.slot i with
    | .arg j p _ => convArg (kinds.getD p (.int .int)) (args.getD j .undef)
    | .zero p => zeroArg (kinds.getD p (.int .int))
    | .unset => .int 0)

/-- what the Go func receives: position i of `in`, converted for its parameter kind -/
def gatewayCall (kinds : List IntKind) (variadic : Bool) (args : List JArg) : List Int :=
  let g := gatewayIn kinds.length variadic args.length
  (List.range g.len).map (fun i => match g.slot i with
    | .arg j p _ => convArgInt (kinds.getD p .int) (args.getD j .undef)
    | .zero _ => 0
    | .unset => 0)

/-! results of a Go call (runtime.go:2052-2083) -/

inductive CallResult where
  | undefined                 -- no results (or only a nil error)
  | value (i : Nat)           -- ToValue(out[i])
  | array (n : Nat)           -- ToValue([]interface{}{out[0..n-1]})
  | throw                     -- last result is a non-nil error
deriving DecidableEq, Repr

/-- nout results, the last one of type error iff `lastIsErr`, and non-nil iff `errNonNil`. -/
def gatewayOut (nout : Nat) (lastIsErr errNonNil : Bool) : CallResult :=
  if nout = 0 then .undefined
  else if lastIsErr then
    if errNonNil then .throw
    else match nout - 1 with
      | 0 => .undefined
      | 1 => .value 0
      | n => .array n
  else match nout with
    | 1 => .value 0
    | n => .array n

/-! wrapJSFunc: Go arguments -> script arguments (runtime.go:2273-2291) -/

/-- number of script arguments for a Go call with `nfixed` non-variadic parameters and (if variadic) a tail of
    `tail` elements: the tail is flattened. -/
def jsArgCount (nfixed : Nat) (variadic : Bool) (tail : Nat) : Nat :=
  if variadic then nfixed + tail else nfixed

/-- which Go value script argument j is: fixed parameter j, or element j - nfixed of the variadic tail -/
inductive JsArg where
  | fixed (p : Nat) | tailElem (k : Nat)
deriving DecidableEq, Repr

def jsArg (nfixed : Nat) (j : Nat) : JsArg := if j < nfixed then .fixed j else .tailElem (j - nfixed)

/-- results of the Go func built by wrapJSFunc (runtime.go:2293-2330): `threw` = the script function threw,
    `convFail` = the result could not be converted to Out(0). -/
inductive JsCallOutcome where
  | results (firstFromJs : Bool) (errSet : Bool)   -- results[0] from the script value (else zero), results[last] = error or nil
  | goPanic                                        -- no error result to carry the exception: panic(err)
deriving DecidableEq, Repr

def jsFuncOutcome (nout : Nat) (lastIsErr threw convFail : Bool) : JsCallOutcome :=
  let failed := threw || (decide (0 < nout) && convFail)
  if failed then
    if decide (0 < nout) && lastIsErr then .results false true else .goPanic
  else .results (decide (0 < nout)) false

end GojaModel.C13
