/-
  C13 — nested wrappers inside slice / array / struct histories.
  Every element wrapper w of the WrapCache model (Model.lean) carries the tree of nested wrappers it has handed out
  (Nested.lean).  In the Go code the ONLY way an element wrapper's reflect.Value changes is setReflectValue
  (copyReflectValueWrapper → w.setReflectValue(copy); swap / grow / the conversion-error path call it directly), which
  since a40b0ef re-points the whole subtree; so the history semantics is the WrapCache step plus: "where the
  wrapper's location changed, its tree went through setRV to the new location's address".  Core Lean only.
-/
import GojaModel.C13.Model
import GojaModel.C13.Nested

namespace GojaModel.C13

/-- address of what an element wrapper refers to: a cell of a backing array, or the wrapper's current private copy -/
def addrOf (w : Nat) : Loc → Nat
  | .cell b i => 2 * (b * 1000003 + i)
  | .own _ => 2 * w + 1

structure NSt where
  s : St
  trees : Nat → WT

inductive NOp where
  | base (op : Op)                              -- any operation of the WrapCache model (script or Go side)
  | hand (w : Nat) (σ : List Nat) (n : Nat)     -- script: read field n of the nested wrapper at path σ under handle w

def NSt.init (s : St) : NSt := { s := s, trees := fun _ => .node 0 [] }

def NSt.step (fld : Nat → Nat → Nat) (t : NSt) : NOp → NSt
  | .base op =>
    let s' := t.s.step op
    { s := s',
      trees := fun w =>
        if w < s'.nw then
          if w < t.s.nw ∧ s'.ws w = t.s.ws w then t.trees w
          else (if w < t.s.nw then t.trees w else WT.node 0 []).setRV fld (addrOf w (s'.ws w))
        else t.trees w }
  | .hand w σ n =>
    if w < t.s.nw then { t with trees := fun w' => if w' = w then (t.trees w).addKid fld σ n else t.trees w' } else t

def NSt.run (fld : Nat → Nat → Nat) (t : NSt) : List NOp → NSt
  | [] => t
  | op :: ops => (t.step fld op).run fld ops

/-- every handed-out element wrapper's tree hangs on the wrapper's current location, and is pointed -/
def NInv (fld : Nat → Nat → Nat) (t : NSt) : Prop :=
  ∀ w, w < t.s.nw → (t.trees w).Pointed fld ∧ (t.trees w).loc = addrOf w (t.s.ws w)

theorem NInv_step (fld : Nat → Nat → Nat) (t : NSt) (h : NInv fld t) (op : NOp) : NInv fld (t.step fld op) := by
  cases op with
  | base op =>
    intro w hw
    simp only [NSt.step] at hw ⊢
    simp only [hw, if_true]
    by_cases hsame : w < t.s.nw ∧ (t.s.step op).ws w = t.s.ws w
    · simp only [hsame, and_self, if_true]
      exact h w hsame.1
    · simp only [hsame, if_false]
      refine ⟨WT.setRV_pointed fld _ _, ?_⟩
      generalize (if w < t.s.nw then t.trees w else WT.node 0 []) = tr
      cases tr with
      | node l kids => rw [WT.setRV_node]; rfl
  | hand w σ n =>
    simp only [NSt.step]
    by_cases hw : w < t.s.nw
    · simp only [hw, if_true]
      intro w' hw'
      by_cases e : w' = w
      · subst e
        simp only [if_true]
        have := h w' hw
        exact ⟨WT.addKid_pointed fld σ _ n this.1, by rw [WT.addKid_loc]; exact this.2⟩
      · simp only [e, if_false]; exact h w' hw'
    · simp only [hw, if_false]; exact h

theorem NInv_run (fld : Nat → Nat → Nat) : ∀ (ops : List NOp) (t : NSt), NInv fld t → NInv fld (t.run fld ops)
  | [], _, h => h
  | op :: ops, t, h => NInv_run fld ops _ (NInv_step fld t h op)

end GojaModel.C13
