import GojaModel.C13.ExportTo
import GojaModel.C13.ExportLemmas

namespace GojaModel.C13

theorem findKey_some {key : Nat × Nat} {l : List (Nat × Nat)} {a : Nat} (h : findKey key l = some a) :
    l[a]? = some key := by
  induction l generalizing a with
  | nil => simp [findKey] at h
  | cons x xs ih =>
    simp only [findKey] at h
    split at h
    · rename_i hx; cases h; simp [hx]
    · cases hf : findKey key xs with
      | none => simp [hf] at h
      | some b =>
        simp [hf] at h
        subst h
        simpa using ih hf

theorem findKey_none {key : Nat × Nat} {l : List (Nat × Nat)} (h : findKey key l = none) : key ∉ l := by
  induction l with
  | nil => simp
  | cons x xs ih =>
    simp only [findKey] at h
    split at h
    · cases h
    · rename_i hx
      cases hf : findKey key xs with
      | none =>
        intro hm
        cases hm with
        | head => exact hx rfl
        | tail _ hm' => exact ih hf hm'
      | some b => simp [hf] at h

theorem getElem?_append_mono {α : Type} {l suf : List α} {a : Nat} {x : α} (h : l[a]? = some x) :
    (l ++ suf)[a]? = some x := by
  have hlt : a < l.length := by
    apply Classical.byContradiction
    intro hn
    have : l[a]? = none := List.getElem?_eq_none (by omega)
    rw [this] at h; cases h
  rw [List.getElem?_append_left hlt]; exact h

theorem ImgT.mono {asU : Nat → Nat → Bool} {cache suf : List (Nat × Nat)} {v : JVal} {ty : Ty} {g : GVal}
    (h : ImgT asU cache v ty g) : ImgT asU (cache ++ suf) v ty g := by
  cases v <;> cases g <;> simp only [ImgT] at h ⊢
  · exact h
  · exact getElem?_append_mono h

theorem ImgKids.mono {asU : Nat → Nat → Bool} {cache suf : List (Nat × Nat)} :
    ∀ {ks : List (Nat × JVal × Ty)} {gs : GFields}, ImgKids asU cache ks gs → ImgKids asU (cache ++ suf) ks gs
  | [], [], _ => trivial
  | (_, _, _) :: _, (_, _) :: _, h => ⟨h.1, h.2.1.mono, ImgKids.mono h.2.2⟩
  | [], _ :: _, h => h.elim
  | _ :: _, [], h => h.elim

theorem OutGoodT.mono {js : Nat → JFields} {tys : Nat → TyDef} {asU : Nat → Nat → Bool}
    {cache suf : List (Nat × Nat)} {e : Nat × GFields} (h : OutGoodT js tys asU cache e) :
    OutGoodT js tys asU (cache ++ suf) e := by
  obtain ⟨id, ty, h1, h2⟩ := h
  exact ⟨id, ty, getElem?_append_mono h1, h2.mono⟩

structure ExtT (js : Nat → JFields) (tys : Nat → TyDef) (asU : Nat → Nat → Bool) (c c' : TCtx) : Prop where
  okmono : c'.ok = true → c.ok = true
  cachePre : ∃ suf, c'.cache = c.cache ++ suf
  outPre : ∃ osuf, c'.out = c.out ++ osuf ∧ (c'.ok = true → ∀ e ∈ osuf, OutGoodT js tys asU c'.cache e)
  nodup : c.cache.Nodup → c'.cache.Nodup
  count : c'.out.length + c.cache.length = c.out.length + c'.cache.length

theorem ExtT.refl (js : Nat → JFields) (tys : Nat → TyDef) (asU : Nat → Nat → Bool) (c : TCtx) : ExtT js tys asU c c :=
  ⟨fun h => h, ⟨[], by simp⟩, ⟨[], by simp, fun _ _ h => by cases h⟩, fun h => h, rfl⟩

theorem ExtT.trans {js : Nat → JFields} {tys : Nat → TyDef} {asU : Nat → Nat → Bool} {a b c : TCtx}
    (h1 : ExtT js tys asU a b) (h2 : ExtT js tys asU b c) : ExtT js tys asU a c := by
  obtain ⟨s1, hs1⟩ := h1.cachePre
  obtain ⟨s2, hs2⟩ := h2.cachePre
  obtain ⟨o1, ho1, hg1⟩ := h1.outPre
  obtain ⟨o2, ho2, hg2⟩ := h2.outPre
  refine ⟨fun h => h1.okmono (h2.okmono h), ⟨s1 ++ s2, by rw [hs2, hs1, List.append_assoc]⟩,
    ⟨o1 ++ o2, by rw [ho2, ho1, List.append_assoc], ?_⟩, fun h => h2.nodup (h1.nodup h), ?_⟩
  · intro hok e he
    rcases List.mem_append.mp he with he | he
    · have := hg1 (h2.okmono hok) e he
      rw [hs2]; exact this.mono
    · exact hg2 hok e he
  · have := h1.count; have := h2.count; omega

def ValSpecT (js : Nat → JFields) (tys : Nat → TyDef) (asU : Nat → Nat → Bool) (c : TCtx) (v : JVal) (ty : Ty)
    (r : TCtx × GVal) : Prop :=
  ExtT js tys asU c r.1 ∧ (r.1.ok = true → ImgT asU r.1.cache v ty r.2)

theorem expToFields_spec {js : Nat → JFields} {tys : Nat → TyDef} {asU : Nat → Nat → Bool}
    {ev : TCtx → JVal → Ty → TCtx × GVal} (hev : ∀ c v ty, ValSpecT js tys asU c v ty (ev c v ty)) :
    ∀ (ks : List (Nat × JVal × Ty)) (c : TCtx),
      ExtT js tys asU c (expToFields ev c ks).1 ∧
      ((expToFields ev c ks).1.ok = true → ImgKids asU (expToFields ev c ks).1.cache ks (expToFields ev c ks).2)
  | [], c => ⟨ExtT.refl js tys asU c, fun _ => trivial⟩
  | (k, v, ty) :: rest, c => by
    simp only [expToFields]
    have h1 := hev c v ty
    have h2 := expToFields_spec hev rest (ev c v ty).1
    refine ⟨h1.1.trans h2.1, ?_⟩
    intro hok
    obtain ⟨suf, hsuf⟩ := h2.1.cachePre
    refine ⟨rfl, ?_, h2.2 hok⟩
    have := h1.2 (h2.1.okmono hok)
    rw [hsuf]; exact this.mono

theorem expTo_spec (js : Nat → JFields) (tys : Nat → TyDef) (asU : Nat → Nat → Bool) :
    ∀ (fuel : Nat) (c : TCtx) (v : JVal) (ty : Ty), ValSpecT js tys asU c v ty (expTo js tys asU fuel c v ty)
  | _, c, .prim p, ty => by
    cases ‹Nat› <;> exact ⟨ExtT.refl js tys asU c, fun _ => rfl⟩
  | _, c, .hole, ty => by
    cases ‹Nat› <;> exact ⟨ExtT.refl js tys asU c, fun _ => trivial⟩
  | 0, c, .ref id, ty => by
    refine ⟨⟨fun h => by simp [expTo] at h, ⟨[], by simp [expTo]⟩, ⟨[], by simp [expTo], fun _ _ h => by cases h⟩,
      fun h => h, rfl⟩, fun h => by simp [expTo] at h⟩
  | fuel + 1, c, .ref id, ty => by
    simp only [expTo]
    cases hf : findKey (id, (normTy asU id ty).code) c.cache with
    | some a => exact ⟨ExtT.refl js tys asU c, fun _ => findKey_some hf⟩
    | none =>
      simp only
      have hfs := expToFields_spec (expTo_spec js tys asU fuel) (kidsOf js tys id (normTy asU id ty))
        { c with cache := c.cache ++ [(id, (normTy asU id ty).code)] }
      generalize expToFields (expTo js tys asU fuel) { c with cache := c.cache ++ [(id, (normTy asU id ty).code)] }
        (kidsOf js tys id (normTy asU id ty)) = r at hfs
      obtain ⟨hext, himg⟩ := hfs
      obtain ⟨suf, hsuf⟩ := hext.cachePre
      obtain ⟨osuf, hosuf, hgood⟩ := hext.outPre
      have hidx : r.1.cache[c.cache.length]? = some (id, (normTy asU id ty).code) := by
        rw [hsuf]; simp
      refine ⟨⟨?_, ⟨[(id, (normTy asU id ty).code)] ++ suf, by simp [hsuf]⟩,
        ⟨osuf ++ [(c.cache.length, r.2)], by simp [hosuf], ?_⟩, ?_, ?_⟩, ?_⟩
      · intro h; exact hext.okmono h
      · intro hok e he
        rcases List.mem_append.mp he with he | he
        · exact hgood hok e he
        · simp at he; subst he
          exact ⟨id, normTy asU id ty, hidx, himg hok⟩
      · intro hnd
        apply hext.nodup
        simp only
        rw [List.nodup_append]
        refine ⟨hnd, by simp, ?_⟩
        intro x hx y hy
        simp at hy; subst hy
        intro e; subst e
        exact findKey_none hf hx
      · have := hext.count
        simp only [List.length_append, List.length_cons, List.length_nil] at this ⊢
        omega
      · intro _; exact hidx

end GojaModel.C13

namespace GojaModel.C13

/-! ### fuel: more fuel than (objects × destination types) always suffices -/

def TyIn (T : Nat) : Ty → Prop
  | .iface => True
  | .named t => t < T

/-- every type mentioned by one of the first T table entries is again one of them -/
def TyClosed (tys : Nat → TyDef) (T : Nat) : Prop :=
  ∀ t, t < T → match tys t with
    | .structPtr fs => ∀ kf ∈ fs, TyIn T kf.2
    | .mapOf e => TyIn T e
    | .sliceOf e => TyIn T e

/-- every reference stored in an object with id < N points to an object with id < N -/
def ClosedJ (js : Nat → JFields) (N : Nat) : Prop :=
  ∀ id, id < N → ∀ kv ∈ js id, ∀ r, kv.2 = .ref r → r < N

def ValInN (N : Nat) : JVal → Prop
  | .ref r => r < N
  | _ => True

theorem lookupField_mem : ∀ {fs : JFields} {k : Nat} {v : JVal}, lookupField fs k = some v → (k, v) ∈ fs
  | [], _, _, h => by simp [lookupField] at h
  | (k', v') :: rest, k, v, h => by
    simp only [lookupField] at h
    split at h
    · rename_i hk; cases h; subst hk; simp
    · exact List.mem_cons_of_mem _ (lookupField_mem h)

theorem TyIn_code {T : Nat} {ty : Ty} (h : TyIn T ty) : ty.code ≤ T := by
  cases ty with
  | iface => simp [Ty.code]
  | named t => simp only [TyIn] at h; simp only [Ty.code]; omega

theorem normTy_in {asU : Nat → Nat → Bool} {id T : Nat} {ty : Ty} (h : TyIn T ty) : TyIn T (normTy asU id ty) := by
  cases ty with
  | iface => exact h
  | named t => simp only [normTy]; split <;> first | trivial | exact h

/-- a duplicate-free list of (object < N, code ≤ T) pairs has at most N·(T+1) entries -/
theorem nodup_pairs_length {l : List (Nat × Nat)} {N T : Nat} (hn : l.Nodup)
    (hb : ∀ x ∈ l, x.1 < N ∧ x.2 ≤ T) : l.length ≤ N * (T + 1) := by
  have hmap : (l.map (fun x => x.1 * (T + 1) + x.2)).Nodup := by
    unfold List.Nodup
    rw [List.pairwise_map]
    refine List.Pairwise.imp_of_mem ?_ hn
    intro a b ha hb' hne heq
    apply hne
    have h1 := hb a ha
    have h2 := hb b hb'
    have e1 : a.1 = b.1 := by
      have ha' : (a.1 * (T + 1) + a.2) / (T + 1) = a.1 := by
        rw [Nat.mul_comm, Nat.mul_add_div (by omega), Nat.div_eq_of_lt (by omega)]; simp
      have hb'' : (b.1 * (T + 1) + b.2) / (T + 1) = b.1 := by
        rw [Nat.mul_comm, Nat.mul_add_div (by omega), Nat.div_eq_of_lt (by omega)]; simp
      rw [← ha', ← hb'', heq]
    have e2 : a.2 = b.2 := by rw [e1] at heq; omega
    exact Prod.ext e1 e2
  have hsub : l.map (fun x => x.1 * (T + 1) + x.2) ⊆ List.range (N * (T + 1)) := by
    intro y hy
    obtain ⟨x, hx, rfl⟩ := List.mem_map.mp hy
    have := hb x hx
    rw [List.mem_range]
    calc x.1 * (T + 1) + x.2 < x.1 * (T + 1) + (T + 1) := by omega
      _ = (x.1 + 1) * (T + 1) := by rw [Nat.add_mul]; simp
      _ ≤ N * (T + 1) := Nat.mul_le_mul_right _ (by omega)
  have := hmap.length_le_of_subset hsub
  simpa using this

def FuelSpecT (N T f : Nat) (c : TCtx) (v : JVal) (ty : Ty) (r : TCtx × GVal) : Prop :=
  c.cache.Nodup → (∀ x ∈ c.cache, x.1 < N ∧ x.2 ≤ T) → ValInN N v → TyIn T ty → N * (T + 1) + 1 ≤ f + c.cache.length →
    r.1.ok = c.ok ∧ (∀ x ∈ r.1.cache, x.1 < N ∧ x.2 ≤ T)

theorem expToFields_fuel {js : Nat → JFields} {tys : Nat → TyDef} {asU : Nat → Nat → Bool} {N T f : Nat}
    {ev : TCtx → JVal → Ty → TCtx × GVal}
    (hspec : ∀ c v ty, ValSpecT js tys asU c v ty (ev c v ty)) (hfuel : ∀ c v ty, FuelSpecT N T f c v ty (ev c v ty)) :
    ∀ (ks : List (Nat × JVal × Ty)) (c : TCtx), c.cache.Nodup → (∀ x ∈ c.cache, x.1 < N ∧ x.2 ≤ T) →
      (∀ k ∈ ks, ValInN N k.2.1 ∧ TyIn T k.2.2) → N * (T + 1) + 1 ≤ f + c.cache.length →
      (expToFields ev c ks).1.ok = c.ok ∧ (∀ x ∈ (expToFields ev c ks).1.cache, x.1 < N ∧ x.2 ≤ T)
  | [], c, _, hb, _, _ => ⟨rfl, hb⟩
  | (k, v, ty) :: rest, c, hn, hb, hin, hf => by
    simp only [expToFields]
    have hk := hin (k, v, ty) (by simp)
    have h1 := hfuel c v ty hn hb hk.1 hk.2 hf
    have e1 := (hspec c v ty).1
    obtain ⟨suf, hsuf⟩ := e1.cachePre
    have hlen : c.cache.length ≤ (ev c v ty).1.cache.length := by rw [hsuf]; simp
    have h2 := expToFields_fuel hspec hfuel rest (ev c v ty).1 (e1.nodup hn) h1.2
      (fun k hk' => hin k (by simp [hk'])) (by omega)
    exact ⟨h2.1.trans h1.1, h2.2⟩

theorem kidsOf_in {js : Nat → JFields} {tys : Nat → TyDef} {N T id : Nat} {ty : Ty}
    (hcl : ClosedJ js N) (htc : TyClosed tys T) (hid : id < N) (hty : TyIn T ty) :
    ∀ k ∈ kidsOf js tys id ty, ValInN N k.2.1 ∧ TyIn T k.2.2 := by
  have hval : ∀ kv ∈ js id, ValInN N kv.2 := by
    intro kv hkv
    cases hv : kv.2 with
    | ref r => exact hcl id hid kv hkv r hv
    | prim p => trivial
    | hole => trivial
  intro k hk
  cases ty with
  | iface =>
    simp only [kidsOf, List.mem_map] at hk
    obtain ⟨kv, hkv, rfl⟩ := hk
    exact ⟨hval kv hkv, trivial⟩
  | named t =>
    have ht : t < T := hty
    have hc := htc t ht
    simp only [kidsOf] at hk
    cases hd : tys t with
    | structPtr fs =>
      rw [hd] at hk hc
      simp only [List.mem_filterMap] at hk
      obtain ⟨kf, hkf, hsome⟩ := hk
      cases hl : lookupField (js id) kf.1 with
      | none => simp [hl] at hsome
      | some v =>
        simp [hl] at hsome
        subst hsome
        exact ⟨hval (kf.1, v) (lookupField_mem hl), hc kf hkf⟩
    | mapOf e =>
      rw [hd] at hk hc
      simp only [List.mem_map] at hk
      obtain ⟨kv, hkv, rfl⟩ := hk
      exact ⟨hval kv hkv, hc⟩
    | sliceOf e =>
      rw [hd] at hk hc
      simp only [List.mem_map] at hk
      obtain ⟨kv, hkv, rfl⟩ := hk
      exact ⟨hval kv hkv, hc⟩

theorem expTo_fuel (js : Nat → JFields) (tys : Nat → TyDef) (asU : Nat → Nat → Bool) (N T : Nat)
    (hcl : ClosedJ js N) (htc : TyClosed tys T) :
    ∀ (fuel : Nat) (c : TCtx) (v : JVal) (ty : Ty), FuelSpecT N T fuel c v ty (expTo js tys asU fuel c v ty)
  | fuel, c, .prim p, ty => by
    intro _ hb _ _ _
    cases fuel <;> exact ⟨rfl, hb⟩
  | fuel, c, .hole, ty => by
    intro _ hb _ _ _
    cases fuel <;> exact ⟨rfl, hb⟩
  | 0, c, .ref id, ty => by
    intro hn hb _ _ hf
    have := nodup_pairs_length hn hb
    omega
  | fuel + 1, c, .ref id, ty => by
    intro hn hb hin hty hf
    simp only [expTo]
    cases hfa : findKey (id, (normTy asU id ty).code) c.cache with
    | some a => exact ⟨rfl, hb⟩
    | none =>
      simp only
      have hid : id < N := hin
      have hty' : TyIn T (normTy asU id ty) := normTy_in hty
      have hnd1 : (c.cache ++ [(id, (normTy asU id ty).code)]).Nodup := by
        rw [List.nodup_append]
        refine ⟨hn, by simp, ?_⟩
        intro x hx y hy
        simp at hy; subst hy
        intro e; subst e
        exact findKey_none hfa hx
      have hb1 : ∀ x ∈ c.cache ++ [(id, (normTy asU id ty).code)], x.1 < N ∧ x.2 ≤ T := by
        intro x hx
        rcases List.mem_append.mp hx with hx | hx
        · exact hb x hx
        · simp at hx; subst hx; exact ⟨hid, TyIn_code hty'⟩
      have hfs := expToFields_fuel (N := N) (T := T) (f := fuel) (expTo_spec js tys asU fuel)
        (expTo_fuel js tys asU N T hcl htc fuel)
        (kidsOf js tys id (normTy asU id ty)) { c with cache := c.cache ++ [(id, (normTy asU id ty).code)] } hnd1 hb1
        (kidsOf_in hcl htc hid hty')
        (by simp only [List.length_append, List.length_cons, List.length_nil]; omega)
      exact ⟨hfs.1, hfs.2⟩

theorem expTo_root_ok (js : Nat → JFields) (tys : Nat → TyDef) (asU : Nat → Nat → Bool) (N T root fuel : Nat) (ty : Ty)
    (hcl : ClosedJ js N) (htc : TyClosed tys T) (hr : root < N) (hty : TyIn T ty) (hf : N * (T + 1) + 1 ≤ fuel) :
    (expTo js tys asU fuel TCtx.empty (.ref root) ty).1.ok = true := by
  have := expTo_fuel js tys asU N T hcl htc fuel TCtx.empty (.ref root) ty (by simp [TCtx.empty])
    (by simp [TCtx.empty]) hr hty (by simp [TCtx.empty]; omega)
  exact this.1

end GojaModel.C13
