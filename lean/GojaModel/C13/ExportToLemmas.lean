import GojaModel.C13.ExportTo

namespace GojaModel.C13

theorem findKey_some {key : Nat × Nat} {l : List (Nat × Nat)} {a : Nat} (h : findKey key l = some a) :
    l[a]? = some key := by
  induction l generalizing a with
  | nil => simp [findKey] at h
  | cons x xs ih =>
    simp only [findKey] at h
    split at h
    · rename_i hx; cases h; simp [hx]
    · cases hf : findKey key xs with
      | none => simp [hf] at h
      | some b =>
        simp [hf] at h
        subst h
        simpa using ih hf

theorem findKey_none {key : Nat × Nat} {l : List (Nat × Nat)} (h : findKey key l = none) : key ∉ l := by
  induction l with
  | nil => simp
  | cons x xs ih =>
    simp only [findKey] at h
    split at h
    · cases h
    · rename_i hx
      cases hf : findKey key xs with
      | none =>
        intro hm
        cases hm with
        | head => exact hx rfl
        | tail _ hm' => exact ih hf hm'
      | some b => simp [hf] at h

theorem getElem?_append_mono {α : Type} {l suf : List α} {a : Nat} {x : α} (h : l[a]? = some x) :
    (l ++ suf)[a]? = some x := by
  have hlt : a < l.length := by
    apply Classical.byContradiction
    intro hn
    have : l[a]? = none := List.getElem?_eq_none (by omega)
    rw [this] at h; cases h
  rw [List.getElem?_append_left hlt]; exact h

theorem ImgT.mono {asU : Nat → Nat → Bool} {cache suf : List (Nat × Nat)} {v : JVal} {ty : Ty} {g : GVal}
    (h : ImgT asU cache v ty g) : ImgT asU (cache ++ suf) v ty g := by
  cases v <;> cases g <;> simp only [ImgT] at h ⊢
  · exact h
  · exact getElem?_append_mono h

theorem ImgKids.mono {asU : Nat → Nat → Bool} {cache suf : List (Nat × Nat)} :
    ∀ {ks : List (Nat × JVal × Ty)} {gs : GFields}, ImgKids asU cache ks gs → ImgKids asU (cache ++ suf) ks gs
  | [], [], _ => trivial
  | (_, _, _) :: _, (_, _) :: _, h => ⟨h.1, h.2.1.mono, ImgKids.mono h.2.2⟩
  | [], _ :: _, h => h.elim
  | _ :: _, [], h => h.elim

theorem OutGoodT.mono {js : Nat → JFields} {tys : Nat → TyDef} {asU : Nat → Nat → Bool}
    {cache suf : List (Nat × Nat)} {e : Nat × GFields} (h : OutGoodT js tys asU cache e) :
    OutGoodT js tys asU (cache ++ suf) e := by
  obtain ⟨id, ty, h1, h2⟩ := h
  exact ⟨id, ty, getElem?_append_mono h1, h2.mono⟩

structure ExtT (js : Nat → JFields) (tys : Nat → TyDef) (asU : Nat → Nat → Bool) (c c' : TCtx) : Prop where
  okmono : c'.ok = true → c.ok = true
  cachePre : ∃ suf, c'.cache = c.cache ++ suf
  outPre : ∃ osuf, c'.out = c.out ++ osuf ∧ (c'.ok = true → ∀ e ∈ osuf, OutGoodT js tys asU c'.cache e)
  nodup : c.cache.Nodup → c'.cache.Nodup
  count : c'.out.length + c.cache.length = c.out.length + c'.cache.length

theorem ExtT.refl (js : Nat → JFields) (tys : Nat → TyDef) (asU : Nat → Nat → Bool) (c : TCtx) : ExtT js tys asU c c :=
  ⟨fun h => h, ⟨[], by simp⟩, ⟨[], by simp, fun _ _ h => by cases h⟩, fun h => h, rfl⟩

theorem ExtT.trans {js : Nat → JFields} {tys : Nat → TyDef} {asU : Nat → Nat → Bool} {a b c : TCtx}
    (h1 : ExtT js tys asU a b) (h2 : ExtT js tys asU b c) : ExtT js tys asU a c := by
  obtain ⟨s1, hs1⟩ := h1.cachePre
  obtain ⟨s2, hs2⟩ := h2.cachePre
  obtain ⟨o1, ho1, hg1⟩ := h1.outPre
  obtain ⟨o2, ho2, hg2⟩ := h2.outPre
  refine ⟨fun h => h1.okmono (h2.okmono h), ⟨s1 ++ s2, by rw [hs2, hs1, List.append_assoc]⟩,
    ⟨o1 ++ o2, by rw [ho2, ho1, List.append_assoc], ?_⟩, fun h => h2.nodup (h1.nodup h), ?_⟩
  · intro hok e he
    rcases List.mem_append.mp he with he | he
    · have := hg1 (h2.okmono hok) e he
      rw [hs2]; exact this.mono
    · exact hg2 hok e he
  · have := h1.count; have := h2.count; omega

def ValSpecT (js : Nat → JFields) (tys : Nat → TyDef) (asU : Nat → Nat → Bool) (c : TCtx) (v : JVal) (ty : Ty)
    (r : TCtx × GVal) : Prop :=
  ExtT js tys asU c r.1 ∧ (r.1.ok = true → ImgT asU r.1.cache v ty r.2)

theorem expToFields_spec {js : Nat → JFields} {tys : Nat → TyDef} {asU : Nat → Nat → Bool}
    {ev : TCtx → JVal → Ty → TCtx × GVal} (hev : ∀ c v ty, ValSpecT js tys asU c v ty (ev c v ty)) :
    ∀ (ks : List (Nat × JVal × Ty)) (c : TCtx),
      ExtT js tys asU c (expToFields ev c ks).1 ∧
      ((expToFields ev c ks).1.ok = true → ImgKids asU (expToFields ev c ks).1.cache ks (expToFields ev c ks).2)
  | [], c => ⟨ExtT.refl js tys asU c, fun _ => trivial⟩
  | (k, v, ty) :: rest, c => by
    simp only [expToFields]
    have h1 := hev c v ty
    have h2 := expToFields_spec hev rest (ev c v ty).1
    refine ⟨h1.1.trans h2.1, ?_⟩
    intro hok
    obtain ⟨suf, hsuf⟩ := h2.1.cachePre
    refine ⟨rfl, ?_, h2.2 hok⟩
    have := h1.2 (h2.1.okmono hok)
    rw [hsuf]; exact this.mono

theorem expTo_spec (js : Nat → JFields) (tys : Nat → TyDef) (asU : Nat → Nat → Bool) :
    ∀ (fuel : Nat) (c : TCtx) (v : JVal) (ty : Ty), ValSpecT js tys asU c v ty (expTo js tys asU fuel c v ty)
  | _, c, .prim p, ty => by
    cases ‹Nat› <;> exact ⟨ExtT.refl js tys asU c, fun _ => rfl⟩
  | _, c, .hole, ty => by
    cases ‹Nat› <;> exact ⟨ExtT.refl js tys asU c, fun _ => trivial⟩
  | 0, c, .ref id, ty => by
    refine ⟨⟨fun h => by simp [expTo] at h, ⟨[], by simp [expTo]⟩, ⟨[], by simp [expTo], fun _ _ h => by cases h⟩,
      fun h => h, rfl⟩, fun h => by simp [expTo] at h⟩
  | fuel + 1, c, .ref id, ty => by
    simp only [expTo]
    cases hf : findKey (id, (normTy asU id ty).code) c.cache with
    | some a => exact ⟨ExtT.refl js tys asU c, fun _ => findKey_some hf⟩
    | none =>
      simp only
      have hfs := expToFields_spec (expTo_spec js tys asU fuel) (kidsOf js tys id (normTy asU id ty))
        { c with cache := c.cache ++ [(id, (normTy asU id ty).code)] }
      generalize expToFields (expTo js tys asU fuel) { c with cache := c.cache ++ [(id, (normTy asU id ty).code)] }
        (kidsOf js tys id (normTy asU id ty)) = r at hfs
      obtain ⟨hext, himg⟩ := hfs
      obtain ⟨suf, hsuf⟩ := hext.cachePre
      obtain ⟨osuf, hosuf, hgood⟩ := hext.outPre
      have hidx : r.1.cache[c.cache.length]? = some (id, (normTy asU id ty).code) := by
        rw [hsuf]; simp
      refine ⟨⟨?_, ⟨[(id, (normTy asU id ty).code)] ++ suf, by simp [hsuf]⟩,
        ⟨osuf ++ [(c.cache.length, r.2)], by simp [hosuf], ?_⟩, ?_, ?_⟩, ?_⟩
      · intro h; exact hext.okmono h
      · intro hok e he
        rcases List.mem_append.mp he with he | he
        · exact hgood hok e he
        · simp at he; subst he
          exact ⟨id, normTy asU id ty, hidx, himg hok⟩
      · intro hnd
        apply hext.nodup
        simp only
        rw [List.nodup_append]
        refine ⟨hnd, by simp, ?_⟩
        intro x hx y hy
        simp at hy; subst hy
        intro e; subst e
        exact findKey_none hf hx
      · have := hext.count
        simp only [List.length_append, List.length_cons, List.length_nil] at this ⊢
        omega
      · intro _; exact hidx

end GojaModel.C13
