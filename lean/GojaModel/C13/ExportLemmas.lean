import GojaModel.C13.Export

namespace GojaModel.C13

theorem findAddr_some {id : Nat} {l : List Nat} {a : Nat} (h : findAddr id l = some a) : l[a]? = some id := by
  induction l generalizing a with
  | nil => simp [findAddr] at h
  | cons x xs ih =>
    simp only [findAddr] at h
    split at h
    · rename_i hx; cases h; simp [hx]
    · cases hf : findAddr id xs with
      | none => simp [hf] at h
      | some b =>
        simp [hf] at h
        subst h
        simpa using ih hf

theorem findAddr_none {id : Nat} {l : List Nat} (h : findAddr id l = none) : id ∉ l := by
  induction l with
  | nil => simp
  | cons x xs ih =>
    simp only [findAddr] at h
    split at h
    · cases h
    · rename_i hx
      cases hf : findAddr id xs with
      | none =>
        intro hm
        cases hm with
        | head => exact hx rfl
        | tail _ hm' => exact ih hf hm'
      | some b => simp [hf] at h

theorem Img.mono {cache suf : List Nat} {v : JVal} {g : GVal} (h : Img cache v g) : Img (cache ++ suf) v g := by
  cases v <;> cases g <;> simp only [Img] at h ⊢
  · exact h
  · rename_i id a
    have hlt : a < cache.length := by
      apply Classical.byContradiction
      intro hn
      have : cache[a]? = none := List.getElem?_eq_none (by omega)
      rw [this] at h; cases h
    rw [List.getElem?_append_left hlt]; exact h

theorem ImgFields.mono {cache suf : List Nat} : ∀ {fs : JFields} {gs : GFields},
    ImgFields cache fs gs → ImgFields (cache ++ suf) fs gs
  | [], [], _ => trivial
  | (_, _) :: _, (_, _) :: _, h => ⟨h.1, h.2.1.mono, ImgFields.mono h.2.2⟩
  | [], _ :: _, h => h.elim
  | _ :: _, [], h => h.elim

theorem OutGood.mono {js : Nat → JFields} {cache suf : List Nat} {e : Nat × GFields}
    (h : OutGood js cache e) : OutGood js (cache ++ suf) e := by
  obtain ⟨id, h1, h2⟩ := h
  refine ⟨id, ?_, h2.mono⟩
  have hlt : e.1 < cache.length := by
    apply Classical.byContradiction
    intro hn
    have : cache[e.1]? = none := List.getElem?_eq_none (by omega)
    rw [this] at h1; cases h1
  rw [List.getElem?_append_left hlt]; exact h1

/-- `c'` extends `c`: the cache and the list of finished objects only grow at the end, every newly finished object
    is the image of its script object, injectivity of the cache is kept, and every allocated object gets finished. -/
structure Ext (js : Nat → JFields) (c c' : ECtx) : Prop where
  okmono : c'.ok = true → c.ok = true
  cachePre : ∃ suf, c'.cache = c.cache ++ suf
  outPre : ∃ osuf, c'.out = c.out ++ osuf ∧ (c'.ok = true → ∀ e ∈ osuf, OutGood js c'.cache e)
  nodup : c.cache.Nodup → c'.cache.Nodup
  count : c'.out.length + c.cache.length = c.out.length + c'.cache.length

theorem Ext.refl (js : Nat → JFields) (c : ECtx) : Ext js c c :=
  ⟨id, ⟨[], by simp⟩, ⟨[], by simp, fun _ _ h => by cases h⟩, id, rfl⟩

theorem Ext.trans {js : Nat → JFields} {a b c : ECtx} (h1 : Ext js a b) (h2 : Ext js b c) : Ext js a c := by
  obtain ⟨s1, hs1⟩ := h1.cachePre
  obtain ⟨s2, hs2⟩ := h2.cachePre
  obtain ⟨o1, ho1, hg1⟩ := h1.outPre
  obtain ⟨o2, ho2, hg2⟩ := h2.outPre
  refine ⟨fun h => h1.okmono (h2.okmono h), ⟨s1 ++ s2, by rw [hs2, hs1, List.append_assoc]⟩,
    ⟨o1 ++ o2, by rw [ho2, ho1, List.append_assoc], ?_⟩, fun h => h2.nodup (h1.nodup h), ?_⟩
  · intro hok e he
    rcases List.mem_append.mp he with he | he
    · have := hg1 (h2.okmono hok) e he
      rw [hs2]; exact this.mono
    · exact hg2 hok e he
  · have := h1.count; have := h2.count; omega

def ValSpec (js : Nat → JFields) (c : ECtx) (v : JVal) (r : ECtx × GVal) : Prop :=
  Ext js c r.1 ∧ (r.1.ok = true → Img r.1.cache v r.2)

def FieldsSpec (js : Nat → JFields) (c : ECtx) (fs : JFields) (r : ECtx × GFields) : Prop :=
  Ext js c r.1 ∧ (r.1.ok = true → ImgFields r.1.cache fs r.2)

theorem expFields_spec {js : Nat → JFields} {ev : ECtx → JVal → ECtx × GVal}
    (hev : ∀ c v, ValSpec js c v (ev c v)) : ∀ (fs : JFields) (c : ECtx), FieldsSpec js c fs (expFields ev c fs)
  | [], c => ⟨Ext.refl js c, fun _ => trivial⟩
  | (k, v) :: rest, c => by
    simp only [expFields]
    have h1 := hev c v
    have h2 := expFields_spec hev rest (ev c v).1
    refine ⟨h1.1.trans h2.1, ?_⟩
    intro hok
    obtain ⟨suf, hsuf⟩ := h2.1.cachePre
    refine ⟨rfl, ?_, h2.2 hok⟩
    have := h1.2 (h2.1.okmono hok)
    rw [hsuf]; exact this.mono

theorem expVal_spec (js : Nat → JFields) : ∀ (fuel : Nat) (c : ECtx) (v : JVal), ValSpec js c v (expVal js fuel c v)
  | _, c, .prim p => by
    cases ‹Nat› <;> exact ⟨Ext.refl js c, fun _ => rfl⟩
  | _, c, .hole => by
    cases ‹Nat› <;> exact ⟨Ext.refl js c, fun _ => trivial⟩
  | 0, c, .ref id => by
    refine ⟨⟨fun h => by simp [expVal] at h, ⟨[], by simp [expVal]⟩, ⟨[], by simp [expVal], fun _ _ h => by cases h⟩,
      fun h => h, rfl⟩, fun h => by simp [expVal] at h⟩
  | fuel + 1, c, .ref id => by
    simp only [expVal]
    cases hf : findAddr id c.cache with
    | some a => exact ⟨Ext.refl js c, fun _ => findAddr_some hf⟩
    | none =>
      simp only
      have hfs := expFields_spec (expVal_spec js fuel) (js id) { c with cache := c.cache ++ [id] }
      generalize expFields (expVal js fuel) { c with cache := c.cache ++ [id] } (js id) = r at hfs
      obtain ⟨hext, himg⟩ := hfs
      obtain ⟨suf, hsuf⟩ := hext.cachePre
      obtain ⟨osuf, hosuf, hgood⟩ := hext.outPre
      have hidx : r.1.cache[c.cache.length]? = some id := by
        rw [hsuf]; simp
      refine ⟨⟨?_, ⟨[id] ++ suf, by simp [hsuf]⟩, ⟨osuf ++ [(c.cache.length, r.2)], by simp [hosuf], ?_⟩, ?_, ?_⟩, ?_⟩
      · intro h; exact hext.okmono h
      · intro hok e he
        rcases List.mem_append.mp he with he | he
        · exact hgood hok e he
        · simp at he; subst he
          exact ⟨id, hidx, himg hok⟩
      · intro hnd
        apply hext.nodup
        simp only
        rw [List.nodup_append]
        refine ⟨hnd, by simp, ?_⟩
        intro x hx y hy
        simp at hy; subst hy
        intro e; subst e
        exact findAddr_none hf hx
      · have := hext.count
        simp only [List.length_append, List.length_cons, List.length_nil] at this ⊢
        omega
      · intro _; exact hidx

end GojaModel.C13

namespace GojaModel.C13

/-! ### the recursion fuel suffices: with more fuel than objects the export never gives up -/

/-- every reference stored in an object with id < N points to an object with id < N -/
def Closed (js : Nat → JFields) (N : Nat) : Prop :=
  ∀ id, id < N → ∀ kv ∈ js id, ∀ r, kv.2 = .ref r → r < N

def ValIn (N : Nat) : JVal → Prop
  | .prim _ => True
  | .hole => True
  | .ref r => r < N

theorem nodup_bounded_length {l : List Nat} {N : Nat} (hn : l.Nodup) (hb : ∀ x ∈ l, x < N) : l.length ≤ N := by
  have : l ⊆ List.range N := fun x hx => List.mem_range.mpr (hb x hx)
  simpa using hn.length_le_of_subset this

def FuelSpec (N : Nat) (f : Nat) (c : ECtx) (v : JVal) (r : ECtx × GVal) : Prop :=
  c.cache.Nodup → (∀ x ∈ c.cache, x < N) → ValIn N v → N + 1 ≤ f + c.cache.length →
    r.1.ok = c.ok ∧ (∀ x ∈ r.1.cache, x < N)

theorem expFields_fuel {js : Nat → JFields} {N f : Nat} {ev : ECtx → JVal → ECtx × GVal}
    (hspec : ∀ c v, ValSpec js c v (ev c v)) (hfuel : ∀ c v, FuelSpec N f c v (ev c v)) :
    ∀ (fs : JFields) (c : ECtx), c.cache.Nodup → (∀ x ∈ c.cache, x < N) → (∀ kv ∈ fs, ValIn N kv.2) →
      N + 1 ≤ f + c.cache.length →
      (expFields ev c fs).1.ok = c.ok ∧ (∀ x ∈ (expFields ev c fs).1.cache, x < N)
  | [], c, _, hb, _, _ => ⟨rfl, hb⟩
  | (k, v) :: rest, c, hn, hb, hin, hf => by
    simp only [expFields]
    have h1 := hfuel c v hn hb (hin (k, v) (by simp)) hf
    have e1 := (hspec c v).1
    obtain ⟨suf, hsuf⟩ := e1.cachePre
    have hlen : c.cache.length ≤ (ev c v).1.cache.length := by rw [hsuf]; simp
    have h2 := expFields_fuel hspec hfuel rest (ev c v).1 (e1.nodup hn) h1.2
      (fun kv hkv => hin kv (by simp [hkv])) (by omega)
    exact ⟨h2.1.trans h1.1, h2.2⟩

theorem expVal_fuel (js : Nat → JFields) (N : Nat) (hcl : Closed js N) :
    ∀ (fuel : Nat) (c : ECtx) (v : JVal), FuelSpec N fuel c v (expVal js fuel c v)
  | fuel, c, .prim p => by
    intro _ hb _ _
    cases fuel <;> exact ⟨rfl, hb⟩
  | fuel, c, .hole => by
    intro _ hb _ _
    cases fuel <;> exact ⟨rfl, hb⟩
  | 0, c, .ref id => by
    intro hn hb _ hf
    have := nodup_bounded_length hn hb
    omega
  | fuel + 1, c, .ref id => by
    intro hn hb hin hf
    simp only [expVal]
    cases hfa : findAddr id c.cache with
    | some a => exact ⟨rfl, hb⟩
    | none =>
      simp only
      have hid : id < N := hin
      have hnd1 : (c.cache ++ [id]).Nodup := by
        rw [List.nodup_append]
        refine ⟨hn, by simp, ?_⟩
        intro x hx y hy
        simp at hy; subst hy
        intro e; subst e
        exact findAddr_none hfa hx
      have hb1 : ∀ x ∈ c.cache ++ [id], x < N := by
        intro x hx
        rcases List.mem_append.mp hx with hx | hx
        · exact hb x hx
        · simp at hx; subst hx; exact hid
      have hfs := expFields_fuel (js := js) (N := N) (f := fuel) (expVal_spec js fuel) (expVal_fuel js N hcl fuel)
        (js id) { c with cache := c.cache ++ [id] } hnd1 hb1
        (by
          intro kv hkv
          cases hv : kv.2 with
          | prim p => trivial
          | hole => trivial
          | ref r => exact hcl id hid kv hkv r hv)
        (by simp only [List.length_append, List.length_cons, List.length_nil]; omega)
      exact ⟨hfs.1, hfs.2⟩

/-- With at least `N + 1` units of fuel an export over a heap of `N` objects never runs out. -/
theorem exportRoot_ok (js : Nat → JFields) (N root fuel : Nat) (hcl : Closed js N) (hr : root < N)
    (hf : N + 1 ≤ fuel) : (exportRoot js fuel root).1.ok = true := by
  have := expVal_fuel js N hcl fuel ECtx.empty (.ref root) (by simp [ECtx.empty]) (by simp [ECtx.empty]) hr
    (by simp [ECtx.empty]; omega)
  exact this.1

end GojaModel.C13
