/-
  C13 — Go<->JS bridge.  Part 1 of the model: `WrapCache`, the copy-on-change tracking of nested
  non-pointer values (object_goarray_reflect.go, object_goslice_reflect.go, object_goreflect.go).

  Mechanism-level: one wrapped Go slice `*[]S` / array `*[N]S` of a non-pointer container element type
  (S = struct{Field int}; an element is abstracted to the contents of its field, `Val`).  The state has
  exactly the pieces the Go code has:

    * the Go heap of backing arrays (`mem b i`, capacity `cap b`), the slice header the wrapper sees through
      the pointer (`cur`, `len`)                                  -- o.fieldsValue (addressable, live)
    * `valueCache` (object_goarray_reflect.go:14,19): index -> element wrapper, with its length `clen`
    * every element wrapper ever handed out (`ws w`): the reflect.Value it holds — either a cell of a
      backing array (`Loc.cell`, "attached") or a private copy made by copyReflectValueWrapper
      (object_goreflect.go:97) (`Loc.own`, "detached")
    * `panic`: a Go run-time panic (reflect "index out of range") was raised by the operation.

  Core Lean only; total computable defs over functions Nat -> _ (updates are `fun j => if j = i then .. else ..`).
-/
namespace GojaModel.C13

abbrev Val := Int

/-- What an element wrapper's `fieldsValue` (a reflect.Value) refers to. -/
inductive Loc where
  | cell (b i : Nat)     -- slot i of backing array b
  | own (v : Val)        -- a private copy (after copyReflectValueWrapper)
deriving DecidableEq, Repr, Inhabited

structure St where
  fixed : Bool                 -- true: Go array (objectGoArrayReflect); false: slice (objectGoSliceReflect)
  mem : Nat → Nat → Val        -- Go heap: backing array b, index i
  cap : Nat → Nat              -- capacity of backing b
  nb : Nat                     -- backings allocated so far
  cur : Nat                    -- backing the Go slice header currently points to
  len : Nat                    -- current length of the Go slice
  clen : Nat                   -- len(o.valueCache)
  cache : Nat → Option Nat     -- o.valueCache[i] (wrapper id) for i < clen
  ws : Nat → Loc               -- wrapper id -> its reflect.Value
  nw : Nat                     -- wrappers created so far
  panic : Bool

/-- Initial state: slice/array with `n` elements `init i`, capacity `c ≥ n`, nothing cached. -/
def St.init (fixed : Bool) (n c : Nat) (init : Nat → Val) : St :=
  -- cells [n, cap) are the SPARE CAPACITY: whatever Go left there (a slice built as buf[:n])
  { fixed := fixed, mem := fun b i => if b = 0 ∧ i < max n c then init i else 0, cap := fun b => if b = 0 then max n c else 0,
    nb := 1, cur := 0, len := n, clen := 0, cache := fun _ => none, ws := fun _ => .own 0, nw := 0, panic := false }

def St.slot (s : St) (i : Nat) : Val := s.mem s.cur i

def St.readLoc (s : St) : Loc → Val
  | .cell b i => s.mem b i
  | .own v => v

/-- Reading `tmp.Field` through wrapper `w`. -/
def St.readW (s : St) (w : Nat) : Val := s.readLoc (s.ws w)

def updMem (m : Nat → Nat → Val) (b i : Nat) (x : Val) : Nat → Nat → Val :=
  fun b' i' => if b' = b ∧ i' = i then x else m b' i'

def updN {α : Type} (f : Nat → α) (i : Nat) (x : α) : Nat → α :=
  fun j => if j = i then x else f j

/-- valueArrayCache.get (object_goarray_reflect.go:21). -/
def St.cacheGet (s : St) (i : Nat) : Option Nat := if i < s.clen then s.cache i else none

/-- valueArrayCache.put (object_goarray_reflect.go:39): grows (nil-filled) then stores. -/
def St.cachePut (s : St) (i w : Nat) : St :=
  { s with clen := max s.clen (i + 1),
           cache := fun j => if j = i then some w else if j < s.clen then s.cache j else none }

/-- `o.valueCache[i] = nil` (only executed when i < clen). -/
def St.cacheClear (s : St) (i : Nat) : St :=
  { s with cache := fun j => if j = i then none else s.cache j }

/-- copyReflectValueWrapper (object_goreflect.go:97): the wrapper now refers to a fresh copy of what it
    referred to. -/
def St.detach (s : St) (w : Nat) : St :=
  { s with ws := updN s.ws w (.own (s.readW w)) }

def St.detachOpt (s : St) : Option Nat → St
  | some w => s.detach w
  | none => s

/-- Write `x` through wrapper `w` (`tmp.Field = x`, objectGoReflect._put on the element wrapper). -/
def St.writeW (s : St) (w : Nat) (x : Val) : St :=
  match s.ws w with
  | .cell b i => { s with mem := updMem s.mem b i x }
  | .own _ => { s with ws := updN s.ws w (.own x) }

/-- growCap (runtime.go:2906), the branch for oldSize < 1024 only is reachable in the model's histories;
    the ≥1024 branch is transcribed with fuel. -/
def growCapLoop : Nat → Nat → Nat → Nat
  | 0, c, _ => c
  | fuel + 1, c, newSize => if 0 < c ∧ c < newSize then growCapLoop fuel (c + c / 4) newSize else c

def growCap (newSize oldSize oldCap : Nat) : Nat :=
  let doublecap := oldCap + oldCap
  if newSize > doublecap then newSize
  else if oldSize < 1024 then doublecap
  else
    let c := growCapLoop 200 oldCap newSize
    if c = 0 then newSize else c

/-- first index i < bound with cache i = some w (the loops over valueCache are searches in the model) -/
def St.findCached (s : St) (w : Nat) (lo hi : Nat) : Option Nat :=
  (List.range hi).find? (fun i => decide (lo ≤ i) && (s.cacheGet i == some w))

/-- objectGoSliceReflect.grow (object_goslice_reflect.go:28). -/
def St.grow (s : St) (size : Nat) : St :=
  if s.cap s.cur < size then
    -- reflect.MakeSlice(size, growCap) ; reflect.Copy ; fieldsValue.Set(n) ; re-point cached wrappers [0, min(clen,size))
    let nbk := s.nb
    let newcap := growCap size s.len (s.cap s.cur)
    let l := min s.clen size
    { s with
      mem := fun b i => if b = nbk then (if i < s.len then s.mem s.cur i else 0) else s.mem b i,
      cap := fun b => if b = nbk then newcap else s.cap b,
      nb := s.nb + 1, cur := nbk, len := size,
      ws := fun w => match s.findCached w 0 l with
                     | some i => .cell nbk i
                     | none => s.ws w }
  else
    -- zero the tail [len, size) and SetLen(size)
    { s with mem := fun b i => if b = s.cur ∧ s.len ≤ i ∧ i < size then 0 else s.mem b i, len := size }

/-- valueArrayCache.shrink (object_goarray_reflect.go:46) + objectGoSliceReflect.shrink
    (object_goslice_reflect.go:53). -/
def St.shrink (s : St) (size : Nat) : St :=
  let s1 : St :=
    if s.clen > size then
      { s with ws := fun w => match s.findCached w size s.clen with
                              | some _ => .own (s.readW w)
                              | none => s.ws w,
               cache := fun j => if j < size then s.cache j else none,
               clen := size }
    else s
  { s1 with mem := fun b i => if b = s1.cur ∧ size ≤ i ∧ i < s1.len then 0 else s1.mem b i, len := size }

/-- objectGoArrayReflect._putIdx (object_goarray_reflect.go:158, with the bounds test of fix 1c31366);
    `ok` = the Go type conversion succeeds. -/
def St.putIdxArr (s : St) (i : Nat) (x : Val) (ok : Bool) : St :=
  -- if idx >= o.fieldsValue.Len() { typeErrorResult(throw, "Cannot extend a Go array"); return false }
  if s.len ≤ i then s else
  let cached := s.cacheGet i
  let s1 := s.detachOpt cached
  -- rv := o.fieldsValue.Index(idx): reflect would panic when idx ≥ Len() (unreachable behind the test above)
  if s1.len ≤ i then { s1 with panic := true } else
  if ok then
    let s2 := { s1 with mem := updMem s1.mem s1.cur i x }
    match cached with
    | some _ => s2.cacheClear i
    | none => s2
  else
    -- conversion error: cached.setReflectValue(rv) re-attaches the wrapper
    match cached with
    | some w => { s1 with ws := updN s1.ws w (.cell s1.cur i) }
    | none => s1

/-- setOwnIdx/defineOwnPropertyIdx -> o.putIdx: objectGoSliceReflect._putIdx grows first
    (object_goslice_reflect.go:21); for a Go array the same call reaches objectGoArrayReflect._putIdx directly. -/
def St.putIdx (s : St) (i : Nat) (x : Val) (ok : Bool) : St :=
  if s.fixed then s.putIdxArr i x ok
  else
    let s1 := if s.len ≤ i then s.grow (i + 1) else s
    s1.putIdxArr i x ok

/-- _getIdx (object_goarray_reflect.go:90) behind the bounds check of getIdx (l.105). Returns the handle. -/
def St.getIdx (s : St) (i : Nat) : St × Option Nat :=
  if s.len ≤ i then (s, none) else
  match s.cacheGet i with
  | some w => (s, some w)
  | none =>
    let w := s.nw
    (({ s with ws := updN s.ws w (.cell s.cur i), nw := s.nw + 1 } : St).cachePut i w, some w)

/-- _deleteIdx (object_goarray_reflect.go:265). -/
def St.delIdx (s : St) (i : Nat) : St :=
  if s.len ≤ i then s else
  let s1 := match s.cacheGet i with
    | some w => (s.detach w).cacheClear i
    | none => s
  { s1 with mem := updMem s1.mem s1.cur i 0 }

/-- putLength (object_goslice_reflect.go:63); on a Go array `length` is not writable (no state change). -/
def St.setLen (s : St) (n : Nat) : St :=
  if s.fixed then s
  else if n > s.len then s.grow n
  else if n < s.len then s.shrink n
  else s

/-- `if i < len(o.valueCache) { o.valueCache[i] = nil }` -/
def St.condClear (s : St) (i : Nat) : St := if i < s.clen then s.cacheClear i else s

/-- One half of swap's cache adjustment (object_goarray_reflect.go:339-357): the wrapper that was cached for
    the other index (`c`) is re-pointed to slot `i` and cached there; if there was none, slot `i`'s entry is
    cleared. -/
def St.moveCache (s : St) (c : Option Nat) (i : Nat) : St :=
  match c with
  | some w => ({ s with ws := updN s.ws w (.cell s.cur i) } : St).cachePut i w
  | none => s.condClear i

/-- swap (object_goarray_reflect.go:335, with the guard of fix 60ad8ae): one Swap call of sort.Stable on the
    wrapper (in-place sort). -/
def St.swap (s : St) (i j : Nat) : St :=
  -- if n := o.fieldsValue.Len(); i >= n || j >= n { return }  (the comparator has shrunk the slice)
  if s.len ≤ i ∨ s.len ≤ j then s else
  let vi := s.slot i
  let vj := s.slot j
  let s1 := { s with mem := updMem (updMem s.mem s.cur i vj) s.cur j vi }
  let ci := s.cacheGet i
  let cj := s.cacheGet j
  (s1.moveCache ci j).moveCache cj i

inductive Op where
  | get (i : Nat)               -- script: h = a[i]
  | set (i : Nat) (x : Val)     -- script: a[i] = {Field: x}
  | setBad (i : Nat)            -- script: a[i] = <value the Go type conversion rejects>
  | del (i : Nat)               -- script: delete a[i]
  | setLen (n : Nat)            -- script: a.length = n
  | swap (i j : Nat)            -- one swap of Array.prototype.sort (in place on Go wrappers)
  | wwrite (w : Nat) (x : Val)  -- script: h_w.Field = x
  | goWrite (i : Nat) (x : Val) -- Go: (*p)[i].Field = x
  | goAppend (x : Val)          -- Go: *p = append(*p, S{x}) while len < cap
  | goRealloc (c : Nat)         -- Go: n := make([]S, len, c); copy(n, *p); *p = n  (append beyond cap)
deriving Repr, DecidableEq

def St.step (s : St) : Op → St
  | .get i => (s.getIdx i).1
  | .set i x => s.putIdx i x true
  | .setBad i => s.putIdx i 0 false
  | .del i => s.delIdx i
  | .setLen n => s.setLen n
  | .swap i j => s.swap i j
  | .wwrite w x => if w < s.nw then s.writeW w x else s
  | .goWrite i x => if i < s.len then { s with mem := updMem s.mem s.cur i x } else s
  | .goAppend x =>
      if s.fixed then s else
      if s.len < s.cap s.cur then { s with mem := updMem s.mem s.cur s.len x, len := s.len + 1 } else s
  | .goRealloc c =>
      if s.fixed then s else
      if s.len ≤ c then
        { s with mem := fun b i => if b = s.nb then (if i < s.len then s.mem s.cur i else 0) else s.mem b i,
                 cap := fun b => if b = s.nb then c else s.cap b, nb := s.nb + 1, cur := s.nb }
      else s

def St.run (s : St) : List Op → St
  | [] => s
  | op :: ops => (s.step op).run ops

/-- Operations whose effect goja can see (everything except a Go-side re-allocation, after which the cached
    element wrappers still point into the old backing array: known finding stale-elem-wrapper-after-go-realloc). -/
def Op.tracked : Op → Bool
  | .goRealloc _ => false
  | _ => true

end GojaModel.C13
