/-
  C13 model driver.  Line protocol (one case per line):
    W <fixed:0|1> <cap> <v0,v1,..> | <op> <op> ...   wrap-cache history; answer: one state dump per op, joined by " ; "
    N <kind> <int>                                    integer kind round trip
    F <class…>                                        float64 / float32 round trip (class: intval i | negzero | nan | pinf | ninf | frac hex)
    S <shape tokens…>                                 toValue case + Export relation
-/
import GojaModel.Base.Proto
import GojaModel.C13.Model
import GojaModel.C13.Bridge
import GojaModel.C13.Export
import GojaModel.C13.MapModel
import GojaModel.C13.Gateway
import GojaModel.C13.GoSlice
import GojaModel.C13.Spec
import GojaModel.C13.ExportTo
import GojaModel.C13.NestedSpec
import GojaModel.C13.DispatchDriver
import GojaModel.C13.GatewayComposite

namespace GojaModel.C13.Driver
open GojaModel.C13 GojaModel.Proto

/-- driver bookkeeping: which wrapper ids the script has observed (handle number = position) -/
structure DSt where
  s : St
  seen : List Nat

def showInt (i : Int) : String := toString i

def handleNo (seen : List Nat) (w : Nat) : Option Nat :=
  let rec go : List Nat → Nat → Option Nat
    | [], _ => none
    | x :: xs, n => if x = w then some n else go xs (n + 1)
  go seen 0

def dump (d : DSt) (pre : String) : String :=
  if d.s.panic then "PANIC" else
  let sl := (List.range d.s.len).map (fun i => showInt (d.s.slot i))
  let hs := d.seen.map (fun w => showInt (d.s.readW w))
  let cs := (List.range d.s.len).map (fun i =>
    match d.s.cacheGet i with
    | none => "-"
    | some w => match handleNo d.seen w with
                | some n => toString n
                | none => "?")
  pre ++ "len=" ++ toString d.s.len ++ " s=[" ++ ",".intercalate sl ++ "] h=[" ++ ",".intercalate hs ++
    "] c=[" ++ ",".intercalate cs ++ "]"

/-- stable insertion sort expressed as adjacent swaps on the mechanism state (ascending by value). -/
def sortSwaps (s : St) : St :=
  let n := s.len
  -- every element is read (and so wrapped and cached) by the comparisons
  let s0 := (List.range n).foldl (fun st i => st.step (.get i)) s
  -- the comparator reads x.Field through the element wrappers sortGet returns (the cached ones)
  let key (st : St) (j : Nat) : Val := match st.cacheGet j with
    | some w => st.readW w
    | none => st.slot j
  let rec bubble (fuel : Nat) (st : St) (j : Nat) : St :=
    match fuel with
    | 0 => st
    | fuel + 1 =>
      if j = 0 then st
      else if key st j < key st (j - 1) then bubble fuel (st.step (.swap (j - 1) j)) (j - 1)
      else st
  if n < 2 then s else
  (List.range n).foldl (fun st i => bubble (i + 1) st i) s0

def observe (d : DSt) (i : Nat) : DSt × String :=
  let (s', r) := d.s.getIdx i
  match r with
  | none => ({ d with s := s' }, "g=- ")
  | some w =>
    match handleNo d.seen w with
    | some n => ({ d with s := s' }, "g=" ++ toString n ++ " ")
    | none => ({ s := s', seen := d.seen ++ [w] }, "g=" ++ toString d.seen.length ++ " ")

def nat! (s : String) : Nat := s.toNat?.getD 0
def int! (s : String) : Int := s.toInt?.getD 0

/-- Array.prototype.splice(start, del, …items) on a wrapper takes the generic path (builtin_array.go:494-533):
    read the deleted elements, shift the tail with `a[to] = a[from]` (a value copy through the element wrapper),
    delete what is left over, store the items, set the length.  Expressed with the primitive steps. -/
def spliceSteps (len start del : Nat) (items : List Int) : List (String × Nat × Nat × Int) :=
  let s := min start len
  let d := min del (len - s)
  let k := items.length
  let reads := (List.range d).map (fun t => ("get", s + t, 0, (0 : Int)))
  let moves :=
    if k < d then
      ((List.range (len - d - s)).map (fun t => ("mv", s + t + k, s + t + d, (0 : Int)))) ++
      ((List.range (d - k)).map (fun t => ("del", len - 1 - t, 0, (0 : Int))))
    else if d < k then
      (List.range (len - d - s)).map (fun t => ("mv", len - d - t + k - 1, len - t - 1, (0 : Int)))
    else []
  let sets := (List.range k).map (fun i => ("set", s + i, 0, items.getD i 0))
  reads ++ moves ++ sets ++ [("len", len - d + k, 0, (0 : Int))]

def mechPrim (s : St) (p : String × Nat × Nat × Int) : St :=
  match p with
  | ("get", i, _, _) => s.step (.get i)
  | ("del", i, _, _) => s.step (.del i)
  | ("set", i, _, x) => s.step (.set i x)
  | ("len", n, _, _) => s.step (.setLen n)
  | ("mv", to, frm, _) =>
      if s.len ≤ frm then s.step (.del to) else
      let s1 := s.step (.get frm)
      -- objectGoSliceReflect._putIdx grows BEFORE the source wrapper's value is converted (only visible in a stale
      -- state after a Go-side re-allocation, where the grow re-points the stale wrapper)
      let s2 := if !s1.fixed && decide (s1.len ≤ to) then s1.grow (to + 1) else s1
      let v := match s2.cacheGet frm with
        | some w => s2.readW w
        | none => s2.slot frm
      s2.step (.set to v)
  | ("rv", lo, up, _) =>
      -- arrayproto_reverse_generic_step (builtin_array.go:963): both values are read (as wrappers) first, then stored
      let s1 := (s.step (.get lo)).step (.get up)
      match s1.cacheGet lo, s1.cacheGet up with
      | some wl, some wu =>
        let s2 := s1.step (.set lo (s1.readW wu))
        s2.step (.set up (s2.readW wl))
      | _, _ => s1
  | _ => s

def specPrim (s : Sp) (p : String × Nat × Nat × Int) : Sp :=
  match p with
  | ("get", i, _, _) => s.step (.get i)
  | ("del", i, _, _) => s.step (.del i)
  | ("set", i, _, x) => s.step (.set i x)
  | ("len", n, _, _) => s.step (.setLen n)
  | ("mv", to, frm, _) =>
      if s.len ≤ frm then s.step (.del to) else
      let s1 := s.step (.get frm)
      s1.step (.set to (s1.val frm))
  | ("rv", lo, up, _) =>
      let s1 := (s.step (.get lo)).step (.get up)
      match s1.findAtt lo, s1.findAtt up with
      | some wl, some wu =>
        let s2 := s1.step (.set lo (s1.readH wu))
        s2.step (.set up (s2.readH wl))
      | _, _ => s1
  | _ => s

def runOp (d : DSt) (tok : String) : DSt × String :=
  if d.s.panic then (d, "") else
  match tok.splitOn ":" with
  | ["get", i] => observe d (nat! i)
  | ["set", i, x] => ({ d with s := d.s.step (.set (nat! i) (int! x)) }, "")
  | ["bad", i] => ({ d with s := d.s.step (.setBad (nat! i)) }, "")
  | ["del", i] => ({ d with s := d.s.step (.del (nat! i)) }, "")
  | ["len", n] => ({ d with s := d.s.step (.setLen (nat! n)) }, "")
  | ["swap", i, j] => ({ d with s := d.s.step (.swap (nat! i) (nat! j)) }, "")
  | ["ww", w, x] =>
      match d.seen[nat! w]? with
      | some wid => ({ d with s := d.s.step (.wwrite wid (int! x)) }, "")
      | none => (d, "")
  | ["gw", i, x] => ({ d with s := d.s.step (.goWrite (nat! i) (int! x)) }, "")
  | ["ga", x] => ({ d with s := d.s.step (.goAppend (int! x)) }, "")
  | ["gr", c] => ({ d with s := d.s.step (.goRealloc (nat! c)) }, "")
  | ["ra", _] => ({ d with s := (List.range d.s.len).foldl (fun st i => st.step (.get i)) d.s }, "")
  | ["nop", _] => (d, "")
  | ["sort"] => ({ d with s := sortSwaps d.s }, "")
  | ["def", i, x] => ({ d with s := d.s.step (.set (nat! i) (int! x)) }, "")
  | ["splice", st, dl, k] =>
      if d.s.fixed then (d, "") else
      let items := (List.range (nat! k)).map (fun i => (900 : Int) + Int.ofNat i)
      ({ d with s := (spliceSteps d.s.len (nat! st) (nat! dl) items).foldl mechPrim d.s }, "")
  | ["reverse"] =>
      let n := d.s.len
      ({ d with s := ((List.range (n / 2)).map (fun lo => ("rv", lo, n - 1 - lo, (0 : Int)))).foldl mechPrim d.s }, "")
  | ["shift"] =>
      let n := d.s.len
      if n = 0 then (d, "g=- ") else
      let steps := ((List.range (n - 1)).map (fun i => ("mv", i, i + 1, (0 : Int)))) ++ [("del", n - 1, 0, 0), ("len", n - 1, 0, 0)]
      if d.s.fixed then ({ d with s := steps.foldl mechPrim (d.s.step (.get 0)) }, "g=- ") else
      let (d1, pre) := observe d 0
      ({ d1 with s := steps.foldl mechPrim d1.s }, pre)
  | ["unshift", x] =>
      let n := d.s.len
      if d.s.fixed then ({ d with s := if n = 0 then d.s else d.s.step (.get (n - 1)) }, "") else
      let steps := ((List.range n).map (fun t => ("mv", n - t, n - 1 - t, (0 : Int)))) ++ [("set", 0, 0, int! x), ("len", n + 1, 0, 0)]
      ({ d with s := steps.foldl mechPrim d.s }, "")
  | ["push", x] =>
      if d.s.fixed then ({ d with s := d.s.step (.set d.s.len (int! x)) }, "")
      else ({ d with s := d.s.step (.set d.s.len (int! x)) }, "")
  | ["pop"] =>
      if d.s.len = 0 then (d, "g=- ") else
      let i := d.s.len - 1
      -- on a Go array the final `length = i` throws (length is not writable): the popped value never reaches script
      if d.s.fixed then ({ d with s := ((d.s.step (.get i)).step (.del i)) }, "g=- ") else
      let (d1, pre) := observe d i
      let s2 := (d1.s.step (.del i)).step (.setLen i)
      ({ d1 with s := s2 }, pre)
  | _ => (d, "BADOP ")

def runW (ws : List String) : String :=
  match ws with
  | fixed :: cap :: vals :: "|" :: ops =>
    -- `1,2,3/9,8`: three elements and two stale items left in the spare capacity
    let (live, spare) := match vals.splitOn "/" with
      | [a, b] => (a, b)
      | _ => (vals, "")
    let vs : List Int := if live = "-" || live = "" then [] else (live.splitOn ",").map int!
    let sp : List Int := if spare = "" then [] else (spare.splitOn ",").map int!
    let all := vs ++ sp
    let init := St.init (fixed = "1") vs.length (max (nat! cap) all.length) (fun i => all.getD i 0)
    let (_, outs) := ops.foldl (fun (acc : DSt × List String) tok =>
        let (d, outs) := acc
        let (d', pre) := runOp d tok
        (d', dump d' pre :: outs)) (({ s := init, seen := [] } : DSt), [])
    " ; ".intercalate outs.reverse
  | _ => "BADLINE"

/-! ### WS / VS: the same histories through the SPEC model (documented semantics, Spec.lean) -/

structure DSp where
  s : Sp
  seen : List Nat

def dumpSp (d : DSp) (pre : String) : String :=
  let sl := (List.range d.s.len).map (fun i => showInt (d.s.val i))
  let hs := d.seen.map (fun w => showInt (d.s.readH w))
  pre ++ "len=" ++ toString d.s.len ++ " s=[" ++ ",".intercalate sl ++ "] h=[" ++ ",".intercalate hs ++ "]"

def observeSp (d : DSp) (i : Nat) : DSp × String :=
  let (s', r) := d.s.getIdx i
  match r with
  | none => ({ d with s := s' }, "g=- ")
  | some w =>
    match handleNo d.seen w with
    | some n => ({ d with s := s' }, "g=" ++ toString n ++ " ")
    | none => ({ s := s', seen := d.seen ++ [w] }, "g=" ++ toString d.seen.length ++ " ")

/-- documented sort: stable, ascending by value, wrappers move with their elements -/
def sortSp (s : Sp) : Sp :=
  let n := s.len
  let rec bubble (fuel : Nat) (st : Sp) (j : Nat) : Sp :=
    match fuel with
    | 0 => st
    | fuel + 1 =>
      if j = 0 then st
      else if st.val j < st.val (j - 1) then bubble fuel (st.step (.swap (j - 1) j)) (j - 1)
      else st
  if n < 2 then s else (List.range n).foldl (fun st i => bubble (i + 1) st i) s

def runOpSp (d : DSp) (tok : String) : DSp × String :=
  match tok.splitOn ":" with
  | ["get", i] => observeSp d (nat! i)
  | ["set", i, x] => ({ d with s := d.s.step (.set (nat! i) (int! x)) }, "")
  | ["bad", i] => ({ d with s := d.s.step (.setBad (nat! i)) }, "")
  | ["del", i] => ({ d with s := d.s.step (.del (nat! i)) }, "")
  | ["len", n] => ({ d with s := d.s.step (.setLen (nat! n)) }, "")
  | ["swap", i, j] => ({ d with s := d.s.step (.swap (nat! i) (nat! j)) }, "")
  | ["ww", w, x] =>
      match d.seen[nat! w]? with
      | some wid => ({ d with s := d.s.step (.wwrite wid (int! x)) }, "")
      | none => (d, "")
  | ["gw", i, x] => ({ d with s := d.s.step (.goWrite (nat! i) (int! x)) }, "")
  | ["ga", x] => ({ d with s := d.s.step (.goAppend (int! x)) }, "")
  | ["gr", c] => ({ d with s := d.s.step (.goRealloc (nat! c)) }, "")
  | ["ra", _] => (d, "")
  | ["nop", _] => (d, "")
  | ["sort"] => ({ d with s := sortSp d.s }, "")
  | ["def", i, x] => ({ d with s := d.s.step (.set (nat! i) (int! x)) }, "")
  | ["splice", st, dl, k] =>
      if d.s.fixed then (d, "") else
      let items := (List.range (nat! k)).map (fun i => (900 : Int) + Int.ofNat i)
      ({ d with s := (spliceSteps d.s.len (nat! st) (nat! dl) items).foldl specPrim d.s }, "")
  | ["reverse"] =>
      let n := d.s.len
      ({ d with s := ((List.range (n / 2)).map (fun lo => ("rv", lo, n - 1 - lo, (0 : Int)))).foldl specPrim d.s }, "")
  | ["shift"] =>
      let n := d.s.len
      if n = 0 then (d, "g=- ") else
      let steps := ((List.range (n - 1)).map (fun i => ("mv", i, i + 1, (0 : Int)))) ++ [("del", n - 1, 0, 0), ("len", n - 1, 0, 0)]
      if d.s.fixed then ({ d with s := steps.foldl specPrim (d.s.step (.get 0)) }, "g=- ") else
      let (d1, pre) := observeSp d 0
      ({ d1 with s := steps.foldl specPrim d1.s }, pre)
  | ["unshift", x] =>
      let n := d.s.len
      if d.s.fixed then ({ d with s := if n = 0 then d.s else d.s.step (.get (n - 1)) }, "") else
      let steps := ((List.range n).map (fun t => ("mv", n - t, n - 1 - t, (0 : Int)))) ++ [("set", 0, 0, int! x), ("len", n + 1, 0, 0)]
      ({ d with s := steps.foldl specPrim d.s }, "")
  | ["push", x] => ({ d with s := d.s.step (.set d.s.len (int! x)) }, "")
  | ["pop"] =>
      if d.s.len = 0 then (d, "g=- ") else
      let i := d.s.len - 1
      if d.s.fixed then ({ d with s := d.s.step (.del i) }, "g=- ") else
      let (d1, pre) := observeSp d i
      ({ d1 with s := (d1.s.step (.del i)).step (.setLen i) }, pre)
  | _ => (d, "BADOP ")

def runWS (ws : List String) : String :=
  match ws with
  | fixed :: cap :: vals :: "|" :: ops =>
    let (live, spare) := match vals.splitOn "/" with
      | [a, b] => (a, b)
      | _ => (vals, "")
    let vs : List Int := if live = "-" || live = "" then [] else (live.splitOn ",").map int!
    let nsp : Nat := if spare = "" then 0 else (spare.splitOn ",").length
    let init := Sp.init (fixed = "1") vs.length (max (nat! cap) (vs.length + nsp)) (fun i => vs.getD i 0)
    let (_, outs) := ops.foldl (fun (acc : DSp × List String) tok =>
        let (d, outs) := acc
        let (d', pre) := runOpSp d tok
        (d', dumpSp d' pre :: outs)) (({ s := init, seen := [] } : DSp), [])
    " ; ".intercalate outs.reverse
  | _ => "BADLINE"

def kindOf : String → Option IntKind
  | "int" => some .int | "int8" => some .int8 | "int16" => some .int16 | "int32" => some .int32
  | "int64" => some .int64 | "uint" => some .uint | "uint8" => some .uint8 | "uint16" => some .uint16
  | "uint32" => some .uint32 | "uint64" => some .uint64 | _ => none

def showFlt : Flt → String
  | .intval i => "intval " ++ showInt i
  | .negZero => "negzero" | .nan => "nan" | .posInf => "pinf" | .negInf => "ninf"
  | .frac b => "frac " ++ toHexW 16 b

def showGoNum : GoNum → String
  | .i64 v => "i64 " ++ showInt v
  | .f64 f => "f64 " ++ showFlt f

def runN (ws : List String) : String :=
  match ws with
  | [k, v] =>
    match kindOf k with
    | some kk =>
      let j := toValueInt kk (int! v)
      showGoNum (exportNum j) ++ " to=" ++ (match exportToInt kk j with | some r => showInt r | none => "none")
    | none => "BADKIND"
  | _ => "BADLINE"

def parseFlt : List String → Option Flt
  | ["intval", i] => some (.intval (int! i))
  | ["negzero"] => some .negZero | ["nan"] => some .nan | ["pinf"] => some .posInf | ["ninf"] => some .negInf
  | ["frac", h] => (parseHex? h).map .frac
  | _ => none

def runF (ws : List String) : String :=
  match parseFlt ws with
  | some f =>
    let j := floatToValue f
    showGoNum (exportNum j) ++ " to=" ++ showFlt (exportToF64 j)
  | none => "BADLINE"

def b! (s : String) : Bool := s = "1"

def parseShape : List String → Option Shape
  | ["nilIface"] => some .nilIface
  | ["objectPtr", n] => some (.objectPtr (b! n))
  | ["jsValue"] => some .jsValue
  | ["str"] => some .str | ["bool"] => some .bool
  | ["nativeFunc"] => some .nativeFunc | ["nativeCtor"] => some .nativeCtor
  | ["intKind", k] => (kindOf k).map .intKind
  | ["float32"] => some .float32 | ["float64"] => some .float64
  | ["bigInt", n] => some (.bigInt (b! n))
  | ["mapStrIface", n] => some (.mapStrIface (b! n))
  | ["sliceIface"] => some .sliceIface
  | ["ptrSliceIface", n] => some (.ptrSliceIface (b! n))
  | ["rMap", d, n, k, m] => some (.rMap (nat! d) (b! n) (b! k) (b! m))
  | ["rArray", d, n] => some (.rArray (nat! d) (b! n))
  | ["rSlice", d, n] => some (.rSlice (nat! d) (b! n))
  | ["rFunc", d, n] => some (.rFunc (nat! d) (b! n))
  | ["rOther", d, n] => some (.rOther (nat! d) (b! n))
  | _ => none

def showWrap : Wrap → String
  | .null => "null" | .passthrough => "passthrough" | .string => "string" | .bool => "bool"
  | .nativeFunc => "nativeFunc" | .nativeCtor => "nativeCtor" | .number => "number" | .bigint => "bigint"
  | .goMapSimple => "goMapSimple" | .goSlice p => "goSlice" ++ (if p then "Ptr" else "")
  | .goMapReflect => "goMapReflect" | .goArrayReflect => "goArrayReflect" | .goSliceReflect => "goSliceReflect"
  | .wrappedFunc => "wrappedFunc" | .goReflect => "goReflect"

def showRel : Rel → String
  | .identical => "identical" | .valueCopy => "valueCopy" | .widened => "widened" | .bigCopy => "bigCopy"
  | .untypedNil => "untypedNil" | .jsExport => "jsExport" | .nativeWrapped => "nativeWrapped"
  | .ptrStripped => "ptrStripped"

def showRelTo : RelTo → String
  | .deepEqual => "deepEqual" | .func => "func" | .bigNilZero => "bigNilZero"
  | .nilChainCollapsed => "nilChainCollapsed" | .notGoData => "notGoData"

def runS (ws : List String) : String :=
  -- trailing "v=<n>" token selects the concrete Go type in the harness; the model ignores it
  let ws' := ws.filter (fun t => !t.startsWith "v=")
  match parseShape ws' with
  | some sh => showWrap (toValueCase sh) ++ " " ++ showRel (roundTrip sh) ++ " to=" ++ showRelTo (relTo sh)
  | none => "BADSHAPE"

/-! ### X: export of a script-built graph.  `X o:0=5,1=r1 a:0=r0 …` — node i is an object (keys k<n>) or an array -/

def parseField (s : String) : Option (Nat × JVal) :=
  match s.splitOn "=" with
  | [k, v0] =>
    -- a leading 'g' marks an accessor property whose getter returns the rest: exported like a data property
    let v := if v0.startsWith "g" then String.ofList (v0.toList.drop 1) else v0
    if v = "h" then some (nat! k, .hole)
    else if v.startsWith "r" then some (nat! k, .ref (nat! (String.ofList (v.toList.drop 1)))) else some (nat! k, .prim (int! v))
  | _ => none

/-- node kinds: o object, a array, m Map, s Set -/
def parseNode (s : String) : String × JFields :=
  match s.splitOn ":" with
  | [kind, fs] => (kind, if fs = "" then [] else (fs.splitOn ",").filterMap parseField)
  | _ => ("o", [])

/-- canonical print: depth-first from the root, fields in key order, numbering objects by first visit -/
def canonG (kindOf : Nat → String) (cache : List Nat) (out : List (Nat × GFields)) :
    Nat → List Nat → GVal → List Nat × String
  | _, vis, .prim p => (vis, showInt p)
  | _, vis, .nil => (vis, "nil")
  | 0, vis, .addr _ => (vis, "…")
  | fuel + 1, vis, .addr a =>
    match handleNo vis a with
    | some n => (vis, "#" ++ toString n)
    | none =>
      let fs := match out.find? (fun e => e.1 = a) with
        | some e => e.2
        | none => []
      let kind := kindOf (cache.getD a 0)
      let listLike := kind != "o"
      if listLike && fs.isEmpty then (vis, "[]") else
      let n := vis.length
      let (vis', parts) := fs.foldl (fun (acc : List Nat × List String) (kg : Nat × GVal) =>
          let (v1, s) := canonG kindOf cache out fuel acc.1 kg.2
          (v1, acc.2 ++ [if kind == "o" then "k" ++ toString kg.1 ++ ":" ++ s
                         else if kind == "m" then "<" ++ toString kg.1 ++ "," ++ s ++ ">" else s])) (vis ++ [a], [])
      (vis', "#" ++ toString n ++ (if listLike then "[" else "{") ++ ",".intercalate parts ++ (if listLike then "]" else "}"))

/-- `asCoded`: Map / Set objects skip the cache lookup (the current mapObject.export / setObject.export);
    otherwise every object goes through get-then-put (the property: one Go value per script object). -/
def runX (asCoded : Bool) (ws : List String) : String :=
  let nodes := ws.map parseNode
  let js : Nat → JFields := fun id => (nodes.getD id ("o", [])).2
  let kindOf : Nat → String := fun id => (nodes.getD id ("o", [])).1
  let isMS : Nat → Bool := fun id => asCoded && (kindOf id == "m" || kindOf id == "s")
  let fuel := 4 * nodes.length + 8
  let (c, g) := expValK js isMS fuel ECtx.empty (.ref 0)
  if !c.ok then "FUEL" else
  (canonG kindOf c.cache c.out fuel [] g).2

/-! ### M: map wrapper histories.  `M <s|i> k=v,k=v | get:k set:k:x del:k ww:w:x gw:k:x gd:k` (keys 0..9) -/

def dumpM (s : MSt) (pre : String) : String :=
  let ents := (List.range 10).filterMap (fun k => (s.m k).map (fun v => toString k ++ ":" ++ showInt v))
  let hs := (List.range s.nw).map (fun w => showInt (s.ws w))
  pre ++ "m={" ++ ",".intercalate ents ++ "} h=[" ++ ",".intercalate hs ++ "]"

def runMOp (s : MSt) (tok : String) : MSt × String :=
  match tok.splitOn ":" with
  | ["get", k] =>
      let (s', r) := s.getKey (nat! k)
      (s', match r with | some w => "g=" ++ toString w ++ " " | none => "g=- ")
  | ["set", k, x] => (s.step (.set (nat! k) (int! x)), "")
  | ["del", k] => (s.step (.del (nat! k)), "")
  | ["ww", w, x] => (s.step (.wwrite (nat! w) (int! x)), "")
  | ["gw", k, x] => (s.step (.goSet (nat! k) (int! x)), "")
  | ["gd", k] => (s.step (.goDel (nat! k)), "")
  | _ => (s, "BADOP ")

def runM (ws : List String) : String :=
  match ws with
  | _ :: ents :: "|" :: ops =>
    let kvs : List (Nat × Int) := if ents = "-" then [] else (ents.splitOn ",").filterMap (fun e =>
      match e.splitOn "=" with | [k, v] => some (nat! k, int! v) | _ => none)
    let init := MSt.init (fun k => (kvs.find? (fun kv => kv.1 = k)).map (·.2))
    let (_, outs) := ops.foldl (fun (acc : MSt × List String) tok =>
        let (s', pre) := runMOp acc.1 tok
        (s', dumpM s' pre :: acc.2)) (init, [])
    " ; ".intercalate outs.reverse
  | _ => "BADLINE"

/-! ### C / J: the call gateways
    `C nargs variadic l nout lastIsErr errNonNil`: a Go func of `nargs` int parameters (the last `...int` if variadic)
    called from script with arguments 10, 11, …; answer: what the func received and what the script got back.
    `J nfixed variadic tail nout lastIsErr threw`: a script function exported to a Go func type and called from Go. -/

def slotVal : Slot → String
  | .arg j _ _ => toString (10 + j)
  | .zero _ => "0"
  | .unset => "UNSET"

def showCallResult (nout : Nat) : CallResult → String
  | .undefined => "undefined"
  | .value i => "value " ++ toString (70 + i)
  | .array n => "array " ++ ",".intercalate ((List.range n).map (fun i => toString (70 + i)))
  | .throw => "throw"

def runC (ws : List String) : String :=
  match ws with
  | [na, va, l, no, le, en] =>
    let nargs := nat! na
    let variadic := b! va
    let g := gatewayIn nargs variadic (nat! l)
    if g.oob then "OOB" else
    let nfixed := if variadic then nargs - 1 else nargs
    let vals := (List.range g.len).map (fun i => slotVal (g.slot i))
    "fixed=[" ++ ",".intercalate (vals.take nfixed) ++ "] tail=[" ++ ",".intercalate (vals.drop nfixed) ++ "] -> " ++
      showCallResult (nat! no) (gatewayOut (nat! no) (b! le) (b! en))
  | _ => "BADLINE"

def runJ (ws : List String) : String :=
  match ws with
  | [nf, va, tl, no, le, th] =>
    let nfixed := nat! nf
    let n := jsArgCount nfixed (b! va) (nat! tl)
    let args := (List.range n).map (fun j => match jsArg nfixed j with
      | .fixed p => toString (10 + p)
      | .tailElem k => toString (100 + k))
    "args=[" ++ ",".intercalate args ++ "] -> " ++
      -- the script function returns the number 7: not convertible when the only result type is `error`
      (match jsFuncOutcome (nat! no) (b! le) (b! th) (nat! no == 1 && b! le) with
       | .goPanic => "gopanic"
       | .results first err => "first=" ++ (if first then "js" else "zero") ++ " err=" ++ (if err then "set" else "nil"))
  | _ => "BADLINE"

/-! ### I: the plain []interface{} wrapper.  `I <p|v> <len0> <cells ('-' = nil)> | ops` -/

def showCell : Option Val → String
  | some v => showInt v
  | none => "-"

def dumpI (s : GS) (pre : String) : String :=
  pre ++ "len=" ++ toString s.len ++ " s=[" ++ ",".intercalate ((List.range s.len).map (fun i => showCell (s.mem i))) ++ "]"

def cell! (x : String) : Option Val := if x = "n" || x = "-" then none else some (int! x)

def showGot (s : GS) (i : Nat) : String :=
  if s.len ≤ i then "g=undefined " else match s.mem i with
    | some v => "g=" ++ showInt v ++ " "
    | none => "g=null "

def runIOp (s : GS) (tok : String) : GS × String :=
  match tok.splitOn ":" with
  | ["get", i] => (s, showGot s (nat! i))
  | ["set", i, x] => (s.step (.set (nat! i) (cell! x)), "")
  | ["len", n] => (s.step (.setLen (nat! n)), "")
  | ["del", i] => (s.step (.del (nat! i)), "")
  | ["push", x] => (s.step (.set s.len (cell! x)), "")
  | ["pop"] =>
      if s.len = 0 then (s, "g=undefined ") else
      let i := s.len - 1
      ((s.step (.del i)).step (.setLen i), showGot s i)
  | ["gt", n] => (s.step (.goTrunc (nat! n)), "")
  | ["gs", n] => (s.step (.goReslice (nat! n)), "")
  | ["ga", x] => (s.step (.goAppend (int! x)), "")
  | ["gr", c] => (s.step (.goRealloc (nat! c)), "")
  | ["gw", i, x] => (s.step (.goWrite (nat! i) (cell! x)), "")
  | _ => (s, "BADOP ")

def runI (ws : List String) : String :=
  match ws with
  | _ :: len0 :: cells :: "|" :: ops =>
    let cs : List (Option Val) := if cells = "." then [] else (cells.splitOn ",").map cell!
    let init : GS := { mem := fun i => (cs.getD i none), cap := cs.length, len := min (nat! len0) cs.length }
    let (_, outs) := ops.foldl (fun (acc : GS × List String) tok =>
        let (s', pre) := runIOp acc.1 tok
        (s', dumpI s' pre :: acc.2)) (init, [])
    " ; ".intercalate outs.reverse
  | _ => "BADLINE"

/-! ### A: argument conversion through the Go-func gateway.  `A <variadic> <kind,kind,…> | <arg> …`
    args: i<int> | f<hex bits of a non-integral double> | fn (NaN) | fp (+Inf) | fm (-Inf) | fz (-0) | t | F | u | n -/

def parseJArg (s : String) : JArg :=
  let rest := String.ofList (s.toList.drop 1)
  if s = "t" then .bool true else if s = "F" then .bool false else if s = "u" then .undef else if s = "n" then .null
  else if s = "fn" then .num (.flt .nan) else if s = "fp" then .num (.flt .posInf)
  else if s = "fm" then .num (.flt .negInf) else if s = "fz" then .num (.flt .negZero)
  else if s.startsWith "i" then .num (.int (int! rest))
  else if s.startsWith "f" then .num (.flt (.frac ((parseHex? rest).getD 0)))
  else .undef

def pkindOf (s : String) : Option PKind :=
  if s = "bool" then some .bool else if s = "float64" then some .f64 else (kindOf s).map .int

def showGoArg : GoArg → String
  | .int v => showInt v
  | .bool b => if b then "true" else "false"
  | .f64 f => showFlt f

def runA (ws : List String) : String :=
  match ws with
  | va :: ks :: "|" :: args =>
    let kinds := (ks.splitOn ",").filterMap pkindOf
    let variadic := b! va
    let vals := (gatewayCallP kinds variadic (args.map parseJArg)).map showGoArg
    let nfixed := if variadic then kinds.length - 1 else kinds.length
    "fixed=[" ++ ",".intercalate (vals.take nfixed) ++ "] tail=[" ++ ",".intercalate (vals.drop nfixed) ++ "]"
  | _ => "BADLINE"

/-! ### Y: one ExportTo into *YNode / *ZNode over a script graph (`Y <Y|Z> n:Any=r1,Next=r2,V=5 m:k0=r1 l:r1,r2 …`) -/

def yNames : List String := ["Any", "Next", "M", "L", "Any2", "Kids", "Next2", "V"]

def yNameOf (k : Nat) : String := if k < 100 then yNames.getD k "?" else "k" ++ toString (k - 100)

def yCodeOf (s : String) : Nat :=
  match handleNoStr yNames s with
  | some n => n
  | none => 100 + nat! (String.ofList (s.toList.drop 1))
where
  handleNoStr (l : List String) (s : String) : Option Nat :=
    let rec go : List String → Nat → Option Nat
      | [], _ => none
      | x :: xs, n => if x = s then some n else go xs (n + 1)
    go l 0

/-- type table: 0 = *Node, 1 = map[string]*Node (named), 2 = []*Node, 3 = []interface{} -/
def yTys (z : Bool) : Nat → TyDef
  | 0 => if z
      then .structPtr [(1, .named 0), (0, .iface), (3, .named 2), (2, .named 1), (4, .iface), (6, .named 0), (5, .named 3), (7, .iface)]
      else .structPtr [(0, .iface), (1, .named 0), (2, .named 1), (3, .named 2), (4, .iface), (5, .named 3), (6, .named 0), (7, .iface)]
  | 1 => .mapOf (.named 0)
  | 2 => .sliceOf (.named 0)
  | _ => .sliceOf .iface

def parseYNode (s : String) : String × JFields :=
  match s.splitOn ":" with
  | [kind, body] =>
    let parts := if body = "" then [] else body.splitOn ","
    if kind = "l" then
      (kind, (List.range parts.length).map (fun i =>
        let v := parts.getD i ""
        (i, if v.startsWith "r" then JVal.ref (nat! (String.ofList (v.toList.drop 1))) else JVal.prim (int! v))))
    else
      (kind, parts.filterMap (fun p => match p.splitOn "=" with
        | [k, v] => some (yCodeOf k, if v.startsWith "r" then JVal.ref (nat! (String.ofList (v.toList.drop 1))) else JVal.prim (int! v))
        | _ => none))
  | _ => ("n", [])

def insertByName (x : Nat × GVal) : GFields → GFields
  | [] => [x]
  | y :: ys => if yNameOf x.1 < yNameOf y.1 then x :: y :: ys else y :: insertByName x ys

/-- Go maps have no order: both sides visit and print map entries sorted by key -/
def sortByName (fs : GFields) : GFields := fs.foldl (fun acc x => insertByName x acc) []

def canonY (kindOf : Nat → String) (tys : Nat → TyDef) (cache : List (Nat × Nat)) (out : List (Nat × GFields)) :
    Nat → List Nat → GVal → List Nat × String
  | _, vis, .prim p => (vis, showInt p)
  | _, vis, .nil => (vis, "nil")
  | 0, vis, .addr _ => (vis, "…")
  | fuel + 1, vis, .addr a =>
    match handleNo vis a with
    | some n => (vis, "#" ++ toString n)
    | none =>
      let fs := match out.find? (fun e => e.1 = a) with
        | some e => e.2
        | none => []
      let (id, cd) := cache.getD a (0, 0)
      -- shape of the Go value: untyped export of an array / typed slice → list; typed struct → *{…}; otherwise a map
      let shape : String :=
        if cd = 0 then (if kindOf id == "l" then "list" else "map")
        else match tys (cd - 1) with
          | .structPtr _ => "struct"
          | .mapOf _ => "map"
          | .sliceOf _ => "list"
      if shape == "list" && fs.isEmpty then (vis, "[]") else
      let n := vis.length
      let fs' := if shape == "map" then sortByName fs else fs
      let (vis', parts) := fs'.foldl (fun (acc : List Nat × List (String × String)) (kg : Nat × GVal) =>
          let (v1, s) := canonY kindOf tys cache out fuel acc.1 kg.2
          (v1, acc.2 ++ [(yNameOf kg.1, s)])) (vis ++ [a], [])
      let body :=
        if shape == "list" then ",".intercalate (parts.map (·.2))
        else if shape == "struct" then ",".intercalate (parts.map (fun p => p.1 ++ ":" ++ p.2))
        else ",".intercalate (parts.map (fun p => p.1 ++ ":" ++ p.2))
      (vis', "#" ++ toString n ++ (if shape == "list" then "[" else if shape == "struct" then "*{" else "{") ++ body ++
        (if shape == "list" then "]" else "}"))

def runY (ws : List String) : String :=
  match ws with
  | tz :: nodeToks =>
    let nodes := nodeToks.map parseYNode
    let js : Nat → JFields := fun id => (nodes.getD id ("n", [])).2
    let kindOf : Nat → String := fun id => (nodes.getD id ("n", [])).1
    let tys := yTys (tz = "Z")
    let asU : Nat → Nat → Bool := fun id t => t == 3 && kindOf id == "l"
    let fuel := 6 * nodes.length + 10
    let (c, g) := expTo js tys asU fuel TCtx.empty (.ref 0) (.named 0)
    if !c.ok then "FUEL" else
    (canonY kindOf tys c.cache c.out fuel [] g).2
  | _ => "BADLINE"

/-! ### B: composite and string parameters of a Go func (`B <Y|Z> <ra> <rb> <sarg> <nodes…>`, GatewayComposite.lean) -/

def runB (ws : List String) : String :=
  match ws with
  | tz :: ra :: rb :: sarg :: nodeToks =>
    let nodes := nodeToks.map parseYNode
    let js : Nat → JFields := fun id => (nodes.getD id ("n", [])).2
    let kindOf : Nat → String := fun id => (nodes.getD id ("n", [])).1
    let tys := yTys (tz = "Z")
    let asU : Nat → Nat → Bool := fun id t => t == 3 && kindOf id == "l"
    let fuel := 6 * nodes.length + 10
    let rs := gatewayArgsT js tys asU fuel [(.ref (nat! ra), .named 0), (.ref (nat! rb), .named 0)]
    let shown := rs.map (fun (cg : TCtx × GVal) =>
      if !cg.1.ok then "FUEL" else (canonY kindOf tys cg.1.cache cg.1.out fuel [] cg.2).2)
    -- two parameters never share a Go value: each has its own identity cache
    " | ".intercalate shown ++ " | same=false | str=" ++
      (match convArgStr (parseJArg sarg) with | some s => s | none => "?")
  | _ => "BADLINE"

/-! ### KS: nested-wrapper histories through the documented semantics (NestedSpec.lean) -/

def dumpK (s : KSp) (pre : String) : String :=
  let sl := (List.range s.len).map (fun i => showInt (s.x i) ++ "/" ++ showInt (s.y i))
  let hs := (List.range s.nh).map (fun w => showInt (s.curX w) ++ "/" ++ showInt (s.curY w))
  let ns := s.par.map (fun p => showInt (s.curX p))
  pre ++ "len=" ++ toString s.len ++ " s=[" ++ ",".intercalate sl ++ "] h=[" ++ ",".intercalate hs ++ "] n=[" ++
    ",".intercalate ns ++ "]"

/-- `none`: the operation was skipped by the harness guard (copy from beyond the end): nothing is promised after it -/
def runKOp (s : KSp) (tok : String) : Option (KSp × String) :=
  match tok.splitOn ":" with
  | ["get", i] =>
      let i := nat! i
      if s.len ≤ i then some (s, "g=- ") else
      match s.findAtt i with
      | some w => some (s, "g=" ++ toString w ++ " ")
      | none => some ({ s with h := updN s.h s.nh (.att i), nh := s.nh + 1 }, "g=" ++ toString s.nh ++ " ")
  | ["in", hh] =>
      let p := nat! hh
      if s.nh ≤ p then some (s, "") else
      match handleNo s.par p with
      | some k => some (s, "n=" ++ toString k ++ " ")
      | none => some ({ s with par := s.par ++ [p] }, "n=" ++ toString s.par.length ++ " ")
  | ["set", i, x] => some (s.assign (nat! i) (int! x) 0, "")
  | ["cp", i, j] =>
      let j := nat! j
      if s.len ≤ j then none else some (s.assign (nat! i) (s.x j) (s.y j), "")
  | ["wx", k, x] =>
      match s.par[nat! k]? with
      | some p => some (s.writeX p (int! x), "")
      | none => some (s, "")
  | ["wpx", hh, x] => some (s.writeX (nat! hh) (int! x), "")
  | ["gw", i, x] => some (if nat! i < s.len then { s with x := updN s.x (nat! i) (int! x) } else s, "")
  | ["len", n] => some (s.setLen (nat! n), "")
  | ["sort"] => some (s.sort, "")
  | _ => some (s, "BADOP ")

def runKS (ws : List String) : String :=
  match ws with
  | _ :: vals :: "|" :: ops =>
    let vs : List Int := if vals = "-" then [] else (vals.splitOn ",").map int!
    let init : KSp := { len := vs.length, x := fun i => vs.getD i 0, y := fun i => if i < vs.length then 100 + i else 0,
                        h := fun _ => .det 0 0, nh := 0, par := [] }
    let (_, outs, _) := ops.foldl (fun (acc : KSp × List String × Bool) tok =>
        let (s, outs, dead) := acc
        if dead then (s, "?" :: outs, true) else
        match runKOp s tok with
        | some (s', pre) => (s', dumpK s' pre :: outs, false)
        | none => (s, "?" :: outs, true)) (init, [], false)
    " ; ".intercalate outs.reverse
  | _ => "BADLINE"

def handle (line : String) : String :=
  match words line with
  | "W" :: rest => runW rest
  | "WS" :: rest => runWS rest
  | "N" :: rest => runN rest
  | "F" :: rest => runF rest
  | "S" :: rest => runS rest
  | "X" :: rest => runX false rest      -- since 29d16ec Map / Set objects go through get-then-put like every object
  | "XOLD" :: rest => runX true rest   -- the mechanism before 29d16ec (regression model)
  | "XS" :: rest => runX false rest
  | "M" :: rest => runM rest
  | "C" :: rest => runC rest
  | "A" :: rest => runA rest
  | "D" :: rest => GojaModel.C13.DispatchDriver.runD rest
  | "DS" :: rest => GojaModel.C13.DispatchDriver.runDS rest
  | "Y" :: rest => runY rest
  | "B" :: rest => runB rest
  | "KS" :: rest => runKS rest
  | "I" :: rest => runI rest
  | "J" :: rest => runJ rest
  | _ => "BADLINE"

def main : IO Unit := lineMap handle

end GojaModel.C13.Driver
