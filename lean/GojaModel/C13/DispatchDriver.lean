/-
  Driver part for the D stream: `D <source> <dest>` — a catalogue of script objects (one per implementation class and
  per branch of the typed-export methods) described as `JSrc` records; the harness builds the same objects in script.
-/
import GojaModel.C13.ExportDispatch

namespace GojaModel.C13.DispatchDriver
open GojaModel.C13

def ints (l : List Int) : List DV := l.map DV.int

def base : JSrc :=
  { kind := .other, iterDefault := false, hasIter := false, callable := false, length := none, values := [], iter := [],
    idx := [], entries := [], props := [], byteLen := 0 }

def arrOf (vs : List DV) (props : List (String × DV)) : JSrc :=
  { base with kind := .array, iterDefault := true, hasIter := true, length := some vs.length, values := vs, iter := vs,
              idx := vs, props := props }

def catalogue : String → Option JSrc
  | "arr" => some (arrOf (ints [1, 2, 3]) [("0", .int 1), ("1", .int 2), ("2", .int 3)])
  | "arrHole" => some (arrOf [.int 1, .nil, .int 3] [("0", .int 1), ("2", .int 3)])
  | "arrEmpty" => some (arrOf [] [])
  | "arr2" => some (arrOf (ints [4, 5]) [("0", .int 4), ("1", .int 5)])
  -- a[Symbol.iterator] = function*(){ yield 7; yield 8 }
  | "arrIter" => some { arrOf (ints [1, 2, 3]) [("0", .int 1), ("1", .int 2), ("2", .int 3)] with
                        iterDefault := false, iter := ints [7, 8] }
  -- a[Symbol.iterator] = undefined: no longer iterable, but array-like
  | "arrIterGone" => some { arrOf (ints [1, 2]) [("0", .int 1), ("1", .int 2)] with
                            iterDefault := false, hasIter := false, iter := [] }
  | "set" => some { base with kind := .set, hasIter := true, values := ints [3, 1, 2], iter := ints [3, 1, 2] }
  | "setEmpty" => some { base with kind := .set, hasIter := true }
  | "map" => some { base with kind := .map, hasIter := true, iter := [.pair 1 10, .pair 2 20], entries := [(1, 10), (2, 20)] }
  | "u8" => some { base with kind := .bytes, hasIter := true, length := some 3, iter := ints [1, 2, 3], idx := ints [1, 2, 3],
                             props := [("0", .int 1), ("1", .int 2), ("2", .int 3)], byteLen := 3 }
  | "i16" => some { base with kind := .bytes, hasIter := true, length := some 2, iter := ints [5, 6], idx := ints [5, 6],
                              props := [("0", .int 5), ("1", .int 6)], byteLen := 4 }
  | "dv" => some { base with kind := .bytes, byteLen := 4 }
  | "ab" => some { base with kind := .bytes, byteLen := 2 }
  | "alike" => some { base with length := some 2, idx := ints [7, 8], props := [("0", .int 7), ("1", .int 8), ("length", .int 2)] }
  | "alikeHole" => some { base with length := some 3, idx := [.int 7, .nil, .nil], props := [("0", .int 7), ("length", .int 3)] }
  | "fn" => some { base with callable := true, length := some 2, idx := [.nil, .nil] }
  | "plain" => some { base with props := [("a", .int 1)] }
  | "gen" => some { base with hasIter := true, iter := ints [1, 2] }
  | "iterObj" => some { base with hasIter := true, iter := ints [4], length := some 5, idx := [.nil, .nil, .nil, .nil, .nil],
                                  props := [("length", .int 5)] }
  | "proxyArr" => some { base with hasIter := true, iter := ints [1, 2], length := some 2, idx := ints [1, 2],
                                   props := [("0", .int 1), ("1", .int 2)] }
  | _ => none

def destOf : String → Option Dest
  | "sl" => some .slice | "st" => some .sliceT | "by" => some .bytes | "a2" => some (.arr 2) | "a3" => some (.arr 3)
  | "ms" => some .map | "mi" => some .map
  | _ => none

/-- in a []int / []byte destination a nil / non-numeric element converts to 0 -/
def showDVz : DV → String
  | .int i => toString i
  | _ => "0"

def showDV : DV → String
  | .int i => toString i
  | .nil => "nil"
  | .pair k v => "<" ++ toString k ++ "," ++ toString v ++ ">"

def insertStr (x : String) : List String → List String
  | [] => [x]
  | y :: ys => if x < y then x :: y :: ys else y :: insertStr x ys

def sortStrs (l : List String) : List String := l.foldl (fun acc x => insertStr x acc) []

def showErr : DErr → String
  | .lenArray => "lenArray" | .lenIterable => "lenIterable" | .lenArrayLike => "lenArrayLike" | .lenSet => "lenSet"
  | .notArrayOrIterable => "notArrayOrIterable"

def showOutcome (zeroNil : Bool) : Outcome → String
  | .seq l => "seq[" ++ ",".intercalate (l.map (if zeroNil then showDVz else showDV)) ++ "]"
  | .bytesView n => "bytes:" ++ toString n
  | .entries l => "map{" ++ ",".intercalate (sortStrs (l.map (fun e => toString e.1 ++ ":" ++ toString e.2))) ++ "}"
  | .keysZero l => "map{" ++ ",".intercalate (sortStrs (l.map (fun e => showDV e ++ ":nil"))) ++ "}"
  | .props l => "map{" ++ ",".intercalate (sortStrs (l.map (fun e => e.1 ++ ":" ++ showDV e.2))) ++ "}"
  | .err e => "err:" ++ showErr e

def runD (ws : List String) : String :=
  match ws with
  | [src, dst] =>
    match catalogue src, destOf dst with
    | some s, some d => showOutcome (dst == "st" || dst == "by") (mech s d)
    | _, _ => "BADLINE"
  | _ => "BADLINE"

/-- `DS <source> <dest>`: `[x, x]` exported into a slice of the destination type — are the two Go values one? -/
def runDS (ws : List String) : String :=
  match ws with
  | [src, dst] =>
    match catalogue src, destOf dst with
    | some s, some d =>
      let shared := if cachesTyped s.kind d then "shared" else "split"
      match mech s d, d with
      | .err _, _ => "err"
      | _, .arr _ => "value"
      | .seq [], _ => "empty"
      | .bytesView 0, _ => "empty"
      | _, _ => shared
    | _, _ => "BADLINE"
  | _ => "BADLINE"

end GojaModel.C13.DispatchDriver
