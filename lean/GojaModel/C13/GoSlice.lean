/-
  C13 — the plain Go slice wrapper objectGoSlice (object_goslice.go): []interface{} and *[]interface{}.
  No element cache (elements are converted on every read); what matters is the slice header the wrapper sees
  through `o.data`, the backing array with its SPARE CAPACITY (cells beyond len keep whatever Go left there:
  `data = data[:1]`, a slice built as buf[:n]) and that a script-side grow exposes only nil.  Core Lean only.
-/
import GojaModel.C13.Model

namespace GojaModel.C13

structure GS where
  mem : Nat → Option Val       -- cells of the current backing array (none = nil interface)
  cap : Nat
  len : Nat

/-- objectGoSlice.grow (object_goslice.go:105) -/
def GS.grow (s : GS) (size : Nat) : GS :=
  if s.cap < size then
    -- n := make([]interface{}, size, growCap(..)); copy(n, *o.data)
    { mem := fun i => if i < s.len then s.mem i else none, cap := growCap size s.len s.cap, len := size }
  else
    -- tail := (*o.data)[len:size]; clear; reslice
    { s with mem := fun i => if s.len ≤ i ∧ i < size then none else s.mem i, len := size }

/-- the seeded mutant C13-m4: growing within capacity without clearing the re-exposed tail -/
def GS.growNoClear (s : GS) (size : Nat) : GS :=
  if s.cap < size then
    { mem := fun i => if i < s.len then s.mem i else none, cap := growCap size s.len s.cap, len := size }
  else { s with len := size }

/-- objectGoSlice.shrink (l.120) -/
def GS.shrink (s : GS) (size : Nat) : GS :=
  { s with mem := fun i => if size ≤ i ∧ i < s.len then none else s.mem i, len := size }

/-- putIdx (l.128) -/
def GS.putIdx (s : GS) (i : Nat) (x : Option Val) : GS :=
  let s1 := if s.len ≤ i then s.grow (i + 1) else s
  { s1 with mem := updN s1.mem i x }

/-- putLength (l.135) -/
def GS.setLen (s : GS) (n : Nat) : GS :=
  if s.len < n then s.grow n else if n < s.len then s.shrink n else s

inductive GOp where
  | set (i : Nat) (x : Option Val)   -- script: a[i] = x   (none: null)
  | setLen (n : Nat)                 -- script: a.length = n
  | del (i : Nat)                    -- script: delete a[i]
  | goTrunc (n : Nat)                -- Go: *p = (*p)[:n], n ≤ len   (the cells stay)
  | goReslice (n : Nat)              -- Go: *p = (*p)[:n], len < n ≤ cap (Go re-exposes its own cells)
  | goAppend (x : Val)               -- Go: append within capacity
  | goRealloc (c : Nat)              -- Go: make+copy with capacity c ≥ len
  | goWrite (i : Nat) (x : Option Val)
deriving DecidableEq, Repr

def GS.step (s : GS) : GOp → GS
  | .set i x => s.putIdx i x
  | .setLen n => s.setLen n
  | .del i => if i < s.len then { s with mem := updN s.mem i none } else s
  | .goTrunc n => if n ≤ s.len then { s with len := n } else s
  | .goReslice n => if s.len < n ∧ n ≤ s.cap then { s with len := n } else s
  | .goAppend x => if s.len < s.cap then { s with mem := updN s.mem s.len (some x), len := s.len + 1 } else s
  | .goRealloc c => if s.len ≤ c then { mem := fun i => if i < s.len then s.mem i else none, cap := c, len := s.len } else s
  | .goWrite i x => if i < s.len then { s with mem := updN s.mem i x } else s

def GS.run (s : GS) : List GOp → GS
  | [] => s
  | op :: ops => (s.step op).run ops

end GojaModel.C13
