/-
  C13 — composite and string parameters of the Go-func gateway (wrapReflectFunc, runtime.go:2027-2049):
  every script argument is converted with `r.toReflectValue(a, v, &objectExportCtx{})` — the typed traversal of
  ExportTo.lean with a FRESH identity cache per argument; a `string` parameter receives `v.String()` (the zero value for
  undefined / null).  Core Lean only.
-/
import GojaModel.C13.Gateway
import GojaModel.C13.ExportToLemmas

namespace GojaModel.C13

/-- toReflectValue into a `string` parameter, for the argument classes whose text this model fixes: integer Numbers
    (decimal), booleans, undefined / null (export type nil → zero value "").  `none`: a non-integral or special Number,
    whose text is the number-to-string algorithm (property C12). -/
def convArgStr : JArg → Option String
  | .num (.int i) => some (toString i)
  | .num (.flt _) => none
  | .bool b => some (if b then "true" else "false")
  | .undef => some ""
  | .null => some ""

/-- a struct-pointer / map / slice / interface{} parameter: the typed traversal, started with an empty cache -/
def gatewayArgT (js : Nat → JFields) (tys : Nat → TyDef) (asU : Nat → Nat → Bool) (fuel : Nat) (a : JVal) (ty : Ty) :
    TCtx × GVal :=
  expTo js tys asU fuel TCtx.empty a ty

/-- all arguments of one call: independent traversals (no identity cache is shared between parameters) -/
def gatewayArgsT (js : Nat → JFields) (tys : Nat → TyDef) (asU : Nat → Nat → Bool) (fuel : Nat) :
    List (JVal × Ty) → List (TCtx × GVal)
  | [] => []
  | (a, ty) :: rest => gatewayArgT js tys asU fuel a ty :: gatewayArgsT js tys asU fuel rest

theorem gatewayArgsT_length (js : Nat → JFields) (tys : Nat → TyDef) (asU : Nat → Nat → Bool) (fuel : Nat) :
    ∀ args, (gatewayArgsT js tys asU fuel args).length = args.length
  | [] => rfl
  | _ :: rest => by simp [gatewayArgsT, gatewayArgsT_length js tys asU fuel rest]

theorem gatewayArgsT_get (js : Nat → JFields) (tys : Nat → TyDef) (asU : Nat → Nat → Bool) (fuel : Nat) :
    ∀ (args : List (JVal × Ty)) (i : Nat) (a : JVal) (ty : Ty), args[i]? = some (a, ty) →
      (gatewayArgsT js tys asU fuel args)[i]? = some (gatewayArgT js tys asU fuel a ty)
  | [], i, _, _, h => by simp at h
  | (a0, t0) :: rest, 0, a, ty, h => by
    simp at h; obtain ⟨rfl, rfl⟩ := h; simp [gatewayArgsT]
  | (a0, t0) :: rest, i + 1, a, ty, h => by
    simp at h
    simp [gatewayArgsT, gatewayArgsT_get js tys asU fuel rest i a ty h]

end GojaModel.C13
