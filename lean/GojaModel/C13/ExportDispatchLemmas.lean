import GojaModel.C13.ExportDispatch

namespace GojaModel.C13

theorem genericSeq_doc (s : JSrc) (d : Dest) (hwf : s.WF) :
    (∀ l, (if s.hasIter then some s.iter
           else if !s.callable ∧ s.length.isSome then some (s.idx.take (s.length.getD 0)) else none) = some l →
        (fits d l.length = true → genericSeq s d = .seq l) ∧
        (fits d l.length = false → ∃ e, genericSeq s d = .err e ∧ e ≠ .notArrayOrIterable)) ∧
    ((if s.hasIter then some s.iter
      else if !s.callable ∧ s.length.isSome then some (s.idx.take (s.length.getD 0)) else none) = none →
        genericSeq s d = .err .notArrayOrIterable) := by
  unfold genericSeq
  by_cases hi : s.hasIter = true
  · simp only [hi, if_true]
    refine ⟨?_, by intro h; cases h⟩
    intro l hl
    cases hl
    constructor
    · intro hf; simp [hf]
    · intro hf; exact ⟨.lenIterable, by simp [hf], by decide⟩
  · simp only [hi, if_false, Bool.false_eq_true]
    cases hc : s.callable with
    | true =>
      simp only [hc, if_true]
      refine ⟨by intro l hl; simp at hl, fun _ => by simp⟩
    | false =>
      simp only [hc, Bool.false_eq_true, if_false]
      cases hlen : s.length with
      | none => refine ⟨by intro l hl; simp at hl, fun _ => by simp⟩
      | some n =>
        have hn := hwf.idxLen n hlen
        have htake : (s.idx.take n).length = n := by simp [List.length_take]; omega
        refine ⟨?_, by intro h; simp at h⟩
        intro l hl
        simp at hl
        subst hl
        rw [htake]
        constructor
        · intro hf; simp [hf]
        · intro hf; exact ⟨.lenArrayLike, by simp [hf], by decide⟩

/-- TYPED EXPORT INTO SLICES AND ARRAYS = THE DOCUMENTATION: for every well-formed source object and every slice / array
    / []byte destination, the container the per-class methods build holds exactly the documented elements in the
    documented order (Set: its elements; iterable — including an Array, whose iterator may be overridden —: the
    iteration results; array-like non-function: obj[0..length-1]); a Go array destination succeeds iff the lengths
    match; a bytes-backed object into []byte is a view of its buffer; everything else is "not an array or iterable". -/
theorem typed_export_seq_as_documented (s : JSrc) (d : Dest) (hwf : s.WF) (hd : d ≠ .map) :
    (∀ l, docSeqElems s d = some l →
        (fits d l.length = true → mech s d = .seq l) ∧
        (fits d l.length = false → ∃ e, mech s d = .err e ∧ e ≠ .notArrayOrIterable)) ∧
    (docSeqElems s d = none →
        (s.kind = .bytes ∧ d = .bytes → mech s d = .bytesView s.byteLen) ∧
        (¬ (s.kind = .bytes ∧ d = .bytes) → mech s d = .err .notArrayOrIterable)) := by
  have hmech : mech s d = mechSeq s d := by cases d <;> first | rfl | exact absurd rfl hd
  rw [hmech]
  -- the AssignableTo shortcut: an Array / Set into []interface{}
  by_cases hsc : d = .slice ∧ (s.kind = .array ∨ s.kind = .set)
  · have h1 : docSeqElems s d = some s.values := by
      rcases hsc with ⟨hd1, hk | hk⟩ <;> simp [docSeqElems, hd1, hk]
    have h2 : mechSeq s d = .seq s.values := by simp [mechSeq, hsc]
    have hf : ∀ n, fits d n = true := by intro n; rw [hsc.1]; rfl
    rw [h1, h2]
    refine ⟨?_, by intro h; cases h⟩
    intro l hl; cases hl
    exact ⟨fun _ => rfl, fun h => by rw [hf] at h; cases h⟩
  have hms : mechSeq s d = classSeq s d := by unfold mechSeq; rw [if_neg hsc]
  have hdoc : docSeqElems s d = (if s.kind = .set then some s.values
      else if s.kind = .bytes ∧ d = .bytes then none
      else if s.hasIter then some s.iter
      else if !s.callable ∧ s.length.isSome then some (s.idx.take (s.length.getD 0))
      else none) := by
    unfold docSeqElems
    rw [if_neg (fun h => hsc ⟨h.1, Or.inl h.2⟩)]
  have hg := genericSeq_doc s d hwf
  -- the generic case: documentation and mechanism both reduce to genericSeq
  have generic : docSeqElems s d = (if s.hasIter then some s.iter
        else if !s.callable ∧ s.length.isSome then some (s.idx.take (s.length.getD 0)) else none) →
      mechSeq s d = genericSeq s d → ¬ (s.kind = .bytes ∧ d = .bytes) →
      (∀ l, docSeqElems s d = some l →
        (fits d l.length = true → mechSeq s d = .seq l) ∧
        (fits d l.length = false → ∃ e, mechSeq s d = .err e ∧ e ≠ .notArrayOrIterable)) ∧
      (docSeqElems s d = none →
        (s.kind = .bytes ∧ d = .bytes → mechSeq s d = .bytesView s.byteLen) ∧
        (¬ (s.kind = .bytes ∧ d = .bytes) → mechSeq s d = .err .notArrayOrIterable)) := by
    intro h1 h2 h3
    rw [h1, h2]
    exact ⟨hg.1, fun hn => ⟨fun h => absurd h h3, fun _ => hg.2 hn⟩⟩
  cases hk : s.kind with
  | set =>
    have h1 : docSeqElems s d = some s.values := by rw [hdoc]; simp [hk]
    have h2 : mechSeq s d = if fits d s.values.length then .seq s.values else .err .lenSet := by rw [hms]; simp [classSeq, hk]
    rw [h1, h2]
    refine ⟨?_, by intro h; cases h⟩
    intro l hl; cases hl
    exact ⟨fun hf => by simp [hf], fun hf => ⟨.lenSet, by simp [hf], by decide⟩⟩
  | array =>
    cases hid : s.iterDefault with
    | true =>
      have ⟨hh1, hh2⟩ := hwf.arrIter hk hid
      have h1 : docSeqElems s d = some s.values := by rw [hdoc]; simp [hk, hh1, hh2]
      have h2 : mechSeq s d = if fits d s.values.length then .seq s.values else .err .lenArray := by
        rw [hms]; simp [classSeq, hk, hid]
      rw [h1, h2]
      refine ⟨?_, by intro h; cases h⟩
      intro l hl; cases hl
      exact ⟨fun hf => by simp [hf], fun hf => ⟨.lenArray, by simp [hf], by decide⟩⟩
    | false =>
      have := generic (by rw [hdoc]; simp [hk]) (by rw [hms]; simp [classSeq, hk, hid]) (by rw [hk]; intro h; cases h.1)
      rw [hk] at this; exact this
  | map =>
    have := generic (by rw [hdoc]; simp [hk]) (by rw [hms]; simp [classSeq, hk]) (by rw [hk]; intro h; cases h.1)
    rw [hk] at this; exact this
  | other =>
    have := generic (by rw [hdoc]; simp [hk]) (by rw [hms]; simp [classSeq, hk]) (by rw [hk]; intro h; cases h.1)
    rw [hk] at this; exact this
  | bytes =>
    by_cases hb : d = .bytes
    · subst hb
      have h1 : docSeqElems s .bytes = none := by rw [hdoc]; simp [hk]
      have h2 : mechSeq s .bytes = .bytesView s.byteLen := by rw [hms]; simp [classSeq, hk]
      rw [h1, h2]
      refine ⟨?_, fun _ => ⟨fun _ => rfl, fun h => absurd ⟨rfl, rfl⟩ h⟩⟩
      intro l hl; cases hl
    · have := generic (by rw [hdoc]; simp [hk, hb]) (by rw [hms]; simp [classSeq, hk, hb]) (by intro h; exact hb h.2)
      rw [hk] at this; exact this

/-- TYPED EXPORT INTO MAPS = THE DOCUMENTATION: a Map gives its entries, a Set its elements with zero values, every
    other object its own enumerable string-keyed properties. -/
theorem typed_export_map_as_documented (s : JSrc) : mech s .map = docMap s := by
  cases hk : s.kind <;> simp [mech, mechMap, docMap, hk]

/-- identity cache of the typed export methods (since 6fa4053, no exception): every implementation class, into every
    destination, enters the container it builds into the identity cache — "the same object, the same destination type
    ⇒ the same Go value" at the level of the dispatch. -/
theorem typed_export_identity_cached (k : SrcKind) (d : Dest) : cachesTyped k d = true := rfl

/-- the code before 6fa4053 agreed with the current one everywhere except a Set into a Go map type … -/
theorem cachesTypedOld_agrees (k : SrcKind) (d : Dest) (h : ¬ (k = .set ∧ d = .map)) :
    cachesTypedOld k d = cachesTyped k d := by
  cases k <;> cases d <;> first | rfl | exact absurd ⟨rfl, rfl⟩ h

/-- REGRESSION RECORD (before 6fa4053): a Set reached twice through a map-typed destination within one ExportTo
    (`var s = new Set([1]); [s, s]` into `[]map[interface{}]interface{}`) gave two different Go maps. -/
theorem set_into_map_not_cached_prefix_witness : cachesTypedOld .set .map = false := rfl

end GojaModel.C13
