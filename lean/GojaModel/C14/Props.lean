/-
  C14 — property theorems about the ErrFlow model (GojaModel.C14.Model).  Every theorem quantifies over ALL
  chains (any depth, any mix of the 18 frame kinds, any host entry); proofs are by induction on the chain
  (GojaModel.C14.Lemmas / Carry / CarryGo).  Only theorems (and labelled examples) live here.
-/
import GojaModel.C14.CarryGo

set_option linter.unusedVariables false

namespace GojaModel.C14

/-! ### identity_preserved -/

/-- A catchable payload `v` (thrown by script, or panicked as a Value by a native function) reaches the host as
an *Exception whose Value() is `v` itself — or, if the chain passes through promise jobs, as the rejection
reason `v` of the derived promise — unless a JS frame swallowed it; and every catch block on the way received
`v` itself.  `hu`: the only mechanism that replaces the value is wrapJSFunc's unwrapping of a Go error stored
in `v.value` (an ExportTo'd func with an error result: XFE frame or exported entry), so either `v` holds no Go
error or no such func is on the way (that case is covered by `goerror_unwrap_thrown`). -/
theorem identity_preserved (entry : Entry) (chain : List Frame) (p : Payload) (v : JsVal)
    (hp : p = .jsThrow v ∨ p = .natPanicVal v)
    (hsw : ∀ f ∈ chain, f.swallows = false)
    (hu : v.goErrValue = none ∨ (entry ≠ .exported ∧ ∀ f ∈ chain, f.unwraps = false)) :
    (Frame.pr ∉ chain → ∃ ex, (hostRun entry chain p).host = .err (.exc ex) ∧ ex.val = v ∧
        (hostRun entry chain p).rej = []) ∧
    (Frame.pr ∈ chain → (hostRun entry chain p).host = .ok ∧ (hostRun entry chain p).rej = [v]) ∧
    (∀ l ∈ (hostRun entry chain p).log, ∀ w, l.kind = .caught w → w = v) := by
  have hc : Carries v p.flow := by
    rcases hp with rfl | rfl <;> simp [Payload.flow, Carries]
  obtain ⟨h1, h2, h3⟩ := hostRun_carries entry chain p hc hsw hu
  refine ⟨h1, h2, ?_⟩
  intro l hl w hw
  rcases h3 l hl with h | h
  · rw [h] at hw; cases hw
  · rw [h] at hw; cases hw; rfl

/-- Even when some JS frame swallows the exception: what every catch block received is `v` itself. -/
theorem catch_receives_identity (entry : Entry) (chain : List Frame) (p : Payload) (v : JsVal)
    (hp : p = .jsThrow v ∨ p = .natPanicVal v)
    (hu : v.goErrValue = none ∨ ∀ f ∈ chain, f.unwraps = false) :
    ∀ l ∈ (hostRun entry chain p).log, ∀ w, l.kind = .caught w → w = v := by
  have hc : Carries v p.flow := by
    rcases hp with rfl | rfl <;> simp [Payload.flow, Carries]
  intro l hl w hw
  rcases hostRun_log_ok entry chain p hc hu l hl with h | h
  · rw [h] at hw; cases hw
  · rw [h] at hw; cases hw; rfl

/-! ### goerror_unwrap -/

/-- A Go error `e` returned by a reflect-wrapped native function: for every chain without a swallowing catch the
host is handed an error from which `e` is reached — errors.Is / errors.As on it give exactly what they give on
`e` (via Exception.Unwrap on the GoError wrapper, or `e` itself where an ExportTo'd func unwrapped it, or `e`
raw if it wraps an uncatchable error).  Through promise jobs: the rejection reason is a GoError holding `e`. -/
theorem goerror_unwrap (entry : Entry) (chain : List Frame) (e : GoErr)
    (hsw : ∀ f ∈ chain, f.swallows = false) :
    (Frame.pr ∉ chain → ∃ ev, (hostRun entry chain (.natReturn (some e))).host = .err ev ∧
        ev.carried = some e ∧ (∀ t, ev.errIs t = e.errIs t) ∧ ev.errAs = e.errAs) ∧
    (Frame.pr ∈ chain →
      ((hostRun entry chain (.natReturn (some e))).host = .ok ∧
        ∃ w, (hostRun entry chain (.natReturn (some e))).rej = [w] ∧ w.goErrValue = some e ∧
          w.isGoErrorInstance = true) ∨
      ((hostRun entry chain (.natReturn (some e))).host = .err (.go e) ∧ e.isUncatchable = true)) := by
  have hc : CarriesGo e (Payload.natReturn (some e)).flow := by
    by_cases hu : e.isUncatchable = true <;>
      simp [Payload.flow, wrapReflectErr, hu, CarriesGo, JsVal.wrapsGo, JsVal.goErrValue, JsVal.isGoErrorInstance]
  obtain ⟨h1, h2⟩ := hostRun_carriesGo entry chain _ hc hsw
  refine ⟨fun hn => ?_, h2⟩
  obtain ⟨ev, a, b⟩ := h1 hn
  exact ⟨ev, a, b, carried_errIs b, carried_errAs b⟩

/-- The same for a GoError object thrown by script (`throw g`) or panicked by a native function, with any number
of ExportTo'd funcs on the way: the wrapper object may be replaced, the Go error inside stays reachable. -/
theorem goerror_unwrap_thrown (entry : Entry) (chain : List Frame) (p : Payload) (g : JsVal) (e : GoErr)
    (hp : p = .jsThrow g ∨ p = .natPanicVal g)
    (hg : g.goErrValue = some e ∧ g.isGoErrorInstance = true)
    (hsw : ∀ f ∈ chain, f.swallows = false) (hn : Frame.pr ∉ chain) :
    ∃ ev, (hostRun entry chain p).host = .err ev ∧ ev.carried = some e ∧
      (∀ t, ev.errIs t = e.errIs t) ∧ ev.errAs = e.errAs := by
  have hc : CarriesGo e p.flow := by
    rcases hp with rfl | rfl <;> simpa [Payload.flow, CarriesGo, JsVal.wrapsGo] using hg
  obtain ⟨ev, a, b⟩ := (hostRun_carriesGo entry chain p hc hsw).1 hn
  exact ⟨ev, a, b, carried_errIs b, carried_errAs b⟩

/-! ### uncatchable_invisible -/

/-- An error that the classifier treats as uncatchable (InterruptedError, StackOverflowError, or an error whose
errors.Unwrap chain reaches one) is returned to the host as that very error, and NO catch block and NO finally
block of the chain observes it: the script-visible log is exactly what the segments before the throwing one log
when they complete normally (nothing at all when the chain has no promise-job frame). -/
theorem uncatchable_invisible (entry : Entry) (chain : List Frame) (p : Payload) (e : GoErr) (o : StackTop)
    (hp : p.flow = .panic (.goErr e) o) (he : e.isUncatchable = true) :
    (hostRun entry chain p).host = .err (.go e) ∧ (hostRun entry chain p).rej = [] ∧
    (hostRun entry chain p).log = normalLogs (allSegs chain).dropLast ∧
    (∀ l ∈ (hostRun entry chain p).log, l.kind = .fin) ∧
    (Frame.pr ∉ chain → (hostRun entry chain p).log = []) := by
  obtain ⟨h1, h2, h3⟩ := hostRun_unclassifiable entry chain p hp (x := .goErr e) rfl
  have hh : escapeHost (.goErr e) = .err (.go e) := by
    simp [escapeHost, recoverUncatchable, asUncatchableException, he, CallRes.toHost]
  refine ⟨by rw [h1, hh], h2, h3, ?_, ?_⟩
  · intro l hl; rw [h3] at hl; exact normalLogs_fin _ l hl
  · intro hn
    rw [h3]
    have := (splitSegs_snd_nil_iff chain 0).mpr hn
    simp [allSegs, this, normalLogs]

/-- Instances: a real interrupt, a real stack overflow, an uncatchable error returned or panicked by native code. -/
theorem uncatchable_invisible_interrupt (entry : Entry) (chain : List Frame) (id : Nat) (iface : GoErr) :
    (hostRun entry chain (.jsInterrupt id iface)).host = .err (.go (.interruptedE id iface)) ∧
    (∀ l ∈ (hostRun entry chain (.jsInterrupt id iface)).log, l.kind = .fin) ∧
    (Frame.pr ∉ chain → (hostRun entry chain (.jsInterrupt id iface)).log = []) := by
  obtain ⟨a, _, _, c, d⟩ := uncatchable_invisible entry chain (.jsInterrupt id iface) (.interruptedE id iface)
    .thrower rfl rfl
  exact ⟨a, c, d⟩

theorem uncatchable_invisible_stackOverflow (entry : Entry) (chain : List Frame) (id : Nat) :
    (hostRun entry chain (.jsStackOverflow id)).host = .err (.go (.stackOverflow id)) ∧
    (∀ l ∈ (hostRun entry chain (.jsStackOverflow id)).log, l.kind = .fin) ∧
    (Frame.pr ∉ chain → (hostRun entry chain (.jsStackOverflow id)).log = []) := by
  obtain ⟨a, _, _, c, d⟩ := uncatchable_invisible entry chain (.jsStackOverflow id) (.stackOverflow id)
    .thrower rfl rfl
  exact ⟨a, c, d⟩

theorem uncatchable_invisible_native (entry : Entry) (chain : List Frame) (e : GoErr) (p : Payload)
    (hp : p = .natReturn (some e) ∨ p = .natPanicErr e) (he : e.isUncatchable = true) :
    (hostRun entry chain p).host = .err (.go e) ∧
    (∀ l ∈ (hostRun entry chain p).log, l.kind = .fin) ∧
    (Frame.pr ∉ chain → (hostRun entry chain p).log = []) := by
  have hf : p.flow = .panic (.goErr e) .other := by
    rcases hp with rfl | rfl <;> simp [Payload.flow, wrapReflectErr, he]
  obtain ⟨a, _, _, c, d⟩ := uncatchable_invisible entry chain p e .other hf he
  exact ⟨a, c, d⟩

/-- `isUncatchableException` (errors.Unwrap loop) is sound for the spec-level notion "some error in the wrap
tree is an Interrupted/StackOverflow error" … -/
theorem isUncatchable_sound (e : GoErr) : e.isUncatchable = true → e.containsUncatchable = true := by
  induction e <;> simp_all [GoErr.isUncatchable, GoErr.containsUncatchable]

/-- … but not complete: an uncatchable error inside `errors.Join` is classified as an ordinary Go error, becomes
a catchable GoError, and a script catch block observes it (known finding C14 `joined-uncatchable-is-catchable`,
patch in fixes/).  Stated as the negation of the spec-level invisibility claim, on a concrete witness. -/
theorem uncatchable_join_observed_witness :
    ¬ (∀ (chain : List Frame) (e : GoErr), e.containsUncatchable = true →
        ∀ l ∈ (hostRun .runString chain (.natReturn (some e))).log, l.kind = .fin) := by
  intro h
  have := h [.js .jc] (.join 7 (.interrupted 5) (.plain 1)) (by decide) ⟨0, .caught (.freshGoError (.join 7 (.interrupted 5) (.plain 1)))⟩
    (by decide)
  cases this

/-- The spec-level claim restricted to what the code implements (no uncatchable error hidden behind a join on
the Unwrap path): `_partial` because of the witness above. -/
theorem uncatchable_invisible_spec_partial (entry : Entry) (chain : List Frame) (e : GoErr) (p : Payload)
    (hp : p = .natReturn (some e) ∨ p = .natPanicErr e)
    (hc : e.containsUncatchable = true) (hj : e.isUncatchable = e.containsUncatchable) :
    ∀ l ∈ (hostRun entry chain p).log, l.kind = .fin :=
  (uncatchable_invisible_native entry chain e p hp (by rw [hj]; exact hc)).2.1

/-! ### foreign_panic_passthrough -/

/-- A Go panic value that is neither a goja Value / *Exception / sentinel nor an uncatchable error (an arbitrary
Go value, a plain Go error, a runtime.Error) reaches the host as that very panic value, through every chain and
every entry; no catch and no finally block of the chain runs for it. -/
theorem foreign_panic_passthrough (entry : Entry) (chain : List Frame) (p : Payload) (x : Pv)
    (hp : (∃ id, p = .natPanicOther id ∧ x = .other id) ∨
          (∃ e, p = .natPanicErr e ∧ x = .goErr e ∧ e.isUncatchable = false) ∨
          (∃ id, p = .natRuntimeErr id ∧ x = .goErr (.runtimeErr id))) :
    (hostRun entry chain p).host = .panic x ∧ (hostRun entry chain p).rej = [] ∧
    (∀ l ∈ (hostRun entry chain p).log, l.kind = .fin) ∧
    (Frame.pr ∉ chain → (hostRun entry chain p).log = []) := by
  have hx : x.unclassifiable = true ∧ p.flow = .panic x .other ∧ escapeHost x = .panic x := by
    rcases hp with ⟨id, rfl, rfl⟩ | ⟨e, rfl, rfl, he⟩ | ⟨id, rfl, rfl⟩
    · exact ⟨rfl, rfl, rfl⟩
    · exact ⟨rfl, rfl, by simp [escapeHost, recoverUncatchable, asUncatchableException, he, CallRes.toHost]⟩
    · exact ⟨rfl, rfl, by simp [escapeHost, recoverUncatchable, asUncatchableException, GoErr.isUncatchable,
        CallRes.toHost]⟩
  obtain ⟨h1, h2, h3⟩ := hostRun_unclassifiable entry chain p hx.2.1 hx.1
  refine ⟨by rw [h1, hx.2.2], h2, ?_, ?_⟩
  · intro l hl; rw [h3] at hl; exact normalLogs_fin _ l hl
  · intro hn
    rw [h3]
    have := (splitSegs_snd_nil_iff chain 0).mpr hn
    simp [allSegs, this, normalLogs]

/-! ### classify_total -/

/-- The classifier used at every recover site (exceptionFromValue, then asUncatchableException) is a total
three-way partition of panic values, characterised by the dynamic type alone. -/
theorem classify_total (o : StackTop) (x : Pv) :
    ((∃ ex, classify o x = .catchable ex) ↔ (∃ v, x = .val v) ∨ (∃ ex, x = .exc ex) ∨ (∃ k, x = .sentinel k)) ∧
    ((∃ ev, classify o x = .uncatchable ev) ↔ ∃ e, x = .goErr e ∧ e.isUncatchable = true) ∧
    (classify o x = .foreign ↔ (∃ e, x = .goErr e ∧ e.isUncatchable = false) ∨ ∃ id, x = .other id) := by
  cases x with
  | val v => simp [classify, exceptionFromValue]
  | exc ex => simp [classify, exceptionFromValue]
  | sentinel k => simp [classify, exceptionFromValue]
  | other id => simp [classify, exceptionFromValue, asUncatchableException]
  | goErr e =>
    by_cases he : e.isUncatchable = true <;>
      simp [classify, exceptionFromValue, asUncatchableException, he]

/-- An *Exception is always classified as catchable with that very exception (same value, same stack), and a
Value as an exception with that very value: classification never replaces an identity. -/
theorem classify_preserves_identity (o : StackTop) :
    (∀ ex, classify o (.exc ex) = .catchable ex) ∧
    (∀ v, ∃ ex, classify o (.val v) = .catchable ex ∧ ex.val = v) := by
  constructor
  · intro ex; simp [classify, exceptionFromValue]
  · intro v; simp [classify, exceptionFromValue]

/-- All recover sites agree: RunProgram's (runTry + deferred recover) and runWrapped's (vm.try + deferred
recover) compute the same function, and a `__call` boundary in front of vm.try changes nothing. -/
theorem recover_sites_agree (fl : Flow) (a b : Bool) :
    runProgram fl = runWrapped fl ∧ callable a fl = callable b fl ∧ vmTry (jsCall fl) = vmTry fl :=
  ⟨runProgram_eq_runWrapped fl, callable_indep a b fl, vmTry_jsCall fl⟩

/-! ### stack_top_is_throw_site (partial) -/

/-- PARTIAL (top frame only, and only for the cases below): a value thrown by script that is not an Error object
with a non-empty own stack reaches the host, through any chain whose JS frames do not rethrow it, in an
*Exception whose stack top is the thrower's `throw` statement.  Missing w.r.t. the property text: the rest of
the stack; Error objects (their stack is the creation site, by design of `_throw`); values re-thrown by a catch
block (`throw e` captures a new stack at the rethrow site unless `e` is an Error object). -/
theorem stack_top_is_throw_site_partial (entry : Entry) (chain : List Frame) (v : JsVal)
    (hv : v.ownStack = none ∨ v.ownStack = some .empty)
    (hsw : ∀ f ∈ chain, f.swallows = false) (hr : ∀ f ∈ chain, f.rethrows = false)
    (hu : v.goErrValue = none ∨ (entry ≠ .exported ∧ ∀ f ∈ chain, f.unwraps = false))
    (hn : Frame.pr ∉ chain) :
    (hostRun entry chain (.jsThrow v)).host = .err (.exc ⟨v, .thrower⟩) := by
  have hex : throwExec .thrower v = ⟨v, .thrower⟩ := by
    rcases hv with h | h <;> simp [throwExec, h]
  have hp : Exact ⟨v, .thrower⟩ (Payload.jsThrow v).flow := by
    simp [Payload.flow, Exact, hex]
  exact hostRun_exact entry chain _ hp hsw hr hu hn

/-! ### Non-vacuity: the hypotheses are satisfiable by non-trivial chains (tests on literals, not proofs) -/

/-- depth-8 chain alternating JS frames with try/finally, rethrowing catch, and six native conventions. -/
example : let chain : List Frame := [.js .jrf, .fc, .js .jf, .rfe, .ct, .js .jr, .gt, .fo]
    (∀ f ∈ chain, f.swallows = false) ∧ Frame.pr ∉ chain ∧
    (hostRun .runString chain (.jsThrow (.obj 1))).host = .err (.exc ⟨.obj 1, .rethrow true⟩) ∧
    (hostRun .runString chain (.jsThrow (.obj 1))).log =
      [⟨5, .caught (.obj 1)⟩, ⟨2, .fin⟩, ⟨0, .caught (.obj 1)⟩, ⟨0, .fin⟩] := by decide

example : (hostRun .exported [.xfe, .js .jf, .pr, .rfe] (.natReturn (some (.wrap 3 (.custom 2))))).rej =
    [.freshGoError (.wrap 3 (.custom 2))] := by decide

example : (hostRun .callable [.js .jcf, .fc, .js .jcf] (.jsInterrupt 10 (.plain 9))).log = [] := by decide

end GojaModel.C14
