/-
  C14 — property theorems about the ErrFlow model (GojaModel.C14.Model).  Every theorem quantifies over ALL
  chains (any depth, any mix of the 25 frame kinds, any host entry); proofs are by induction on the chain
  (GojaModel.C14.Lemmas / Carry / CarryGo).  Only theorems (and labelled examples) live here.

  Frame predicates used in hypotheses (Model.lean):
    swallows  a catch without rethrow, or an async function (its promise is rejected with the value)
    unwraps   an ExportTo'd func with an error result (wrapJSFunc hands the Go caller the Go error in `.value`)
    rewraps   a native frame that returns fmt.Errorf("%w", err) (the value becomes a GoError around a wrapper)
    rethrows  a catch block with `throw e`, or a native frame doing panic(ex.Value()) (new *Exception, same value)
    isSplit   the rest of the chain runs as a promise job (Promise.then / `await`)
-/
import GojaModel.C14.Abort

set_option linter.unusedVariables false

namespace GojaModel.C14

/-! ### identity_preserved -/

/-- A catchable payload `v` (thrown by script, or panicked as a Value by a native function) reaches the host as
an *Exception whose Value() is `v` itself — or, if the chain passes through promise jobs, as the rejection
reason `v` — unless a frame swallowed it; every catch block on the way received `v` itself.  Native frames that
re-raise with `panic(ex.Value())`, generator bodies, for-of loops with open iterators are all allowed.
`hu`: the only mechanisms that replace the value are wrapJSFunc's unwrapping of a Go error stored in `v.value`
(covered by `goerror_unwrap_thrown`) and a native frame that wraps the error (`hrw`; covered by
`identity_reachable`). -/
theorem identity_preserved (entry : Entry) (chain : List Frame) (p : Payload) (v : JsVal)
    (hp : p = .jsThrow v ∨ p = .natPanicVal v)
    (hsw : ∀ f ∈ chain, f.swallows = false) (hrw : ∀ f ∈ chain, f.rewraps = false)
    (hu : v.goErrValue = none ∨ (entry ≠ .exported ∧ ∀ f ∈ chain, f.unwraps = false)) :
    (hasSplit chain = false → ∃ ex, (hostRun entry chain p).host = .err (.exc ex) ∧ ex.val = v ∧
        (hostRun entry chain p).rej = []) ∧
    (hasSplit chain = true → (hostRun entry chain p).host = .ok ∧ (hostRun entry chain p).rej = [v]) ∧
    (∀ l ∈ (hostRun entry chain p).log, ∀ w, l.kind = .caught w → w = v) := by
  have hc : Carries v p.flow := by
    rcases hp with rfl | rfl <;> simp [Payload.flow, Carries]
  obtain ⟨h1, h2, h3⟩ := hostRun_carries entry chain p hc hsw hrw hu
  refine ⟨h1, h2, ?_⟩
  intro l hl w hw
  rcases h3 l hl with h | h | h | h <;> rw [h] at hw <;> cases hw
  rfl

/-- Even when some frame swallows the exception: what every catch block received, and the reason every async
function's promise was rejected with, is `v` itself. -/
theorem catch_receives_identity (entry : Entry) (chain : List Frame) (p : Payload) (v : JsVal)
    (hp : p = .jsThrow v ∨ p = .natPanicVal v) (hrw : ∀ f ∈ chain, f.rewraps = false)
    (hu : v.goErrValue = none ∨ ∀ f ∈ chain, f.unwraps = false) :
    ∀ l ∈ (hostRun entry chain p).log, ∀ w, (l.kind = .caught w ∨ l.kind = .asyncReject w) → w = v := by
  have hc : Carries v p.flow := by
    rcases hp with rfl | rfl <;> simp [Payload.flow, Carries]
  intro l hl w hw
  rcases hostRun_log_ok3 entry chain p hc hrw hu l hl with h | h | h | h <;>
    rcases hw with hw | hw <;> rw [h] at hw <;> cases hw <;> rfl

/-- What the host receives (no job frame), whatever ends the propagation on the way — a swallowing catch, an async
function, a native frame that drops the error, or an UNCATCHABLE error raised while handleThrow closes an iterator for
the exception (it replaces the exception in flight; fix 404e270 makes handleThrow unwind for it): nothing, the thrown
value `v`, or an uncatchable error — never a different catchable value. -/
theorem identity_or_abort (entry : Entry) (chain : List Frame) (p : Payload) (v : JsVal)
    (hp : p = .jsThrow v ∨ p = .natPanicVal v) (hrw : ∀ f ∈ chain, f.rewraps = false)
    (hu : v.goErrValue = none ∨ (entry ≠ .exported ∧ ∀ f ∈ chain, f.unwraps = false))
    (hn : hasSplit chain = false) :
    (hostRun entry chain p).host = .ok ∨
    (∃ ex, (hostRun entry chain p).host = .err (.exc ex) ∧ ex.val = v) ∨
    (∃ e, (hostRun entry chain p).host = .err (.go e) ∧ e.isUncatchable = true) := by
  have hc : Carries v p.flow := by
    rcases hp with rfl | rfl <;> simp [Payload.flow, Carries]
  exact hostRun_identity_or_abort entry chain p hc hrw hu hn

/-- Regression lemma about `Runtime.ForOf` BEFORE fix 51964d9 (`iter.returnIter()` unguarded after the step
callback threw): an exception thrown by the iterator's return() replaced the original one.  (Now the `fot` frame
is an ordinary non-swallowing frame of `identity_preserved`.) -/
theorem forof_return_replaces_exception_prefix_witness :
    ¬ (∀ (v : JsVal) (ex : Exc) (o : StackTop),
        (fotPrefix 0 true (.panic (.exc ⟨v, .thrower⟩) .thrower)).1 = .panic (.exc ex) o → ex.val = v) := by
  intro h
  have := h (.obj 1) ⟨.freshErr .error .other, .other⟩ .other (by decide)
  revert this
  decide

/-- Native frames that wrap the error (`fmt.Errorf("%w", err)`) allowed, any number, mixed with everything else:
the host's error still reaches, by repeated errors.Unwrap, an *Exception whose Value() is `v`. -/
theorem identity_reachable (entry : Entry) (chain : List Frame) (p : Payload) (v : JsVal)
    (hp : p = .jsThrow v ∨ p = .natPanicVal v)
    (hsw : ∀ f ∈ chain, f.swallows = false)
    (hu : v.goErrValue = none ∨ (entry ≠ .exported ∧ ∀ f ∈ chain, f.unwraps = false))
    (hn : hasSplit chain = false) :
    ∃ ev, (hostRun entry chain p).host = .err ev ∧ v ∈ ev.excVals := by
  have hc : Carries v p.flow := by
    rcases hp with rfl | rfl <;> simp [Payload.flow, Carries]
  exact hostRun_reaches entry chain p hc hsw hu hn

/-! ### goerror_unwrap -/

/-- A Go error `e` returned by a reflect-wrapped native function: for every chain without a swallowing frame the
host is handed an error that carries a Go error `e'` which reaches `e` by errors.Unwrap (`e' = e` unless a native
frame wrapped it on the way): errors.Is that holds for `e` holds for the host's error; without wrapping frames
errors.Is / errors.As give exactly what they give on `e`.  Through promise jobs: the rejection reason is a GoError
holding `e'` (or the host gets `e'` raw if it is uncatchable). -/
theorem goerror_unwrap (entry : Entry) (chain : List Frame) (e : GoErr)
    (hsw : ∀ f ∈ chain, f.swallows = false) :
    ∃ e', e'.chainHas e = true ∧ ((∀ f ∈ chain, f.rewraps = false) → e' = e) ∧
    (hasSplit chain = false → ∃ ev, (hostRun entry chain (.natReturn (some e))).host = .err ev ∧
        ev.carried = some e' ∧ (∀ t, e.errIs t = true → ev.errIs t = true) ∧
        ((∀ f ∈ chain, f.rewraps = false) → (∀ t, ev.errIs t = e.errIs t) ∧ ev.errAs = e.errAs)) ∧
    (hasSplit chain = true →
      ((hostRun entry chain (.natReturn (some e))).host = .ok ∧
        ∃ w, (hostRun entry chain (.natReturn (some e))).rej = [w] ∧ w.goErrValue = some e' ∧
          w.isGoErrorInstance = true) ∨
      ((hostRun entry chain (.natReturn (some e))).host = .err (.go e') ∧ e'.isUncatchable = true)) := by
  have hc : CarriesGo e (Payload.natReturn (some e)).flow := by
    by_cases hu : e.isUncatchable = true <;>
      simp [Payload.flow, wrapReflectErr, hu, CarriesGo, JsVal.wrapsGo, JsVal.goErrValue, JsVal.isGoErrorInstance,
        JsVal.key, JsKey.isGoErrorInstance]
  obtain ⟨e', t1, r1, h1, h2⟩ := hostRun_carriesGo entry chain _ hc hsw
  refine ⟨e', t1, r1, fun hn => ?_, h2⟩
  obtain ⟨ev, a, b⟩ := h1 hn
  refine ⟨ev, a, b, ?_, ?_⟩
  · intro t ht
    rw [carried_errIs b]
    exact GoErr.chainHas_errIs t1 t ht
  · intro hrw
    have := r1 hrw
    subst this
    exact ⟨carried_errIs b, carried_errAs b⟩

/-- The same for a GoError object thrown by script (`throw g`) or panicked by a native function, with any number
of ExportTo'd funcs / wrapping frames on the way: the wrapper object may be replaced, the Go error stays
reachable. -/
theorem goerror_unwrap_thrown (entry : Entry) (chain : List Frame) (p : Payload) (g : JsVal) (e : GoErr)
    (hp : p = .jsThrow g ∨ p = .natPanicVal g)
    (hg : g.goErrValue = some e ∧ g.isGoErrorInstance = true)
    (hsw : ∀ f ∈ chain, f.swallows = false) (hn : hasSplit chain = false) :
    ∃ ev, (hostRun entry chain p).host = .err ev ∧ (∀ t, e.errIs t = true → ev.errIs t = true) ∧
      ((∀ f ∈ chain, f.rewraps = false) → ev.carried = some e ∧ (∀ t, ev.errIs t = e.errIs t) ∧ ev.errAs = e.errAs) := by
  have hc : CarriesGo e p.flow := by
    rcases hp with rfl | rfl <;> simpa [Payload.flow, CarriesGo, JsVal.wrapsGo] using hg
  obtain ⟨e', t1, r1, h1, _⟩ := hostRun_carriesGo entry chain p hc hsw
  obtain ⟨ev, a, b⟩ := h1 hn
  refine ⟨ev, a, ?_, ?_⟩
  · intro t ht
    rw [carried_errIs b]
    exact GoErr.chainHas_errIs t1 t ht
  · intro hrw
    have := r1 hrw
    subst this
    exact ⟨b, carried_errIs b, carried_errAs b⟩

/-! ### uncatchable_invisible -/

/-- The classifier (`errors.As` over the whole wrap tree, joins included) equals the spec-level notion "some error
in the wrap tree is an Interrupted/StackOverflow error". -/
theorem isUncatchable_eq_spec (e : GoErr) : e.isUncatchable = e.containsUncatchable := by
  induction e <;> simp_all [GoErr.isUncatchable, GoErr.containsUncatchable]

/-- An uncatchable error is returned to the host as that very error (wrapped once more per wrapping native frame
it passed: `e'.peel = e.peel`; exactly `e` if the chain has no such frame), and NO catch block, NO finally block
and NO iterator return() method of the chain observes it: the script-visible log is exactly what the segments
before the throwing one log when they complete normally (nothing at all without a job frame). -/
theorem uncatchable_invisible (entry : Entry) (chain : List Frame) (p : Payload) (e : GoErr) (o : StackTop)
    (hp : p.flow = .panic (.goErr e) o) (he : e.isUncatchable = true)
    (hd : ∀ f ∈ chain, f.dropsErrors = false) :
    ∃ e', (hostRun entry chain p).host = .err (.go e') ∧ e'.peel = e.peel ∧ e'.isUncatchable = true ∧
    ((∀ f ∈ chain, f.rewraps = false) → e' = e) ∧
    (hostRun entry chain p).rej = [] ∧
    (hostRun entry chain p).log = normalLogs (allSegs chain).dropLast ∧
    (∀ l ∈ (hostRun entry chain p).log, l.kind = .fin) ∧
    (hasSplit chain = false → (hostRun entry chain p).log = []) := by
  obtain ⟨x', hu, hr, h1, h2, h3⟩ := hostRun_unclassifiable entry chain p hp (x := .goErr e) rfl
    (Or.inl (allSegs_frames (P := fun f => f.dropsErrors = false) chain hd))
  obtain ⟨hu1, hu2, _⟩ := hu
  cases x' with
  | goErr e' =>
    have hpe : e'.peel = e.peel := by simpa [Pv.peel] using hu2
    have hue : e'.isUncatchable = true := by
      rw [← GoErr.isUncatchable_peel, hpe, GoErr.isUncatchable_peel]; exact he
    have hh : escapeHost (.goErr e') = .err (.go e') := by
      simp [escapeHost, recoverUncatchable, asUncatchableException, hue, CallRes.toHost]
    refine ⟨e', by rw [h1, hh], hpe, hue, ?_, h2, h3, ?_, ?_⟩
    · intro hrw
      have := hr (allSegs_frames (P := fun f => f.rewraps = false) chain hrw)
      cases this; rfl
    · intro l hl; rw [h3] at hl; exact normalLogs_fin _ l hl
    · intro hn
      rw [h3]
      have := (splitSegs_snd_nil_iff chain 0).mpr hn
      simp [allSegs, this, normalLogs]
  | val w => simp [Pv.peel] at hu2
  | exc ex => simp [Pv.peel] at hu2
  | sentinel k => simp [Pv.peel] at hu2
  | other n => simp [Pv.peel] at hu2

/-- Instances: a real interrupt, a real stack overflow, an uncatchable error returned or panicked by native code. -/
theorem uncatchable_invisible_interrupt (entry : Entry) (chain : List Frame) (id : Nat) (iface : GoErr)
    (hd : ∀ f ∈ chain, f.dropsErrors = false) :
    (∃ e', (hostRun entry chain (.jsInterrupt id iface)).host = .err (.go e') ∧
      e'.peel = (GoErr.interruptedE id iface).peel) ∧
    (∀ l ∈ (hostRun entry chain (.jsInterrupt id iface)).log, l.kind = .fin) ∧
    (hasSplit chain = false → (hostRun entry chain (.jsInterrupt id iface)).log = []) := by
  obtain ⟨e', a, b, _, _, _, _, c, d⟩ := uncatchable_invisible entry chain (.jsInterrupt id iface)
    (.interruptedE id iface) .thrower rfl rfl hd
  exact ⟨⟨e', a, b⟩, c, d⟩

theorem uncatchable_invisible_stackOverflow (entry : Entry) (chain : List Frame) (id : Nat)
    (hd : ∀ f ∈ chain, f.dropsErrors = false) :
    (∃ e', (hostRun entry chain (.jsStackOverflow id)).host = .err (.go e') ∧
      e'.peel = (GoErr.stackOverflow id).peel) ∧
    (∀ l ∈ (hostRun entry chain (.jsStackOverflow id)).log, l.kind = .fin) ∧
    (hasSplit chain = false → (hostRun entry chain (.jsStackOverflow id)).log = []) := by
  obtain ⟨e', a, b, _, _, _, _, c, d⟩ := uncatchable_invisible entry chain (.jsStackOverflow id)
    (.stackOverflow id) .thrower rfl rfl hd
  exact ⟨⟨e', a, b⟩, c, d⟩

/-- UNCONDITIONAL (every chain, every entry, also through native frames that drop the error they got): no catch block,
no async rejection and no iterator return() ever observes an uncatchable error; the only log entries are finally
blocks of frames that completed NORMALLY (before a job frame, or outside a native frame that dropped the error). -/
theorem uncatchable_never_observed (entry : Entry) (chain : List Frame) (p : Payload) (e : GoErr) (o : StackTop)
    (hp : p.flow = .panic (.goErr e) o) (he : e.isUncatchable = true) :
    ∀ l ∈ (hostRun entry chain p).log, l.kind = .fin :=
  hostRun_quiet entry chain p (by rw [hp]; exact he)

/-- The interrupt flag is sticky: even a native frame that DROPS the error it got from the Callable (and any
number of them, anywhere in the chain) cannot hide a real interrupt from a host that entered through RunProgram:
vm.run raises it again at the next script instruction.  The host gets an error carrying the *InterruptedError, and
no catch, finally or iterator return() of the chain runs. -/
theorem interrupt_cannot_be_swallowed (chain : List Frame) (id : Nat) (iface : GoErr)
    (hn : hasSplit chain = false) :
    ∃ e', (hostRun .runString chain (.jsInterrupt id iface)).host = .err (.go e') ∧
      e'.liveInterrupt = some (.interruptedE id iface) ∧
      (hostRun .runString chain (.jsInterrupt id iface)).log = [] ∧
      (hostRun .runString chain (.jsInterrupt id iface)).rej = [] := by
  have hi : (GoErr.interruptedE id iface).liveInterrupt = some (.interruptedE id iface) ∧
      (GoErr.interruptedE id iface).isUncatchable = true := ⟨rfl, rfl⟩
  have hpr := (splitSegs_snd_nil_iff chain 0).mpr hn
  simp only [hostRun]
  generalize splitSegs (indexed 0 chain) = sg at *
  obtain ⟨s0, ss⟩ := sg
  simp only at hpr
  subst hpr
  have hl : Live (.interruptedE id iface) (Payload.jsInterrupt id iface).flow := by
    simp [Payload.flow, Live, GoErr.liveInterrupt, GoErr.isUncatchable]
  obtain ⟨c1, c2⟩ := evalSeg_live s0 (Payload.jsInterrupt id iface).isJS hi hl
  simp only [hostRunSegs, segInner, List.isEmpty_nil, ↓reduceIte, c2]
  generalize (evalSeg s0 (Payload.jsInterrupt id iface).flow (Payload.jsInterrupt id iface).isJS).1 = fl at c1
  cases fl with
  | normal => simp [Live] at c1
  | pending e =>
    have : e = .interruptedE id iface := c1
    subst this
    refine ⟨.interruptedE id iface, ?_, rfl, ?_, ?_⟩ <;>
      simp [firstCall, runProgram, runProgram.handleThrowOpt, recoverUncatchable, asUncatchableException,
        GoErr.isUncatchable, ranLeave, finish, CallRes.toHost]
  | panic x o =>
    cases x with
    | goErr e =>
      obtain ⟨hl', hu⟩ := c1
      refine ⟨e, ?_, hl', ?_, ?_⟩ <;>
        simp [firstCall, runProgram, runProgram.handleThrowOpt, handleThrow, handleThrowLoop, exceptionFromValue,
          recoverUncatchable, asUncatchableException, hu, ranLeave, finish, CallRes.toHost]
    | val w => simp [Live] at c1
    | exc ex => simp [Live] at c1
    | sentinel k => simp [Live] at c1
    | other n => simp [Live] at c1

/-- Full strength, spec-level: ANY Go error whose wrap tree (fmt.Errorf %w, errors.Join, a wrapped *Exception
holding a GoError) contains an Interrupted/StackOverflow error, returned or panicked by a native function, is
handed to the host as an error and is observed by no catch / finally / iterator return() of the chain. -/
theorem uncatchable_invisible_spec (entry : Entry) (chain : List Frame) (e : GoErr) (p : Payload)
    (hp : p = .natReturn (some e) ∨ p = .natPanicErr e) (hc : e.containsUncatchable = true)
    (hd : ∀ f ∈ chain, f.dropsErrors = false) :
    (∃ e', (hostRun entry chain p).host = .err (.go e') ∧ e'.peel = e.peel) ∧
    (∀ l ∈ (hostRun entry chain p).log, l.kind = .fin) ∧
    (hasSplit chain = false → (hostRun entry chain p).log = []) := by
  have he : e.isUncatchable = true := by rw [isUncatchable_eq_spec]; exact hc
  have hf : p.flow = .panic (.goErr e) .other := by
    rcases hp with rfl | rfl <;> simp [Payload.flow, wrapReflectErr, he]
  obtain ⟨e', a, b, _, _, _, _, c, d⟩ := uncatchable_invisible entry chain p e .other hf he hd
  exact ⟨⟨e', a, b⟩, c, d⟩

/-- Regression lemma about the classifier BEFORE fix cbcbe34 (an `errors.Unwrap` loop): it missed an uncatchable
error inside `errors.Join`, which therefore became a catchable GoError. -/
theorem uncatchable_join_observed_prefix_witness :
    ¬ (∀ e : GoErr, e.containsUncatchable = true → e.isUncatchableUnwrapLoop = true) := by
  intro h
  have := h (.join 7 (.interrupted 5) (.plain 1)) (by decide)
  revert this
  decide

/-! ### foreign_panic_passthrough -/

/-- A Go panic value that is neither a goja Value / *Exception / sentinel nor an uncatchable error (an arbitrary
Go value, a plain Go error, a runtime.Error) reaches the host as that very panic value, through every chain and
every entry (no frame wraps or replaces it — also not a native frame that swallows the ERRORS it gets: a panic is
not an error value); no catch, finally or iterator return() of the chain runs for it. -/
theorem foreign_panic_passthrough (entry : Entry) (chain : List Frame) (p : Payload) (x : Pv)
    (hp : (∃ id, p = .natPanicOther id ∧ x = .other id) ∨
          (∃ e, p = .natPanicErr e ∧ x = .goErr e ∧ e.isUncatchable = false) ∨
          (∃ id, p = .natRuntimeErr id ∧ x = .goErr (.runtimeErr id))) :
    (hostRun entry chain p).host = .panic x ∧ (hostRun entry chain p).rej = [] ∧
    (∀ l ∈ (hostRun entry chain p).log, l.kind = .fin) ∧
    (hasSplit chain = false → (hostRun entry chain p).log = []) := by
  have hx : x.unclassifiable = true ∧ p.flow = .panic x .other ∧ escapeHost x = .panic x ∧
      asUncatchableException x = none := by
    rcases hp with ⟨id, rfl, rfl⟩ | ⟨e, rfl, rfl, he⟩ | ⟨id, rfl, rfl⟩
    · exact ⟨rfl, rfl, rfl, rfl⟩
    · exact ⟨rfl, rfl, by simp [escapeHost, recoverUncatchable, asUncatchableException, he, CallRes.toHost],
        by simp [asUncatchableException, he]⟩
    · exact ⟨rfl, rfl, by simp [escapeHost, recoverUncatchable, asUncatchableException, GoErr.isUncatchable,
        CallRes.toHost], by simp [asUncatchableException, GoErr.isUncatchable]⟩
  obtain ⟨x', hu, _, h1, h2, h3⟩ := hostRun_unclassifiable entry chain p hx.2.1 hx.1 (Or.inr hx.2.2.2)
  have hxx : x' = x := hu.2.2 hx.2.2.2
  subst hxx
  refine ⟨by rw [h1, hx.2.2.1], h2, ?_, ?_⟩
  · intro l hl; rw [h3] at hl; exact normalLogs_fin _ l hl
  · intro hn
    rw [h3]
    have := (splitSegs_snd_nil_iff chain 0).mpr hn
    simp [allSegs, this, normalLogs]

/-! ### classify_total -/

/-- The classifier used at every recover site (exceptionFromValue, then asUncatchableException) is a total
three-way partition of panic values, characterised by the dynamic type alone. -/
theorem classify_total (o : StackTop) (x : Pv) :
    ((∃ ex, classify o x = .catchable ex) ↔ (∃ v, x = .val v) ∨ (∃ ex, x = .exc ex) ∨ (∃ k, x = .sentinel k)) ∧
    ((∃ ev, classify o x = .uncatchable ev) ↔ ∃ e, x = .goErr e ∧ e.isUncatchable = true) ∧
    (classify o x = .foreign ↔ (∃ e, x = .goErr e ∧ e.isUncatchable = false) ∨ ∃ id, x = .other id) := by
  cases x with
  | val v => simp [classify, exceptionFromValue]
  | exc ex => simp [classify, exceptionFromValue]
  | sentinel k => simp [classify, exceptionFromValue]
  | other id => simp [classify, exceptionFromValue, asUncatchableException]
  | goErr e =>
    by_cases he : e.isUncatchable = true <;>
      simp [classify, exceptionFromValue, asUncatchableException, he]

/-- An *Exception is always classified as catchable with that very exception (same value, same stack), and a
Value as an exception with that very value: classification never replaces an identity. -/
theorem classify_preserves_identity (o : StackTop) :
    (∀ ex, classify o (.exc ex) = .catchable ex) ∧
    (∀ v, ∃ ex, classify o (.val v) = .catchable ex ∧ ex.val = v) := by
  constructor
  · intro ex; simp [classify, exceptionFromValue]
  · intro v; simp [classify, exceptionFromValue]

/-- All recover sites agree: RunProgram's (runTry + deferred recover) and runWrapped's (vm.try + deferred
recover) compute the same function, and a `__call` boundary in front of vm.try changes nothing. -/
theorem recover_sites_agree (fl : Flow) (a b : Bool) :
    runProgram fl = runWrapped fl ∧ callable a fl = callable b fl ∧ vmTry (jsCall fl) = vmTry fl :=
  ⟨runProgram_eq_runWrapped fl, callable_indep a b fl, vmTry_jsCall fl⟩

/-! ### stack_top_is_throw_site -/

/-- `lastRaise` (defined frame by frame) is what its name says: the top is decided by the OUTERMOST frame that
raises the value anew — a catch block with `throw e` (top = that `throw e` statement, unless `v` is an Error
object with a non-empty own stack), a native `panic(ex.Value())` (top = native position / the Error object's own
stack) or `g.throw(e)` into a suspended generator (top = the generator's yield / the own stack) — and by the innermost
raise (`init`) if there is no such frame. -/
theorem lastRaise_outermost (v : JsVal) (init : StackTop) (s : Seg) :
    lastRaise v init s =
      match s.find? (fun q => q.2.rethrows) with
      | none => init
      | some (i, .fcv) => nativeTop v
      | some (i, .jgt) => genThrowTop i v
      | some (i, _) => (throwExec (.rethrow i) v).top := by
  induction s with
  | nil => rfl
  | cons hd tl ih =>
    obtain ⟨i, f⟩ := hd
    cases f with
    | js k => cases k <;> simp [lastRaise, stepTop, Frame.rethrows, JsKind.rethrows, List.find?, ih]
    | _ => simp [lastRaise, stepTop, Frame.rethrows, List.find?, ih]

/-- FULL STRENGTH (top frame, which is what the property text speaks of): for `throw v` by script and for a native
`panic(v)`, through EVERY chain that lets the value through (no swallowing / wrapping frame; ExportTo'd funcs only
if `v` holds no Go error), whatever frames re-throw it on the way, the host's *Exception has value `v` and its
stack top is the LAST RAISE SITE: the outermost re-raising frame's site, else the thrower's site. -/
theorem stack_top_eq_last_raise_site (entry : Entry) (chain : List Frame) (p : Payload) (v : JsVal)
    (hsw : ∀ f ∈ chain, f.swallows = false) (hrw : ∀ f ∈ chain, f.rewraps = false)
    (hu : v.goErrValue = none ∨ (entry ≠ .exported ∧ ∀ f ∈ chain, f.unwraps = false))
    (hn : hasSplit chain = false) :
    (p = .jsThrow v → (hostRun entry chain p).host =
        .err (.exc ⟨v, lastRaise v (throwExec .thrower v).top (indexed 0 chain)⟩)) ∧
    (p = .natPanicVal v → (hostRun entry chain p).host =
        .err (.exc ⟨v, lastRaise v (nativeTop v) (indexed 0 chain)⟩)) := by
  constructor
  · rintro rfl
    exact hostRun_topIs entry chain _ (v := v) (t := (throwExec .thrower v).top)
      (by simp [Payload.flow, TopIs, throwExec]) hsw hrw hu hn
  · rintro rfl
    exact hostRun_topIs entry chain _ (v := v) (t := nativeTop v)
      (by simp [Payload.flow, TopIs]) hsw hrw hu hn

/-- Script `throw v`, nobody re-raises: the top is the `throw` statement — for every value that is not an Error
object carrying a non-empty creation stack; in particular for an Error / GoError object the HOST created outside any
running code (own stack allocated but empty: the class of seeded change C14-m4). -/
theorem stack_top_is_throw_site (entry : Entry) (chain : List Frame) (v : JsVal)
    (hv : v.ownStack = none ∨ v.ownStack = some .empty)
    (hsw : ∀ f ∈ chain, f.swallows = false) (hr : ∀ f ∈ chain, f.rethrows = false)
    (hrw : ∀ f ∈ chain, f.rewraps = false)
    (hu : v.goErrValue = none ∨ (entry ≠ .exported ∧ ∀ f ∈ chain, f.unwraps = false))
    (hn : hasSplit chain = false) :
    (hostRun entry chain (.jsThrow v)).host = .err (.exc ⟨v, .thrower⟩) := by
  have hex : throwExec .thrower v = ⟨v, .thrower⟩ := by
    rcases hv with h | h <;> simp [throwExec, h]
  have hp : Exact ⟨v, .thrower⟩ (Payload.jsThrow v).flow := by
    simp [Payload.flow, Exact, hex]
  exact hostRun_exact entry chain _ hp hsw hr hrw hu hn

/-- Re-thrown values: if the outermost re-raising frame is a catch block with `throw e` at frame index `i`, the top is
that `throw e` statement (same class of values). -/
theorem stack_top_is_outermost_rethrow_site (entry : Entry) (chain : List Frame) (p : Payload) (v : JsVal)
    (i : Nat) (k : JsKind)
    (hp : p = .jsThrow v ∨ p = .natPanicVal v)
    (hv : v.ownStack = none ∨ v.ownStack = some .empty)
    (hfind : (indexed 0 chain).find? (fun q => q.2.rethrows) = some (i, .js k))
    (hsw : ∀ f ∈ chain, f.swallows = false) (hrw : ∀ f ∈ chain, f.rewraps = false)
    (hu : v.goErrValue = none ∨ (entry ≠ .exported ∧ ∀ f ∈ chain, f.unwraps = false))
    (hn : hasSplit chain = false) :
    (hostRun entry chain p).host = .err (.exc ⟨v, .rethrow i⟩) := by
  have hte : (throwExec (.rethrow i) v).top = .rethrow i := by
    rcases hv with h | h <;> simp [throwExec, h]
  obtain ⟨h1, h2⟩ := stack_top_eq_last_raise_site entry chain p v hsw hrw hu hn
  rcases hp with rfl | rfl
  · rw [h1 rfl, lastRaise_outermost, hfind]; simp [hte]
  · rw [h2 rfl, lastRaise_outermost, hfind]; simp [hte]

/-- Error objects made by running code carry their creation stack: whoever re-throws them (script `throw e`, native
`panic(ex.Value())`) and however often, the top stays the Error object's own stack top. -/
theorem stack_top_of_error_object_is_own_stack (entry : Entry) (chain : List Frame) (p : Payload) (v : JsVal)
    (s : StackTop) (hp : p = .jsThrow v ∨ p = .natPanicVal v)
    (hv : v.ownStack = some s) (hs : s ≠ .empty)
    (hsw : ∀ f ∈ chain, f.swallows = false) (hrw : ∀ f ∈ chain, f.rewraps = false)
    (hu : v.goErrValue = none ∨ (entry ≠ .exported ∧ ∀ f ∈ chain, f.unwraps = false))
    (hn : hasSplit chain = false) :
    (hostRun entry chain p).host = .err (.exc ⟨v, s⟩) := by
  have hte : ∀ site, (throwExec site v).top = s := by
    intro site; cases s <;> simp_all [throwExec]
  have hnt : nativeTop v = s := by simp [nativeTop, hv]
  have hgt : ∀ i, genThrowTop i v = s := by intro i; simp [genThrowTop, hv]
  have hl : ∀ sg : Seg, lastRaise v s sg = s := by
    intro sg
    induction sg with
    | nil => rfl
    | cons hd tl ih =>
      obtain ⟨i, f⟩ := hd
      cases f with
      | js k => cases k <;> simp [lastRaise, stepTop, JsKind.rethrows, ih, hte]
      | _ => simp [lastRaise, stepTop, ih, hnt, hgt]
  obtain ⟨h1, h2⟩ := stack_top_eq_last_raise_site entry chain p v hsw hrw hu hn
  rcases hp with rfl | rfl
  · rw [h1 rfl, hte, hl]
  · rw [h2 rfl, hnt, hl]

/-- Native panics: `panic(v)` in a native function, nobody re-raises by `throw e`: the top is a native position
(class `other`) for a value without own stack (`hr`: the only re-raising frames are native `panic(ex.Value())` ones). -/
theorem stack_top_of_native_panic (entry : Entry) (chain : List Frame) (v : JsVal)
    (hv : v.ownStack = none)
    (hsw : ∀ f ∈ chain, f.swallows = false) (hrw : ∀ f ∈ chain, f.rewraps = false)
    (hr : ∀ f ∈ chain, f.rethrows = true → f = .fcv)
    (hu : v.goErrValue = none ∨ (entry ≠ .exported ∧ ∀ f ∈ chain, f.unwraps = false))
    (hn : hasSplit chain = false) :
    (hostRun entry chain (.natPanicVal v)).host = .err (.exc ⟨v, .other⟩) := by
  have hnt : nativeTop v = .other := by simp [nativeTop, hv]
  have hl : ∀ (j : Nat) (fs : List Frame), (∀ f ∈ fs, f.rethrows = true → f = .fcv) →
      lastRaise v .other (indexed j fs) = .other := by
    intro j fs
    induction fs generalizing j with
    | nil => intro _; rfl
    | cons f tl ih =>
      intro h
      have ih' := ih (j + 1) (fun g hg => h g (List.mem_cons_of_mem _ hg))
      cases f with
      | js k =>
        have : k.rethrows = false := by
          cases hk : k.rethrows with
          | false => rfl
          | true => have := h (.js k) (List.mem_cons_self ..) (by simp [Frame.rethrows, hk]); cases this
        simp [indexed, lastRaise, stepTop, this, ih']
      | jgt => have := h .jgt (List.mem_cons_self ..) rfl; cases this
      | _ => simp [indexed, lastRaise, stepTop, ih', hnt]
  rw [(stack_top_eq_last_raise_site entry chain _ v hsw hrw hu hn).2 rfl, hnt, hl 0 chain hr]

/-! ### Runtime.Try as the host's entry -/

/-- Through Runtime.Try the host gets the very *Exception: value `v`, top = last raise site (every chain that lets the
value through, no job frame). -/
theorem try_entry_exception (chain : List Frame) (p : Payload) (v : JsVal)
    (hsw : ∀ f ∈ chain, f.swallows = false) (hrw : ∀ f ∈ chain, f.rewraps = false)
    (hu : v.goErrValue = none ∨ ∀ f ∈ chain, f.unwraps = false)
    (hn : hasSplit chain = false) :
    (p = .jsThrow v → (hostRunTry chain p).host =
        .err (.exc ⟨v, lastRaise v (throwExec .thrower v).top (indexed 0 chain)⟩)) ∧
    (p = .natPanicVal v → (hostRunTry chain p).host =
        .err (.exc ⟨v, lastRaise v (nativeTop v) (indexed 0 chain)⟩)) := by
  have key : ∀ t, TopIs v t p.flow → (hostRunTry chain p).host = .err (.exc ⟨v, lastRaise v t (indexed 0 chain)⟩) := by
    intro t hp
    have hpr := (splitSegs_snd_nil_iff chain 0).mpr hn
    have hfst := splitSegs_fst_of_nosplit chain 0 hn
    simp only [hostRunTry, hpr, hfst, segInner, List.isEmpty_nil, ↓reduceIte]
    have c1 := evalSeg_topIs (indexed 0 chain) p.isJS
      (fun q hq => hsw _ (indexed_mem chain 0 q hq)) (fun q hq => hrw _ (indexed_mem chain 0 q hq))
      (by rcases hu with h | h
          · exact Or.inl h
          · exact Or.inr (fun q hq => h _ (indexed_mem chain 0 q hq))) hp
    rcases topIs_cases c1 with ⟨o, h⟩ | ⟨h, ht⟩
    · rw [h]; cases headIsJS (indexed 0 chain) p.isJS <;> simp [invoke]
    · rw [h, ht]
      cases hs : v.ownStack <;> cases headIsJS (indexed 0 chain) p.isJS <;>
        simp [invoke, jsCall, vmTry, handleThrow, handleThrowLoop, exceptionFromValue, nativeTop, hs]
  constructor
  · rintro rfl; exact key _ (by simp [Payload.flow, TopIs, throwExec])
  · rintro rfl; exact key _ (by simp [Payload.flow, TopIs])

/-- Runtime.Try does not turn uncatchable errors into returned errors: an interrupt / stack overflow (and every
foreign panic) leaves Try as a Go panic carrying that error; no catch, finally or iterator return() ran. -/
theorem try_entry_repanics_unclassifiable (chain : List Frame) (p : Payload) (x : Pv) (o : StackTop)
    (hp : p.flow = .panic x o) (hx : x.unclassifiable = true)
    (hd : (∀ f ∈ chain, f.dropsErrors = false) ∨ asUncatchableException x = none)
    (hn : hasSplit chain = false) :
    ∃ x', Unc x x' ∧ (hostRunTry chain p).host = .panic x' ∧ (hostRunTry chain p).log = [] := by
  have hpr := (splitSegs_snd_nil_iff chain 0).mpr hn
  have hfst := splitSegs_fst_of_nosplit chain 0 hn
  obtain ⟨x', o', he, hu, _⟩ := evalSeg_unclassifiable (indexed 0 chain) p.isJS hx
    (by rcases hd with h | h
        · exact Or.inl (fun q hq => h _ (indexed_mem chain 0 q hq))
        · exact Or.inr h) o
  refine ⟨x', hu, ?_, ?_⟩
  · simp only [hostRunTry, hpr, hfst, segInner, List.isEmpty_nil, ↓reduceIte, hp, he,
      vmTry_invoke_unclassifiable _ hu.1]
  · simp only [hostRunTry, hpr, hfst, segInner, List.isEmpty_nil, ↓reduceIte, hp, he]

/-- Runtime.Try never drains the job queue: with a job frame in the chain the synchronous part completes normally, the
host gets no error, and nothing of the deferred part runs (no rejection, only the finally blocks of the synchronous
part). -/
theorem try_entry_does_not_run_jobs (chain : List Frame) (p : Payload) (hs : hasSplit chain = true) :
    (hostRunTry chain p).host = .ok ∧ (hostRunTry chain p).rej = [] ∧
    ∀ l ∈ (hostRunTry chain p).log, l.kind = .fin := by
  have hne : (splitSegs (indexed 0 chain)).2 ≠ [] := by
    intro h
    have := (splitSegs_snd_nil_iff chain 0).mp h
    rw [this] at hs; cases hs
  cases hss : (splitSegs (indexed 0 chain)).2 with
  | nil => exact absurd hss hne
  | cons s1 tl =>
    have hn := evalSeg_normal (splitSegs (indexed 0 chain)).1 true
    refine ⟨?_, rfl, ?_⟩
    · simp only [hostRunTry, hss, segInner, List.isEmpty_cons, Bool.false_eq_true, ↓reduceIte, hn]
      cases headIsJS (splitSegs (indexed 0 chain)).1 true <;> simp [invoke]
    · intro l hl
      simp only [hostRunTry, hss, segInner, List.isEmpty_cons, Bool.false_eq_true, ↓reduceIte] at hl
      exact evalSeg_normal_log _ true l hl

/-! ### Exception.Error() -/

/-- Full strength: whatever was thrown (also an object whose string conversion throws), through every chain and
entry, calling `.Error()` on the error the host was handed returns — no Go panic leaves the method. -/
theorem error_method_total (entry : Entry) (chain : List Frame) (p : Payload) (ev : ErrVal)
    (h : (hostRun entry chain p).host = .err ev) : ev.errorPanics = false := by
  cases ev <;> rfl

/-- Regression lemma about `Error()` BEFORE fix fe5ea29 (unguarded `e.val.String()`): for a thrown object whose
string conversion throws, the host's error is an *Exception on which the old method panicked. -/
theorem error_method_panics_prefix_witness :
    ¬ (∀ (entry : Entry) (chain : List Frame) (p : Payload) (ex : Exc),
        (hostRun entry chain p).host = .err (.exc ex) → ex.errorPanicsPrefix = false) := by
  intro h
  have := h .runString [] (.jsThrow (.objU 1)) ⟨.objU 1, .thrower⟩ (by decide)
  revert this
  decide

/-! ### Non-vacuity: the hypotheses are satisfiable by non-trivial chains (tests on literals, not proofs) -/

/-- depth-10 chain: JS frames with try/finally and rethrowing catch, a for-of loop with an open iterator, a
generator body with try/finally, six native conventions incl. panic(ex.Value()). -/
example : let chain : List Frame := [.js .jrf, .fc, .js .jf, .rfe, .ct, .js .jr, .ji, .jgf, .fcv, .fo]
    (∀ f ∈ chain, f.swallows = false) ∧ (∀ f ∈ chain, f.rewraps = false) ∧ hasSplit chain = false ∧
    (hostRun .runString chain (.jsThrow (.obj 1))).host = .err (.exc ⟨.obj 1, .rethrow 0⟩) ∧
    (hostRun .runString chain (.jsThrow (.obj 1))).log =
      [⟨7, .fin⟩, ⟨6, .iterReturn⟩, ⟨5, .caught (.obj 1)⟩, ⟨2, .fin⟩, ⟨0, .caught (.obj 1)⟩, ⟨0, .fin⟩] := by decide

example : (hostRun .exported [.xfe, .js .jf, .pr, .rfe] (.natReturn (some (.wrap 3 (.custom 2))))).rej =
    [.freshGoError (.wrap 3 (.custom 2))] := by decide

/-- an interrupt closes no iterator, runs no catch, no finally, no generator finally -/
example : (hostRun .callable [.js .jcf, .ji, .fc, .jgf, .js .jcf] (.jsInterrupt 10 (.plain 9))).log = [] := by decide

/-- a wrapping native frame: the host's error is a GoError around fmt.Errorf("%w", exception(O1)) -/
example : (hostRun .runString [.js .jf, .rfw, .js .jf] (.jsThrow (.obj 1))).host =
    .err (.exc ⟨.freshGoError (.wrapExc 0 (.obj 1) .thrower), .other⟩) := by decide

/-- an async function absorbs the exception into its promise -/
example : (hostRun .runString [.js .jcf, .ja, .js .jf] (.jsThrow (.prim 1))).log =
    [⟨2, .fin⟩, ⟨1, .asyncReject (.prim 1)⟩, ⟨0, .fin⟩] := by decide

/-- an uncatchable error raised while the iterator is closed for O1 replaces it; the outer catch/finally see nothing -/
example : (hostRun .runString [.js .jcf, .jiu, .js .jf] (.jsThrow (.obj 1))).host = .err (.go (.stackOverflow 8)) ∧
    (hostRun .runString [.js .jcf, .jiu, .js .jf] (.jsThrow (.obj 1))).log = [⟨2, .fin⟩, ⟨1, .iterReturn⟩] := by decide

/-- g.throw(e) raises the caught value at the generator's yield -/
example : (hostRun .runString [.js .jf, .jgt] (.jsThrow (.prim 1))).host = .err (.exc ⟨.prim 1, .genYield 1⟩) := by decide

end GojaModel.C14
