/-
  C14 helper lemmas: one step lemma per invariant (what a single frame does to a flow carrying …),
  lifted to segments by induction on the chain, then to promise-job lists and to hostRun.
-/
import GojaModel.C14.Model

set_option linter.unusedSimpArgs false
set_option linter.unusedVariables false

namespace GojaModel.C14

/-! ## handleThrow at a lone marker -/

@[simp] theorem handleThrow_marker_exc (o : StackTop) (ex : Exc) :
    handleThrow o (.exc ex) [.marker] = .returned ex [.marker] := by
  simp [handleThrow, handleThrowLoop, exceptionFromValue]

@[simp] theorem vmTry_exc (ex : Exc) (o : StackTop) : vmTry (.panic (.exc ex) o) = .ex ex := by
  simp [vmTry]

@[simp] theorem jsCall_exc (ex : Exc) (o : StackTop) : jsCall (.panic (.exc ex) o) = .panic (.exc ex) o := by
  simp [jsCall]

@[simp] theorem vmTry_normal : vmTry .normal = .ok := rfl
@[simp] theorem jsCall_normal : jsCall .normal = .normal := rfl

/-- `__call` in front of vm.try changes nothing: classification is idempotent. -/
theorem vmTry_jsCall (fl : Flow) : vmTry (jsCall fl) = vmTry fl := by
  cases fl with
  | normal => rfl
  | panic x o =>
    cases x <;> simp [vmTry, jsCall, handleThrow, handleThrowLoop, exceptionFromValue]
  | pending e => simp [vmTry, jsCall, handleThrow, handleThrowLoop, exceptionFromValue]

theorem callable_indep (a b : Bool) (fl : Flow) : callable a fl = callable b fl := by
  cases a <;> cases b <;> simp [callable, invoke, runWrapped, vmTry_jsCall]

/-- RunProgram and runWrapped classify identically. -/
theorem runProgram_eq_runWrapped (fl : Flow) : runProgram fl = runWrapped fl := by
  cases fl with
  | normal => rfl
  | panic x o => simp [runProgram, runProgram.handleThrowOpt, runWrapped, vmTry]
  | pending e => simp [runProgram, runProgram.handleThrowOpt, runWrapped, vmTry]

/-! ## Payloads that no recover site can classify as a JS exception -/

def Pv.unclassifiable : Pv → Bool
  | .goErr _ | .other _ => true
  | _ => false

theorem exceptionFromValue_unclassifiable {x : Pv} (h : x.unclassifiable = true) (o : StackTop) :
    exceptionFromValue o x = none := by
  cases x <;> simp_all [Pv.unclassifiable, exceptionFromValue]

theorem jsFrame_unclassifiable (idx : Nat) (k : JsKind) {x : Pv} (h : x.unclassifiable = true) (o : StackTop) :
    jsFrame idx k (.panic x o) = (.panic x o, []) := by
  cases x <;> simp [Pv.unclassifiable] at h <;>
    cases k <;> simp [jsFrame, handleThrow, handleThrowLoop, exceptionFromValue, JsKind.hasCatch, JsKind.hasFinally]

theorem callable_unclassifiable (cjs : Bool) {x : Pv} (h : x.unclassifiable = true) (o : StackTop) :
    callable cjs (.panic x o) = recoverUncatchable x o := by
  cases x <;> simp [Pv.unclassifiable] at h <;> cases cjs <;>
    simp [callable, invoke, jsCall, runWrapped, vmTry, handleThrow, handleThrowLoop, exceptionFromValue]

theorem recover_unclassifiable {x : Pv} (h : x.unclassifiable = true) (o : StackTop) :
    recoverUncatchable x o = .panic x o ∨
      ∃ e, x = .goErr e ∧ e.isUncatchable = true ∧ recoverUncatchable x o = .err (.go e) := by
  cases x <;> simp [Pv.unclassifiable] at h
  · rename_i e
    by_cases he : e.isUncatchable = true
    · right; exact ⟨e, rfl, he, by simp [recoverUncatchable, asUncatchableException, he]⟩
    · left; simp [recoverUncatchable, asUncatchableException, he]
  · left; rfl

/-! ### RFW frames wrap an uncatchable error once more: `peel` strips those in-flight wrappers -/

/-- Strip the `fmt.Errorf("rfw: %w", ·)` layers made in flight (they carry the reserved id 0). -/
def GoErr.peel : GoErr → GoErr
  | .wrap 0 i => peel i
  | e => e

def Pv.peel : Pv → Pv
  | .goErr e => .goErr e.peel
  | x => x

theorem GoErr.peel_wrap0 (e : GoErr) : (GoErr.wrap 0 e).peel = e.peel := by
  simp [GoErr.peel]

/-- `x'` is `x`, possibly wrapped in flight if `x` is an uncatchable error (never if it is a foreign panic). -/
def Unc (x x' : Pv) : Prop :=
  x'.unclassifiable = true ∧ x'.peel = x.peel ∧ (asUncatchableException x = none → x' = x)

theorem Unc.refl {x : Pv} (h : x.unclassifiable = true) : Unc x x := ⟨h, rfl, fun _ => rfl⟩

theorem Unc.trans {x y z : Pv} (h1 : Unc x y) (h2 : Unc y z) : Unc x z := by
  refine ⟨h2.1, by rw [h2.2.1, h1.2.1], ?_⟩
  intro hn
  have hy := h1.2.2 hn
  subst hy
  exact h2.2.2 hn

/-- Every frame lets an unclassifiable panic value through (an RFW frame wraps an uncatchable error once more; a
foreign panic is never touched), and logs nothing: no catch block, no finally block, no iterator return() runs. -/
theorem applyFrame_unclassifiable (idx : Nat) (f : Frame) (cjs : Bool) {x : Pv}
    (h : x.unclassifiable = true) (hd : f.dropsErrors = false ∨ asUncatchableException x = none) (o : StackTop) :
    ∃ x' o', applyFrame idx f cjs (.panic x o) = (.panic x' o', []) ∧ Unc x x' ∧ (f.rewraps = false → x' = x) := by
  have hv : vmTry (.panic x o) = .panic x o := by
    cases x <;> simp [Pv.unclassifiable] at h <;>
      simp [vmTry, handleThrow, handleThrowLoop, exceptionFromValue]
  have hj : jsCall (.panic x o) = .panic x o := by
    cases x <;> simp [Pv.unclassifiable] at h <;>
      simp [jsCall, handleThrow, handleThrowLoop, exceptionFromValue]
  have hht : handleThrow o x [TF.marker] = .repanic x [TF.marker] := by
    cases x <;> simp [Pv.unclassifiable] at h <;>
      simp [handleThrow, handleThrowLoop, exceptionFromValue]
  have hi : invoke cjs (.panic x o) = .panic x o := by cases cjs <;> simp [invoke, hj]
  have hs : shim (.panic x o) = .panic x o := by simp [shim, jsFrame_unclassifiable _ _ h]
  have hs' : shim (.panic x .other) = .panic x .other := by simp [shim, jsFrame_unclassifiable _ _ h]
  have hv' : vmTry (.panic x .other) = .panic x .other := by
    cases x <;> simp [Pv.unclassifiable] at h <;>
      simp [vmTry, handleThrow, handleThrowLoop, exceptionFromValue]
  rcases recover_unclassifiable h o with hn | ⟨e, rfl, he, hr⟩
  · -- every frame passes x itself
    refine ⟨x, ?_⟩
    have hu := Unc.refl h
    cases f <;>
      simp [applyFrame, applyFrameCore, jsFrame_unclassifiable _ _ h, callable_unclassifiable _ h, hn, panicErr, returnErr,
        wrapJSFuncE, wrapJSFuncN, hs, hi, runProgram_eq_runWrapped, runWrapped, vmTry_jsCall, hv, hj,
        panicValue, returnWrapped, hht, hu, Frame.rewraps]
  · by_cases hf : f = .rfw
    · subst hf
      refine ⟨.goErr (.wrap 0 e), .other, ?_, ⟨rfl, ?_, ?_⟩, ?_⟩
      · simp [applyFrame, applyFrameCore, callable_unclassifiable _ h, hr, returnWrapped, wrapErr, wrapReflectErr,
          GoErr.isUncatchable, he]
      · simp [Pv.peel, GoErr.peel]
      · intro hn; simp [asUncatchableException, he] at hn
      · intro hrw; simp [Frame.rewraps] at hrw
    · refine ⟨.goErr e, ?_⟩
      have hu := Unc.refl h
      have hd : f.dropsErrors = false := by
        rcases hd with hd | hd
        · exact hd
        · simp [asUncatchableException, he] at hd
      cases f <;> simp at hf <;> simp [Frame.dropsErrors] at hd <;>
        simp [applyFrame, applyFrameCore, jsFrame_unclassifiable _ _ h, callable_unclassifiable _ h, hr, panicErr, returnErr,
          wrapJSFuncE, wrapJSFuncN, hs, hs', hi, runProgram_eq_runWrapped, runWrapped, vmTry_jsCall, hv, hj,
          ErrVal.toPv, wrapReflectErr, he, panicValue, hht, hu, Frame.rewraps, hv']

/-! ## Segments -/

theorem applyFrame_normal (idx : Nat) (f : Frame) (cjs : Bool) :
    (applyFrame idx f cjs .normal).1 = .normal := by
  cases f <;> cases cjs <;>
    simp [applyFrame, applyFrameCore, jsFrame, callable, invoke, runWrapped, panicErr, returnErr, wrapReflectErr, wrapJSFuncE,
      wrapJSFuncN, shim, runProgram, runProgram.handleThrowOpt, panicValue, returnWrapped, JsKind.hasFinally]

theorem applyFrame_normal_log (idx : Nat) (f : Frame) (cjs : Bool) :
    ∀ l ∈ (applyFrame idx f cjs .normal).2, l = ⟨idx, .fin⟩ := by
  cases f <;> simp [applyFrame, applyFrameCore]
  · rename_i k
    cases k <;> simp [jsFrame, JsKind.hasFinally]
  · simp [jsFrame, JsKind.hasFinally]
  · cases cjs <;> simp [callable, invoke, runWrapped, panicErr]
  · simp [jsFrame, JsKind.hasFinally]
  · cases cjs <;> simp [callable, invoke, runWrapped]

theorem evalSeg_normal (s : Seg) (ijs : Bool) : (evalSeg s .normal ijs).1 = .normal := by
  induction s with
  | nil => rfl
  | cons hd tl ih =>
    obtain ⟨i, f⟩ := hd
    simp [evalSeg, ih, applyFrame_normal]

theorem evalSeg_normal_log (s : Seg) (ijs : Bool) : ∀ l ∈ (evalSeg s .normal ijs).2, l.kind = .fin := by
  induction s with
  | nil => simp [evalSeg]
  | cons hd tl ih =>
    obtain ⟨i, f⟩ := hd
    intro l hl
    simp only [evalSeg, List.mem_append] at hl
    rcases hl with hl | hl
    · exact ih l hl
    · rw [evalSeg_normal] at hl
      rw [applyFrame_normal_log _ _ _ l hl]

theorem evalSeg_unclassifiable (s : Seg) (ijs : Bool) {x : Pv} (h : x.unclassifiable = true)
    (hdr : (∀ q ∈ s, q.2.dropsErrors = false) ∨ asUncatchableException x = none) (o : StackTop) :
    ∃ x' o', evalSeg s (.panic x o) ijs = (.panic x' o', []) ∧ Unc x x' ∧
      ((∀ q ∈ s, q.2.rewraps = false) → x' = x) := by
  induction s with
  | nil => exact ⟨x, o, rfl, Unc.refl h, fun _ => rfl⟩
  | cons hd tl ih =>
    obtain ⟨i, f⟩ := hd
    obtain ⟨x1, o1, h1, u1, r1⟩ := ih (by
      rcases hdr with h' | h'
      · exact Or.inl (fun q hq => h' q (List.mem_cons_of_mem _ hq))
      · exact Or.inr h')
    obtain ⟨x2, o2, h2, u2, r2⟩ := applyFrame_unclassifiable i f (headIsJS tl ijs) u1.1
      (by rcases hdr with h' | h'
          · exact Or.inl (h' (i, f) (List.mem_cons_self ..))
          · exact Or.inr (by rw [u1.2.2 h']; exact h')) o1
    refine ⟨x2, o2, by simp [evalSeg, h1, h2], u1.trans u2, ?_⟩
    intro hq
    rw [r2 (hq (i, f) (List.mem_cons_self ..)), r1 (fun q hq' => hq q (List.mem_cons_of_mem _ hq'))]

/-- The log that the segments produce when every one of them completes normally. -/
def normalLogs (segs : List Seg) : List LogE :=
  segs.flatMap (fun s => (evalSeg s .normal true).2)

theorem normalLogs_fin (segs : List Seg) : ∀ l ∈ normalLogs segs, l.kind = .fin := by
  intro l hl
  simp only [normalLogs, List.mem_flatMap] at hl
  obtain ⟨s, _, hs⟩ := hl
  exact evalSeg_normal_log s true l hs

theorem vmTry_invoke_unclassifiable (b : Bool) {x : Pv} (h : x.unclassifiable = true) (o : StackTop) :
    vmTry (invoke b (.panic x o)) = .panic x o := by
  cases x <;> simp [Pv.unclassifiable] at h <;> cases b <;>
    simp [invoke, jsCall, vmTry, handleThrow, handleThrowLoop, exceptionFromValue]

/-- Host outcome of an unclassifiable panic value: an error iff asUncatchableException recognises it. -/
def escapeHost (x : Pv) : HostOutcome := (recoverUncatchable x .other).toHost

theorem recover_toHost (x : Pv) (o : StackTop) : (recoverUncatchable x o).toHost = escapeHost x := by
  simp only [escapeHost, recoverUncatchable]
  cases asUncatchableException x <;> rfl

/-- Promise jobs: all segments but the last complete normally; in the last one the unclassifiable panic value
escapes `leave()` unobserved. -/
theorem runJobs_unclassifiable (p : Payload) {x : Pv} {o : StackTop} (hp : p.flow = .panic x o)
    (h : x.unclassifiable = true) :
    ∀ ss : List Seg, ss ≠ [] → ((∀ s ∈ ss, ∀ q ∈ s, q.2.dropsErrors = false) ∨ asUncatchableException x = none) →
      ∃ x', Unc x x' ∧ ((∀ s ∈ ss, ∀ q ∈ s, q.2.rewraps = false) → x' = x) ∧
      runJobs p ss = ⟨escapeHost x', [], normalLogs ss.dropLast⟩ := by
  intro ss
  induction ss with
  | nil => intro hne; exact absurd rfl hne
  | cons s tl ih =>
    intro _ hd
    cases tl with
    | nil =>
      obtain ⟨x', o', he, hu, hr⟩ := evalSeg_unclassifiable s p.isJS h
        (by rcases hd with h' | h'
            · exact Or.inl (h' s (List.mem_cons_self ..))
            · exact Or.inr h') o
      refine ⟨x', hu, fun hq => hr (hq s (List.mem_cons_self ..)), ?_⟩
      simp [runJobs, segInner, hp, he, vmTry_invoke_unclassifiable _ hu.1, recover_toHost, normalLogs]
    | cons s2 tl2 =>
      obtain ⟨x', hu, hr, ih'⟩ := ih (by simp)
        (by rcases hd with h' | h'
            · exact Or.inl (fun s' hs' => h' s' (List.mem_cons_of_mem _ hs'))
            · exact Or.inr h')
      refine ⟨x', hu, fun hq => hr (fun s' hs' => hq s' (List.mem_cons_of_mem _ hs')), ?_⟩
      have hn := evalSeg_normal s true
      simp only [runJobs, segInner, List.isEmpty_cons, Bool.false_eq_true, ↓reduceIte, hn] at ih' ⊢
      have hv : vmTry (invoke (headIsJS s true) Flow.normal) = .ok := by
        cases headIsJS s true <;> simp [invoke]
      rw [hv]
      simp only [ih']
      simp [normalLogs, List.dropLast]

theorem escapeHost_cases {x : Pv} (h : x.unclassifiable = true) :
    (escapeHost x = .panic x ∧ asUncatchableException x = none) ∨
      ∃ e, x = .goErr e ∧ e.isUncatchable = true ∧ escapeHost x = .err (.go e) := by
  rcases recover_unclassifiable h .other with hn | ⟨e, rfl, he, hr⟩
  · left
    constructor
    · simp [escapeHost, hn, CallRes.toHost]
    · simp only [recoverUncatchable] at hn
      cases hq : asUncatchableException x <;> simp [hq] at hn ⊢
  · right; exact ⟨e, rfl, he, by simp [escapeHost, hr, CallRes.toHost]⟩

theorem callable_normal (b : Bool) : callable b .normal = .ok := by
  cases b <;> simp [callable, invoke, runWrapped]

theorem runProgram_normal : runProgram .normal = .ok := by
  simp [runProgram, runProgram.handleThrowOpt]

/-- Master theorem for panic values that are not JS exceptions (uncatchable errors and foreign panics). -/
theorem hostRun_unclassifiable (entry : Entry) (chain : List Frame) (p : Payload) {x : Pv} {o : StackTop}
    (hp : p.flow = .panic x o) (h : x.unclassifiable = true)
    (hd : (∀ s ∈ allSegs chain, ∀ q ∈ s, q.2.dropsErrors = false) ∨ asUncatchableException x = none) :
    ∃ x', Unc x x' ∧ ((∀ s ∈ allSegs chain, ∀ q ∈ s, q.2.rewraps = false) → x' = x) ∧
      (hostRun entry chain p).host = escapeHost x' ∧ (hostRun entry chain p).rej = [] ∧
      (hostRun entry chain p).log = normalLogs (allSegs chain).dropLast := by
  simp only [hostRun, allSegs] at hd ⊢
  generalize splitSegs (indexed 0 chain) = sg at hd ⊢
  obtain ⟨s0, ss⟩ := sg
  simp only at hd
  cases ss with
  | nil =>
    obtain ⟨x', o', he, hu, hrw⟩ := evalSeg_unclassifiable s0 p.isJS h
      (by rcases hd with h' | h'
          · exact Or.inl (h' s0 (List.mem_cons_self ..))
          · exact Or.inr h') o
    refine ⟨x', hu, fun hq => hrw (hq s0 (List.mem_cons_self ..)), ?_⟩
    have h' := hu.1
    have hc : ∀ b, callable b (.panic x' o') = recoverUncatchable x' o' := fun b => callable_unclassifiable b h' o'
    have hr : runWrapped (.panic x' o') = recoverUncatchable x' o' := by
      have := hc false; simpa [callable, invoke] using this
    have hf : ∀ b, firstCall entry b (.panic x' o') = recoverUncatchable x' o' := by
      intro b; cases entry <;> simp [firstCall, hc, hr, runProgram_eq_runWrapped]
    simp only [hostRunSegs, segInner, List.isEmpty_nil, ↓reduceIte, hp, he, hf]
    rcases escapeHost_cases h' with ⟨h1, h2⟩ | ⟨e, rfl, he1, h1⟩
    · have hq : recoverUncatchable x' o' = .panic x' o' := by simp [recoverUncatchable, h2]
      cases entry <;> simp [hq, h1, ranLeave, finish, wrapJSFuncE, CallRes.toHost, normalLogs]
    · have hq : recoverUncatchable (.goErr e) o' = .err (.go e) := by
        simp [recoverUncatchable, asUncatchableException, he1]
      cases entry <;> simp [hq, h1, ranLeave, finish, wrapJSFuncE, CallRes.toHost, normalLogs]
  | cons s1 tl =>
    obtain ⟨x', hu, hrw, hj⟩ := runJobs_unclassifiable p hp h (s1 :: tl) (by simp)
      (by rcases hd with h' | h'
          · exact Or.inl (fun s hs => h' s (List.mem_cons_of_mem _ hs))
          · exact Or.inr h')
    refine ⟨x', hu, fun hq => hrw (fun s hs => hq s (List.mem_cons_of_mem _ hs)), ?_⟩
    have hn := evalSeg_normal s0 true
    have hf : ∀ b, firstCall entry b .normal = .ok := by
      intro b; cases entry <;> simp [firstCall, runProgram_normal, callable_normal]
    simp only [hostRunSegs, segInner, List.isEmpty_cons, Bool.false_eq_true, ↓reduceIte, hn, hf, ranLeave, hj]
    have hl : (s0 :: s1 :: tl).dropLast = s0 :: (s1 :: tl).dropLast := by simp [List.dropLast]
    rw [hl]
    rcases escapeHost_cases hu.1 with ⟨h1, _⟩ | ⟨e, rfl, _, h1⟩
    · cases entry <;> simp [h1, mergeJobs, finish, wrapJSFuncE, CallRes.toHost, normalLogs]
    · cases entry <;> simp [h1, mergeJobs, finish, wrapJSFuncE, CallRes.toHost, normalLogs]

end GojaModel.C14
