/-
  C14 Tie: the facts regenerated from /repo's CURRENT source by extract/c14.go
  (lean/GojaModel/Generated/C14_PanicKinds.lean, rewritten on every run) equal the expectations the model was
  transcribed from, and the classifier tables agree with the model's exceptionFromValue /
  asUncatchableException / isUncatchable on one representative per Go dynamic type.

  `Expected` below is a verbatim copy of the generator's output for the pinned source; any edit of the decision
  logic of one of these functions makes the corresponding `tie_*` theorem fail (the orchestrator then searches
  for a concrete failing input).  The skeletons pin only what the model transcribes (classification, recover /
  re-panic, try-frame handling, iterator closing, error wrapping / unwrapping): extract/c14.go drops lines that
  belong to other properties' mechanisms (leaveAbrupt / call-stack bookkeeping / pc resets / message texts /
  async-context tracker), and functions the model does not transcribe are not pinned.
-/
import GojaModel.C14.Model
import GojaModel.Generated.C14_PanicKinds

set_option linter.unusedVariables false

namespace GojaModel.C14.Expected

/-- (case types, normalised body statements) in source order -/
def efvCases : List (String × List String) := [
  ("*Object", ["ex = &Exception{ val: x1, }", "if er, ok := x1.self.(*errorObject); ok { ex.stack = er.stack }"]),
  ("Value", ["ex = &Exception{ val: x1, }"]),
  ("*Exception", ["ex = x1"]),
  ("typeError", ["ex = &Exception{ val: vm.r.NewTypeError(string(x1)), }"]),
  ("referenceError", ["ex = &Exception{ val: vm.r.newError(vm.r.getReferenceError(), string(x1)), }"]),
  ("rangeError", ["ex = &Exception{ val: vm.r.newError(vm.r.getRangeError(), string(x1)), }"]),
  ("syntaxError", ["ex = &Exception{ val: vm.r.newError(vm.r.getSyntaxError(), string(x1)), }"]),
  ("default", ["return nil"])]

def efvTail : List String := [
  "if ex.stack == nil",
  ".ex.stack = vm.captureStack(make([]StackFrame, 0, len(vm.callStack)+1), 0)",
  "return ex"]

def skel_asUncatchableException : List String := [
  "typeswitch v := v.(type)",
  "case uncatchableException",
  ".return v",
  "case error",
  ".if isUncatchableException(v)",
  "..return v",
  "return nil"]

def skel_isUncatchableException : List String := [
  "return errors.As(e, &u)"]

def skel_handleThrow : List String := [
  "ex := vm.exceptionFromValue(arg)",
  "if ex != nil",
  ".defer func() { if x := recover",
  "..func{",
  "...if x := recover(); x != nil",
  "....ret = vm.handleThrow(x)",
  "..}",
  "for ; len(vm.tryStack) > 0; ",
  ".if tf.catchPos == -1 && tf.finallyPos == -1 || ex == nil && tf.catchPos != tryPanicMarker",
  "..tf.exception = nil",
  "..continue",
  "._ = vm._restoreStacks(tf.iterLen, tf.refLen, ex != nil)",
  ".if tf.catchPos == tryPanicMarker",
  "..break",
  ".if tf.catchPos >= 0",
  "..vm.pc = int(tf.catchPos)",
  "..tf.catchPos = -1",
  "..return nil",
  ".if tf.finallyPos >= 0",
  "..tf.exception = ex",
  "..vm.pc = int(tf.finallyPos)",
  "..tf.finallyPos = -1",
  "..return nil",
  "if ex == nil",
  ".panic(arg)",
  "return ex"]

def skel_vmTry : List String := [
  "defer vm.popTryFrame",
  "defer func() { if x := recover",
  ".func{",
  "..if x := recover(); x != nil",
  "...ex = vm.handleThrow(x)",
  ".}",
  "return"]

def skel_runTry : List String := [
  "defer vm.popTryFrame",
  "for ; ; ",
  ".ex = vm.runTryInner()",
  ".if ex != nil || vm.halted()",
  "..return"]

def skel_runTryInner : List String := [
  "defer func() { if x := recover",
  ".func{",
  "..if x := recover(); x != nil",
  "...ex = vm.handleThrow(x)",
  ".}",
  "return"]

def skel_runWrapped : List String := [
  "defer func() { if x := recover",
  ".func{",
  "..if x := recover(); x != nil",
  "...if ex := asUncatchableException(x); ex != nil",
  "....err = ex",
  "...else",
  "....panic(x)",
  ".}",
  "ex := r.vm.try(f)",
  "if ex != nil",
  ".err = ex",
  "else",
  "return"]

def skel_NewGoError : List String := [
  "e := r.newError(r.getGoError(), err.Error()).(*Object)",
  "e.Set(\"value\", err)",
  "return e"]

def skel_ExceptionUnwrap : List String := [
  "if obj, ok := e.val.(*Object); ok",
  ".if obj.runtime.getGoError().self.hasInstance(obj)",
  "..if val := obj.Get(\"value\"); val != nil",
  "...e1, _ := val.Export().(error)",
  "...return e1",
  "return nil"]

def skel_InterruptedUnwrap : List String := [
  "if err, ok := e.iface.(error); ok",
  ".return err",
  "return nil"]

def skel_throwExec : List String := [
  "ex := &Exception{ val: v, }",
  "if o, ok := v.(*Object); ok",
  ".if e, ok := o.self.(*errorObject); ok",
  "..if len(e.stack) > 0",
  "...ex.stack = e.stack",
  "if ex.stack == nil",
  ".ex.stack = vm.captureStack(make([]StackFrame, 0, len(vm.callStack)+1), 0)",
  "if ex = vm.handleThrow(ex); ex != nil",
  ".panic(ex)"]

def skel_call : List String := [
  "res, ex := f.__call(args, newTarget, this)",
  "if ex != nil",
  ".panic(ex)",
  "return res"]

def skel_ForOf : List String := [
  "for ; ; ",
  ".value, ex := iter.step()",
  ".if ex != nil",
  "..panic(ex)",
  ".if value != nil",
  "..ex := r.vm.try(func)",
  "...func{",
  "...}",
  "..if ex != nil",
  "..._ = r.vm.try(iter.returnIter)",
  "...panic(ex)",
  "..if !continueIteration",
  "...iter.returnIter()",
  "...break",
  ".else",
  "..break"]

def skel_iterStep : List String := [
  "ex = r.vm.try(func)",
  ".func{",
  "..if !done",
  "..else",
  ".}",
  "return"]

def skel_Try : List String := [
  "defer func() { if x := recover",
  ".func{",
  "..if x := recover(); x != nil",
  "...panic(x)",
  ".}",
  "return r.vm.try(f)"]

def skel_rtry : List String := [
  "if ex := r.vm.try(f); ex != nil",
  ".return ex",
  "return nil"]

def skel_AssertFunction : List String := [
  "if obj, ok := v.(*Object); ok",
  ".if f, ok := obj.self.assertCallable(); ok",
  "..return func",
  "...func{",
  "....err = obj.runtime.runWrapped(func)",
  ".....func{",
  "......ret = f(FunctionCall{ This: this, Arguments: args, })",
  ".....}",
  "....return",
  "...}",
  "return nil, false"]

def skel_leave : List String := [
  "for ; len(r.jobQueue) > 0; ",
  ".range jobs"]

def skel_restoreStacks : List String := [
  "defer func() { if int(iterLen)",
  ".func{",
  ".}",
  "for i := len(iterTail) - 1; i >= 0; i--",
  ".if iter := iterTail[i].iter; iter != nil && closeIters",
  "..ex1 := vm.try(func)",
  "...func{",
  "....iter.returnIter()",
  "...}",
  "..if ex1 != nil && ex == nil",
  "...ex = ex1",
  "range refTail",
  "return"]

def skel_generatorObjectStep : List String := [
  "if ex != nil",
  ".panic(ex)",
  "switch resType",
  "case resultYield",
  ".return g.val.runtime.createIterResultObject(res, false)",
  "case resultYieldDelegate",
  ".return g.delegate(res)",
  "case resultYieldRes",
  ".return g.val.runtime.createIterResultObject(res, false)",
  "case resultYieldDelegateRes",
  ".return g.delegate(res)",
  "case resultNormal",
  ".return g.val.runtime.createIterResultObject(res, true)",
  "default",
  ".panic(g.val.runtime.NewTypeError(\"Runtime bug: unexpected result type: %v\", resType))"]

def skel_tryCallDelegated : List String := [
  "ex := g.val.runtime.try(func)",
  ".func{",
  "..ret, done = fn()",
  ".}",
  "if ex != nil",
  ".return g.step(g.gen.nextThrow(ex)), false",
  "return"]

def skel_generatorNextThrow : List String := [
  "ex := g.vm.handleThrow(v)",
  "if ex != nil",
  ".return nil, resultNormal, ex",
  "res, resType, ex := g.step()",
  "return res, resType, ex"]

def skel_asyncRunnerStep : List String := [
  "if done || ex != nil",
  ".if ex == nil",
  "..ar.promiseCap.resolve(res)",
  ".else",
  "..ar.promiseCap.reject(ex.val)",
  ".return"]

def skel_ExceptionError : List String := [
  "if e == nil",
  ".return \"<nil>\"",
  "if e.val != nil",
  ".b.WriteString(e.valueString())",
  "return b.String()"]

def skel_ExceptionString : List String := [
  "if e == nil",
  ".return \"<nil>\"",
  "if e.val != nil",
  ".b.WriteString(e.valueString())",
  "return b.String()"]

def skel_ExceptionValueString : List String := [
  "if !ok",
  ".return e.val.String()",
  "defer func() { if x := recover",
  ".func{",
  "..if x := recover(); x != nil",
  ".}",
  "if ex := obj.runtime.vm.try(func() { s = obj.String() }); ex != nil",
  "return"]

def skel_underscoreCall : List String := [
  "vm.pushTryFrame(tryPanicMarker, -1)",
  "defer vm.popTryFrame",
  "else",
  "for ; ; ",
  ".ex := vm.runTryInner()",
  ".if ex != nil",
  "..return nil, ex",
  ".if vm.halted()",
  "..break",
  "return vm.pop(), nil"]

def skel_RunProgram : List String := [
  ".func{",
  "..else",
  "..if x := recover(); x != nil",
  "...if ex := asUncatchableException(x); ex != nil",
  "....err = ex",
  "...else",
  "....panic(x)",
  ".}",
  "else",
  "ex := vm.runTry()",
  "if ex == nil",
  "else",
  ".err = ex",
  "else",
  "return"]

def skel_wrapReflectErr : List String := [
  "if last := out[len(out)-1]; last.Type() == reflectTypeError",
  ".if !last.IsNil()",
  "..err := last.Interface().(error)",
  "..if _, ok := err.(*Exception); ok",
  "...panic(err)",
  "..if isUncatchableException(err)",
  "...panic(err)",
  "..panic(r.NewGoError(err))"]

def skel_wrapJSFuncErr : List String := [
  "if err != nil",
  ".if numOut > 0 && typ.Out(numOut-1) == reflectTypeError",
  "..if ex, ok := err.(*Exception); ok",
  "...if exo, ok := ex.val.(*Object); ok",
  "....if v := exo.self.getStr(\"value\", nil); v != nil",
  ".....if v.ExportType().AssignableTo(reflectTypeError)",
  "......err = v.Export().(error)",
  "..results[numOut-1] = reflect.ValueOf(err).Convert(typ.Out(numOut - 1))",
  ".else",
  "..panic(err)"]

def skel_promiseReactionJob : List String := [
  "return func",
  ".func{",
  "..if reaction.handler == nil",
  "...handlerResult = argument",
  "...if reaction.typ == promiseReactionFulfill",
  "..else",
  "...ex := r.vm.try(func)",
  "....func{",
  ".....handlerResult = r.callJobCallback(reaction.handler, _undefined, argument)",
  "....}",
  "...if ex != nil",
  "....handlerResult = ex.val",
  "..if reaction.capability != nil",
  "...if fulfill",
  "....reaction.capability.resolve(handlerResult)",
  "...else",
  "....reaction.capability.reject(handlerResult)",
  ".}"]

def uncatchableMarkerReceivers : List String := [
  "*baseUncatchableException"]

def uncatchableTypes : List String := [
  "InterruptedError",
  "StackOverflowError"]

def recoverSites : List String := [
  "builtin_typedarrays.go:allocByteSlice",
  "runtime.go:*Exception.valueString",
  "runtime.go:compileAST",
  "runtime.go:*Runtime.RunProgram",
  "runtime.go:*Runtime.runWrapped",
  "runtime.go:tryFunc",
  "runtime.go:*Runtime.Try",
  "vm.go:*vm.handleThrow",
  "vm.go:*vm.try",
  "vm.go:*vm.runTryInner"]

/-- What handleThrow does with the top try frame, as the ordered if-chain of its loop body. c = tf.catchPos, f = tf.finallyPos (tryPanicMarker = -2). -/
def handleThrowDecision (c f : Int) (exNil : Bool) : String :=
  if (((c == (-1 : Int)) && (f == (-1 : Int))) || (exNil && (c != (-2 : Int)))) then "continue" else
  if (c == (-2 : Int)) then "break" else
  if decide (c ≥ (0 : Int)) then "caught" else
  if decide (f ≥ (0 : Int)) then "finally" else
  "next-iteration"

/-- `_throw.exec` reuses the own stack of an errorObject iff … (stackLen = len(e.stack), allocated = e.stack != nil) -/
def throwReusesOwnStack (stackLen : Nat) (allocated : Bool) : Bool := decide (stackLen > 0)

/-- wrapReflectFunc, non-nil error result: what is panicked, by the ordered checks of the source. -/
def wrapReflectDecision (isException isUncatchable : Bool) : String :=
  if isException then "panic(err)" else
  if isUncatchable then "panic(err)" else
  "panic(r.NewGoError(err))"

/-- runWrapped's deferred recover: the error is returned iff asUncatchableException recognises the panic value, else re-panicked. -/
def runWrappedRecoverDecision (recognised : Bool) : String := if recognised then "err = ex" else "panic(x)"

/-- RunProgram's deferred recover: the error is returned iff asUncatchableException recognises the panic value, else re-panicked. -/
def runProgramRecoverDecision (recognised : Bool) : String := if recognised then "err = ex" else "panic(x)"

/-- asUncatchableException: the ordered cases of its type switch. -/
def asUncatchableDecision (isMarker isError chainUncatchable : Bool) : String :=
  if isMarker then "return v" else
  if isError then (if chainUncatchable then "return v" else "return nil") else
  "return nil"

/-- wrapJSFunc, callee failed with err: what the Go caller of the exported func gets. -/
def wrapJSFuncDecision (hasErrorResult isException valIsObject hasValue assignable : Bool) : String :=
  if hasErrorResult then (if isException && valIsObject && hasValue && assignable then "return v.Export().(error)" else "return err")
  else "panic(err)"

end GojaModel.C14.Expected

namespace GojaModel.C14.Tie
open GojaModel.C14

theorem tie_efvCases : @GojaModel.Generated.C14.efvCases = @Expected.efvCases := by rfl
theorem tie_efvTail : @GojaModel.Generated.C14.efvTail = @Expected.efvTail := by rfl
theorem tie_skel_asUncatchableException : @GojaModel.Generated.C14.skel_asUncatchableException = @Expected.skel_asUncatchableException := by rfl
theorem tie_skel_isUncatchableException : @GojaModel.Generated.C14.skel_isUncatchableException = @Expected.skel_isUncatchableException := by rfl
theorem tie_skel_handleThrow : @GojaModel.Generated.C14.skel_handleThrow = @Expected.skel_handleThrow := by rfl
theorem tie_skel_vmTry : @GojaModel.Generated.C14.skel_vmTry = @Expected.skel_vmTry := by rfl
theorem tie_skel_runTry : @GojaModel.Generated.C14.skel_runTry = @Expected.skel_runTry := by rfl
theorem tie_skel_runTryInner : @GojaModel.Generated.C14.skel_runTryInner = @Expected.skel_runTryInner := by rfl
theorem tie_skel_runWrapped : @GojaModel.Generated.C14.skel_runWrapped = @Expected.skel_runWrapped := by rfl
theorem tie_skel_NewGoError : @GojaModel.Generated.C14.skel_NewGoError = @Expected.skel_NewGoError := by rfl
theorem tie_skel_ExceptionUnwrap : @GojaModel.Generated.C14.skel_ExceptionUnwrap = @Expected.skel_ExceptionUnwrap := by rfl
theorem tie_skel_InterruptedUnwrap : @GojaModel.Generated.C14.skel_InterruptedUnwrap = @Expected.skel_InterruptedUnwrap := by rfl
theorem tie_skel_throwExec : @GojaModel.Generated.C14.skel_throwExec = @Expected.skel_throwExec := by rfl
theorem tie_skel_call : @GojaModel.Generated.C14.skel_call = @Expected.skel_call := by rfl
theorem tie_skel_ForOf : @GojaModel.Generated.C14.skel_ForOf = @Expected.skel_ForOf := by rfl
theorem tie_skel_iterStep : @GojaModel.Generated.C14.skel_iterStep = @Expected.skel_iterStep := by rfl
theorem tie_skel_Try : @GojaModel.Generated.C14.skel_Try = @Expected.skel_Try := by rfl
theorem tie_skel_rtry : @GojaModel.Generated.C14.skel_rtry = @Expected.skel_rtry := by rfl
theorem tie_skel_AssertFunction : @GojaModel.Generated.C14.skel_AssertFunction = @Expected.skel_AssertFunction := by rfl
theorem tie_skel_leave : @GojaModel.Generated.C14.skel_leave = @Expected.skel_leave := by rfl
theorem tie_skel_restoreStacks : @GojaModel.Generated.C14.skel_restoreStacks = @Expected.skel_restoreStacks := by rfl
theorem tie_skel_generatorObjectStep : @GojaModel.Generated.C14.skel_generatorObjectStep = @Expected.skel_generatorObjectStep := by rfl
theorem tie_skel_tryCallDelegated : @GojaModel.Generated.C14.skel_tryCallDelegated = @Expected.skel_tryCallDelegated := by rfl
theorem tie_skel_generatorNextThrow : @GojaModel.Generated.C14.skel_generatorNextThrow = @Expected.skel_generatorNextThrow := by rfl
theorem tie_skel_asyncRunnerStep : @GojaModel.Generated.C14.skel_asyncRunnerStep = @Expected.skel_asyncRunnerStep := by rfl
theorem tie_skel_ExceptionError : @GojaModel.Generated.C14.skel_ExceptionError = @Expected.skel_ExceptionError := by rfl
theorem tie_skel_ExceptionString : @GojaModel.Generated.C14.skel_ExceptionString = @Expected.skel_ExceptionString := by rfl
theorem tie_skel_ExceptionValueString : @GojaModel.Generated.C14.skel_ExceptionValueString = @Expected.skel_ExceptionValueString := by rfl
theorem tie_skel_underscoreCall : @GojaModel.Generated.C14.skel_underscoreCall = @Expected.skel_underscoreCall := by rfl
theorem tie_skel_RunProgram : @GojaModel.Generated.C14.skel_RunProgram = @Expected.skel_RunProgram := by rfl
theorem tie_skel_wrapReflectErr : @GojaModel.Generated.C14.skel_wrapReflectErr = @Expected.skel_wrapReflectErr := by rfl
theorem tie_skel_wrapJSFuncErr : @GojaModel.Generated.C14.skel_wrapJSFuncErr = @Expected.skel_wrapJSFuncErr := by rfl
theorem tie_skel_promiseReactionJob : @GojaModel.Generated.C14.skel_promiseReactionJob = @Expected.skel_promiseReactionJob := by rfl
theorem tie_uncatchableMarkerReceivers : @GojaModel.Generated.C14.uncatchableMarkerReceivers = @Expected.uncatchableMarkerReceivers := by rfl
theorem tie_uncatchableTypes : @GojaModel.Generated.C14.uncatchableTypes = @Expected.uncatchableTypes := by rfl
theorem tie_recoverSites : @GojaModel.Generated.C14.recoverSites = @Expected.recoverSites := by rfl
theorem tie_handleThrowDecision : @GojaModel.Generated.C14.handleThrowDecision = @Expected.handleThrowDecision := by rfl
theorem tie_throwReusesOwnStack : @GojaModel.Generated.C14.throwReusesOwnStack = @Expected.throwReusesOwnStack := by rfl
theorem tie_wrapReflectDecision : @GojaModel.Generated.C14.wrapReflectDecision = @Expected.wrapReflectDecision := by rfl
theorem tie_runWrappedRecoverDecision : @GojaModel.Generated.C14.runWrappedRecoverDecision = @Expected.runWrappedRecoverDecision := by rfl
theorem tie_runProgramRecoverDecision : @GojaModel.Generated.C14.runProgramRecoverDecision = @Expected.runProgramRecoverDecision := by rfl
theorem tie_asUncatchableDecision : @GojaModel.Generated.C14.asUncatchableDecision = @Expected.asUncatchableDecision := by rfl
theorem tie_wrapJSFuncDecision : @GojaModel.Generated.C14.wrapJSFuncDecision = @Expected.wrapJSFuncDecision := by rfl

/-! ## The regenerated classifier table agrees with the model -/

/-- For each case of exceptionFromValue's type switch (recognised by its exact normalised text): a representative
panic value of that dynamic type and what the model's `exceptionFromValue .thrower` must return for it. -/
def interpCase : String × List String → Option (Pv × Option Exc)
  | ("*Object", ["ex = &Exception{ val: x1, }", "if er, ok := x1.self.(*errorObject); ok { ex.stack = er.stack }"]) =>
    some (.val (.errObj 1 .error), some ⟨.errObj 1 .error, .creation⟩)           -- errorObject: its own stack
  | ("Value", ["ex = &Exception{ val: x1, }"]) =>
    some (.val (.prim 1), some ⟨.prim 1, .thrower⟩)                            -- stack captured now
  | ("*Exception", ["ex = x1"]) =>
    some (.exc ⟨.obj 1, .rethrow 3⟩, some ⟨.obj 1, .rethrow 3⟩)          -- the same exception
  | ("typeError", ["ex = &Exception{ val: vm.r.NewTypeError(string(x1)), }"]) =>
    some (.sentinel .typeE, some ⟨.freshErr .typeError .thrower, .thrower⟩)
  | ("referenceError", ["ex = &Exception{ val: vm.r.newError(vm.r.getReferenceError(), string(x1)), }"]) =>
    some (.sentinel .refE, some ⟨.freshErr .referenceError .thrower, .thrower⟩)
  | ("rangeError", ["ex = &Exception{ val: vm.r.newError(vm.r.getRangeError(), string(x1)), }"]) =>
    some (.sentinel .rangeE, some ⟨.freshErr .rangeError .thrower, .thrower⟩)
  | ("syntaxError", ["ex = &Exception{ val: vm.r.newError(vm.r.getSyntaxError(), string(x1)), }"]) =>
    some (.sentinel .syntaxE, some ⟨.freshErr .syntaxError .thrower, .thrower⟩)
  | ("default", ["return nil"]) => some (.goErr (.plain 1), none)
  | _ => none

def caseAgrees (c : String × List String) : Bool :=
  match interpCase c with
  | some (x, r) => exceptionFromValue .thrower x == r
  | none => false

/-- Every regenerated case is one the model knows, and the model computes what the case body says. -/
theorem tie_efv_model : GojaModel.Generated.C14.efvCases.all caseAgrees = true := by decide

/-- The case list covers exactly the model's `Pv` constructors (val twice: *Object and Value). -/
theorem tie_efv_names : GojaModel.Generated.C14.efvCases.map (·.1) =
    ["*Object", "Value", "*Exception", "typeError", "referenceError", "rangeError", "syntaxError", "default"] := by
  decide

/-- The non-object Value case also captures (plain objects fall in the *Object case without an own stack). -/
theorem tie_efv_plain_object : exceptionFromValue .thrower (.val (.obj 1)) = some ⟨.obj 1, .thrower⟩ := by decide

/-- The uncatchable marker is carried by exactly the model's marker constructors. -/
def markerOfType : String → Option GoErr
  | "InterruptedError" => some (.interrupted 0)
  | "StackOverflowError" => some (.stackOverflow 0)
  | _ => none

theorem tie_uncatchable_types :
    GojaModel.Generated.C14.uncatchableTypes.all
      (fun t => match markerOfType t with | some e => e.isMarker && e.isUncatchable | none => false) = true ∧
    GojaModel.Generated.C14.uncatchableTypes.length = 2 := by decide

/-- asUncatchableException on representatives: marker type, error wrapping a marker, join around a marker
(recognised since fix cbcbe34: errors.As descends into Unwrap() []error), plain error, non-error. -/
theorem tie_asUncatchable_model :
    asUncatchableException (.goErr (.stackOverflow 1)) = some (.go (.stackOverflow 1)) ∧
    asUncatchableException (.goErr (.wrap 2 (.interrupted 1))) = some (.go (.wrap 2 (.interrupted 1))) ∧
    asUncatchableException (.goErr (.join 2 (.interrupted 1) (.plain 3))) =
      some (.go (.join 2 (.interrupted 1) (.plain 3))) ∧
    asUncatchableException (.goErr (.plain 1)) = none ∧
    asUncatchableException (.other 1) = none := by decide

/-- handleThrow closes open iterators exactly when the panic value is a JS exception (`ex != nil`): the model's
`ji` frame logs the iterator's return() only in that case. -/
theorem tie_handleThrow_closeIters :
    GojaModel.Generated.C14.skel_handleThrow.contains "._ = vm._restoreStacks(tf.iterLen, tf.refLen, ex != nil)" = true ∧
    GojaModel.Generated.C14.skel_restoreStacks.contains ".if iter := iterTail[i].iter; iter != nil && closeIters" = true ∧
    (applyFrame 3 .ji true (.panic (.exc ⟨.obj 1, .thrower⟩) .thrower)).2 = [⟨3, .iterReturn⟩] ∧
    (applyFrame 3 .ji true (.panic (.goErr (.interrupted 1)) .thrower)).2 = [] := by decide

/-- the classifier is `errors.As` (whole wrap tree), not an errors.Unwrap loop -/
theorem tie_isUncatchable_is_errorsAs :
    GojaModel.Generated.C14.skel_isUncatchableException = ["return errors.As(e, &u)"] := by decide

/-- Error() and String() stringify through the guarded valueString() (vm.try + deferred recover): the model's
`errorPanics` is constantly false. -/
theorem tie_error_method_guarded :
    GojaModel.Generated.C14.skel_ExceptionError.contains ".b.WriteString(e.valueString())" = true ∧
    GojaModel.Generated.C14.skel_ExceptionString.contains ".b.WriteString(e.valueString())" = true ∧
    GojaModel.Generated.C14.skel_ExceptionValueString.contains "..if x := recover(); x != nil" = true ∧
    GojaModel.Generated.C14.skel_ExceptionValueString.contains "if ex := obj.runtime.vm.try(func() { s = obj.String() }); ex != nil" = true ∧
    (∀ ex : Exc, ex.errorPanics = false) := by
  refine ⟨by decide, by decide, by decide, by decide, fun _ => rfl⟩

/-- Runtime.ForOf closes the iterator GUARDED after the step callback threw (fix 51964d9): the model's `fot` frame
lets the original exception through; the pre-fix frame (`fotPrefix`) did not. -/
theorem tie_forOf_return_guarded :
    GojaModel.Generated.C14.skel_ForOf.contains "..._ = r.vm.try(iter.returnIter)" = true ∧
    (applyFrame 2 .fot false (.panic (.exc ⟨.obj 1, .thrower⟩) .thrower)) =
      (.panic (.exc ⟨.obj 1, .thrower⟩) .other, [⟨2, .iterReturn⟩]) ∧
    (fotPrefix 2 false (.panic (.exc ⟨.obj 1, .thrower⟩) .thrower)).1 =
      .panic (.exc ⟨.freshErr .error .other, .other⟩) .other := by decide

/-- `_throw.exec` reuses an Error object's own stack only if it is NON-EMPTY (`len(e.stack) > 0`, not `!= nil`):
the model's `throwExec` captures at the throw site for a host-made Error object (own stack empty) — the class of
seeded change C14-m4. -/
theorem tie_throw_reuses_nonempty_stack_only :
    GojaModel.Generated.C14.skel_throwExec.contains "..if len(e.stack) > 0" = true ∧
    throwExec .thrower (.goError 1 (.plain 1)) = ⟨.goError 1 (.plain 1), .thrower⟩ ∧
    throwExec .thrower (.errObj 1 .error) = ⟨.errObj 1 .error, .creation⟩ ∧
    exceptionFromValue .other (.val (.goError 1 (.plain 1))) = some ⟨.goError 1 (.plain 1), .empty⟩ := by decide

/-- yield*: the inner generator's exception is re-thrown inside the delegating generator (`nextThrow`). -/
theorem tie_yield_star_rethrows_inside :
    GojaModel.Generated.C14.skel_tryCallDelegated.contains ".return g.step(g.gen.nextThrow(ex)), false" = true ∧
    (applyFrame 1 .jyf true (.panic (.exc ⟨.obj 1, .thrower⟩) .thrower)) =
      (.panic (.exc ⟨.obj 1, .thrower⟩) .other, [⟨1, .fin⟩]) := by decide

/-! ## handleThrow's per-frame decision, regenerated as a FUNCTION, equals the model's handleThrowLoop -/

/-- The model's try frame for Go's (catchPos, finallyPos). -/
def encTF (c f : Int) : TF := if c == -2 then .marker else .js (decide (c ≥ 0)) (decide (f ≥ 0))

/-- What the model's handleThrowLoop does with a one-frame try stack, in the vocabulary of the Go if-chain. -/
def modelDecision (tf : TF) (exNil : Bool) : String :=
  match handleThrowLoop (if exNil then none else some ⟨.obj 0, .other⟩) (.other 0) [tf] with
  | .caught _ _ => "caught"
  | .toFinally _ _ => "finally"
  | .returned _ (_ :: _) => "break"
  | .repanic _ (_ :: _) => "break"
  | .returned _ [] => "continue"
  | .repanic _ [] => "continue"

/-- For EVERY try frame (catchPos ∈ {marker} ∪ [-1, ∞), finallyPos ∈ [-1, ∞), marker frames have no finally) and both
kinds of panic value, the decision function regenerated from vm.handleThrow's source equals the model's. -/
theorem tie_handleThrow_decision (c f : Int) (n : Bool) (hc : c ≥ -2) (hf : f ≥ -1) (hm : c = -2 → f = -1) :
    GojaModel.Generated.C14.handleThrowDecision c f n = modelDecision (encTF c f) n := by
  have h1 : c = -2 ∨ c = -1 ∨ c ≥ 0 := by omega
  have h2 : f = -1 ∨ f ≥ 0 := by omega
  rcases h1 with rfl | rfl | h1
  · have := hm rfl; subst this
    cases n <;> simp [GojaModel.Generated.C14.handleThrowDecision, modelDecision, encTF, handleThrowLoop]
  · rcases h2 with rfl | h2
    · cases n <;> simp [GojaModel.Generated.C14.handleThrowDecision, modelDecision, encTF, handleThrowLoop]
    · have hf1 : f ≠ -1 := by omega
      cases n <;> simp [GojaModel.Generated.C14.handleThrowDecision, modelDecision, encTF, handleThrowLoop, hf1, h2]
  · have hc1 : c ≠ -1 := by omega
    have hc2 : c ≠ -2 := by omega
    rcases h2 with rfl | h2
    · cases n <;> simp [GojaModel.Generated.C14.handleThrowDecision, modelDecision, encTF, handleThrowLoop, hc1, hc2, h1]
    · cases n <;> simp [GojaModel.Generated.C14.handleThrowDecision, modelDecision, encTF, handleThrowLoop, hc1, hc2, h1, h2]

/-- `_throw.exec` reuses an errorObject's own stack exactly when the model's `throwExec` does (non-empty). -/
theorem tie_throw_reuse_decision :
    (∀ len alloc, GojaModel.Generated.C14.throwReusesOwnStack len alloc = decide (len > 0)) ∧
    (∀ site v s, v.ownStack = some s → s ≠ .empty → (throwExec site v).top = s) ∧
    (∀ site v, v.ownStack = some .empty → (throwExec site v).top = site) := by
  refine ⟨fun _ _ => rfl, ?_, ?_⟩
  · intro site v s h hs; cases s <;> simp_all [throwExec]
  · intro site v h; simp [throwExec, h]

/-- wrapReflectFunc's regenerated decision function equals the model's `wrapReflectErr` on EVERY error value. -/
def reflectOutcome : Flow → String
  | .panic (.exc _) _ => "panic(err)"
  | .panic (.goErr _) _ => "panic(err)"
  | .panic (.val (.freshGoError _)) _ => "panic(r.NewGoError(err))"
  | _ => "?"

theorem tie_wrapReflect_decision (ev : ErrVal) :
    reflectOutcome (wrapReflectErr (some ev)) =
      GojaModel.Generated.C14.wrapReflectDecision
        (match ev with | .exc _ => true | .go _ => false)
        (match ev with | .exc _ => false | .go e => e.isUncatchable) := by
  cases ev with
  | exc ex => simp [wrapReflectErr, reflectOutcome, GojaModel.Generated.C14.wrapReflectDecision]
  | go e =>
    by_cases h : e.isUncatchable = true <;>
      simp [wrapReflectErr, reflectOutcome, GojaModel.Generated.C14.wrapReflectDecision, h]

/-- The deferred recovers of runWrapped and RunProgram, regenerated as functions, equal the model's
`recoverUncatchable` on EVERY panic value. -/
theorem tie_recover_decision (x : Pv) (o : StackTop) :
    (match recoverUncatchable x o with | .err _ => "err = ex" | .panic _ _ => "panic(x)" | .ok => "?") =
      GojaModel.Generated.C14.runWrappedRecoverDecision (asUncatchableException x).isSome ∧
    GojaModel.Generated.C14.runWrappedRecoverDecision = GojaModel.Generated.C14.runProgramRecoverDecision := by
  refine ⟨?_, rfl⟩
  cases h : asUncatchableException x <;>
    simp [recoverUncatchable, h, GojaModel.Generated.C14.runWrappedRecoverDecision]

/-- wrapJSFunc's regenerated decision function equals the model's `wrapJSFuncE` / `wrapJSFuncN` on EVERY error the
Callable can return.  In the model's value abstraction "ex.val is an object with an own `value` whose export type is
assignable to error" is `ex.val.goErrValue.isSome`. -/
theorem tie_wrapJSFunc_decision (ev : ErrVal) :
    (match wrapJSFuncE (.err ev), ev with
      | .err (.go _), .exc _ => "return v.Export().(error)"
      | .err _, _ => "return err"
      | _, _ => "?") =
      GojaModel.Generated.C14.wrapJSFuncDecision true
        (match ev with | .exc _ => true | .go _ => false)
        (match ev with | .exc ex => ex.val.goErrValue.isSome | .go _ => false)
        (match ev with | .exc ex => ex.val.goErrValue.isSome | .go _ => false)
        (match ev with | .exc ex => ex.val.goErrValue.isSome | .go _ => false) ∧
    (match wrapJSFuncN (.err ev) with | .panic x _ => x == ev.toPv | _ => false) = true ∧
    GojaModel.Generated.C14.wrapJSFuncDecision false true true true true = "panic(err)" := by
  refine ⟨?_, ?_, rfl⟩
  · cases ev with
    | go e => simp [wrapJSFuncE, GojaModel.Generated.C14.wrapJSFuncDecision]
    | exc ex =>
      cases h : ex.val.goErrValue <;>
        simp [wrapJSFuncE, h, GojaModel.Generated.C14.wrapJSFuncDecision]
  · cases ev <;> simp [wrapJSFuncN]

/-- asUncatchableException's regenerated type switch equals the model's `asUncatchableException` on EVERY panic value:
a Value, a sentinel string or any non-error is never recognised; an error is recognised iff its dynamic type carries the
marker or errors.As finds a marker in its wrap tree (for an *Exception: through Exception.Unwrap). -/
theorem tie_asUncatchable_decision (x : Pv) :
    (asUncatchableException x).isSome =
      (GojaModel.Generated.C14.asUncatchableDecision
        (match x with | .goErr e => e.isMarker | _ => false)
        (match x with | .goErr _ => true | .exc _ => true | _ => false)
        (match x with | .goErr e => e.isUncatchable | .exc ex => excIsUncatchable ex | _ => false) == "return v") := by
  cases x with
  | goErr e =>
    by_cases hm : e.isMarker = true
    · have hu : e.isUncatchable = true := by cases e <;> simp_all [GoErr.isMarker, GoErr.isUncatchable]
      simp [asUncatchableException, GojaModel.Generated.C14.asUncatchableDecision, hm, hu]
    · by_cases hu : e.isUncatchable = true <;>
        simp [asUncatchableException, GojaModel.Generated.C14.asUncatchableDecision, hm, hu]
  | exc ex =>
    by_cases hu : excIsUncatchable ex = true <;>
      simp [asUncatchableException, GojaModel.Generated.C14.asUncatchableDecision, hu]
  | val v => simp [asUncatchableException, GojaModel.Generated.C14.asUncatchableDecision]
  | sentinel k => simp [asUncatchableException, GojaModel.Generated.C14.asUncatchableDecision]
  | other n => simp [asUncatchableException, GojaModel.Generated.C14.asUncatchableDecision]

/-- An uncatchable error raised while handleThrow closes iterators for a JS exception is unwound for by handleThrow
itself (deferred recover, only when `ex != nil`; fix 404e270) and vm.try in _restoreStacks re-panics it: the model's
`jiu` frame replaces the exception in flight by that error, and leaves an uncatchable / foreign panic alone. -/
theorem tie_handleThrow_unwinds_for_abort :
    GojaModel.Generated.C14.skel_handleThrow.contains "....ret = vm.handleThrow(x)" = true ∧
    GojaModel.Generated.C14.skel_restoreStacks.contains "..ex1 := vm.try(func)" = true ∧
    (applyFrame 1 .jiu true (.panic (.exc ⟨.obj 1, .thrower⟩) .thrower)) =
      (.panic (.goErr (.stackOverflow 8)) .other, [⟨1, .iterReturn⟩]) ∧
    (applyFrame 1 .jiu true (.panic (.other 42) .other)) = (.panic (.other 42) .other, []) := by decide

/-- generator.nextThrow raises the VALUE through handleThrow (→ exceptionFromValue) inside the resumed generator: the
model's `jgt` frame captures at the generator's yield unless the value is an Error object with an own stack. -/
theorem tie_generator_throw_raises_value :
    GojaModel.Generated.C14.skel_generatorNextThrow.contains "ex := g.vm.handleThrow(v)" = true ∧
    (applyFrame 2 .jgt true (.panic (.exc ⟨.prim 1, .thrower⟩) .thrower)).1 =
      .panic (.exc ⟨.prim 1, .genYield 2⟩) (.genYield 2) ∧
    (applyFrame 2 .jgt true (.panic (.exc ⟨.goError 1 (.plain 1), .thrower⟩) .thrower)).1 =
      .panic (.exc ⟨.goError 1 (.plain 1), .empty⟩) (.genYield 2) := by decide

end GojaModel.C14.Tie
