/-
  C14 — `ErrFlow`: how a thrown value / Go panic / Go error travels through a chain of JS and native
  frames to the Go host.  Mechanism-level: every boundary is a transcription of the goja function
  that implements it (file:line of /repo cited at each def).  Core Lean only (linked into model_c14).

  Abstractions (stated in design/C14.md):
    * JS values and Go errors are identities (`Nat`) plus exactly the structure the mechanism inspects
      (errorObject? own stack empty? has an own property `value` that exports to a Go error? GoError instance?
       error chain shape: Unwrap() error / Unwrap() []error / uncatchable marker).
    * A captured stack is abstracted to its top frame: the thrower's throw site, a rethrow site, empty, or
      "other" (native frame / creation site of an Error object / any other JS site).
-/
namespace GojaModel.C14

/-! ## Small enumerations used by both Go errors and JS values -/

inductive ErrClass where
  | error | typeError | referenceError | rangeError | syntaxError | myErr
  deriving DecidableEq, Repr, Inhabited

/-- Abstract top frame of a captured stack. -/
inductive StackTop where
  | thrower                 -- the innermost frame's throwing statement
  | rethrow (idx : Nat)     -- the `throw e` statement in the catch block of the rethrowing JS frame with index idx
  | creation                -- the `new Error(..)` expression that made a script-made Error object
  | genYield (idx : Nat)    -- the `yield` at which the generator of frame idx is suspended when `g.throw(e)` raises e there
  | empty                   -- len(stack) == 0 (captured with an idle vm)
  | other                   -- native frame, creation site of an Error object, any other JS site
  deriving DecidableEq, Repr, Inhabited

/-- A JS value minus the Go error it may hold in `.value` (so that a Go error can wrap an *Exception without a
mutual inductive type: `GoErr.wrapExc*` store the key and, separately, the inner Go error). -/
inductive JsKey where
  | prim (id : Nat)
  | obj (id : Nat)
  | objU (id : Nat)                       -- object whose ToString throws / has no primitive conversion
  | errObj (id : Nat) (cls : ErrClass)
  | goError (id : Nat)
  | valObj (id : Nat)
  | freshErr (cls : ErrClass) (st : StackTop)
  | freshGoError
  deriving DecidableEq, Repr, Inhabited

/-- `getGoError().self.hasInstance(obj)` (runtime.go Exception.Unwrap). -/
def JsKey.isGoErrorInstance : JsKey → Bool
  | .goError _ | .freshGoError => true
  | _ => false

/-! ## Go errors (everything that implements `error` except *Exception) -/

inductive GoErr where
  | plain (id : Nat)                          -- errors.New
  | custom (id : Nat)                         -- *CustomErr (errors.As target type)
  | customIs (id : Nat) (target : Nat)        -- error type with a method Is(t) that answers true for the error `target`
  | customAs (id : Nat) (gives : Nat)         -- error type with a method As(&*CustomErr) that stores the *CustomErr `gives`
  | wrap (id : Nat) (inner : GoErr)           -- fmt.Errorf("%w"):    Unwrap() error
  | join (id : Nat) (a b : GoErr)             -- errors.Join(a, b):   Unwrap() []error
  | interrupted (id : Nat)                    -- *InterruptedError, iface not an error       runtime.go:325
  | interruptedE (id : Nat) (iface : GoErr)   -- *InterruptedError, iface is an error (Unwrap) runtime.go:330
  | stackOverflow (id : Nat)                  -- *StackOverflowError                          runtime.go:337
  | runtimeErr (id : Nat)                     -- runtime.Error (is an `error`)
  | wrapExc (id : Nat) (k : JsKey) (top : StackTop)                    -- fmt.Errorf("%w", ex): *Exception whose value holds no Go error
  | wrapExcGo (id : Nat) (k : JsKey) (top : StackTop) (inner : GoErr)  -- … whose value holds the Go error `inner` in `.value`
  deriving DecidableEq, Repr, Inhabited

namespace GoErr

def id : GoErr → Nat
  | plain i | custom i | customIs i _ | customAs i _ | wrap i _ | join i _ _ | interrupted i | interruptedE i _ | stackOverflow i | runtimeErr i
  | wrapExc i _ _ | wrapExcGo i _ _ _ => i

/-- `_, ok := e.(uncatchableException)` (runtime.go:309): the dynamic type itself carries the marker method. -/
def isMarker : GoErr → Bool
  | interrupted _ | interruptedE _ _ | stackOverflow _ => true
  | _ => false

/-- The classifier BEFORE fix cbcbe34 (`for ; e != nil; e = errors.Unwrap(e)`): errors.Unwrap follows only
`Unwrap() error`, never `Unwrap() []error`.  Kept for the regression lemma `…_prefix_witness` in Props. -/
def isUncatchableUnwrapLoop : GoErr → Bool
  | wrap _ inner => isUncatchableUnwrapLoop inner
  | wrapExcGo _ k _ inner => k.isGoErrorInstance && isUncatchableUnwrapLoop inner
  | interrupted _ | interruptedE _ _ | stackOverflow _ => true
  | _ => false

/-- isUncatchableException (runtime.go): `var u uncatchableException; return errors.As(e, &u)` — errors.As walks
the whole wrap tree: the error itself, `Unwrap() error`, and every branch of `Unwrap() []error`. -/
def isUncatchable : GoErr → Bool
  | wrap _ inner => isUncatchable inner
  | join _ a b => isUncatchable a || isUncatchable b
  | wrapExcGo _ k _ inner => k.isGoErrorInstance && isUncatchable inner     -- through Exception.Unwrap
  | interrupted _ | interruptedE _ _ | stackOverflow _ => true
  | _ => false

/-- Spec-level: some error in the whole wrap tree (errors.As semantics, joins included) is uncatchable. -/
def containsUncatchable : GoErr → Bool
  | wrap _ inner => containsUncatchable inner
  | join _ a b => containsUncatchable a || containsUncatchable b
  | wrapExcGo _ k _ inner => k.isGoErrorInstance && containsUncatchable inner
  | interrupted _ | interruptedE _ _ | stackOverflow _ => true
  | _ => false

/-- The *InterruptedError raised by vm.run inside this error tree, if any.  Only vm.run can make an InterruptedError
with a non-nil `iface` (the field is unexported), and it does so exactly when the runtime's interrupt flag is set;
the flag stays set until leaveAbrupt / ClearInterrupt.  So `liveInterrupt e = some i` means: the flag is set. -/
def liveInterrupt : GoErr → Option GoErr
  | interruptedE i f => some (interruptedE i f)
  | wrap _ inner => liveInterrupt inner
  | join _ a b => match liveInterrupt a with | some i => some i | none => liveInterrupt b
  | _ => none

/-- `errors.Is(e, target)` with target identified by id (pointer identity; no custom Is methods in scope). -/
def errIs : GoErr → Nat → Bool
  | wrap i inner, t => i == t || errIs inner t
  | join i a b, t => i == t || errIs a t || errIs b t
  | interruptedE i f, t => i == t || errIs f t
  | wrapExcGo i k _ inner, t => i == t || (k.isGoErrorInstance && errIs inner t)
  | wrapExc i _ _, t => i == t
  | customIs i tgt, t => i == t || tgt == t              -- `x.Is(target)` (errors.Is consults it at every chain node)
  | customAs i _, t => i == t
  | plain i, t | custom i, t | interrupted i, t | stackOverflow i, t | runtimeErr i, t => i == t

/-- `errors.As(e, &*CustomErr)`: id of the first *CustomErr in depth-first order. -/
def errAs : GoErr → Option Nat
  | custom i => some i
  | customAs _ g => some g                               -- `x.As(target)` stores its own *CustomErr
  | wrap _ inner => errAs inner
  | join _ a b => match errAs a with | some c => some c | none => errAs b
  | interruptedE _ f => errAs f
  | wrapExcGo _ k _ inner => if k.isGoErrorInstance then errAs inner else none
  | _ => none

end GoErr

/-! ## JS values, exceptions, panic payloads -/

inductive JsVal where
  | prim (id : Nat)
  | obj (id : Nat)                        -- ordinary object without a `value` property
  | objU (id : Nat)                       -- ordinary object whose conversion to a string throws (toString throws / no primitive)
  | errObj (id : Nat) (cls : ErrClass)    -- errorObject created by script (`new Error`): own stack = creation site
  | goError (id : Nat) (e : GoErr)        -- GoError made by the host with r.NewGoError(e) while the vm is idle: own stack empty
  | valObj (id : Nat) (e : GoErr)         -- ordinary object with own property value = ToValue(e)
  | freshErr (cls : ErrClass) (st : StackTop)  -- errorObject allocated in flight (sentinel conversion / native NewTypeError); own stack = vm position then
  | freshGoError (e : GoErr)              -- GoError allocated in flight by wrapReflectFunc (runtime.go:2046)
  deriving DecidableEq, Repr, Inhabited

namespace JsVal

/-- `x1.self.(*errorObject)` and its `stack` field (builtin_error.go:101 errorObject.init). -/
def ownStack : JsVal → Option StackTop
  | errObj _ _ => some .creation
  | goError _ _ => some .empty
  | freshErr _ st => some st
  | freshGoError _ => some .other
  | _ => none

/-- own property `value` whose ExportType is assignable to `error` (wrapJSFunc runtime.go:2290; NewGoError runtime.go:551). -/
def goErrValue : JsVal → Option GoErr
  | goError _ e | valObj _ e | freshGoError e => some e
  | _ => none

def key : JsVal → JsKey
  | prim i => .prim i | obj i => .obj i | objU i => .objU i | errObj i c => .errObj i c
  | goError i _ => .goError i | valObj i _ => .valObj i | freshErr c st => .freshErr c st | freshGoError _ => .freshGoError

/-- `getGoError().self.hasInstance(obj)` (runtime.go:414). -/
def isGoErrorInstance (v : JsVal) : Bool := v.key.isGoErrorInstance

/-- Rebuild the value from its key and the Go error held in `.value`. -/
def ofKey : JsKey → Option GoErr → JsVal
  | .prim i, _ => prim i | .obj i, _ => obj i | .objU i, _ => objU i | .errObj i c, _ => errObj i c
  | .goError i, some e => goError i e | .goError i, none => obj i
  | .valObj i, some e => valObj i e | .valObj i, none => obj i
  | .freshErr c st, _ => freshErr c st
  | .freshGoError, some e => freshGoError e | .freshGoError, none => obj 0

/-- `val.String()` panics (script `toString` throws, or the object has no primitive conversion). -/
def unstringifiable : JsVal → Bool
  | objU _ => true
  | _ => false

end JsVal

/-- *Exception (runtime.go:314). -/
structure Exc where
  val : JsVal
  top : StackTop
  deriving DecidableEq, Repr, Inhabited

/-- Exception.Unwrap (runtime.go:412). -/
def Exc.unwrap (ex : Exc) : Option GoErr :=
  if ex.val.isGoErrorInstance then ex.val.goErrValue else none

/-- Exception.Error() / String() (runtime.go) stringify the value through `valueString()` (fix fe5ea29): the
conversion runs under `vm.try` with a deferred recover and falls back to a description of the object, so the
methods return for every thrown value — also when the conversion is interrupted or overflows the stack: the
deferred recover swallows that too (and, since 5151c81, runs leaveAbrupt when control is outside the Runtime). -/
def Exc.errorPanics (_ex : Exc) : Bool := false

/-- Before fix fe5ea29 they called `e.val.String()` unguarded: a thrown object whose string conversion throws made
a Go panic leave `Error()`.  Kept for the regression lemma `…_prefix_witness` in Props. -/
def Exc.errorPanicsPrefix (ex : Exc) : Bool := ex.val.unstringifiable

inductive Sentinel where
  | typeE | refE | rangeE | syntaxE       -- typeError / referenceError / rangeError / syntaxError string types
  deriving DecidableEq, Repr, Inhabited

def Sentinel.cls : Sentinel → ErrClass
  | typeE => .typeError | refE => .referenceError | rangeE => .rangeError | syntaxE => .syntaxError

/-- A Go panic value (`interface{}`) as far as the classifier distinguishes. -/
inductive Pv where
  | val (v : JsVal)            -- *Object / any other Value
  | exc (ex : Exc)             -- *Exception
  | sentinel (k : Sentinel)
  | goErr (e : GoErr)          -- any other `error`
  | other (id : Nat)           -- anything else
  deriving DecidableEq, Repr, Inhabited

/-- An `error` as returned by a goja API. -/
inductive ErrVal where
  | exc (ex : Exc)
  | go (e : GoErr)
  deriving DecidableEq, Repr, Inhabited

def ErrVal.toPv : ErrVal → Pv
  | .exc ex => .exc ex
  | .go e => .goErr e

/-! ## The classifier -/

/-- exceptionFromValue (vm.go:5824).  `o` = what captureStack would record now. -/
def exceptionFromValue (o : StackTop) : Pv → Option Exc
  | .val v =>                                     -- case *Object (errorObject → er.stack) / case Value
    some ⟨v, match v.ownStack with | some s => s | none => o⟩
  | .exc ex => some ex                            -- case *Exception
  | .sentinel k => some ⟨.freshErr k.cls o, o⟩      -- case typeError / referenceError / rangeError / syntaxError
  | .goErr _ => none                              -- default
  | .other _ => none                              -- default

/-- isUncatchableException applied to an *Exception walks Exception.Unwrap (runtime.go:1412 + 412). -/
def excIsUncatchable (ex : Exc) : Bool :=
  match ex.unwrap with
  | some e => e.isUncatchable
  | none => false

/-- asUncatchableException (runtime.go:1421). -/
def asUncatchableException : Pv → Option ErrVal
  | .goErr e => if e.isUncatchable then some (.go e) else none      -- case uncatchableException / case error
  | .exc ex => if excIsUncatchable ex then some (.exc ex) else none -- case error (an *Exception is an error)
  | _ => none

inductive Class where
  | catchable (ex : Exc)
  | uncatchable (ev : ErrVal)
  | foreign
  deriving DecidableEq, Repr

/-- What every recover site does, in its order: exceptionFromValue first (handleThrow), then asUncatchableException. -/
def classify (o : StackTop) (x : Pv) : Class :=
  match exceptionFromValue o x with
  | some ex => .catchable ex
  | none => match asUncatchableException x with
    | some ev => .uncatchable ev
    | none => .foreign

/-! ## handleThrow over an explicit try stack (vm.go:800) -/

inductive TF where
  | marker                               -- catchPos == tryPanicMarker (vm.try / runTry / __call)
  | js (catchPos finallyPos : Bool)      -- JS try frame: catchPos >= 0 / finallyPos >= 0 (false = -1)
  deriving DecidableEq, Repr

inductive HT where
  | caught (ex : Exc) (rest : List TF)       -- vm.push(ex.val); pc = catchPos; tf.catchPos = -1; return nil
  | toFinally (ex : Exc) (rest : List TF)    -- tf.exception = ex; pc = finallyPos; tf.finallyPos = -1; return nil
  | returned (ex : Exc) (rest : List TF)     -- loop left at a marker (or stack exhausted): return ex
  | repanic (x : Pv) (rest : List TF)        -- ex == nil: panic(arg)
  deriving Repr

def handleThrowLoop (ex : Option Exc) (arg : Pv) : List TF → HT
  | [] => match ex with | none => .repanic arg [] | some e => .returned e []
  | .js false false :: rest => handleThrowLoop ex arg rest           -- catchPos == -1 && finallyPos == -1: pop
  | .js c f :: rest =>
    match ex with
    | none => handleThrowLoop ex arg rest                            -- ex == nil && catchPos != marker: pop
    | some e => if c then .caught e (.js false f :: rest) else .toFinally e (.js false false :: rest)
  | .marker :: rest =>
    match ex with
    | none => .repanic arg (.marker :: rest)
    | some e => .returned e (.marker :: rest)

def handleThrow (o : StackTop) (arg : Pv) (ts : List TF) : HT :=
  handleThrowLoop (exceptionFromValue o arg) arg ts

/-- `_throw.exec` (vm.go:4823): own stack of an errorObject is reused only if non-empty. -/
def throwExec (site : StackTop) (v : JsVal) : Exc :=
  ⟨v, match v.ownStack with
      | some .empty => site
      | some s => s
      | none => site⟩

/-! ## Control flow between frames -/

/-- What a callee hands to its caller: normal return, or a Go panic in flight (`o` = vm position at panic time).
A JS-level exception in flight inside a run loop is `panic (.exc ex)`. -/
inductive Flow where
  | normal
  | panic (x : Pv) (o : StackTop)
  | pending (e : GoErr)       -- returned normally to NATIVE code while the interrupt flag is set: vm.run raises `e`
                              -- (a new *InterruptedError with the same iface) at the next script instruction (vm.go run loop)
  deriving DecidableEq, Repr, Inhabited

inductive TryRes where
  | ok | ex (e : Exc) | panic (x : Pv) (o : StackTop)
  deriving Repr

/-- vm.try (vm.go:854): marker frame, recover → handleThrow. -/
def vmTry : Flow → TryRes
  | .pending e => .panic (.goErr e) .other     -- the function run under vm.try is script code here: the interrupt fires in it
  | .normal => .ok
  | .panic x o =>
    match handleThrow o x [.marker] with
    | .returned e _ => .ex e
    | _ => .panic x o

/-- baseJsFuncObject.__call + _call (func.go:397,449): marker frame, runTryInner's recover → handleThrow; `_call` panics ex. -/
def jsCall : Flow → Flow
  | .pending e => .panic (.goErr e) .other     -- a JS callee: the interrupt fires before it returns
  | .normal => .normal
  | .panic x o =>
    match handleThrow o x [.marker] with
    | .returned e _ => .panic (.exc e) o
    | _ => .panic x o

/-- Calling a function object from Go: JS function → `Call` (= _call); native function → the Go func itself. -/
def invoke (calleeIsJS : Bool) (fl : Flow) : Flow := if calleeIsJS then jsCall fl else fl

inductive CallRes where
  | ok | err (e : ErrVal) | panic (x : Pv) (o : StackTop)
  deriving DecidableEq, Repr

/-- The deferred recover shared by runWrapped (runtime.go:2505) and RunProgram (runtime.go:1444):
`if ex := asUncatchableException(x); ex != nil { err = ex } else { panic(x) }`. -/
def recoverUncatchable (x : Pv) (o : StackTop) : CallRes :=
  match asUncatchableException x with
  | some ev => .err ev
  | none => .panic x o

/-- Runtime.runWrapped (runtime.go:2504): vm.try, then the deferred recover with asUncatchableException. -/
def runWrapped (fl : Flow) : CallRes :=
  match vmTry fl with
  | .ok => .ok
  | .ex e => .err (.exc e)
  | .panic x o => recoverUncatchable x o

/-- Runtime.RunProgram (runtime.go:1434): runTry (marker + runTryInner), deferred recover with asUncatchableException. -/
def runProgram (fl : Flow) : CallRes :=
  match handleThrowOpt fl with
  | .ok => .ok
  | .ex e => .err (.exc e)
  | .panic x o => recoverUncatchable x o
where
  handleThrowOpt : Flow → TryRes
    | .pending e => .panic (.goErr e) .other   -- the program is script code: the interrupt fires in it
    | .normal => .ok
    | .panic x o =>
      match handleThrow o x [.marker] with
      | .returned e _ => .ex e
      | _ => .panic x o

/-- Callable returned by AssertFunction (runtime.go:2468). -/
def callable (calleeIsJS : Bool) (fl : Flow) : CallRes := runWrapped (invoke calleeIsJS fl)

/-- wrapReflectFunc, error branch (runtime.go:2037): `last` = the Go func's error result. -/
def wrapReflectErr : Option ErrVal → Flow
  | none => .normal                                             -- last.IsNil()
  | some (.exc ex) => .panic (.exc ex) .other                   -- err.(*Exception) → panic(err)
  | some (.go e) =>
    if e.isUncatchable then .panic (.goErr e) .other            -- isUncatchableException(err) → panic(err)
    else .panic (.val (.freshGoError e)) .other                 -- panic(r.NewGoError(err))

/-- `fmt.Errorf("rfw: %w", err)` in a native frame. -/
def wrapErr : ErrVal → GoErr
  | .go e => .wrap 0 e
  | .exc ex =>
    match ex.val.goErrValue with
    | some i => .wrapExcGo 0 ex.val.key ex.top i
    | none => .wrapExc 0 ex.val.key ex.top

/-- wrapJSFunc for a func type whose last result is `error` (runtime.go:2251..2297). -/
def wrapJSFuncE : CallRes → CallRes
  | .ok => .ok
  | .err (.exc ex) =>
    match ex.val.goErrValue with                                -- ex.val is an object with `value` assignable to error
    | some e => .err (.go e)
    | none => .err (.exc ex)
  | .err (.go e) => .err (.go e)
  | .panic x o => .panic x o

/-- wrapJSFunc for a func type without an error result: `panic(err)` (runtime.go:2299). -/
def wrapJSFuncN : CallRes → Flow
  | .ok => .normal
  | .err ev => .panic ev.toPv .other
  | .panic x o => .panic x o

/-- The harness idiom of a native frame without an error result: `if err != nil { panic(err) }`. -/
def panicErr : CallRes → Flow
  | .ok => .normal
  | .err ev => .panic ev.toPv .other
  | .panic x o => .panic x o

/-- The idiom `if ex, ok := err.(*Exception); ok { panic(ex.Value()) }; panic(err)`: the value is re-thrown, the
*Exception (and its stack) is dropped. -/
def panicValue : CallRes → Flow
  | .ok => .normal
  | .err (.exc ex) => .panic (.val ex.val) .other
  | .err (.go e) => .panic (.goErr e) .other
  | .panic x o => .panic x o

/-- The idiom `return nil, fmt.Errorf("…: %w", err)` through a reflect-wrapped func with an error result. -/
def returnWrapped : CallRes → Flow
  | .ok => wrapReflectErr none
  | .err ev => wrapReflectErr (some (.go (wrapErr ev)))
  | .panic x o => .panic x o

/-- A native frame that returns the Callable's error through a reflect-wrapped func with an error result. -/
def returnErr : CallRes → Flow
  | .ok => wrapReflectErr none
  | .err ev => wrapReflectErr (some ev)
  | .panic x o => .panic x o

/-! ## Frames -/

inductive JsKind where
  | j0 | jc | jr | jf | jcf | jrf
  deriving DecidableEq, Repr, Inhabited

namespace JsKind
def hasCatch : JsKind → Bool | jc | jr | jcf | jrf => true | _ => false
def rethrows : JsKind → Bool | jr | jrf => true | _ => false
def hasFinally : JsKind → Bool | jf | jcf | jrf => true | _ => false
def swallows (k : JsKind) : Bool := k.hasCatch && !k.rethrows
end JsKind

inductive Frame where
  | js (k : JsKind)
  | fc | rfe | rfn | ct | xfe | xfn | px | gt | fo | dy | rp
  | fcv          -- native FunctionCall re-raising with panic(ex.Value())
  | rfw          -- reflect func returning fmt.Errorf("%w", err)
  | ji           -- JS `for (x of it) next()` over an iterator that has a return() method
  | jg | jgf     -- generator body (resumed after a yield) calling next; jgf: inside try/finally
  | ja           -- async function calling next in its synchronous part
  | fot          -- Runtime.ForOf whose step callback calls next, over an iterator whose return() throws
  | jit          -- JS `for (x of it) next()` over an iterator whose return() method itself throws
  | jy | jyf     -- generator delegating with `yield*` to a generator whose body calls next; jyf: the yield* is inside try/finally
  | fcs          -- native FunctionCall that ignores the Callable's error (swallows it) and returns normally
  | jiu          -- JS `for (x of it) next()` over an iterator whose return() raises an UNCATCHABLE error (a native function it
                 --   calls panics with a *StackOverflowError) while handleThrow closes it
  | jgt          -- JS `try { next() } catch (e) { log; g.throw(e) }` with g a generator suspended at a yield inside try/finally
  | tg           -- native FunctionCall doing `ex := r.Try(func(){ obj.Get("x") })` on an accessor whose getter is next; panic(ex)
  | pr           -- Promise.resolve().then(next): the rest runs as a promise job
  | jaw          -- async function: `await null; next()`: the rest runs as a promise job
  deriving DecidableEq, Repr, Inhabited

namespace Frame
/-- Is the function object that represents this frame a JS function (true) or a native one (false)? -/
def isJS : Frame → Bool
  | js _ | ct | px | dy | pr | ji | jg | jgf | ja | jaw | jit | jy | jyf | jiu | jgt => true     -- ct / px / dy / pr are entered through a JS shim
  | _ => false
/-- The frame ends the propagation of a JS exception: a catch without rethrow, or an async function (its promise
is rejected with the value instead)'. -/
def swallows : Frame → Bool | js k => k.swallows | ja => true | fcs => true | jiu => true | _ => false
/-- A native frame that drops the error the Callable returned — also an uncatchable one. -/
def dropsErrors : Frame → Bool | fcs => true | _ => false
/-- The frame replaces the exception in flight by ANOTHER exception: no frame does since fix 51964d9 (before it,
Runtime.ForOf called the iterator's return() unguarded — see `fotPrefix`). -/
def replaces : Frame → Bool | jiu => true | _ => false
def unwraps : Frame → Bool | xfe => true | _ => false
/-- The frame replaces the *Exception (new stack) while keeping the value. -/
def rethrows : Frame → Bool | js k => k.rethrows | fcv => true | jgt => true | _ => false
/-- The frame replaces the value by a GoError around a Go error that wraps the *Exception. -/
def rewraps : Frame → Bool | rfw => true | _ => false
/-- The rest of the chain runs later, as a promise job. -/
def isSplit : Frame → Bool | pr | jaw => true | _ => false
end Frame

inductive LogKind where
  | caught (v : JsVal)        -- a catch block ran and received v
  | fin                       -- a finally block ran
  | iterReturn                -- the return() method of an open iterator ran (iterator close during unwinding)
  | asyncReject (v : JsVal)   -- the promise of an async function was rejected with v (seen by the rejection tracker)
  deriving DecidableEq, Repr

structure LogE where
  idx : Nat
  kind : LogKind
  deriving DecidableEq, Repr

/-- generatorObject.throw(v): the value is raised inside the suspended generator through exceptionFromValue, i.e. the
own stack of an Error object is used even if empty, else the stack is captured at the generator's yield. -/
def genThrowTop (idx : Nat) (v : JsVal) : StackTop :=
  match v.ownStack with
  | some s => s
  | none => .genYield idx

/-- A JS function `function(){ try { next() } catch(e){ log; [throw e] } finally { log } }` under handleThrow. -/
def jsFrame (idx : Nat) (k : JsKind) : Flow → Flow × List LogE
  | .pending e => (.panic (.goErr e) .other, [])                     -- fires at the instruction after the call: uncatchable
  | .normal => (.normal, if k.hasFinally then [⟨idx, .fin⟩] else [])
  | .panic x o =>
    match handleThrow o x [.js k.hasCatch k.hasFinally, .marker] with
    | .repanic _ _ => (.panic x o, [])                              -- not classifiable: no catch, no finally
    | .returned e _ => (.panic (.exc e) o, [])                       -- no try frame left: up to the loop's entry
    | .toFinally e rest =>                                           -- finally runs, then re-throws tf.exception
      (match handleThrow o (.exc e) rest with
        | .returned e' _ => .panic (.exc e') o
        | _ => .panic (.exc e) o, [⟨idx, .fin⟩])
    | .caught e rest =>
      if k.rethrows then
        let e1 := throwExec (.rethrow idx) e.val            -- `throw e` inside the catch block
        match handleThrow (.rethrow idx) (.exc e1) rest with
        | .toFinally e2 rest2 =>
          (match handleThrow (.rethrow idx) (.exc e2) rest2 with
            | .returned e3 _ => .panic (.exc e3) (.rethrow idx)
            | _ => .panic (.exc e2) (.rethrow idx), [⟨idx, .caught e.val⟩, ⟨idx, .fin⟩])
        | .returned e2 _ => (.panic (.exc e2) (.rethrow idx), [⟨idx, .caught e.val⟩])
        | _ => (.panic (.exc e1) (.rethrow idx), [⟨idx, .caught e.val⟩])
      else
        (.normal, ⟨idx, .caught e.val⟩ :: (if k.hasFinally then [⟨idx, .fin⟩] else []))

/-- A JS shim without try (`function(){ new N() }`, `function(){ p.x }`). -/
def shim (fl : Flow) : Flow := (jsFrame 0 .j0 fl).1

/-- One frame: `cjs` says whether the callee's function object is a JS function. -/
def applyFrameCore (idx : Nat) (f : Frame) (cjs : Bool) (fl : Flow) : Flow × List LogE :=
  match f with
  | .js k => jsFrame idx k fl
  | .fc => (panicErr (callable cjs fl), [])                              -- func(FunctionCall) Value
  | .rfe => (returnErr (callable cjs fl), [])                            -- reflect func() (Value, error)
  | .rfn => (panicErr (callable cjs fl), [])                             -- reflect func() Value
  | .ct => (shim (panicErr (callable cjs fl)), [])                       -- func(ConstructorCall) *Object, `new N()`
  | .xfe => (returnErr (wrapJSFuncE (callable cjs fl)), [])              -- ExportTo'd func() (Value, error)
  | .xfn => (wrapJSFuncN (callable cjs fl), [])                          -- ExportTo'd func() Value
  | .px => (shim (panicErr (callable cjs fl)), [])                       -- ProxyTrapConfig.Get
  | .gt => (invoke cjs fl, [])                                           -- Object.Get on an accessor (value.go:806): no recover
  | .fo =>                                                               -- Runtime.ForOf (runtime.go:2795): iter.step = vm.try(next)
    (match vmTry (jsCall fl) with
      | .ok => .normal
      | .ex e => .panic (.exc e) .other
      | .panic x o => .panic x o, [])
  | .dy => (shim (panicErr (callable cjs fl)), [])                       -- DynamicObject.Get
  | .rp => (panicErr (runProgram fl), [])                                -- nested RunProgram("__c<i>()")
  | .fcv => (panicValue (callable cjs fl), [])                            -- panic(ex.Value())
  | .rfw => (returnWrapped (callable cjs fl), [])                         -- return fmt.Errorf("%w", err)
  | .ji =>                                                               -- handleThrow → _restoreStacks(…, ex != nil) (vm.go)
    (match fl with
      | .pending e => (.panic (.goErr e) .other, [])
      | .normal => (.normal, [])                                         -- iterator exhausted: no return()
      | .panic x o =>
        match handleThrow o x [.marker] with
        | .returned e _ => (.panic (.exc e) o, [⟨idx, .iterReturn⟩])      -- closeIters = true: return() runs
        | _ => (.panic x o, []))                                         -- ex == nil: iterators are dropped, not closed
  | .jg => (jsCall fl, [])                                               -- generator.enterNext marker + generatorObject.step panic(ex)
  | .jgf => ((jsCall (jsFrame idx .jf fl).1), (jsFrame idx .jf fl).2)
  | .ja =>                                                               -- asyncRunner.start/step: ex → promiseCap.reject(ex.val)
    (match fl with
      | .pending e => (.panic (.goErr e) .other, [])
      | .normal => (.normal, [])
      | .panic x o =>
        match handleThrow o x [.marker] with
        | .returned e _ => (.normal, [⟨idx, .asyncReject e.val⟩])
        | _ => (.panic x o, []))
  | .fot =>                                                              -- Runtime.ForOf (runtime.go): step under vm.try, then
    (match vmTry (panicErr (callable cjs fl)) with                       --   `if ex != nil { _ = r.vm.try(iter.returnIter); panic(ex) }`
      | .ok => (.normal, [])                                             -- next iteration: the iterator is exhausted
      | .ex e => (.panic (.exc e) .other, [⟨idx, .iterReturn⟩])          -- return() runs guarded (fix 51964d9): the original wins
      | .panic x o => (.panic x o, []))                                  -- vm.try re-panics what is not a JS exception
  | .jit =>                                                              -- like ji; the exception thrown by return() during unwinding
    (match fl with                                                       --   is discarded: `_ = vm._restoreStacks(..)` (vm.go handleThrow)
      | .pending e => (.panic (.goErr e) .other, [])
      | .normal => (.normal, [])
      | .panic x o =>
        match handleThrow o x [.marker] with
        | .returned e _ => (.panic (.exc e) o, [⟨idx, .iterReturn⟩])
        | _ => (.panic x o, []))
  | .jy =>                                                               -- generatorObject.next → tryCallDelegated (func.go): runtime.try around
    (match vmTry (jsCall fl) with                                        --   the inner generator's next(); ex → gen.nextThrow(ex) resumes the outer
      | .ok => (.normal, [])                                             --   generator by throwing ex at the yield*; its step panics ex
      | .ex e => (jsCall (.panic (.exc e) .other), [])
      | .panic x o => (.panic x o, []))
  | .jyf =>
    (match vmTry (jsCall fl) with
      | .ok => ((jsFrame idx .jf .normal).1, (jsFrame idx .jf .normal).2)
      | .ex e => (jsCall (jsFrame idx .jf (.panic (.exc e) .other)).1, (jsFrame idx .jf (.panic (.exc e) .other)).2)
      | .panic x o => (.panic x o, []))
  | .jiu =>                                                              -- handleThrow closes the iterator for a JS exception; return() is
    (match fl with                                                       --   aborted by an uncatchable error: vm.try in _restoreStacks re-panics
      | .pending e => (.panic (.goErr e) .other, [])                     --   it, handleThrow's deferred recover (404e270) unwinds for it: the
      | .normal => (.normal, [])                                         --   uncatchable error REPLACES the exception in flight
      | .panic x o =>
        match handleThrow o x [.marker] with
        | .returned _ _ => (.panic (.goErr (.stackOverflow 8)) .other, [⟨idx, .iterReturn⟩])
        | _ => (.panic x o, []))
  | .jgt =>                                                              -- generatorObject.throw (func.go): the value is raised anew inside the
    (match fl with                                                       --   suspended generator (exceptionFromValue at its yield), its finally
      | .pending e => (.panic (.goErr e) .other, [])                     --   runs, generatorObject.step panics the exception
      | .normal => (.normal, [])
      | .panic x o =>
        match handleThrow o x [.marker] with
        | .returned e _ =>
          (.panic (.exc ⟨e.val, genThrowTop idx e.val⟩) (.genYield idx),
            [⟨idx, .caught e.val⟩, ⟨idx, .fin⟩])
        | _ => (.panic x o, []))
  | .tg =>                                                               -- Runtime.Try (runtime.go) = vm.try + a deferred recover that
    (match vmTry (invoke cjs fl) with                                    --   re-panics what is not a JS exception; the frame panics ex
      | .ok => .normal
      | .ex e => .panic (.exc e) .other
      | .panic x o => .panic x o, [])
  | .fcs =>                                                              -- `_, _ = fn(undefined)`: the error value is dropped
    (match callable cjs fl with
      | .panic x o => (.panic x o, [])
      | .err (.go e) =>                                                  -- the error is dropped, not the interrupt FLAG
        (match e.liveInterrupt with | some i => .pending i | none => .normal, [])
      | _ => (.normal, []))
  | .pr => (fl, [])                                                      -- never applied (segments are split at pr / jaw)
  | .jaw => (fl, [])

/-- The `fot` frame BEFORE fix 51964d9 (`iter.returnIter()` unguarded): the Error thrown by the iterator's return()
left ForOf instead of the original exception.  Kept for the regression lemma `…_prefix_witness` in Props. -/
def fotPrefix (idx : Nat) (cjs : Bool) (fl : Flow) : Flow × List LogE :=
  match vmTry (panicErr (callable cjs fl)) with
  | .ok => (.normal, [])
  | .ex _ => (.panic (.exc ⟨.freshErr .error .other, .other⟩) .other, [⟨idx, .iterReturn⟩])
  | .panic x o => (.panic x o, [])

/-- Frames made of Go code only between the return of their callee and their own return: an interrupt pending at
that moment stays pending.  Every other frame runs script code first (the JS function itself, a JS shim, the
iterator's next(), the nested program), where vm.run raises it. -/
def Frame.pureNative : Frame → Bool
  | .fc | .rfe | .rfn | .xfe | .xfn | .fcv | .rfw | .fcs | .gt | .tg => true
  | _ => false

/-- One frame, including the sticky interrupt flag. -/
def applyFrame (idx : Nat) (f : Frame) (cjs : Bool) (fl : Flow) : Flow × List LogE :=
  match fl with
  | .pending e => if f.pureNative then (.pending e, []) else applyFrameCore idx f cjs (.panic (.goErr e) .other)
  | fl => applyFrameCore idx f cjs fl

/-! ## Payloads (the innermost function) -/

inductive Payload where
  | jsThrow (v : JsVal)                      -- `throw v`
  | jsSentinel (k : Sentinel)                -- VM / builtin raises a sentinel panic from script code
  | jsInterrupt (id : Nat) (iface : GoErr)   -- r.Interrupt(iface) then a busy loop
  | jsStackOverflow (id : Nat)               -- unbounded recursion
  | natPanicVal (v : JsVal)                  -- native: panic(v)
  | natPanicNewTypeError                     -- native: panic(r.NewTypeError(..))
  | natReturn (e : Option GoErr)             -- reflect-wrapped func returns (undefined, e)
  | natPanicErr (e : GoErr)                  -- native: panic(e)
  | natPanicOther (id : Nat)                 -- native: panic(42)
  | natRuntimeErr (id : Nat)                 -- native: index out of range
  deriving DecidableEq, Repr, Inhabited

namespace Payload

def isJS : Payload → Bool
  | jsThrow _ | jsSentinel _ | jsInterrupt _ _ | jsStackOverflow _ => true
  | _ => false

def flow : Payload → Flow
  | jsThrow v => .panic (.exc (throwExec .thrower v)) .thrower
  | jsSentinel k =>                                   -- typeE/refE raised by an exec method; rangeE/syntaxE inside builtin BigInt
    .panic (.sentinel k) (match k with | .typeE | .refE => .thrower | _ => .other)
  | jsInterrupt id f => .panic (.goErr (.interruptedE id f)) .thrower          -- vm.run (vm.go:638)
  | jsStackOverflow id => .panic (.goErr (.stackOverflow id)) .thrower         -- vm.pushCtx (vm.go:912)
  | natPanicVal v => .panic (.val v) .other
  | natPanicNewTypeError => .panic (.val (.freshErr .typeError .other)) .other
  | natReturn e => wrapReflectErr (e.map .go)
  | natPanicErr e => .panic (.goErr e) .other
  | natPanicOther id => .panic (.other id) .other
  | natRuntimeErr id => .panic (.goErr (.runtimeErr id)) .other

end Payload

/-! ## Chains, promise-job segments, host entries -/

abbrev Seg := List (Nat × Frame)

def indexed : Nat → List Frame → List (Nat × Frame)
  | _, [] => []
  | i, f :: fs => (i, f) :: indexed (i + 1) fs

/-- Split an indexed chain at the `pr` / `jaw` frames: the first segment runs synchronously, every later one as a promise job. -/
def splitSegs : List (Nat × Frame) → Seg × List Seg
  | [] => ([], [])
  | f :: rest => if f.2.isSplit then ([], (splitSegs rest).1 :: (splitSegs rest).2)
                 else (f :: (splitSegs rest).1, (splitSegs rest).2)

def headIsJS : Seg → Bool → Bool
  | [], inner => inner
  | (_, f) :: _, _ => f.isJS

/-- Evaluate one segment inside-out. `ijs`: is the innermost callee a JS function. -/
def evalSeg : Seg → Flow → Bool → Flow × List LogE
  | [], fl, _ => (fl, [])
  | (i, f) :: rest, fl, ijs =>
    let r := evalSeg rest fl ijs
    let a := applyFrame i f (headIsJS rest ijs) r.1
    (a.1, r.2 ++ a.2)

inductive HostOutcome where
  | ok
  | err (e : ErrVal)        -- returned error
  | panic (x : Pv)          -- Go panic escaped to the host
  deriving DecidableEq, Repr

structure Out where
  host : HostOutcome
  rej : List JsVal          -- unhandled promise rejections (tracker), in order
  log : List LogE
  deriving Repr

def CallRes.toHost : CallRes → HostOutcome
  | .ok => .ok
  | .err e => .err e
  | .panic x _ => .panic x

/-- A non-last segment ends in the `pr` shim (a JS function that returns normally); the last one in the thrower. -/
def segInner (p : Payload) (isLast : Bool) : Flow × Bool :=
  if isLast then (p.flow, p.isJS) else (.normal, true)

/-- Runtime.leave (runtime.go, job loop) + newPromiseReactionJob (builtin_promise.go:203): each job runs its
handler under vm.try; an exception rejects the derived promise with ex.val; a panic that is not an exception
leaves `leave()` and reaches the entry's deferred recover. -/
def runJobs (p : Payload) : List Seg → Out
  | [] => ⟨.ok, [], []⟩
  | s :: ss =>
    let inner := segInner p ss.isEmpty
    let r := evalSeg s inner.1 inner.2
    match vmTry (invoke (headIsJS s inner.2) r.1) with
    | .ok => let o := runJobs p ss; ⟨o.host, o.rej, r.2 ++ o.log⟩
    | .ex e => let o := runJobs p ss; ⟨o.host, e.val :: o.rej, r.2 ++ o.log⟩
    | .panic x o => ⟨(recoverUncatchable x o).toHost, [], r.2⟩

inductive Entry where
  | runString     -- r.RunProgram("__entry()")
  | callable      -- AssertFunction(callee)(undefined)
  | exported      -- ExportTo(callee, &func() (Value, error))
  deriving DecidableEq, Repr, Inhabited

/-- All segments of a chain: the synchronous one first, then the promise jobs in order. -/
def allSegs (chain : List Frame) : List Seg :=
  (splitSegs (indexed 0 chain)).1 :: (splitSegs (indexed 0 chain)).2

/-- `leave()` (the job loop) runs only when the call did not leave through the deferred recover
(runtime.go:1484 / 2521): not after an uncatchable error (leaveAbrupt), not while a foreign panic unwinds. -/
def ranLeave : CallRes → Bool
  | .ok => true
  | .err (.exc _) => true
  | .err (.go _) => false
  | .panic _ _ => false

/-- The synchronous part of the outermost call, up to (not including) `leave()`. -/
def firstCall (entry : Entry) (headJS : Bool) (fl : Flow) : CallRes :=
  -- (a pending interrupt reaching a Callable / exported entry fires in the JS trampoline through which the harness
  --  enters chains that contain an error-swallowing native frame; a direct native entry is not modelled)
  match entry with
  | .runString => runProgram fl            -- the top-level script calls the chain: JS → callee
  | .callable => callable headJS fl
  | .exported => callable headJS fl        -- wrapJSFunc calls the Callable first (runtime.go:2275)

/-- A panic value escaping a job overrides the result through the entry's deferred recover. -/
def mergeJobs (first : CallRes) (jobsHost : HostOutcome) : CallRes :=
  match jobsHost with
  | .ok => first
  | .err e => .err e
  | .panic x => .panic x .other

def finish (entry : Entry) (c : CallRes) : CallRes :=
  match entry with
  | .exported => wrapJSFuncE c
  | .runString => c
  | .callable => c

def hostRunSegs (entry : Entry) (p : Payload) (s0 : Seg) (ss : List Seg) : Out :=
  if ranLeave (firstCall entry (headIsJS s0 (segInner p ss.isEmpty).2)
      (evalSeg s0 (segInner p ss.isEmpty).1 (segInner p ss.isEmpty).2).1) then
    ⟨(finish entry (mergeJobs (firstCall entry (headIsJS s0 (segInner p ss.isEmpty).2)
        (evalSeg s0 (segInner p ss.isEmpty).1 (segInner p ss.isEmpty).2).1) (runJobs p ss).host)).toHost,
      (runJobs p ss).rej,
      (evalSeg s0 (segInner p ss.isEmpty).1 (segInner p ss.isEmpty).2).2 ++ (runJobs p ss).log⟩
  else
    ⟨(finish entry (firstCall entry (headIsJS s0 (segInner p ss.isEmpty).2)
        (evalSeg s0 (segInner p ss.isEmpty).1 (segInner p ss.isEmpty).2).1)).toHost, [],
      (evalSeg s0 (segInner p ss.isEmpty).1 (segInner p ss.isEmpty).2).2⟩

/-- The whole run as seen by the Go host. -/
def hostRun (entry : Entry) (chain : List Frame) (p : Payload) : Out :=
  hostRunSegs entry p (splitSegs (indexed 0 chain)).1 (splitSegs (indexed 0 chain)).2

/-- The host enters through Runtime.Try: `ex := r.Try(func() { obj.Get("x") })` on an accessor whose getter is the
head of the chain.  Runtime.Try (runtime.go) is vm.try plus a deferred recover that RE-PANICS everything that is not a
JS exception (uncatchable errors too), and it never calls `leave()`: pending promise jobs stay queued. -/
def hostRunTry (chain : List Frame) (p : Payload) : Out :=
  ⟨match vmTry (invoke (headIsJS (splitSegs (indexed 0 chain)).1 (segInner p (splitSegs (indexed 0 chain)).2.isEmpty).2)
      (evalSeg (splitSegs (indexed 0 chain)).1 (segInner p (splitSegs (indexed 0 chain)).2.isEmpty).1
        (segInner p (splitSegs (indexed 0 chain)).2.isEmpty).2).1) with
    | .ok => .ok
    | .ex e => .err (.exc e)
    | .panic x _ => .panic x,
   [],
   (evalSeg (splitSegs (indexed 0 chain)).1 (segInner p (splitSegs (indexed 0 chain)).2.isEmpty).1
      (segInner p (splitSegs (indexed 0 chain)).2.isEmpty).2).2⟩

/-! ## What the host can ask of the error it got -/

/-- errors.Is(hostErr, target). -/
def ErrVal.errIs : ErrVal → Nat → Bool
  | .go e, t => e.errIs t
  | .exc ex, t => match ex.unwrap with | some e => e.errIs t | none => false

/-- errors.As(hostErr, &*CustomErr). -/
def ErrVal.errAs : ErrVal → Option Nat
  | .go e => e.errAs
  | .exc ex => match ex.unwrap with | some e => e.errAs | none => none

/-- Values of the *Exceptions met while walking `errors.Unwrap` from a Go error (what a host loop
`for e := err; e != nil; e = errors.Unwrap(e) { if ex, ok := e.(*Exception) … }` sees). -/
def GoErr.excVals : GoErr → List JsVal
  | .wrap _ i => excVals i
  | .interruptedE _ f => excVals f
  | .wrapExc _ k _ => [JsVal.ofKey k none]
  | .wrapExcGo _ k _ i => JsVal.ofKey k (some i) :: (if k.isGoErrorInstance then excVals i else [])
  | _ => []

def ErrVal.excVals : ErrVal → List JsVal
  | .go e => e.excVals
  | .exc ex => ex.val :: (match ex.unwrap with | some e => e.excVals | none => [])

/-- Does calling `.Error()` on the host's error panic? (only an *Exception's own Error() stringifies a JS value; a
fmt.Errorf wrapper computed its text when it was made, with fmt's own panic guard). -/
def ErrVal.errorPanics : ErrVal → Bool
  | .go _ => false
  | .exc ex => ex.errorPanics

/-- The Go error the host reaches with errors.Unwrap / Is / As from the error it was handed. -/
def ErrVal.carried : ErrVal → Option GoErr
  | .go e => some e
  | .exc ex => ex.unwrap

end GojaModel.C14
