/-
  C14 driver: one case per line  `<entry> <payload> <frame>,<frame>,...`  (same grammar as harness/cmd/c14),
  one canonical answer line.  Core Lean only.
-/
import GojaModel.Base.Proto
import GojaModel.C14.Model

namespace GojaModel.C14.Driver
open GojaModel.C14

/-! ## The registered values of the harness (harness/cmd/c14/main.go newGoErrs / srcShims.vals) -/

def goErrByName : String → Option GoErr
  | "E1" => some (.plain 1)
  | "C2" => some (.custom 2)
  | "W3" => some (.wrap 3 (.custom 2))
  | "J4" => some (.join 4 (.plain 1) (.custom 2))
  | "I5" => some (.interrupted 5)
  | "WI6" => some (.wrap 6 (.interrupted 5))
  | "JI7" => some (.join 7 (.interrupted 5) (.plain 1))
  | "S8" => some (.stackOverflow 8)
  | "E9" => some (.plain 9)
  | "WS12" => some (.wrap 12 (.stackOverflow 8))
  | "X14" => some (.customIs 14 1)                    -- Is(E1) = true
  | "WX15" => some (.wrap 15 (.customIs 14 1))
  | "A16" => some (.customAs 16 2)                    -- As(&*CustomErr) gives C2
  | "JJ17" => some (.join 17 (.plain 1) (.join 0 (.custom 2) (.wrap 6 (.interrupted 5))))
  | "JD18" => some (.join 18 (.wrap 3 (.custom 2)) (.wrap 3 (.custom 2)))
  | _ => none

def targets : List Nat := [1, 2, 3, 4, 5, 6, 7, 8, 9, 12, 14, 15, 16, 17, 18]

def idName : Nat → String
  | 1 => "E1" | 2 => "C2" | 3 => "W3" | 4 => "J4" | 5 => "I5" | 6 => "WI6" | 7 => "JI7" | 8 => "S8" | 9 => "E9"
  | 12 => "WS12" | 14 => "X14" | 15 => "WX15" | 16 => "A16" | 17 => "JJ17" | 18 => "JD18" | n => "?id" ++ toString n

def clsName : ErrClass → String
  | .error => "Error" | .typeError => "TypeError" | .referenceError => "ReferenceError"
  | .rangeError => "RangeError" | .syntaxError => "SyntaxError" | .myErr => "MyErr"

/-- Canonical name of a JS value from its key and the name of the Go error it holds. -/
def keyName (k : JsKey) (inner : Option String) : String :=
  match k with
  | .prim i => "P" ++ toString i
  | .obj 2 => "V2"
  | .obj 12 => "O2" | .obj 13 => "O3" | .obj 14 => "O4"
  | .obj i => "O" ++ toString i
  | .objU i => "U" ++ toString i
  | .errObj i _ => "R" ++ toString i
  | .goError i => "G" ++ toString i
  | .valObj i => "V" ++ toString i
  | .freshErr c _ => "new:" ++ clsName c
  | .freshGoError => "ge(" ++ inner.getD "?" ++ ")"

def goErrName : GoErr → String
  | .interruptedE 10 f => "intr(" ++ idName f.id ++ ")"
  | .stackOverflow 11 => "so"
  | .runtimeErr _ => "rt"
  | .wrap 0 e => "w(" ++ goErrName e ++ ")"                               -- fmt.Errorf("rfw: %w", e) made in flight
  | .wrapExc 0 k _ => "w(x(" ++ keyName k none ++ "))"
  | .wrapExcGo 0 k _ i => "w(x(" ++ keyName k (some (goErrName i)) ++ "))"
  | e => idName e.id

def valByName : String → Option JsVal
  | "P1" => some (.prim 1) | "P2" => some (.prim 2) | "P3" => some (.prim 3) | "P4" => some (.prim 4)
  | "O1" => some (.obj 1) | "O2" => some (.obj 12) | "O3" => some (.obj 13) | "O4" => some (.obj 14)
  | "P5" => some (.prim 5) | "P6" => some (.prim 6)
  | "R1" => some (.errObj 1 .error) | "R2" => some (.errObj 2 .typeError) | "R3" => some (.errObj 3 .myErr)
  | "G1" => some (.goError 1 (.plain 1))
  | "G3" => some (.goError 3 (.wrap 3 (.custom 2)))
  | "G4" => some (.goError 4 (.join 4 (.plain 1) (.custom 2)))
  | "G6" => some (.goError 6 (.wrap 6 (.interrupted 5)))
  | "V1" => some (.valObj 1 (.plain 1))
  | "U1" => some (.objU 1) | "U2" => some (.objU 2) | "U3" => some (.objU 3)
  | "V2" => some (.obj 2)                       -- {value: 42}: a `value` property that is not a Go error
  | _ => none

def valName (v : JsVal) : String := keyName v.key (v.goErrValue.map goErrName)

def pvName : Pv → String
  | .val v => "val(" ++ valName v ++ ")"
  | .exc ex => "exc(" ++ valName ex.val ++ ")"
  | .sentinel _ => "sentinel"
  | .goErr e => "goerr(" ++ goErrName e ++ ")"
  | .other n => "other(" ++ toString n ++ ")"

def topName : StackTop → String
  | .thrower => "T"
  | .rethrow i => "R" ++ toString i
  | .creation => "C"
  | .genYield i => "Y" ++ toString i
  | _ => "o"

def parseFrame : String → Option Frame
  | "J0" => some (.js .j0) | "JC" => some (.js .jc) | "JR" => some (.js .jr)
  | "JF" => some (.js .jf) | "JCF" => some (.js .jcf) | "JRF" => some (.js .jrf)
  | "FC" => some .fc | "RFE" => some .rfe | "RFN" => some .rfn | "CT" => some .ct
  | "XFE" => some .xfe | "XFN" => some .xfn | "PX" => some .px | "GT" => some .gt
  | "FO" => some .fo | "DY" => some .dy | "RP" => some .rp | "PR" => some .pr
  | "FCV" => some .fcv | "RFW" => some .rfw | "JI" => some .ji | "JG" => some .jg | "JGF" => some .jgf
  | "JA" => some .ja | "JAW" => some .jaw | "FOT" => some .fot
  | "JIT" => some .jit | "JY" => some .jy | "JYF" => some .jyf | "FCS" => some .fcs | "TG" => some .tg | "JIU" => some .jiu | "JGT" => some .jgt
  | _ => none

def parseChain (s : String) : Option (List Frame) :=
  if s == "-" then some [] else (s.splitOn ",").mapM parseFrame

def parseEntry : String → Option Entry
  | "RS" => some .runString | "CA" => some .callable | "EX" => some .exported
  | "CO" => some .callable          -- AssertConstructor(function C(){ callee() })(nil): the same runWrapped, head is JS
  | _ => none

def parsePayload (s : String) : Option Payload :=
  match s.splitOn ":" with
  | ["jt", v] => (valByName v).map .jsThrow
  | ["js", "T"] => some (.jsSentinel .typeE)
  | ["js", "R"] => some (.jsSentinel .refE)
  | ["js", "G"] => some (.jsSentinel .rangeE)
  | ["js", "S"] => some (.jsSentinel .syntaxE)
  | ["ji"] => some (.jsInterrupt 10 (.plain 9))
  | ["jo"] => some (.jsStackOverflow 11)
  | ["np", v] => (valByName v).map .natPanicVal
  | ["npn"] => some .natPanicNewTypeError
  | ["nr", "N0"] => some (.natReturn none)
  | ["nr", e] => (goErrByName e).map (fun x => .natReturn (some x))
  | ["nq", e] => (goErrByName e).map .natPanicErr
  | ["no"] => some (.natPanicOther 42)
  | ["nx"] => some (.natRuntimeErr 13)
  | _ => none

def logName (l : LogE) : String :=
  match l.kind with
  | .caught v => toString l.idx ++ "c=" ++ valName v
  | .fin => toString l.idx ++ "f"
  | .iterReturn => toString l.idx ++ "r"
  | .asyncReject v => toString l.idx ++ "a=" ++ valName v

/-- async-function rejections are reported by the harness through the rejection tracker, not through `log`. -/
def asyncRejects (lg : List LogE) : List JsVal :=
  lg.filterMap (fun l => match l.kind with | .asyncReject v => some v | _ => none)

def scriptLog (lg : List LogE) : List LogE :=
  lg.filter (fun l => match l.kind with | .asyncReject _ => false | _ => true)

def render (o : Out) : String :=
  let host := match o.host with
    | .ok => "ok"
    | .err (.exc ex) => "exc(" ++ valName ex.val ++ ")"
    | .err (.go e) => "err(" ++ goErrName e ++ ")"
    | .panic x => "panic(" ++ pvName x ++ ")"
  let isS := match o.host with
    | .err ev => String.ofList (targets.map (fun t => if ev.errIs t then '1' else '0'))
    | _ => "-"
  let asS := match o.host with
    | .err ev => match ev.errAs with | some c => idName c | none => "-"
    | _ => "-"
  let top := match o.host with
    | .err (.exc ex) => topName ex.top
    | _ => "-"
  let es := match o.host with
    | .err ev => if ev.errorPanics then "panic" else "ok"
    | _ => "-"
  let xc := match o.host with
    | .err ev => "[" ++ ",".intercalate (ev.excVals.map valName) ++ "]"
    | _ => "-"
  "host=" ++ host ++ " is=" ++ isS ++ " as=" ++ asS ++ " top=" ++ top ++ " es=" ++ es ++ " xc=" ++ xc ++
    " rej=[" ++ ",".intercalate ((asyncRejects o.log ++ o.rej).map valName) ++ "] log=[" ++
    ";".intercalate ((scriptLog o.log).map logName) ++ "]"

def runLine (line : String) : String :=
  match Proto.words line with
  | [e, p, c] =>
    match e, parsePayload p, parseChain c with
    | "TR", some payload, some chain => render (hostRunTry chain payload)      -- Runtime.Try as the host's entry
    | _, _, _ =>
    match parseEntry e, parsePayload p, parseChain c with
    | some entry, some payload, some chain => render (hostRun entry chain payload)
    | _, _, _ => "BADCASE"
  | _ => "BADLINE"

def main : IO Unit := Proto.lineMap runLine

end GojaModel.C14.Driver
