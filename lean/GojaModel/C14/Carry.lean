/-
  C14 helper lemmas, part 2: flows that carry a JS value (identity) or a Go error through the frames.
-/
import GojaModel.C14.Lemmas

set_option linter.unusedSimpArgs false
set_option linter.unusedVariables false

namespace GojaModel.C14

@[simp] theorem throwExec_val (s : StackTop) (v : JsVal) : (throwExec s v).val = v := rfl

/-- The flow is a panic whose value is (or will be classified as an exception whose value is) `v`. -/
def Carries (v : JsVal) : Flow → Prop
  | .panic (.val w) _ => w = v
  | .panic (.exc ex) _ => ex.val = v
  | _ => False

theorem carries_cases {v : JsVal} {fl : Flow} (h : Carries v fl) :
    (∃ o, fl = .panic (.val v) o) ∨ (∃ t o, fl = .panic (.exc ⟨v, t⟩) o) := by
  cases fl with
  | normal => simp [Carries] at h
  | pending e0 => simp [Carries] at h
  | panic x o =>
    cases x <;> simp [Carries] at h
    · left; exact ⟨o, by rw [h]⟩
    · right; rename_i ex; obtain ⟨val, top⟩ := ex; simp at h; exact ⟨top, o, by rw [h]⟩

/-- Everything script observed is a finally block, an iterator close, or a catch block / async rejection that
received `v` itself. -/
def LogOk (v : JsVal) (l : LogE) : Prop :=
  l.kind = .fin ∨ l.kind = .caught v ∨ l.kind = .iterReturn ∨ l.kind = .asyncReject v

/-- One frame that neither swallows nor (for a value with a Go error inside) unwraps: the value goes on,
and whatever the frame's catch block logged is that very value. -/
theorem applyFrame_carries (idx : Nat) (f : Frame) (cjs : Bool) {v : JsVal} {fl : Flow}
    (hsw : f.swallows = false) (hrw : f.rewraps = false)
    (hu : v.goErrValue = none ∨ f.unwraps = false) (hc : Carries v fl) :
    Carries v (applyFrame idx f cjs fl).1 ∧ ∀ l ∈ (applyFrame idx f cjs fl).2, LogOk v l := by
  rcases carries_cases hc with ⟨o, rfl⟩ | ⟨t, o, rfl⟩
  · cases f with
    | js k =>
      cases k <;> simp [Frame.swallows, JsKind.swallows, JsKind.hasCatch, JsKind.rethrows] at hsw <;>
        simp [applyFrame, applyFrameCore, jsFrame, handleThrow, handleThrowLoop, exceptionFromValue, JsKind.hasCatch,
          JsKind.hasFinally, JsKind.rethrows, Carries, LogOk]
    | xfe =>
      rcases hu with hu | hu
      · cases cjs <;>
          simp [applyFrame, applyFrameCore, callable, invoke, jsCall, runWrapped, vmTry, handleThrow, handleThrowLoop,
            exceptionFromValue, wrapJSFuncE, returnErr, wrapReflectErr, hu, Carries]
      · simp [Frame.unwraps] at hu
    | ja => simp [Frame.swallows] at hsw
    | fcs => simp [Frame.swallows] at hsw
    | jiu => simp [Frame.swallows] at hsw
    | rfw => simp [Frame.rewraps] at hrw
    | _ =>
      cases cjs <;>
        simp [applyFrame, applyFrameCore, callable, invoke, jsCall, runWrapped, vmTry, handleThrow, handleThrowLoop,
          exceptionFromValue, panicErr, returnErr, wrapReflectErr, wrapJSFuncN, ErrVal.toPv, shim, jsFrame,
          runProgram, runProgram.handleThrowOpt, JsKind.hasCatch, JsKind.hasFinally, Carries, panicValue, LogOk]
  · cases f with
    | js k =>
      cases k <;> simp [Frame.swallows, JsKind.swallows, JsKind.hasCatch, JsKind.rethrows] at hsw <;>
        simp [applyFrame, applyFrameCore, jsFrame, handleThrow, handleThrowLoop, exceptionFromValue, JsKind.hasCatch,
          JsKind.hasFinally, JsKind.rethrows, Carries, LogOk]
    | xfe =>
      rcases hu with hu | hu
      · cases cjs <;>
          simp [applyFrame, applyFrameCore, callable, invoke, jsCall, runWrapped, vmTry, handleThrow, handleThrowLoop,
            exceptionFromValue, wrapJSFuncE, returnErr, wrapReflectErr, hu, Carries]
      · simp [Frame.unwraps] at hu
    | ja => simp [Frame.swallows] at hsw
    | fcs => simp [Frame.swallows] at hsw
    | jiu => simp [Frame.swallows] at hsw
    | rfw => simp [Frame.rewraps] at hrw
    | _ =>
      cases cjs <;>
        simp [applyFrame, applyFrameCore, callable, invoke, jsCall, runWrapped, vmTry, handleThrow, handleThrowLoop,
          exceptionFromValue, panicErr, returnErr, wrapReflectErr, wrapJSFuncN, ErrVal.toPv, shim, jsFrame,
          runProgram, runProgram.handleThrowOpt, JsKind.hasCatch, JsKind.hasFinally, Carries, panicValue, LogOk]


/-- A swallowing catch (or an async function) receives the value and ends the propagation. -/
theorem applyFrame_swallow (idx : Nat) (f : Frame) (cjs : Bool) {v : JsVal} {fl : Flow}
    (hsw : f.swallows = true) (hrp : f.replaces = false) (hc : Carries v fl) :
    (applyFrame idx f cjs fl).1 = .normal ∧ ∀ l ∈ (applyFrame idx f cjs fl).2, LogOk v l := by
  cases f <;> simp [Frame.swallows] at hsw <;> simp [Frame.replaces] at hrp
  · rename_i k
    rcases carries_cases hc with ⟨o, rfl⟩ | ⟨t, o, rfl⟩ <;>
      cases k <;> simp [JsKind.swallows, JsKind.hasCatch, JsKind.rethrows] at hsw <;>
        simp [applyFrame, applyFrameCore, jsFrame, handleThrow, handleThrowLoop, exceptionFromValue, JsKind.hasCatch,
          JsKind.hasFinally, JsKind.rethrows, LogOk]
  · rcases carries_cases hc with ⟨o, rfl⟩ | ⟨t, o, rfl⟩ <;>
      simp [applyFrame, applyFrameCore, handleThrow, handleThrowLoop, exceptionFromValue, LogOk]
  · rcases carries_cases hc with ⟨o, rfl⟩ | ⟨t, o, rfl⟩ <;> cases cjs <;>
      simp [applyFrame, applyFrameCore, callable, invoke, jsCall, runWrapped, vmTry, handleThrow, handleThrowLoop,
        exceptionFromValue, LogOk]

theorem evalSeg_carries (s : Seg) (ijs : Bool) {v : JsVal} {fl : Flow}
    (hsw : ∀ q ∈ s, q.2.swallows = false) (hrw : ∀ q ∈ s, q.2.rewraps = false)
    (hu : v.goErrValue = none ∨ ∀ q ∈ s, q.2.unwraps = false) (hc : Carries v fl) :
    Carries v (evalSeg s fl ijs).1 ∧ ∀ l ∈ (evalSeg s fl ijs).2, LogOk v l := by
  induction s with
  | nil => exact ⟨hc, by simp [evalSeg]⟩
  | cons hd tl ih =>
    obtain ⟨i, f⟩ := hd
    have hu' : v.goErrValue = none ∨ ∀ q ∈ tl, q.2.unwraps = false := by
      rcases hu with h | h
      · exact Or.inl h
      · exact Or.inr (fun q hq => h q (List.mem_cons_of_mem _ hq))
    obtain ⟨ih1, ih2⟩ := ih (fun q hq => hsw q (List.mem_cons_of_mem _ hq))
      (fun q hq => hrw q (List.mem_cons_of_mem _ hq)) hu'
    have hf : v.goErrValue = none ∨ f.unwraps = false := by
      rcases hu with h | h
      · exact Or.inl h
      · exact Or.inr (h (i, f) (List.mem_cons_self ..))
    obtain ⟨a1, a2⟩ := applyFrame_carries i f (headIsJS tl ijs) (hsw (i, f) (List.mem_cons_self ..))
      (hrw (i, f) (List.mem_cons_self ..)) hf ih1
    refine ⟨by simpa [evalSeg] using a1, ?_⟩
    intro l hl
    simp only [evalSeg, List.mem_append] at hl
    rcases hl with hl | hl
    · exact ih2 l hl
    · exact a2 l hl

/-- With swallowing frames allowed: the flow stays "carries v" or has become normal; every catch saw v. -/
theorem evalSeg_carries_or_normal (s : Seg) (ijs : Bool) {v : JsVal} {fl : Flow}
    (hrw : ∀ q ∈ s, q.2.rewraps = false ∧ q.2.replaces = false)
    (hu : v.goErrValue = none ∨ ∀ q ∈ s, q.2.unwraps = false) (hc : fl = .normal ∨ Carries v fl) :
    ((evalSeg s fl ijs).1 = .normal ∨ Carries v (evalSeg s fl ijs).1) ∧
      ∀ l ∈ (evalSeg s fl ijs).2, LogOk v l := by
  induction s with
  | nil => exact ⟨hc, by simp [evalSeg]⟩
  | cons hd tl ih =>
    obtain ⟨i, f⟩ := hd
    have hu' : v.goErrValue = none ∨ ∀ q ∈ tl, q.2.unwraps = false := by
      rcases hu with h | h
      · exact Or.inl h
      · exact Or.inr (fun q hq => h q (List.mem_cons_of_mem _ hq))
    obtain ⟨ih1, ih2⟩ := ih (fun q hq => hrw q (List.mem_cons_of_mem _ hq)) hu'
    have hf : v.goErrValue = none ∨ f.unwraps = false := by
      rcases hu with h | h
      · exact Or.inl h
      · exact Or.inr (h (i, f) (List.mem_cons_self ..))
    have key : ((applyFrame i f (headIsJS tl ijs) (evalSeg tl fl ijs).1).1 = .normal ∨
        Carries v (applyFrame i f (headIsJS tl ijs) (evalSeg tl fl ijs).1).1) ∧
        ∀ l ∈ (applyFrame i f (headIsJS tl ijs) (evalSeg tl fl ijs).1).2, LogOk v l := by
      rcases ih1 with hn | hcar
      · rw [hn]
        refine ⟨Or.inl (applyFrame_normal ..), ?_⟩
        intro l hl
        rw [applyFrame_normal_log _ _ _ l hl]; exact Or.inl rfl
      · cases hs : f.swallows with
        | true =>
          obtain ⟨a1, a2⟩ := applyFrame_swallow i f (headIsJS tl ijs) hs (hrw (i, f) (List.mem_cons_self ..)).2 hcar
          exact ⟨Or.inl a1, a2⟩
        | false =>
          obtain ⟨a1, a2⟩ := applyFrame_carries i f (headIsJS tl ijs) hs
            (hrw (i, f) (List.mem_cons_self ..)).1 hf hcar
          exact ⟨Or.inr a1, a2⟩
    refine ⟨by simpa [evalSeg] using key.1, ?_⟩
    intro l hl
    simp only [evalSeg, List.mem_append] at hl
    rcases hl with hl | hl
    · exact ih2 l hl
    · exact key.2 l hl

theorem vmTry_invoke_carries (b : Bool) {v : JsVal} {fl : Flow} (hc : Carries v fl) :
    ∃ e, vmTry (invoke b fl) = .ex e ∧ e.val = v := by
  rcases carries_cases hc with ⟨o, rfl⟩ | ⟨t, o, rfl⟩ <;> cases b <;>
    simp [invoke, jsCall, vmTry, handleThrow, handleThrowLoop, exceptionFromValue]

theorem firstCall_carries (entry : Entry) (b : Bool) {v : JsVal} {fl : Flow} (hc : Carries v fl) :
    ∃ e, firstCall entry b fl = .err (.exc e) ∧ e.val = v := by
  rcases carries_cases hc with ⟨o, rfl⟩ | ⟨t, o, rfl⟩ <;> cases b <;> cases entry <;>
    simp [firstCall, callable, runWrapped, runProgram, runProgram.handleThrowOpt, invoke, jsCall, vmTry,
      handleThrow, handleThrowLoop, exceptionFromValue]

/-! ## Segments come from the chain -/

/-- Does some frame of the chain defer the rest to a promise job? -/
def hasSplit (chain : List Frame) : Bool := chain.any Frame.isSplit

theorem indexed_mem (fs : List Frame) : ∀ i q, q ∈ indexed i fs → q.2 ∈ fs := by
  induction fs with
  | nil => intro i q h; simp [indexed] at h
  | cons f tl ih =>
    intro i q h
    simp only [indexed, List.mem_cons] at h
    rcases h with rfl | h
    · exact List.mem_cons_self ..
    · exact List.mem_cons_of_mem _ (ih _ _ h)

theorem splitSegs_mem (l : List (Nat × Frame)) :
    (∀ q ∈ (splitSegs l).1, q ∈ l) ∧ (∀ s ∈ (splitSegs l).2, ∀ q ∈ s, q ∈ l) := by
  induction l with
  | nil => simp [splitSegs]
  | cons hd tl ih =>
    obtain ⟨ih1, ih2⟩ := ih
    by_cases hf : hd.2.isSplit = true
    · simp only [splitSegs, hf, ↓reduceIte]
      refine ⟨by simp, ?_⟩
      intro s hs q hq
      simp only [List.mem_cons] at hs
      rcases hs with rfl | hs
      · exact List.mem_cons_of_mem _ (ih1 q hq)
      · exact List.mem_cons_of_mem _ (ih2 s hs q hq)
    · simp only [splitSegs, hf, Bool.false_eq_true, ↓reduceIte]
      refine ⟨?_, ?_⟩
      · intro q hq
        simp only [List.mem_cons] at hq
        rcases hq with rfl | hq
        · exact List.mem_cons_self ..
        · exact List.mem_cons_of_mem _ (ih1 q hq)
      · intro s hs q hq
        exact List.mem_cons_of_mem _ (ih2 s hs q hq)

/-- A property of all frames of the chain holds for all frames of every segment. -/
theorem allSegs_frames {P : Frame → Prop} (chain : List Frame) (h : ∀ f ∈ chain, P f) :
    ∀ s ∈ allSegs chain, ∀ q ∈ s, P q.2 := by
  intro s hs q hq
  have hm := splitSegs_mem (indexed 0 chain)
  simp only [allSegs, List.mem_cons] at hs
  rcases hs with rfl | hs
  · exact h _ (indexed_mem chain 0 q (hm.1 q hq))
  · exact h _ (indexed_mem chain 0 q (hm.2 s hs q hq))

theorem splitSegs_snd_nil_iff (fs : List Frame) : ∀ i, (splitSegs (indexed i fs)).2 = [] ↔ hasSplit fs = false := by
  induction fs with
  | nil => intro i; simp [indexed, splitSegs, hasSplit]
  | cons f tl ih =>
    intro i
    by_cases hf : f.isSplit = true
    · simp [indexed, splitSegs, hf, hasSplit]
    · have := ih (i + 1)
      simp only [hasSplit] at this
      simp [indexed, splitSegs, hf, hasSplit, this]

/-! ## Promise jobs and the host, for a carried value -/

theorem runJobs_carries (p : Payload) {v : JsVal} (hp : Carries v p.flow) :
    ∀ ss : List Seg, ss ≠ [] → (∀ s ∈ ss, ∀ q ∈ s, q.2.swallows = false) →
      (∀ s ∈ ss, ∀ q ∈ s, q.2.rewraps = false) →
      (v.goErrValue = none ∨ ∀ s ∈ ss, ∀ q ∈ s, q.2.unwraps = false) →
      (runJobs p ss).host = .ok ∧ (runJobs p ss).rej = [v] ∧ ∀ l ∈ (runJobs p ss).log, LogOk v l := by
  intro ss
  induction ss with
  | nil => intro hne; exact absurd rfl hne
  | cons s tl ih =>
    intro _ hsw hrw hu
    have hu_s : v.goErrValue = none ∨ ∀ q ∈ s, q.2.unwraps = false := by
      rcases hu with h | h
      · exact Or.inl h
      · exact Or.inr (h s (List.mem_cons_self ..))
    cases tl with
    | nil =>
      obtain ⟨c1, c2⟩ := evalSeg_carries s p.isJS (hsw s (List.mem_cons_self ..))
        (hrw s (List.mem_cons_self ..)) hu_s hp
      obtain ⟨e, he, hev⟩ := vmTry_invoke_carries (headIsJS s p.isJS) c1
      simp only [runJobs, segInner, List.isEmpty_nil, ↓reduceIte, he, hev, List.append_nil]
      exact ⟨(by first | trivial | rfl), (by first | trivial | rfl), c2⟩
    | cons s2 tl2 =>
      have ih' := ih (by simp) (fun s' hs' => hsw s' (List.mem_cons_of_mem _ hs'))
        (fun s' hs' => hrw s' (List.mem_cons_of_mem _ hs'))
        (by rcases hu with h | h
            · exact Or.inl h
            · exact Or.inr (fun s' hs' => h s' (List.mem_cons_of_mem _ hs')))
      have hn := evalSeg_normal s true
      have hv : vmTry (invoke (headIsJS s true) Flow.normal) = .ok := by
        cases headIsJS s true <;> simp [invoke]
      simp only [runJobs, segInner, List.isEmpty_cons, Bool.false_eq_true, ↓reduceIte, hn, hv] at ih' ⊢
      refine ⟨ih'.1, ih'.2.1, ?_⟩
      intro l hl
      simp only [List.mem_append] at hl
      rcases hl with hl | hl
      · exact Or.inl (evalSeg_normal_log s true l hl)
      · exact ih'.2.2 l hl

/-- Swallowing frames allowed: whatever the jobs log is a finally / iterator close or a catch of `v`. -/
theorem runJobs_log_ok (p : Payload) {v : JsVal} (hp : Carries v p.flow) :
    ∀ ss : List Seg, (∀ s ∈ ss, ∀ q ∈ s, q.2.rewraps = false ∧ q.2.replaces = false) →
      (v.goErrValue = none ∨ ∀ s ∈ ss, ∀ q ∈ s, q.2.unwraps = false) →
      ∀ l ∈ (runJobs p ss).log, LogOk v l := by
  intro ss
  induction ss with
  | nil => intro _ _ l hl; simp [runJobs] at hl
  | cons s tl ih =>
    intro hrw hu
    have hu_s : v.goErrValue = none ∨ ∀ q ∈ s, q.2.unwraps = false := by
      rcases hu with h | h
      · exact Or.inl h
      · exact Or.inr (h s (List.mem_cons_self ..))
    have ih' := ih (fun s' hs' => hrw s' (List.mem_cons_of_mem _ hs'))
      (by rcases hu with h | h
          · exact Or.inl h
          · exact Or.inr (fun s' hs' => h s' (List.mem_cons_of_mem _ hs')))
    have hin : (segInner p tl.isEmpty).1 = .normal ∨ Carries v (segInner p tl.isEmpty).1 := by
      cases tl <;> simp [segInner, hp]
    obtain ⟨_, c2⟩ := evalSeg_carries_or_normal s (segInner p tl.isEmpty).2 (hrw s (List.mem_cons_self ..)) hu_s hin
    intro l hl
    simp only [runJobs] at hl
    split at hl
    · simp only [List.mem_append] at hl
      rcases hl with hl | hl
      · exact c2 l hl
      · exact ih' l hl
    · simp only [List.mem_append] at hl
      rcases hl with hl | hl
      · exact c2 l hl
      · exact ih' l hl
    · exact c2 l hl

theorem finish_exc (entry : Entry) (e : Exc)
    (h : e.val.goErrValue = none ∨ entry ≠ .exported) :
    finish entry (.err (.exc e)) = .err (.exc e) := by
  cases entry <;> simp [finish, wrapJSFuncE]
  rcases h with h | h
  · simp [h]
  · exact absurd rfl h

/-- Host-level statement for a carried value; `hu`: nothing on the way unwraps a Go error out of `v`. -/
theorem hostRun_carries (entry : Entry) (chain : List Frame) (p : Payload) {v : JsVal}
    (hp : Carries v p.flow) (hsw : ∀ f ∈ chain, f.swallows = false) (hrw : ∀ f ∈ chain, f.rewraps = false)
    (hu : v.goErrValue = none ∨ (entry ≠ .exported ∧ ∀ f ∈ chain, f.unwraps = false)) :
    (hasSplit chain = false → ∃ ex, (hostRun entry chain p).host = .err (.exc ex) ∧ ex.val = v ∧
        (hostRun entry chain p).rej = []) ∧
    (hasSplit chain = true → (hostRun entry chain p).host = .ok ∧ (hostRun entry chain p).rej = [v]) ∧
    (∀ l ∈ (hostRun entry chain p).log, LogOk v l) := by
  have hsegsw := allSegs_frames (P := fun f => f.swallows = false) chain hsw
  have hsegrw := allSegs_frames (P := fun f => f.rewraps = false) chain hrw
  have hsegu : v.goErrValue = none ∨ ∀ s ∈ allSegs chain, ∀ q ∈ s, q.2.unwraps = false := by
    rcases hu with h | h
    · exact Or.inl h
    · exact Or.inr (allSegs_frames (P := fun f => f.unwraps = false) chain h.2)
  have hpr := splitSegs_snd_nil_iff chain 0
  simp only [hostRun, allSegs] at *
  generalize splitSegs (indexed 0 chain) = sg at *
  obtain ⟨s0, ss⟩ := sg
  simp only at hsegsw hsegrw hsegu hpr
  have hu0 : v.goErrValue = none ∨ ∀ q ∈ s0, q.2.unwraps = false := by
    rcases hsegu with h | h
    · exact Or.inl h
    · exact Or.inr (h s0 (List.mem_cons_self ..))
  cases ss with
  | nil =>
    have hnpr : hasSplit chain = false := hpr.mp rfl
    obtain ⟨c1, c2⟩ := evalSeg_carries s0 p.isJS (hsegsw s0 (List.mem_cons_self ..))
      (hsegrw s0 (List.mem_cons_self ..)) hu0 hp
    obtain ⟨e, he, hev⟩ := firstCall_carries entry (headIsJS s0 p.isJS) c1
    have hfin : finish entry (.err (.exc e)) = .err (.exc e) := by
      apply finish_exc
      rcases hu with h | h
      · exact Or.inl (by rw [hev]; exact h)
      · exact Or.inr h.1
    simp only [hostRunSegs, segInner, List.isEmpty_nil, ↓reduceIte, he, ranLeave, runJobs, mergeJobs, hfin,
      CallRes.toHost, List.append_nil]
    refine ⟨fun _ => ⟨e, (by first | trivial | rfl), hev, (by first | trivial | rfl)⟩, ?_, c2⟩
    intro h
    rw [hnpr] at h
    cases h
  | cons s1 tl =>
    have hprin : hasSplit chain = true := by
      cases h : hasSplit chain with
      | true => rfl
      | false => exact absurd (hpr.mpr h) (by simp)
    obtain ⟨j1, j2, j3⟩ := runJobs_carries p hp (s1 :: tl) (by simp)
      (fun s hs => hsegsw s (List.mem_cons_of_mem _ hs))
      (fun s hs => hsegrw s (List.mem_cons_of_mem _ hs))
      (by rcases hsegu with h | h
          · exact Or.inl h
          · exact Or.inr (fun s hs => h s (List.mem_cons_of_mem _ hs)))
    have hn := evalSeg_normal s0 true
    have hf : ∀ b, firstCall entry b .normal = .ok := by
      intro b; cases entry <;> simp [firstCall, runProgram_normal, callable_normal]
    have hfin : finish entry .ok = .ok := by cases entry <;> simp [finish, wrapJSFuncE]
    simp only [hostRunSegs, segInner, List.isEmpty_cons, Bool.false_eq_true, ↓reduceIte, hn, hf, ranLeave, j1, j2,
      mergeJobs, hfin, CallRes.toHost]
    refine ⟨?_, fun _ => ⟨(by first | trivial | rfl), (by first | trivial | rfl)⟩, ?_⟩
    · intro h
      rw [hprin] at h
      cases h
    intro l hl
    simp only [List.mem_append] at hl
    rcases hl with hl | hl
    · exact Or.inl (evalSeg_normal_log s0 true l hl)
    · exact j3 l hl

end GojaModel.C14
