/-
  C14 helper lemmas, part 3: a Go error returned by a native frame stays reachable (GoError wrapper, unwrapping
  by ExportTo'd funcs, re-wrapping, raw propagation when it wraps an uncatchable error); and the exact *Exception
  (value and captured stack) survives frames that do not rethrow.
-/
import GojaModel.C14.Carry

set_option linter.unusedSimpArgs false
set_option linter.unusedVariables false

namespace GojaModel.C14

/-- A JS value that is a GoError whose `value` is `e`. -/
def JsVal.wrapsGo (w : JsVal) (e : GoErr) : Prop := w.goErrValue = some e ∧ w.isGoErrorInstance = true

/-- The flow carries the Go error `e`: raw (only if it is uncatchable) or inside a GoError object. -/
def CarriesGo (e : GoErr) : Flow → Prop
  | .panic (.goErr e') _ => e' = e ∧ e.isUncatchable = true
  | .panic (.val w) _ => w.wrapsGo e
  | .panic (.exc ex) _ => ex.val.wrapsGo e
  | _ => False

theorem wrapsGo_cases {w : JsVal} {e : GoErr} (h : w.wrapsGo e) :
    (∃ i, w = .goError i e) ∨ w = .freshGoError e := by
  cases w <;> simp [JsVal.wrapsGo, JsVal.goErrValue, JsVal.isGoErrorInstance] at h
  · left; exact ⟨_, by rw [h]⟩
  · right; rw [h]

theorem applyFrame_carriesGo (idx : Nat) (f : Frame) (cjs : Bool) {e : GoErr} {fl : Flow}
    (hsw : f.swallows = false) (hc : CarriesGo e fl) : CarriesGo e (applyFrame idx f cjs fl).1 := by
  cases fl with
  | normal => simp [CarriesGo] at hc
  | panic x o =>
    cases x with
    | sentinel k => simp [CarriesGo] at hc
    | other n => simp [CarriesGo] at hc
    | goErr e' =>
      obtain ⟨rfl, hu⟩ := hc
      obtain ⟨o', h⟩ := applyFrame_unclassifiable idx f cjs (x := .goErr e') rfl o
      rw [h]; exact ⟨rfl, hu⟩
    | val w =>
      have hw : w.wrapsGo e := hc
      by_cases hu : e.isUncatchable = true <;>
      rcases wrapsGo_cases hw with ⟨i, rfl⟩ | rfl <;>
      cases f with
      | js k =>
        cases k <;> simp [Frame.swallows, JsKind.swallows, JsKind.hasCatch, JsKind.rethrows] at hsw <;>
          simp [applyFrame, jsFrame, handleThrow, handleThrowLoop, exceptionFromValue, JsKind.hasCatch,
            JsKind.hasFinally, JsKind.rethrows, CarriesGo, JsVal.wrapsGo, JsVal.goErrValue, JsVal.isGoErrorInstance]
      | _ =>
        cases cjs <;>
          simp [applyFrame, callable, invoke, jsCall, runWrapped, vmTry, handleThrow, handleThrowLoop,
            exceptionFromValue, panicErr, returnErr, wrapReflectErr, wrapJSFuncN, wrapJSFuncE, ErrVal.toPv, shim,
            jsFrame, runProgram, runProgram.handleThrowOpt, JsKind.hasCatch, JsKind.hasFinally, CarriesGo,
            JsVal.wrapsGo, JsVal.goErrValue, JsVal.isGoErrorInstance, hu]
    | exc ex =>
      obtain ⟨w, t⟩ := ex
      have hw : w.wrapsGo e := hc
      by_cases hu : e.isUncatchable = true <;>
      rcases wrapsGo_cases hw with ⟨i, rfl⟩ | rfl <;>
      cases f with
      | js k =>
        cases k <;> simp [Frame.swallows, JsKind.swallows, JsKind.hasCatch, JsKind.rethrows] at hsw <;>
          simp [applyFrame, jsFrame, handleThrow, handleThrowLoop, exceptionFromValue, JsKind.hasCatch,
            JsKind.hasFinally, JsKind.rethrows, CarriesGo, JsVal.wrapsGo, JsVal.goErrValue, JsVal.isGoErrorInstance]
      | _ =>
        cases cjs <;>
          simp [applyFrame, callable, invoke, jsCall, runWrapped, vmTry, handleThrow, handleThrowLoop,
            exceptionFromValue, panicErr, returnErr, wrapReflectErr, wrapJSFuncN, wrapJSFuncE, ErrVal.toPv, shim,
            jsFrame, runProgram, runProgram.handleThrowOpt, JsKind.hasCatch, JsKind.hasFinally, CarriesGo,
            JsVal.wrapsGo, JsVal.goErrValue, JsVal.isGoErrorInstance, hu]

theorem evalSeg_carriesGo (s : Seg) (ijs : Bool) {e : GoErr} {fl : Flow}
    (hsw : ∀ q ∈ s, q.2.swallows = false) (hc : CarriesGo e fl) : CarriesGo e (evalSeg s fl ijs).1 := by
  induction s with
  | nil => exact hc
  | cons hd tl ih =>
    obtain ⟨i, f⟩ := hd
    have ih' := ih (fun q hq => hsw q (List.mem_cons_of_mem _ hq))
    simpa [evalSeg] using
      applyFrame_carriesGo i f (headIsJS tl ijs) (hsw (i, f) (List.mem_cons_self ..)) ih'


theorem carriesGo_cases {e : GoErr} {fl : Flow} (h : CarriesGo e fl) :
    (∃ o, fl = .panic (.goErr e) o ∧ e.isUncatchable = true) ∨
    (∃ w o, fl = .panic (.val w) o ∧ w.wrapsGo e) ∨
    (∃ w t o, fl = .panic (.exc ⟨w, t⟩) o ∧ w.wrapsGo e) := by
  cases fl with
  | normal => simp [CarriesGo] at h
  | panic x o =>
    cases x with
    | sentinel k => simp [CarriesGo] at h
    | other n => simp [CarriesGo] at h
    | goErr e' => obtain ⟨rfl, hu⟩ := h; exact Or.inl ⟨o, rfl, hu⟩
    | val w => exact Or.inr (Or.inl ⟨w, o, rfl, h⟩)
    | exc ex => obtain ⟨w, t⟩ := ex; exact Or.inr (Or.inr ⟨w, t, o, rfl, h⟩)

/-- What the host is handed when the synchronous call ends in a flow carrying `e` (no promise job pending). -/
theorem hostSeg_carriesGo (entry : Entry) (b : Bool) {e : GoErr} {fl : Flow} (hc : CarriesGo e fl) :
    ∃ ev, (if ranLeave (firstCall entry b fl) then finish entry (mergeJobs (firstCall entry b fl) .ok)
            else finish entry (firstCall entry b fl)) = .err ev ∧ ev.carried = some e := by
  rcases carriesGo_cases hc with ⟨o, rfl, hu⟩ | ⟨w, o, rfl, hw⟩ | ⟨w, t, o, rfl, hw⟩
  · refine ⟨.go e, ?_, rfl⟩
    cases entry <;> cases b <;>
      simp [firstCall, callable, runWrapped, runProgram, runProgram.handleThrowOpt, invoke, jsCall, vmTry,
        handleThrow, handleThrowLoop, exceptionFromValue, recoverUncatchable, asUncatchableException, hu,
        ranLeave, finish, wrapJSFuncE]
  · rcases wrapsGo_cases hw with ⟨i, rfl⟩ | rfl <;> cases entry <;> cases b <;>
      simp [firstCall, callable, runWrapped, runProgram, runProgram.handleThrowOpt, invoke, jsCall, vmTry,
        handleThrow, handleThrowLoop, exceptionFromValue, ranLeave, finish, wrapJSFuncE, mergeJobs,
        ErrVal.carried, Exc.unwrap, JsVal.goErrValue, JsVal.isGoErrorInstance]
  · rcases wrapsGo_cases hw with ⟨i, rfl⟩ | rfl <;> cases entry <;> cases b <;>
      simp [firstCall, callable, runWrapped, runProgram, runProgram.handleThrowOpt, invoke, jsCall, vmTry,
        handleThrow, handleThrowLoop, exceptionFromValue, ranLeave, finish, wrapJSFuncE, mergeJobs,
        ErrVal.carried, Exc.unwrap, JsVal.goErrValue, JsVal.isGoErrorInstance]

theorem runJobs_carriesGo (p : Payload) {e : GoErr} (hp : CarriesGo e p.flow) :
    ∀ ss : List Seg, ss ≠ [] → (∀ s ∈ ss, ∀ q ∈ s, q.2.swallows = false) →
      ((runJobs p ss).host = .ok ∧ ∃ w, (runJobs p ss).rej = [w] ∧ w.wrapsGo e) ∨
      ((runJobs p ss).host = .err (.go e) ∧ e.isUncatchable = true ∧ (runJobs p ss).rej = []) := by
  intro ss
  induction ss with
  | nil => intro hne; exact absurd rfl hne
  | cons s tl ih =>
    intro _ hsw
    cases tl with
    | nil =>
      have c1 := evalSeg_carriesGo s p.isJS (hsw s (List.mem_cons_self ..)) hp
      simp only [runJobs, segInner, List.isEmpty_nil, ↓reduceIte]
      rcases carriesGo_cases c1 with ⟨o, h, hu⟩ | ⟨w, o, h, hw⟩ | ⟨w, t, o, h, hw⟩
      · right
        rw [h]
        cases headIsJS s p.isJS <;>
          simp [invoke, jsCall, vmTry, handleThrow, handleThrowLoop, exceptionFromValue, recoverUncatchable,
            asUncatchableException, hu, CallRes.toHost]
      · left
        rw [h]
        rcases wrapsGo_cases hw with ⟨i, rfl⟩ | rfl <;> cases headIsJS s p.isJS <;>
          simp [invoke, jsCall, vmTry, handleThrow, handleThrowLoop, exceptionFromValue, runJobs,
            JsVal.wrapsGo, JsVal.goErrValue, JsVal.isGoErrorInstance]
      · left
        rw [h]
        rcases wrapsGo_cases hw with ⟨i, rfl⟩ | rfl <;> cases headIsJS s p.isJS <;>
          simp [invoke, jsCall, vmTry, handleThrow, handleThrowLoop, exceptionFromValue, runJobs,
            JsVal.wrapsGo, JsVal.goErrValue, JsVal.isGoErrorInstance]
    | cons s2 tl2 =>
      have ih' := ih (by simp) (fun s' hs' => hsw s' (List.mem_cons_of_mem _ hs'))
      have hn := evalSeg_normal s true
      have hv : vmTry (invoke (headIsJS s true) Flow.normal) = .ok := by
        cases headIsJS s true <;> simp [invoke]
      simp only [runJobs, segInner, List.isEmpty_cons, Bool.false_eq_true, ↓reduceIte, hn, hv] at ih' ⊢
      exact ih'

/-- Host-level statement for a carried Go error. -/
theorem hostRun_carriesGo (entry : Entry) (chain : List Frame) (p : Payload) {e : GoErr}
    (hp : CarriesGo e p.flow) (hsw : ∀ f ∈ chain, f.swallows = false) :
    (Frame.pr ∉ chain → ∃ ev, (hostRun entry chain p).host = .err ev ∧ ev.carried = some e) ∧
    (Frame.pr ∈ chain →
      ((hostRun entry chain p).host = .ok ∧ ∃ w, (hostRun entry chain p).rej = [w] ∧ w.wrapsGo e) ∨
      ((hostRun entry chain p).host = .err (.go e) ∧ e.isUncatchable = true)) := by
  have hsegsw := allSegs_frames (P := fun f => f.swallows = false) chain hsw
  have hpr := splitSegs_snd_nil_iff chain 0
  simp only [hostRun, allSegs] at *
  generalize splitSegs (indexed 0 chain) = sg at *
  obtain ⟨s0, ss⟩ := sg
  simp only at hsegsw hpr
  cases ss with
  | nil =>
    have hnpr : Frame.pr ∉ chain := hpr.mp rfl
    have c1 := evalSeg_carriesGo s0 p.isJS (hsegsw s0 (List.mem_cons_self ..)) hp
    obtain ⟨ev, h1, h2⟩ := hostSeg_carriesGo entry (headIsJS s0 p.isJS) c1
    refine ⟨fun _ => ⟨ev, ?_, h2⟩, fun h => absurd h hnpr⟩
    simp only [hostRunSegs, segInner, List.isEmpty_nil, ↓reduceIte, runJobs]
    split
    · rename_i hr; simp only [hr, ↓reduceIte] at h1; simp [h1, CallRes.toHost]
    · rename_i hr; simp only [hr] at h1; simp at h1; simp [h1, CallRes.toHost]
  | cons s1 tl =>
    have hprin : Frame.pr ∈ chain := by
      by_cases h : Frame.pr ∈ chain
      · exact h
      · exact absurd (hpr.mpr h) (by simp)
    have hj := runJobs_carriesGo p hp (s1 :: tl) (by simp) (fun s hs => hsegsw s (List.mem_cons_of_mem _ hs))
    have hn := evalSeg_normal s0 true
    have hf : ∀ b, firstCall entry b .normal = .ok := by
      intro b; cases entry <;> simp [firstCall, runProgram_normal, callable_normal]
    refine ⟨fun h => absurd hprin h, fun _ => ?_⟩
    simp only [hostRunSegs, segInner, List.isEmpty_cons, Bool.false_eq_true, ↓reduceIte, hn, hf, ranLeave]
    rcases hj with ⟨j1, w, j2, j3⟩ | ⟨j1, j2, j3⟩
    · left
      refine ⟨?_, w, j2, j3⟩
      cases entry <;> simp [j1, mergeJobs, finish, wrapJSFuncE, CallRes.toHost]
    · right
      refine ⟨?_, j2⟩
      cases entry <;> simp [j1, mergeJobs, finish, wrapJSFuncE, CallRes.toHost]


/-! ## The exact *Exception (value and captured stack) -/

def Exact (ex0 : Exc) : Flow → Prop
  | .panic (.exc ex) _ => ex = ex0
  | _ => False

theorem exact_cases {ex0 : Exc} {fl : Flow} (h : Exact ex0 fl) : ∃ o, fl = .panic (.exc ex0) o := by
  cases fl with
  | normal => simp [Exact] at h
  | panic x o => cases x <;> simp [Exact] at h; exact ⟨o, by rw [h]⟩

theorem applyFrame_exact (idx : Nat) (f : Frame) (cjs : Bool) {ex0 : Exc} {fl : Flow}
    (hsw : f.swallows = false) (hr : f.rethrows = false)
    (hu : ex0.val.goErrValue = none ∨ f.unwraps = false) (hc : Exact ex0 fl) :
    Exact ex0 (applyFrame idx f cjs fl).1 := by
  obtain ⟨o, rfl⟩ := exact_cases hc
  cases f with
  | js k =>
    cases k <;> simp [Frame.swallows, JsKind.swallows, JsKind.hasCatch, JsKind.rethrows, Frame.rethrows] at hsw hr <;>
      simp [applyFrame, jsFrame, handleThrow, handleThrowLoop, exceptionFromValue, JsKind.hasCatch,
        JsKind.hasFinally, JsKind.rethrows, Exact]
  | xfe =>
    rcases hu with hu | hu
    · cases cjs <;>
        simp [applyFrame, callable, invoke, jsCall, runWrapped, vmTry, handleThrow, handleThrowLoop,
          exceptionFromValue, wrapJSFuncE, returnErr, wrapReflectErr, hu, Exact]
    · simp [Frame.unwraps] at hu
  | _ =>
    cases cjs <;>
      simp [applyFrame, callable, invoke, jsCall, runWrapped, vmTry, handleThrow, handleThrowLoop,
        exceptionFromValue, panicErr, returnErr, wrapReflectErr, wrapJSFuncN, ErrVal.toPv, shim, jsFrame,
        runProgram, runProgram.handleThrowOpt, JsKind.hasCatch, JsKind.hasFinally, Exact]

theorem evalSeg_exact (s : Seg) (ijs : Bool) {ex0 : Exc} {fl : Flow}
    (hsw : ∀ q ∈ s, q.2.swallows = false) (hr : ∀ q ∈ s, q.2.rethrows = false)
    (hu : ex0.val.goErrValue = none ∨ ∀ q ∈ s, q.2.unwraps = false) (hc : Exact ex0 fl) :
    Exact ex0 (evalSeg s fl ijs).1 := by
  induction s with
  | nil => exact hc
  | cons hd tl ih =>
    obtain ⟨i, f⟩ := hd
    have ih' := ih (fun q hq => hsw q (List.mem_cons_of_mem _ hq)) (fun q hq => hr q (List.mem_cons_of_mem _ hq))
      (by rcases hu with h | h
          · exact Or.inl h
          · exact Or.inr (fun q hq => h q (List.mem_cons_of_mem _ hq)))
    have hf : ex0.val.goErrValue = none ∨ f.unwraps = false := by
      rcases hu with h | h
      · exact Or.inl h
      · exact Or.inr (h (i, f) (List.mem_cons_self ..))
    simpa [evalSeg] using
      applyFrame_exact i f (headIsJS tl ijs) (hsw (i, f) (List.mem_cons_self ..))
        (hr (i, f) (List.mem_cons_self ..)) hf ih'

theorem hostRun_exact (entry : Entry) (chain : List Frame) (p : Payload) {ex0 : Exc}
    (hp : Exact ex0 p.flow) (hsw : ∀ f ∈ chain, f.swallows = false) (hr : ∀ f ∈ chain, f.rethrows = false)
    (hu : ex0.val.goErrValue = none ∨ (entry ≠ .exported ∧ ∀ f ∈ chain, f.unwraps = false))
    (hnpr : Frame.pr ∉ chain) :
    (hostRun entry chain p).host = .err (.exc ex0) := by
  have hsegsw := allSegs_frames (P := fun f => f.swallows = false) chain hsw
  have hsegr := allSegs_frames (P := fun f => f.rethrows = false) chain hr
  have hsegu : ex0.val.goErrValue = none ∨ ∀ s ∈ allSegs chain, ∀ q ∈ s, q.2.unwraps = false := by
    rcases hu with h | h
    · exact Or.inl h
    · exact Or.inr (allSegs_frames (P := fun f => f.unwraps = false) chain h.2)
  have hpr := (splitSegs_snd_nil_iff chain 0).mpr hnpr
  simp only [hostRun, allSegs] at *
  generalize splitSegs (indexed 0 chain) = sg at *
  obtain ⟨s0, ss⟩ := sg
  simp only at hsegsw hsegr hsegu hpr
  subst hpr
  have c1 := evalSeg_exact s0 p.isJS (hsegsw s0 (List.mem_cons_self ..)) (hsegr s0 (List.mem_cons_self ..))
    (by rcases hsegu with h | h
        · exact Or.inl h
        · exact Or.inr (h s0 (List.mem_cons_self ..))) hp
  obtain ⟨o, h⟩ := exact_cases c1
  have hfc : ∀ b, firstCall entry b (.panic (.exc ex0) o) = .err (.exc ex0) := by
    intro b
    cases entry <;> cases b <;>
      simp [firstCall, callable, runWrapped, runProgram, runProgram.handleThrowOpt, invoke]
  have hfin : finish entry (.err (.exc ex0)) = .err (.exc ex0) := by
    apply finish_exc
    rcases hu with h | h
    · exact Or.inl h
    · exact Or.inr h.1
  simp only [hostRunSegs, segInner, List.isEmpty_nil, ↓reduceIte, h, hfc, ranLeave, runJobs, mergeJobs, hfin,
    CallRes.toHost]

/-- With swallowing frames allowed: every catch block in the whole run received `v` itself. -/
theorem hostRun_log_ok (entry : Entry) (chain : List Frame) (p : Payload) {v : JsVal}
    (hp : Carries v p.flow) (hu : v.goErrValue = none ∨ ∀ f ∈ chain, f.unwraps = false) :
    ∀ l ∈ (hostRun entry chain p).log, LogOk v l := by
  have hsegu : v.goErrValue = none ∨ ∀ s ∈ allSegs chain, ∀ q ∈ s, q.2.unwraps = false := by
    rcases hu with h | h
    · exact Or.inl h
    · exact Or.inr (allSegs_frames (P := fun f => f.unwraps = false) chain h)
  simp only [hostRun, allSegs] at *
  generalize splitSegs (indexed 0 chain) = sg at *
  obtain ⟨s0, ss⟩ := sg
  simp only at hsegu
  have hu0 : v.goErrValue = none ∨ ∀ q ∈ s0, q.2.unwraps = false := by
    rcases hsegu with h | h
    · exact Or.inl h
    · exact Or.inr (h s0 (List.mem_cons_self ..))
  have hin : (segInner p ss.isEmpty).1 = .normal ∨ Carries v (segInner p ss.isEmpty).1 := by
    cases ss <;> simp [segInner, hp]
  obtain ⟨_, c2⟩ := evalSeg_carries_or_normal s0 (segInner p ss.isEmpty).2 hu0 hin
  have hj := runJobs_log_ok p hp ss
    (by rcases hsegu with h | h
        · exact Or.inl h
        · exact Or.inr (fun s hs => h s (List.mem_cons_of_mem _ hs)))
  intro l hl
  simp only [hostRunSegs] at hl
  split at hl
  · simp only [List.mem_append] at hl
    rcases hl with hl | hl
    · exact c2 l hl
    · exact hj l hl
  · exact c2 l hl

theorem carried_errIs {ev : ErrVal} {e : GoErr} (h : ev.carried = some e) (t : Nat) :
    ev.errIs t = e.errIs t := by
  cases ev with
  | go e' => simp [ErrVal.carried] at h; simp [ErrVal.errIs, h]
  | exc ex => simp [ErrVal.carried] at h; simp [ErrVal.errIs, h]

theorem carried_errAs {ev : ErrVal} {e : GoErr} (h : ev.carried = some e) : ev.errAs = e.errAs := by
  cases ev with
  | go e' => simp [ErrVal.carried] at h; simp [ErrVal.errAs, h]
  | exc ex => simp [ErrVal.carried] at h; simp [ErrVal.errAs, h]

end GojaModel.C14
